#!/usr/bin/env python3
"""Regenerate coq/gen/Gen_dates.v from /repo/src/pyg_base/_dates.py (ym, _ymd, num2dt, dt_bump arms)."""
import ast, sys, os
sys.path.insert(0, os.path.dirname(__file__))
from py2coq import *

def generate(repo='/repo'):
    path = os.path.join(repo, 'src/pyg_base/_dates.py')
    tree = ast.parse(open(path).read())
    out = HEADER % 'src/pyg_base/_dates.py'
    out += "Definition td_hours (k : Z) : Z := 3600000000 * k.\nDefinition td_minutes (k : Z) : Z := 60000000 * k.\nDefinition td_seconds (k : Z) : Z := 1000000 * k.\nDefinition td_days (k : Z) : Z := DAYUS * k.\n"
    out += "Definition utc_ts (n : Z) : Z := (719163 * 86400 + n) * 1000000.\n"
    units = {}
    f = find_function(tree, 'ym')
    u = Unit('ym', ['y', 'm'], f.body, calls={'month': 'id'})
    units['ym'] = u.emit()
    f = find_function(tree, '_ymd')
    u = Unit('u_ymd', ['y', 'm', 'd'], f.body, atoms={'DAY': 'DAYUS'},
             partial_calls={'ym': 'ym', 'datetime.datetime': 'mk_datetime'})
    units['_ymd'] = u.emit()
    f = find_function(tree, 'num2dt')
    u = Unit('num2dt', ['n'], f.body, atoms={'today()': 'today', 'DAY': 'DAYUS'},
             calls={'int': 'id', 'datetime.timedelta': 'td_days', 'datetime.datetime.fromordinal': 'us_of_ord',
                    'datetime.datetime.utcfromtimestamp': 'utc_ts'},
             partial_calls={'_ymd': 'u_ymd', 'datetime.datetime': 'mk_datetime'})
    units['num2dt'] = u.emit('(today : Z)')
    f = find_function(tree, 'dt_bump')
    arms = if_chain_arms(f, 'bmp.endswith')
    if sorted(arms) != sorted('dwmqyhnsb'):
        raise Untranslatable('dt_bump arms changed: %s' % sorted(arms))
    for c in 'dwmqyhnsb':
        u = Unit('bump_%s' % c, ['t', 'k'], arms[c], final='t',
                 atoms={'int(bmp[:-1])': 'k', 'DAY': 'DAYUS', 't.year': '(year_of t)', 't.month': '(month_of t)',
                        't.day': '(day_of t)', 't.weekday()': '(weekday t)'},
                 calls={'datetime.timedelta(hours=)': 'td_hours', 'datetime.timedelta(minutes=)': 'td_minutes',
                        'datetime.timedelta(seconds=)': 'td_seconds'},
                 partial_calls={'_ymd': 'u_ymd'})
        units['dt_bump.' + c] = u.emit()
    for k in ['ym', '_ymd', 'num2dt'] + ['dt_bump.' + c for c in 'dwmqyhnsb']:
        out += '\n(* unit %s *)\n' % k + units[k]
    return out, {k: sha(v) for k, v in units.items()}

if __name__ == '__main__':
    text, shas = generate(sys.argv[1] if len(sys.argv) > 1 else '/repo')
    sys.stdout.write(text)
