#!/usr/bin/env python3
"""Regenerate coq/gen/Gen_drange.v from /repo/src/pyg_base/_drange.py:
Calendar.is_holiday, Calendar.is_bday, the 'f' and 'p' arms of Calendar.adjust (two while loops each),
and the |days| <= 1 path of Calendar.add (path selector + loop).

Conventions of this unit (trusted, see DESIGN.md 2.1): dates are day ordinals (Z), DAY = 1,
`x.weekday() in self.weekend` is `wk (weekday_ord x)`, `ymd(x) in self.holidays` is `hol x`,
self.t0 / self.t1 are the Section variables t0 / t1; loops take the Section variable FUEL."""
import ast, sys, os
sys.path.insert(0, os.path.dirname(__file__))
from py2coq import *

SRC = 'src/pyg_base/_drange.py'

def single_return(name, params, fn, atoms, rtype):
    """a function whose body is (docstring +) one `return <total expression>`: emitted without the option wrapper"""
    stmts = [s for s in fn.body if not (isinstance(s, ast.Expr) and isinstance(s.value, ast.Constant) and isinstance(s.value.value, str))]
    if len(stmts) != 1 or not isinstance(stmts[0], ast.Return) or stmts[0].value is None:
        raise Untranslatable('%s is no longer a single return' % name)
    if [a.arg for a in fn.args.args] != ['self'] + params:
        raise Untranslatable('%s signature changed' % name)
    u = Unit(name, params, fn.body, atoms=atoms)
    u.scope = set(params)
    binds = []
    e = u.expr(stmts[0].value, binds)
    if binds:
        raise Untranslatable('%s: partial call' % name)
    return 'Definition %s %s : %s :=\n  %s.\n' % (name, ' '.join('(%s : Z)' % p for p in params), rtype, e)

def generate(repo='/repo'):
    tree = ast.parse(open(os.path.join(repo, SRC)).read())
    out = HEADER % SRC
    out += ('Section Gen.\nVariable hol : Z -> bool.\nVariable wk : Z -> bool.\nVariables t0 t1 : Z.\nVariable FUEL : nat.\n')
    units = {}
    units['Calendar.is_holiday'] = single_return('is_holiday', ['date'], find_function(tree, 'Calendar.is_holiday'),
        {'date.weekday() in self.weekend': '(wk (weekday_ord date))', 'ymd(date) in self.holidays': '(hol date)'}, 'bool')
    units['Calendar.is_bday'] = single_return('is_bday', ['date'], find_function(tree, 'Calendar.is_bday'),
        {'date.weekday() not in self.weekend': '(negb (wk (weekday_ord date)))', 'ymd(date) not in self.holidays': '(negb (hol date))'}, 'bool')
    # ---- adjust: the 'f' and 'p' arms
    f = find_function(tree, 'Calendar.adjust')
    arms = if_chain_arms(f, 'adj.startswith')
    if sorted(arms) != ['f', 'm', 'p']:
        raise Untranslatable('adjust arms changed: %s' % sorted(arms))
    atoms = {'self.t0': 't0', 'self.t1': 't1', 'DAY': '(1)', 't.weekday() in self.weekend': '(wk (weekday_ord t))'}
    for c in 'fp':
        u = Unit('adjust_%s' % c, ['t'], arms[c], atoms=atoms, calls={'self.is_holiday': 'is_holiday'})
        units['Calendar.adjust.' + c] = u.emit()
        if len(u.loops) != 2:
            raise Untranslatable('adjust %s arm: expected two loops' % c)
    # ---- add: `if abs(days)>1: <table> else: <loop>` followed by `return res`
    f = find_function(tree, 'Calendar.add')
    idx = [i for i, s in enumerate(f.body) if isinstance(s, ast.If) and 'abs(days)' in ast.unparse(s.test)]
    if len(idx) != 1:
        raise Untranslatable('add: path selector not found')
    sel = f.body[idx[0]]
    u = Unit('add_uses_table', ['days'], [], atoms={})
    u.scope = {'days'}
    binds = []
    units['Calendar.add.selector'] = 'Definition add_uses_table (days : Z) : bool :=\n  %s.\n' % u.expr(sel.test, binds)
    prev = f.body[idx[0] - 1]
    if ast.unparse(prev) != 't = self.adjust(date, adj)':
        raise Untranslatable('add: the statement before the path selector is no longer `t = self.adjust(date, adj)`')
    u = Unit('add_path', ['t', 'days'], sel.orelse + f.body[idx[0] + 1:], atoms={'DAY': '(1)'}, calls={'self.is_holiday': 'is_holiday'})
    units['Calendar.add.loop'] = u.emit()
    if len(u.loops) != 1:
        raise Untranslatable('add loop path: expected one loop')
    order = ['Calendar.is_holiday', 'Calendar.is_bday', 'Calendar.adjust.f', 'Calendar.adjust.p', 'Calendar.add.selector', 'Calendar.add.loop']
    for k in order:
        out += '\n(* unit %s *)\n' % k + units[k]
    out += 'End Gen.\n'
    return out, {k: sha(v) for k, v in units.items()}

if __name__ == '__main__':
    text, shas = generate(sys.argv[1] if len(sys.argv) > 1 else '/repo')
    sys.stdout.write(text)
