#!/usr/bin/env python3
"""
py2coq: fail-closed translator from a small subset of Python (the integer /
date arithmetic kernels of pyg_base) to Gallina over Z / bool / option.

Every translated function returns `option T`: `None` models a raised exception
(ValueError / KeyError / running out of loop fuel).  Anything outside the subset
raises Untranslatable and the calling check treats the unit as broken (the
property is then no longer shown to hold: see harness/check.py).

Conventions (part of the trusted base, see DESIGN.md 2.1):
  * all numeric arguments are Python ints, modelled as unbounded Z;
    `int(x) if is_float(x) and int(x) == x else x` and `month(m)` are the
    identity on ints;
  * a datetime is a Z (microseconds since ordinal 0, see M_cal.v); the
    per-unit `atoms` table maps the few attribute / call forms used by the
    source (`t.weekday()`, `DAY`, `datetime.timedelta(hours=e)`...) to M_cal
    definitions;
  * `while` loops become structural recursion on a `nat` fuel argument,
    returning None when the fuel is exhausted.
"""
import ast, sys, re, hashlib

class Untranslatable(Exception):
    pass

CMP = {ast.Lt: 'Z.ltb', ast.LtE: 'Z.leb', ast.Eq: 'Z.eqb'}

class Unit:
    """one translated function"""
    def __init__(self, name, params, body, final=None, atoms=None, calls=None, partial_calls=None, tuple_arity=None):
        self.name = name; self.params = params; self.body = body; self.final = final
        self.atoms = atoms or {}          # unparse-text -> coq text (total, Z or bool)
        self.calls = calls or {}          # python callee text -> (coq function, total?)  (positional args only)
        self.partial_calls = partial_calls or {}
        self.tmp = 0
        self.loops = []                    # emitted Fixpoints
        self.tuple_arity = tuple_arity or {}

    def fresh(self, base='v'):
        self.tmp += 1
        return '%s__%d' % (base, self.tmp)

    # ---------- expressions: returns coq text, appends binds [(tmp, partial-call-text)]
    def expr(self, e, binds):
        src = ast.unparse(e)
        if src in self.atoms:
            return self.atoms[src]
        if isinstance(e, ast.Constant):
            if isinstance(e.value, bool):
                return 'true' if e.value else 'false'
            if isinstance(e.value, int):
                return '(%d)' % e.value
            raise Untranslatable('constant %r' % (e.value,))
        if isinstance(e, ast.Name):
            return self.var(e.id)
        if isinstance(e, ast.UnaryOp):
            if isinstance(e.op, ast.USub):
                return '(- %s)' % self.expr(e.operand, binds)
            if isinstance(e.op, ast.Not):
                return '(negb %s)' % self.expr(e.operand, binds)
            raise Untranslatable('unary %s' % src)
        if isinstance(e, ast.BinOp):
            a = self.expr(e.left, binds); b = self.expr(e.right, binds)
            op = {ast.Add: '+', ast.Sub: '-', ast.Mult: '*', ast.FloorDiv: '/', ast.Mod: 'mod'}.get(type(e.op))
            if op is None:
                raise Untranslatable('binop %s' % src)
            return '(%s %s %s)' % (a, op, b)
        if isinstance(e, ast.Compare):
            parts = []
            left = e.left
            for op, right in zip(e.ops, e.comparators):
                a = self.expr(left, binds); b = self.expr(right, binds)
                if type(op) in CMP:
                    parts.append('(%s %s %s)' % (CMP[type(op)], a, b))
                elif isinstance(op, ast.Gt):
                    parts.append('(Z.ltb %s %s)' % (b, a))
                elif isinstance(op, ast.GtE):
                    parts.append('(Z.leb %s %s)' % (b, a))
                elif isinstance(op, ast.NotEq):
                    parts.append('(negb (Z.eqb %s %s))' % (a, b))
                else:
                    raise Untranslatable('compare %s' % src)
                left = right
            return parts[0] if len(parts) == 1 else '(' + ' && '.join(parts) + ')'
        if isinstance(e, ast.BoolOp):
            op = ' && ' if isinstance(e.op, ast.And) else ' || '
            return '(' + op.join(self.expr(v, binds) for v in e.values) + ')'
        if isinstance(e, ast.IfExp):
            t = ast.unparse(e.test)
            m = re.fullmatch(r'is_float\((\w+)\) and int\(\1\) == \1', t)
            if m:   # identity on ints (convention above)
                return self.expr(e.orelse, binds)
            b2 = []; b3 = []
            c = self.expr(e.test, binds); x = self.expr(e.body, b2); y = self.expr(e.orelse, b3)
            if b2 or b3:
                raise Untranslatable('partial call inside conditional expression %s' % src)
            return '(if %s then %s else %s)' % (c, x, y)
        if isinstance(e, ast.Call):
            f = ast.unparse(e.func)
            if f == 'abs' and len(e.args) == 1:
                return '(Z.abs %s)' % self.expr(e.args[0], binds)
            if f == 'min' and len(e.args) == 2:
                return '(Z.min %s %s)' % tuple(self.expr(a, binds) for a in e.args)
            if f == 'max' and len(e.args) == 2:
                return '(Z.max %s %s)' % tuple(self.expr(a, binds) for a in e.args)
            key = f
            if e.keywords:
                if len(e.keywords) != 1 or e.args:
                    raise Untranslatable('call %s' % src)
                key = '%s(%s=)' % (f, e.keywords[0].arg)
                args = [self.expr(e.keywords[0].value, binds)]
            else:
                args = [self.expr(a, binds) for a in e.args]
            if key in self.calls:
                return '(%s %s)' % (self.calls[key], ' '.join(args)) if args else self.calls[key]
            if key in self.partial_calls:
                tmp = self.fresh('c')
                binds.append((tmp, '(%s %s)' % (self.partial_calls[key], ' '.join(args))))
                return tmp
            raise Untranslatable('call %s' % src)
        raise Untranslatable('expression %s' % src)

    def var(self, name):
        if name not in self.scope:
            raise Untranslatable('unknown name %s' % name)
        return name if not name.startswith('_') else 'u' + name

    def wrap(self, binds, body):
        for tmp, call in reversed(binds):
            body = 'match %s with Some %s => %s | None => None end' % (call, tmp, body)
        return body

    # ---------- statements
    def block(self, stmts, final):
        if not stmts:
            if final is None:
                raise Untranslatable('%s: control falls off the end' % self.name)
            return final()
        s, rest = stmts[0], stmts[1:]
        if isinstance(s, ast.Expr) and isinstance(s.value, ast.Constant) and isinstance(s.value.value, str):
            return self.block(rest, final)          # docstring
        if isinstance(s, ast.Pass):
            return self.block(rest, final)
        if isinstance(s, ast.Assign):
            if len(s.targets) != 1:
                raise Untranslatable('multi-assign')
            tgt = s.targets[0]
            if isinstance(tgt, ast.Name):
                src = ast.unparse(s.value)
                m = re.fullmatch(r'int\((\w+)\) if is_float\(\1\) and int\(\1\) == \1 else \1', src)
                if m and m.group(1) == tgt.id:
                    return self.block(rest, final)
                binds = []
                v = self.expr(s.value, binds)
                self.scope.add(tgt.id)
                return self.wrap(binds, 'let %s := %s in\n  %s' % (self.var(tgt.id), v, self.block(rest, final)))
            if isinstance(tgt, ast.Tuple) and all(isinstance(x, ast.Name) for x in tgt.elts):
                names = [x.id for x in tgt.elts]
                binds = []
                if isinstance(s.value, ast.Tuple):
                    vals = [self.expr(x, binds) for x in s.value.elts]
                    if len(vals) != len(names):
                        raise Untranslatable('tuple arity')
                    v = '(' + ', '.join(vals) + ')'
                else:
                    v = self.expr(s.value, binds)
                for n in names:
                    self.scope.add(n)
                pat = "'(" + ', '.join(self.var(n) for n in names) + ')'
                return self.wrap(binds, 'let %s := %s in\n  %s' % (pat, v, self.block(rest, final)))
            raise Untranslatable('assignment target %s' % ast.unparse(tgt))
        if isinstance(s, ast.AugAssign) and isinstance(s.target, ast.Name):
            new = ast.Assign(targets=[s.target], value=ast.BinOp(left=ast.Name(id=s.target.id, ctx=ast.Load()), op=s.op, right=s.value))
            return self.block([new] + rest, final)
        if isinstance(s, ast.Return):
            if s.value is None:
                raise Untranslatable('bare return')
            binds = []
            if isinstance(s.value, ast.Tuple):
                v = '(' + ', '.join(self.expr(x, binds) for x in s.value.elts) + ')'
            else:
                v = self.expr(s.value, binds)
            return self.wrap(binds, 'Some %s' % v)
        if isinstance(s, ast.Raise):
            return 'None'
        if isinstance(s, ast.If):
            binds = []
            c = self.expr(s.test, binds)
            saved = set(self.scope)
            a = self.block(s.body + rest, final)
            self.scope = set(saved)
            b = self.block(s.orelse + rest, final)
            return self.wrap(binds, '(if %s\n  then %s\n  else %s)' % (c, a, b))
        if isinstance(s, ast.While):
            if s.orelse:
                raise Untranslatable('while-else')
            # loop state = every variable assigned in the body (must already be in scope)
            assigned = []
            for n in ast.walk(ast.Module(body=s.body, type_ignores=[])):
                if isinstance(n, (ast.Assign, ast.AugAssign)):
                    tg = n.targets if isinstance(n, ast.Assign) else [n.target]
                    for t in tg:
                        for x in ([t] if isinstance(t, ast.Name) else getattr(t, 'elts', [])):
                            if isinstance(x, ast.Name) and x.id not in assigned:
                                assigned.append(x.id)
                if isinstance(n, (ast.Return, ast.Break, ast.Continue, ast.While)) and n is not s:
                    raise Untranslatable('return/break/nested loop inside while')
            for a in assigned:
                if a not in self.scope:
                    raise Untranslatable('loop variable %s not initialised' % a)
            lname = '%s_loop%d' % (self.name, len(self.loops) + 1)
            free = sorted(v for v in self.scope if v not in assigned)
            state = '(' + ', '.join(self.var(a) for a in assigned) + ')' if len(assigned) != 1 else self.var(assigned[0])
            binds = []
            saved = set(self.scope)
            c = self.expr(s.test, binds)
            if binds:
                raise Untranslatable('partial call in loop test')
            body = self.block(s.body, lambda: '%s fuel__ %s' % (lname, ' '.join(self.var(v) for v in free + assigned)))
            self.scope = saved
            params = ' '.join('(%s : Z)' % self.var(v) for v in free + assigned)
            self.loops.append(
                'Fixpoint %s (fuel : nat) %s {struct fuel} :=\n  match fuel with O => None | S fuel__ =>\n  if %s then %s\n  else Some %s end.\n'
                % (lname, params, c, body, state))
            call = '%s FUEL %s' % (lname, ' '.join(self.var(v) for v in free + assigned))
            pat = state if len(assigned) == 1 else "'" + state
            return 'match %s with None => None | Some st__ => let %s := st__ in\n  %s end' % (call, pat, self.block(rest, final))
        raise Untranslatable('statement %s' % ast.unparse(s).split('\n')[0])

    def emit(self, extra_params=''):
        self.scope = set(self.params)
        final = (lambda: 'Some %s' % self.final) if self.final else None
        body = self.block(self.body, final)
        ps = ' '.join('(%s : Z)' % self.var(p) for p in self.params)
        out = ''.join(self.loops)
        out += 'Definition %s %s %s :=\n  %s.\n' % (self.name, extra_params, ps, body)
        return out


def find_function(tree, qual):
    parts = qual.split('.')
    nodes = tree.body
    for i, p in enumerate(parts):
        hit = [n for n in nodes if isinstance(n, (ast.FunctionDef, ast.ClassDef)) and n.name == p]
        if len(hit) != 1:
            raise Untranslatable('cannot locate %s' % qual)
        node = hit[0]
        nodes = node.body
    return node


def if_chain_arms(fn, attr_test):
    """collect the arms of an if/elif chain whose tests are `<attr_test>('<c>')`"""
    arms = {}
    for n in ast.walk(fn):
        if isinstance(n, ast.If):
            m = re.fullmatch(re.escape(attr_test) + r"\('(\w)'\)", ast.unparse(n.test))
            if m and m.group(1) not in arms:
                arms[m.group(1)] = n.body
    return arms


HEADER = """(* GENERATED by /verif/translator/py2coq.py from %s -- do not edit.
   Regenerated from /repo on every check run. *)
From Coq Require Import ZArith List Bool.
From PB Require Import model.M_cal.
Open Scope Z_scope.
"""

def sha(text):
    return hashlib.sha1(text.encode()).hexdigest()[:12]
