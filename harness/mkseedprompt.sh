#!/bin/bash
# mkseedprompt.sh <PROP>: scratch worktree /tmp/seed_<PROP> + prompt file /tmp/seed_prompt_<PROP>.txt
p=$1
git -C /repo worktree add --detach /tmp/seed_$p -q 2>&1 | grep -v condarc
/venv/bin/python - <<PY 2>&1 | grep -v condarc
import json
for l in open('/verif/properties.jsonl'):
    p=json.loads(l)
    if p['id']=='$p':
        open('/tmp/prop_%s.txt'%p['id'],'w').write("PROPERTY %s: %s\n\nSTATEMENT: %s\n\nQUANTIFIER: %s\n\nWHY EXISTING TESTS CANNOT SETTLE IT: %s\n\nCODE ANCHORS: %s\n" % (p['id'],p['title'],p['statement'],p['quantifier']['text'],p['why_tests_cant'],json.dumps(p['anchors']['mechanism'])))
PY
sed "s#WORKTREE#/tmp/seed_$p#g; s#PID#$p#g" /verif/harness/seed_prompt_template.txt > /tmp/seed_prompt_$p.txt; cat /tmp/prop_$p.txt >> /tmp/seed_prompt_$p.txt
