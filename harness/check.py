#!/venv/bin/python
"""
check.py <ID> [--tier quick|thorough] [--replay FILE]

One run = regenerate translated units from /repo, build the Coq development
(proof obligations of coq/props/<ID>.v), run the correspondence (implementation
vs. the model evaluated inside Coq by vm_compute) plus the property-level
oracle on the implementation's own outputs, then write evidence/<ID>.json.

exit 0: property held on everything explored (KNOWN-FINDING lines allowed)
exit 1: "VIOLATION property=<ID> replay=<path>[ no-failing-input-found]"
"""
import sys, os, json, time, random, subprocess, re, hashlib, importlib, tempfile, shutil, fcntl, argparse, glob
from concurrent.futures import ThreadPoolExecutor

VERIF = os.path.dirname(os.path.dirname(os.path.abspath(__file__)))
COQ = os.path.join(VERIF, 'coq')
REPO = os.environ.get('VERIF_REPO', '/repo')
PY = '/venv/bin/python'
sys.path.insert(0, os.path.join(VERIF, 'harness'))
sys.path.insert(0, os.path.join(VERIF, 'translator'))

NOISE = re.compile(r'condarc|SyntaxWarning|^\s*"""|^\s*$')
FORBIDDEN = re.compile(r'\b(Admitted|admit|Axiom|Axioms|Parameter|Parameters|Conjecture|Hypothesis|Variable)\b|Unset Guard|bypass_check|type-in-type|impredicative-set|Admit Obligations|Unset Universe|Unset Positivity')

def log(*a):
    print(*a, flush=True)

def sh(cmd, cwd=None, timeout=None, input=None, env=None):
    p = subprocess.run(cmd, cwd=cwd, shell=isinstance(cmd, str), capture_output=True, text=True, timeout=timeout, input=input, env=env)
    out = '\n'.join(l for l in (p.stdout + p.stderr).split('\n') if not NOISE.search(l))
    return p.returncode, out

# ------------------------------------------------------------------ J literals
def coq_str(s):
    return '"' + s.replace('"', '""') + '"'

def to_J(v):
    """render a canonical python observation (None/bool/int/str/list/tuple/dict-free) as a Coq J literal"""
    if v is None:
        return 'JNone'
    if v is True:
        return '(JS "True")'
    if v is False:
        return '(JS "False")'
    if isinstance(v, int):
        return '(JZ (%d))' % v
    if isinstance(v, str):
        return '(JS %s)' % coq_str(v)
    if isinstance(v, (list, tuple)):
        return '(JL [' + '; '.join(to_J(x) for x in v) + '])'
    raise TypeError('not canonical: %r' % (v,))

def coq_Z(n):
    return '(%d)' % n
def coq_list(xs):
    return '[' + '; '.join(xs) + ']'

# ------------------------------------------------------------------ build
class Build:
    def __init__(self):
        self.broken = []      # human-readable names of obligations / units that no longer check
        self.units = {}
        self.log = ''

def regenerate(mod, b):
    for unit in getattr(mod, 'TRANSLATOR', []):
        try:
            g = importlib.import_module('gen_' + unit)
            text, shas = g.generate(REPO)
            path = os.path.join(COQ, 'gen', 'Gen_%s.v' % unit)
            old = open(path).read() if os.path.exists(path) else None
            if old != text:
                with open(path, 'w') as f:
                    f.write(text)
            b.units.update({'Gen_%s.%s' % (unit, k): v for k, v in shas.items()})
        except Exception as e:
            b.broken.append('translation Gen_%s: %s: %s' % (unit, type(e).__name__, e))

def audit_sources(b):
    bad = []
    for path in glob.glob(os.path.join(COQ, '**', '*.v'), recursive=True):
        if '/scratch/' in path:
            continue
        txt = open(path).read()
        txt = re.sub(r'\(\*.*?\*\)', '', txt, flags=re.S)
        for m in FORBIDDEN.finditer(txt):
            # Variable/Hypothesis are fine inside a Section
            if m.group(1) in ('Variable', 'Hypothesis') and re.search(r'^\s*Section\b', txt[:m.start()], flags=re.M):
                continue
            bad.append('%s: %s' % (os.path.relpath(path, COQ), m.group(0)))
    if bad:
        b.broken.append('audit: forbidden construct ' + '; '.join(bad[:5]))

def build(mod, b, clean=False):
    """make the .vo files the property needs; returns parsed Print Assumptions of props/<ID>.v"""
    lock = open(os.path.join(COQ, '.build.lock'), 'w')
    fcntl.flock(lock, fcntl.LOCK_EX)
    try:
        # build from the subset of _CoqProject whose files exist (a half-written entry must not break other properties)
        lines = [l.strip() for l in open(os.path.join(COQ, '_CoqProject')) if l.strip()]
        keep = [l for l in lines if l.startswith('-') or os.path.exists(os.path.join(COQ, l))]
        filt = '\n'.join(keep) + '\n'
        fpath = os.path.join(COQ, '.CoqProject.filtered')
        if not os.path.exists(fpath) or open(fpath).read() != filt or not os.path.exists(os.path.join(COQ, 'Makefile.chk')):
            open(fpath, 'w').write(filt)
            sh('coq_makefile -f .CoqProject.filtered -o Makefile.chk', cwd=COQ, timeout=120)
        targets = ['props/%s.vo' % mod.ID] + [m.replace('.', '/') + '.vo' for m in mod.COQ_EXEC]
        if clean:
            for t in targets:
                for ext in ('', 'k', 's'):
                    try: os.remove(os.path.join(COQ, t + ext))
                    except OSError: pass
        rc, out = sh('timeout 3000 make -f Makefile.chk -j16 ' + ' '.join(targets), cwd=COQ, timeout=3100)
        b.log += out
        b.checker_cmd = 'cd /verif/coq && coq_makefile -f _CoqProject -o Makefile && make -j16 ' + ' '.join(targets) + ' && coqc -Q . PB props/%s.v' % mod.ID
        if rc != 0:
            m = re.search(r'File "\./([^"]+)", line (\d+)', out)
            where = '%s:%s' % (m.group(1), m.group(2)) if m else 'make'
            thm = locate_theorem(m.group(1), int(m.group(2))) if m else None
            err = out.strip().split('\n')
            b.broken.append('proof %s%s: %s' % (where, ' (%s)' % thm if thm else '', ' '.join(err[-6:])[:400]))
            return None
        # property file: compile explicitly to capture Print Assumptions
        rc, out = sh('timeout 600 coqc -Q . PB props/%s.v' % mod.ID, cwd=COQ, timeout=700)
        if rc != 0:
            b.broken.append('proof props/%s.v: %s' % (mod.ID, out[-400:]))
            return None
        return out
    finally:
        fcntl.flock(lock, fcntl.LOCK_UN)

def locate_theorem(relpath, line):
    try:
        lines = open(os.path.join(COQ, relpath)).read().split('\n')[:line]
    except OSError:
        return None
    for l in reversed(lines):
        m = re.match(r'\s*(Theorem|Lemma|Example|Corollary|Definition|Fixpoint)\s+(\w+)', l)
        if m:
            return m.group(2)
    return None

def parse_assumptions(mod, out):
    src = open(os.path.join(COQ, 'props', mod.ID + '.v')).read()
    src_nc = re.sub(r'\(\*.*?\*\)', '', src, flags=re.S)
    theorems = re.findall(r'^\s*Theorem\s+(\w+)', src_nc, flags=re.M)
    printed = re.findall(r'Print Assumptions\s+(\w+)', src_nc)
    blocks = re.split(r'(?=Closed under the global context)|(?=^Axioms:)', out, flags=re.M)
    blocks = [x for x in blocks if x.startswith('Closed') or x.startswith('Axioms:')]
    axioms = {}
    for name, blk in zip(printed, blocks):
        if blk.startswith('Closed'):
            axioms[name] = []
        else:
            axioms[name] = re.findall(r'^(\S+)\s*:', blk[len('Axioms:'):], flags=re.M)
    return theorems, printed, axioms

# ------------------------------------------------------------------ implementation side
def run_impl(mod, cases, per_case_timeout=None, shards=8):
    """run the implementation (and the property oracle) on cases in worker processes"""
    if not cases:
        return []
    env = dict(os.environ)
    env['PYTHONPATH'] = os.path.join(REPO, 'src') + ':' + os.path.join(VERIF, 'harness')
    env['PYTHONHASHSEED'] = '0'
    env['PYG_BASE_VERIF'] = '1'
    shards = max(1, min(shards, len(cases) // 20 + 1))
    chunks = [cases[i::shards] for i in range(shards)]
    def work(chunk):
        if not chunk:
            return []
        inp = json.dumps({'id': mod.ID, 'timeout': per_case_timeout or getattr(mod, 'CASE_TIMEOUT', 5), 'cases': chunk})
        last = ''
        for attempt in range(3):       # a worker that dies without output (machine pressure) is retried before it counts
            p = subprocess.run([PY, '-W', 'ignore', os.path.join(VERIF, 'harness', 'impl_worker.py')], input=inp, capture_output=True, text=True, env=env,
                               timeout=60 + len(chunk) * (per_case_timeout or getattr(mod, 'CASE_TIMEOUT', 5)))
            line = [l for l in p.stdout.split('\n') if l.startswith('RESULTS ')]
            if line:
                return json.loads(line[-1][8:])
            last = 'rc=%s ' % p.returncode + p.stderr[-2000:] + p.stdout[-500:]
            if p.stderr.strip():       # a real error (import failure, syntax error in the tree): no point retrying
                break
            time.sleep(2)
        raise RuntimeError('impl worker failed: ' + last)
    with ThreadPoolExecutor(shards) as ex:
        parts = list(ex.map(work, chunks))
    res = [None] * len(cases)
    for s, part in enumerate(parts):
        for j, r in enumerate(part):
            res[s + j * shards] = r
    return res

# ------------------------------------------------------------------ model side
def run_model(mod, cases, impl_obs, scratch, per_file=None):
    """evaluate the Coq model on the cases and compare with the implementation inside Coq.
    returns (mismatching indices, {index: model output text}, error or None)"""
    per_file = per_file or getattr(mod, 'PER_FILE', 400)
    files = []
    groups = {}
    for i, c in enumerate(cases):
        if c.get('nomodel'):
            continue
        groups.setdefault(mod.coq_runner(c), []).append(i)
    for runner, idxs in groups.items():
        for k in range(0, len(idxs), per_file):
            part = idxs[k:k + per_file]
            name = 'cases_%s_%d' % (re.sub(r'\W', '_', runner), k)
            path = os.path.join(scratch, name + '.v')
            with open(path, 'w') as f:
                f.write('From Coq Require Import ZArith List Bool String.\nFrom PB Require Import lib.J %s.\nImport ListNotations.\nOpen Scope Z_scope. Open Scope string_scope.\n' % ' '.join(mod.COQ_EXEC))
                f.write(getattr(mod, 'COQ_IMPORTS', '') + getattr(mod, 'COQ_PRELUDE', ''))
                f.write('Definition outs : list J := [\n' + ';\n'.join('%s %s' % (runner, mod.coq_case(cases[i])) for i in part) + '].\n')
                f.write('Definition expected : list J := [\n' + ';\n'.join(to_J(impl_obs[i]) for i in part) + '].\n')
                f.write('Definition mm := mismatches outs expected.\n')
                f.write('Eval vm_compute in mm.\nEval vm_compute in (pick outs (firstn 5 mm) 0).\n')
            files.append((path, part))
    def work(item):
        path, part = item
        rc, out = sh('ulimit -s unlimited 2>/dev/null; timeout 900 coqc -noglob -Q %s PB %s' % (COQ, path), cwd=scratch, timeout=1000)
        return rc, out
    mism = []; shown = {}; err = None
    with ThreadPoolExecutor(12) as ex:
        for (path, part), (rc, out) in zip(files, ex.map(work, files)):
            if rc != 0:
                err = (err or '') + out[-800:]
                continue
            m = re.search(r'=\s*(\[.*?\])\s*:\s*list Z', out, flags=re.S)
            if not m:
                err = (err or '') + 'unparsable coqc output: ' + out[:300]
                continue
            loc = [int(x) for x in re.findall(r'-?\d+', m.group(1))]
            if loc == [-1]:
                err = (err or '') + 'length mismatch in ' + path
                continue
            for j in loc:
                mism.append(part[j])
            rest = out[m.end():]
            m2 = re.search(r'=\s*(.*?)\s*:\s*list \(Z \* J\)', rest, flags=re.S)
            if m2 and loc:
                shown[part[loc[0]]] = re.sub(r'\s+', ' ', m2.group(1))[:2000]
    return sorted(mism), shown, err

# ------------------------------------------------------------------ findings
def load_findings(pid):
    path = os.path.join(VERIF, 'KNOWN_FINDINGS.json')
    if not os.path.exists(path):
        return []
    return [f for f in json.load(open(path)) if f.get('property') == pid and f.get('status') == 'finding']

def match_finding(findings, case, result):
    import findings as F
    for f in findings:
        pred = getattr(F, f['match']['predicate'])
        try:
            if pred(case, result):
                return f
        except Exception:
            pass
    return None

# ------------------------------------------------------------------ main
def write_replay(pid, payload):
    h = hashlib.sha1(json.dumps(payload, sort_keys=True, default=str).encode()).hexdigest()[:10]
    path = os.path.join(VERIF, 'replays', '%s-%s.json' % (pid, h))
    os.makedirs(os.path.dirname(path), exist_ok=True)
    with open(path, 'w') as f:
        json.dump(payload, f, indent=1, default=str)
    return path

def shrink(mod, case, fails):
    """greedy shrinking with the module's candidate generator"""
    if not hasattr(mod, 'shrink'):
        return case
    budget = 200
    improved = True
    while improved and budget > 0:
        improved = False
        for cand in mod.shrink(case):
            budget -= 1
            if budget <= 0:
                break
            try:
                if fails(cand):
                    case = cand; improved = True
                    break
            except Exception:
                pass
    return case

def main():
    ap = argparse.ArgumentParser()
    ap.add_argument('id')
    ap.add_argument('--tier', default=os.environ.get('VERIF_TIER', 'quick'))
    ap.add_argument('--replay')
    ap.add_argument('--no-build', action='store_true')
    a = ap.parse_args()
    pid = a.id.upper()
    tier = a.tier if a.tier in ('quick', 'thorough') else 'quick'
    seed = int(os.environ.get('VERIF_SEED', '0') or 0)
    t_start = time.time()
    mod = importlib.import_module('props.' + pid.lower())
    findings = load_findings(pid)
    scratch = tempfile.mkdtemp(prefix='verif_%s_' % pid)
    violations = []      # (kind, payload)
    known_lines = []
    try:
        b = Build(); b.checker_cmd = ''
        theorems, printed, axioms = [], [], {}
        if not a.no_build:
            regenerate(mod, b)
            audit_sources(b)
            if not any(x.startswith('translation') for x in b.broken):
                out = build(mod, b, clean=(tier == 'thorough'))
                if out is not None:
                    theorems, printed, axioms = parse_assumptions(mod, out)
                    missing = [t for t in theorems if t not in axioms]
                    if missing:
                        b.broken.append('audit: no Print Assumptions for ' + ', '.join(missing))
            if tier == 'thorough' and not b.broken and os.environ.get('VERIF_COQCHK', '1') == '1':
                # independent re-check of the property file and everything it depends on; the kernel-computed calendar
                # sweeps make this take ~17 min for the date properties, so a timeout is recorded, not treated as a failure
                rc, out = sh('timeout 2400 coqchk -silent -o -Q . PB PB.props.%s' % pid, cwd=COQ, timeout=2500)
                b.coqchk = ('rc=%d ' % rc) + out[-3000:]
                if rc == 124:
                    b.coqchk = 'coqchk did not finish within 2400 s (not a failure; see DESIGN 2.3) ' + out[-500:]
                elif rc != 0:
                    b.broken.append('coqchk: ' + out[-300:])
        # ---- cases
        rng = random.Random(seed * 1000003 + 17)
        if a.replay:
            rp = json.load(open(a.replay))
            cases = [rp['input']] if rp.get('input') is not None else []
            corpus_n = 0
        else:
            corpus = []
            for path in sorted(glob.glob(os.path.join(VERIF, 'corpus', pid, '*.json'))):
                corpus.extend(json.load(open(path)))
            cases = corpus + mod.gen_cases(rng, tier)
            corpus_n = len(corpus)
        results = run_impl(mod, cases)
        # a Timeout under machine load must not become a false alarm: confirm each one alone with a much longer limit
        slow = [i for i, r in enumerate(results) if r.get('status') == 'Timeout']
        base_to = getattr(mod, 'CASE_TIMEOUT', 5)
        for i in slow[:25]:
            r2 = run_impl(mod, [cases[i]], per_case_timeout=max(30, 10 * base_to), shards=1)[0]
            if r2.get('status') != 'Timeout':
                results[i] = r2
        obs = [r['obs'] for r in results]
        mism, shown, merr = ([], {}, None)
        model_ok = not any(x.startswith(('proof', 'translation')) for x in b.broken) or os.path.exists(os.path.join(COQ, mod.COQ_EXEC[0].replace('.', '/') + '.vo'))
        if cases and model_ok:
            mism, shown, merr = run_model(mod, cases, obs, scratch)
            if merr:
                b.broken.append('correspondence %s: model evaluation failed: %s' % (pid, merr[:300]))
        # ---- verdict per case
        hist = {}
        nontrivial = set()
        n_timeouts = 0
        failing = []
        for i, (c, r) in enumerate(zip(cases, results)):
            k = mod.shape(c) if hasattr(mod, 'shape') else c.get('kind', '?')
            hist[k] = hist.get(k, 0) + 1
            if mod.nontrivial(c, r):
                nontrivial.add(json.dumps(c, sort_keys=True))
            if r.get('status') == 'Timeout':
                n_timeouts += 1
            if r.get('viol'):
                failing.append((i, 'oracle', r['viol']))
            elif i in set(mism):
                failing.append((i, 'correspondence', 'model and implementation disagree; model=%s' % shown.get(i, '?')))
        reported = set()
        for i, kind, why in failing:
            f = match_finding(findings, cases[i], results[i])
            if f is not None:
                key = f['what']
                if key not in reported:
                    reported.add(key)
                    known_lines.append('KNOWN-FINDING: property=%s %s' % (pid, f['what']))
                continue
            violations.append((i, kind, why))
        exit_code = 0
        replay_path = None
        if violations:
            oracle_v = [v for v in violations if v[1] == 'oracle']
            i, kind, why = (oracle_v or violations)[0]
            case = cases[i]
            if kind == 'oracle' and not a.replay:
                def fails(cand):
                    r = run_impl(mod, [cand])[0]
                    return bool(r.get('viol')) and match_finding(findings, cand, r) is None
                small = shrink(mod, case, fails)
                if small is not case:
                    r2 = run_impl(mod, [small])[0]
                    case, why, results_i = small, r2['viol'], r2
                else:
                    results_i = results[i]
            else:
                results_i = results[i]
            payload = {'property': pid, 'kind': 'failing-input' if kind == 'oracle' else 'no-failing-input-found',
                       'seed': seed, 'tier': tier, 'input': case, 'impl': results_i, 'model': shown.get(i),
                       'oracle': why, 'broken': b.broken + (['correspondence %s' % pid] if kind != 'oracle' else []),
                       'n_violating_cases': len(violations)}
            replay_path = write_replay(pid, payload)
            log('VIOLATION property=%s replay=%s%s' % (pid, replay_path, '' if kind == 'oracle' else ' no-failing-input-found'))
            exit_code = 1
        elif b.broken:
            payload = {'property': pid, 'kind': 'no-failing-input-found', 'seed': seed, 'tier': tier, 'input': None,
                       'broken': b.broken, 'oracle': 'proof obligation / translation / correspondence no longer checks; the search over %d cases found no input on which the property fails' % len(cases),
                       'build_log_tail': b.log[-1500:]}
            replay_path = write_replay(pid, payload)
            log('VIOLATION property=%s replay=%s no-failing-input-found' % (pid, replay_path))
            exit_code = 1
        for l in known_lines:
            log(l)
        # ---- evidence
        all_ax = sorted({x for v in axioms.values() for x in v})
        discharged = len([t for t in theorems if t in axioms]) if not any(x.startswith('proof') or x.startswith('translation') for x in b.broken) else 0
        samples = []
        for i in list(range(min(2, len(cases)))) + ([len(cases) - 1] if len(cases) > 2 else []):
            samples.append({'input': cases[i], 'impl': results[i]['obs']})
        ev = {
            'property_id': pid, 'tier': tier, 'seed': seed, 'level': 'proof',
            'coverage': {
                'obligations': max(1, len(theorems)), 'discharged': discharged,
                'checker_cmd': b.checker_cmd or 'make (skipped)',
                'trusted_base': ['Coq 8.16.1 kernel + vm_compute (no native_compute)'] +
                                (['axioms reported by Print Assumptions: ' + ', '.join(all_ax)] if all_ax else ['Print Assumptions: every property theorem is closed under the global context']) +
                                list(getattr(mod, 'TRUSTED', [])),
                'theorems': theorems, 'axioms_per_theorem': axioms,
                'translator_units': b.units,
                'evaluations': len(cases), 'distinct_nontrivial': len(nontrivial),
                'rule': mod.RULE, 'samples': samples, 'input_histogram': hist,
                'disagreements_checked': len(mism), 'timeouts': n_timeouts, 'corpus_cases': corpus_n,
                'oracle_violations': len([f for f in failing if f[1] == 'oracle']),
                'known_findings_hit': sorted(reported),
                'broken': b.broken,
                'exhaustive': bool(getattr(mod, 'EXHAUSTIVE', {}).get(tier, False)),
                'explanation': mod.EXPLANATION,
            },
            'assumptions': list(getattr(mod, 'ASSUMPTIONS', [])),
            'wall_s': round(time.time() - t_start, 1),
            'violations': len(violations) + (1 if (b.broken and not violations) else 0),
        }
        if hasattr(b, 'coqchk'):
            ev['coverage']['coqchk_tail'] = b.coqchk
        if not a.replay and os.path.realpath(REPO) == '/repo' and not os.environ.get('VERIF_NO_EVIDENCE'):     # private VERIF_REPO runs (seed vetting) leave the evidence alone
            os.makedirs(os.path.join(VERIF, 'evidence'), exist_ok=True)
            with open(os.path.join(VERIF, 'evidence', pid + '.json'), 'w') as f:
                json.dump(ev, f, indent=1, default=str)
        log('%s tier=%s seed=%d theorems=%d/%d cases=%d nontrivial=%d mismatches=%d oracle_violations=%d known=%d broken=%d wall=%.0fs' % (
            pid, tier, seed, discharged, len(theorems), len(cases), len(nontrivial), len(mism),
            len([f for f in failing if f[1] == 'oracle']), len(reported), len(b.broken), time.time() - t_start))
        for x in b.broken:
            log('  broken: ' + x[:300])
        return exit_code
    finally:
        shutil.rmtree(scratch, ignore_errors=True)

def guarded_main():
    """any failure of the machinery itself (worker crash, import error in a changed tree, timeout of a whole shard)
    means the property is no longer shown to hold: report it in the interface's terms instead of a bare traceback"""
    try:
        return main()
    except SystemExit:
        raise
    except BaseException as e:
        import traceback
        pid = (sys.argv[1] if len(sys.argv) > 1 else '?').upper()
        tb = traceback.format_exc()
        path = write_replay(pid, {'property': pid, 'kind': 'no-failing-input-found', 'input': None,
                                  'broken': ['harness: %s: %s' % (type(e).__name__, str(e)[:500])],
                                  'oracle': 'the check could not be completed on this tree (implementation worker / build / model evaluation failed)',
                                  'traceback': tb[-3000:]})
        log('VIOLATION property=%s replay=%s no-failing-input-found' % (pid, path))
        log(tb[-1500:])
        return 1

if __name__ == '__main__':
    sys.exit(guarded_main())
