"""C02 - dictable.join is the relational inner/cross join and xor the anti-join; both terminate; operands unchanged."""
import datetime, functools, itertools, json, math, os
from fractions import Fraction
try:
    import numpy as NP
except Exception:
    NP = None
from implutil import dt2us, us2dt, err_name

ID = 'C02'
TRANSLATOR = []
COQ_EXEC = ['exec.X_join']
COQ_IMPORTS = 'From PB Require Import model.M_join.\n'
COQ_PRELUDE = '''Definition run_both (c : ctable * ctable * spec * spec) : J :=
  let '(x, y, lc, rc) := c in JL [run_join (x, y, lc, rc, MLeft); run_xor (x, y, lc, rc, false)].
'''
PER_FILE = 300
CASE_TIMEOUT = 4
# xor with NO key column returns x.copy() whatever y holds (pinned by tests/test_dictable.py::test_dictable_xor_no_rhs);
# by the letter of the property the empty key matches every row of y, so the result should be empty when y has rows.
# KNOWN FINDING: the oracle flags it (switch on by default); KNOWN_FINDINGS.json downgrades exactly that input class
# through findings.c02_xor_no_key_is_copy.
FLAG_NOKEY_XOR = os.environ.get('C02_FLAG_NOKEY_XOR', '1') == '1'

RULE = ('cases: two tables of 0-6 rows with 0-3 key columns and 0-3 other columns (some names shared so that the mode matters), key cells drawn '
        'per column from a small pool {None, 0, 1, 1.0, 2, 1.5, NaN objects of 3 identities, "a", "b", "ab", two datetimes} so that duplicate keys '
        'occur on both sides; lcols/rcols spelled None / name / list / callable (id, isnone, coalesce, const; differently named columns on the two '
        'sides); modes None,"l","r","left","right",0,1 and two callables; x*y and x/y; kinds join, xor, both (join+xor of the same operands, '
        'x carrying a unique id column); a stream of all-numeric key columns with 1-2 distinct NaN objects among duplicated finite values on both sides; a stream of many-to-many keys x shared non-key columns with pairwise distinct cells x modes r/1/callables; an exhaustive stream of all pairs of one-key tables with <= 2 rows over {None,1,1.0,2,"a"}; a stream (plus ~8% of the random stream and an exhaustive small scope) where BOTH operands are the same object (x.join(x, lcols, rcols) with lcols == rcols and != rcols, x*x, x/x); operands sharing the list object of a key column; every call is made twice on the same operands and must return the same table; a malformed '
        'stream (length mismatch, callable on both sides, missing column). Compared inside Coq: status, sorted column names and the multiset of '
        'rows (numbers in join key columns up to ==, everything else exact incl. int/float), errors by class, Timeout as an outcome. The oracle '
        'recomputes the join / anti-join by nested loops over the rows from the property text, checks termination and that every operand cell is '
        'the identical object afterwards. non-trivial = at least one matched pair and one unmatched row, or a many-to-many key; distinct by input')
EXPLANATION = ('theorems C02_* (coq/props/C02.v) hold for all key lists and every comparator that is a total preorder with values in {-1,0,1}: the '
               'fuelled three-loop merge never runs out of fuel |L|+|R|+1 and equals the one-step merge; join pairs are a Permutation of the '
               'nested-loop join; xor rows a Permutation of the anti-join; xor ++ matched is a Permutation of all row indices. tcmp (the model of '
               '_sort.cmp on tuples of scalar cells) is proved to be such a comparator. The correspondence ties the executable model (sorting, '
               'run-length grouping, merge, column bookkeeping, modes, key spellings) to the real code on every run.')
TRUSTED = ['modelled, not verified: dictable construction/__getitem__/__setitem__, ulist column algebra, kwargs_support (validated by the correspondence only)',
           'the (None, []) sentinel group _listby returns for an empty table is modelled as "no group"',
           'sort() is modelled as the stable sort by cmp (the repaired behaviour of C07); on a tree without the C07 repair NaN keys are mis-sorted and the check reports it']
ASSUMPTIONS = ['key cells are None, ints of any size, floats that are exact half-integers (incl. float(2**53)), NaN, ASCII strings, datetimes (no bools, no containers)',
               'xor with zero key columns returns a copy of x although y has rows (test_dictable_xor_no_rhs pins it): flagged by the oracle and listed as a KNOWN FINDING; the Coq anti-join theorem at table level is stated for >= 1 key column and C02_xor_no_key_refuted records the divergence',
               'when a non-key column has the name of an output key column the key wins (the column cannot appear twice)']
EXHAUSTIVE = {'quick': False, 'thorough': False}
LEVEL_TEXT = ('machine-checked Coq theorems (C02_*, all tables, every total-preorder comparator) about the model of _listby/join/xor: termination of the '
              'merge loops within |L|+|R|+1 iterations, join = relational join and xor = anti-join as Permutations, left-join partition; the model is '
              'compared with the real code inside Coq on thousands of generated table pairs per run, and a nested-loop oracle checks the real outputs')
LEVEL_NOTE = ('trusted: Coq kernel/vm_compute; modelled not verified: dict/ulist plumbing of dictable and kwargs_support. Known finding: xor with no key column '
              'returns x although y has rows (KNOWN_FINDINGS.json). Relies on the repairs of sort() (NaN) and cmp() (exact ints).')
TECHNIQUE = 'Coq proof (induction on the fuelled merge, refinement to a one-step merge, NoDup/Permutation) + differential correspondence in vm_compute + nested-loop oracle'

# ------------------------------------------------------------------ cells
D1 = dt2us(datetime.datetime(2020, 1, 1)); D2 = dt2us(datetime.datetime(2021, 6, 15, 12))
D3 = D1 + 1                                             # one microsecond later
D4 = dt2us(datetime.datetime(1970, 1, 1, 0, 0, 0, 1)); D5 = dt2us(datetime.datetime(2999, 12, 31, 23, 59, 59, 999999)); D6 = dt2us(datetime.datetime(1, 1, 2))

SCALE = 2 ** 80          # numbers travel to Coq as value * 2^80: exact for every int and every float >= 2^-80 in magnitude
def scaled(v):
    q = Fraction(v) * SCALE
    if q.denominator != 1: raise TypeError('number %r is not a multiple of 2^-80' % (v,))
    return int(q)

def py_cell(c, nans):
    """cell of the case -> python object; nans: id -> NaN object (one object per id); nans.get('np') -> numpy floats"""
    if c is None: return None
    t, v = c
    if t == 'i': return int(v)
    if t in ('f', 'x'):
        r = v / 2.0 if t == 'f' else float.fromhex(v)
        return NP.float64(r) if nans.get('np') else r
    if t == 'nan':
        if v not in nans: nans[v] = NP.float64('nan') if nans.get('np') else float('nan')
        return nans[v]
    if t == 's': return v
    if t == 'd': return us2dt(v)
    if t == 'inf': return (NP.float64 if nans.get('np') else float)('inf') * v
    if t == 'l': return list(v)
    if t == 't': return tuple(v)
    if t == 'ts':
        import pandas as pd
        return pd.Timestamp(us2dt(v[0])) + pd.Timedelta(v[1], 'ns')          # a pandas Timestamp with a nanosecond part
    raise ValueError(c)

def coq_cell(c):
    if c is None: return 'CNone'
    t, v = c
    if t == 'i': return '(CNum false (%d))' % (v * SCALE)
    if t == 'f': return '(CNum true (%d))' % (v * SCALE // 2)
    if t == 'x': return '(CNum true (%d))' % scaled(float.fromhex(v))
    if t == 'nan': return '(CNaN %d%%N)' % v
    if t == 's': return '(CStr [%s])' % '; '.join(str(ord(ch)) for ch in v)
    if t == 'd': return '(CDate (%d))' % (v * 1000)                 # date-times travel in nanoseconds
    if t == 'ts': return '(CDate (%d))' % (v[0] * 1000 + v[1])
    if t == 'inf': return '(CInf %s)' % ('true' if v < 0 else 'false')
    if t in ('l', 't'): return '(CList %s [%s])' % ('true' if t == 't' else 'false', '; '.join('(%d)' % e for e in v))
    raise ValueError(c)

def coq_table(t):
    return '[' + '; '.join('("%s", [%s])' % (n, '; '.join(coq_cell(c) for c in col)) for n, col in t) + ']'

FUNS = {'id': ('RId', 1, 'lambda {0}: {0}'),
        'isnone': ('RIsNone', 1, 'lambda {0}: 0 if {0} is None else 1'),
        'coalesce': ('RCoalesce', 2, 'lambda {0}, {1}: {1} if {0} is None else {0}'),
        'const': ('RConst', 1, 'lambda {0}: 7')}
def py_item(it):
    if it[0] == 'col': return it[1]
    return eval(FUNS[it[1]][2].format(*it[2]))
def coq_item(it):
    if it[0] == 'col': return '(KCol "%s")' % it[1]
    return '(KFun (%s %s))' % (FUNS[it[1]][0], ' '.join('"%s"' % a for a in it[2]))
def py_spec(s):
    if s is None: return None
    if s[0] == 'list': return [py_item(i) for i in s[1]]
    if s[0] == 'tuple': return tuple(py_item(i) for i in s[1])
    return py_item(s)
def coq_spec(s):
    if s is None: return 'SNone'
    if s[0] in ('list', 'tuple'): return '(SList [%s])' % '; '.join(coq_item(i) for i in s[1])
    return '(SOne %s)' % coq_item(s)
def spec_items(s):
    if s is None: return None
    return list(s[1]) if s[0] in ('list', 'tuple') else [s]

JMODES = {'none': (None, 'MNone'), 'l': ('l', 'MLeft'), 'left': ('left', 'MLeft'), '0': (0, 'MLeft'), 'L': ('L', 'MLeft'), 'lhs': ('lhs', 'MLeft'), 'RHS': ('RHS', 'MRight'),
          'r': ('r', 'MRight'), 'right': ('right', 'MRight'), '1': (1, 'MRight'),
          'coalesce': ('lambda l, r: r if l is None else l', 'MCoalesce'), 'swap': ('lambda l, r: (r, l)', 'MSwap')}
XMODES = {'default': ('l', False), 'none': (None, False), 'l': ('l', False), '0': (0, False), 'left': ('left', False),
          'r': ('r', True), '1': (1, True), 'right': ('right', True), 'R': ('R', True), 'Lhs': ('Lhs', False)}
def py_jmode(m):
    v = JMODES[m][0]
    return eval(v) if m in ('coalesce', 'swap') else v

# ------------------------------------------------------------------ Coq side
def coq_runner(case):
    return {'join': 'run_join', 'xor': 'run_xor', 'both': 'run_both'}[case['kind']]
def coq_case(case):
    base = '%s, %s, %s, %s' % (coq_table(case['x']), coq_table(case['x'] if case.get('selfjoin') else case['y']), coq_spec(case['lcols']), coq_spec(case['rcols']))
    if case['kind'] == 'join':
        return '(%s, %s)' % (base, JMODES[case['mode']][1])
    if case['kind'] == 'xor':
        return '(%s, %s)' % (base, 'true' if XMODES[case['mode']][1] else 'false')
    return '(%s)' % base

# ------------------------------------------------------------------ canonical observation
def enc(v, tagged):
    if v is None: return 'None'
    if isinstance(v, list): return ['list', [int(e) for e in v]]
    if isinstance(v, tuple):
        if len(v) != 2: return ['tuple', [int(e) for e in v]]      # a tuple-valued cell (generated with length != 2); pairs come from mode=None
        return ['t'] + [enc(e, tagged) for e in v]
    if isinstance(v, bool): raise TypeError('bool cell')
    if isinstance(v, float) and v != v: return 'NaN'
    if isinstance(v, float) and v in (float('inf'), float('-inf')): return 'inf' if v > 0 else '-inf'
    if isinstance(v, int): return ['i' if tagged else 'n', int(v) * SCALE]
    if isinstance(v, float): return ['f' if tagged else 'n', scaled(v)]
    if isinstance(v, str): return ['s', [ord(ch) for ch in v]]
    if hasattr(v, 'nanosecond') and hasattr(v, 'to_pydatetime'): return ['d', dt2us(v.to_pydatetime()) * 1000 + v.nanosecond]
    if isinstance(v, datetime.datetime): return ['d', dt2us(v) * 1000]
    raise TypeError('cell %r' % (v,))

def jcmp(a, b):
    ra = 0 if isinstance(a, int) else 1 if isinstance(a, str) else 2
    rb = 0 if isinstance(b, int) else 1 if isinstance(b, str) else 2
    if ra != rb: return -1 if ra < rb else 1
    if ra < 2: return -1 if a < b else 1 if a > b else 0
    for p, q in zip(a, b):
        c = jcmp(p, q)
        if c: return c
    return -1 if len(a) < len(b) else 1 if len(a) > len(b) else 0
JKEY = functools.cmp_to_key(jcmp)

def obs_table(t, untagged=()):
    cols = sorted(t.keys())
    n = len(t)
    rows = [[enc(t[c][i], c not in untagged) for c in cols] for i in range(n)]
    rows.sort(key=JKEY)
    return ['ok', cols, rows]

# ------------------------------------------------------------------ the oracle (from the property text, independent of the model)
def is_num(v): return isinstance(v, (int, float)) and not isinstance(v, bool)
def cell_eq(a, b):
    """key equality of the property: int == same-valued float, None == None, NaN == NaN"""
    if a is None or b is None: return a is None and b is None
    if is_num(a) and is_num(b):
        if a != a or b != b: return a != a and b != b
        if abs(a) == float('inf') or abs(b) == float('inf'): return a == b
        return Fraction(a) == Fraction(b)           # exact, also for numpy floats (np.float64(2**53) == 2**53+1 is True in numpy)
    if is_num(a) or is_num(b): return False
    if isinstance(a, datetime.datetime) and isinstance(b, datetime.datetime): return a == b      # a pd.Timestamp equals the datetime of the same instant
    if type(a) is not type(b): return False
    return a == b
def key_eq(k1, k2): return len(k1) == len(k2) and all(cell_eq(a, b) for a, b in zip(k1, k2))

def canon(v, exact):
    if v is None: return ('N',)
    if isinstance(v, list): return ('l',) + tuple(v)
    if isinstance(v, tuple): return ('t',) + tuple(canon(e, exact) for e in v)
    if is_num(v):
        if v != v: return ('nan',)
        if abs(v) == float('inf'): return ('inf', v > 0, type(v).__name__ if exact else '')
        return ('n', Fraction(v), type(v).__name__ if exact else '')      # exact: 2**53+1 != float(2**53)
    if isinstance(v, str): return ('s', v)
    return ('d', v)

def resolve(xcols, ycols, lcols, rcols):
    """-> (left items, right items, problem)"""
    li = spec_items(lcols); ri = spec_items(rcols)
    if li is None: li = [['col', c] for c in xcols if c in ycols]
    if ri is None: ri = li
    return li, ri
def table_keys(cols, data, items):
    n = len(data[cols[0]]) if cols else 0
    out = []
    for i in range(n):
        row = {c: data[c][i] for c in cols}
        k = []
        for it in items:
            if it[0] == 'col': k.append(row[it[1]])
            else: k.append(py_item(it)(*[row[a] for a in it[2]]))
        out.append(tuple(k))
    return out
def validity(case):
    """None if the call is one the property speaks about, else the reason it may raise"""
    xc = [n for n, _ in case['x']]; yc = [n for n, _ in case['y']]
    li, ri = resolve(xc, yc, case['lcols'], case['rcols'])
    if len(li) != len(ri): return 'length'
    if case['kind'] != 'xor' and any(a[0] == 'fun' and b[0] == 'fun' for a, b in zip(li, ri)): return 'both callable'
    for items, cols in ((li, xc), (ri, yc)):
        for it in items:
            need = [it[1]] if it[0] == 'col' else it[2]
            if any(a not in cols for a in need): return 'missing column'
    return None
def key_names(li, ri):
    return [a[1] if a[0] == 'col' else b[1] for a, b in zip(li, ri)]

def expected_join(xc, xd, yc, yd, li, ri, mode):
    cols = key_names(li, ri)
    lk = table_keys(xc, xd, li) if li else [()] * (len(xd[xc[0]]) if xc else 0)
    rk = table_keys(yc, yd, ri) if ri else [()] * (len(yd[yc[0]]) if yc else 0)
    lo = [c for c in xc if c not in cols]; ro = [c for c in yc if c not in cols]
    shared = [c for c in lo if c in ro]
    f = py_jmode(mode)
    rows = []
    for i, a in enumerate(lk):
        for j, b in enumerate(rk):
            if key_eq(a, b):
                row = {c: canon(a[t], False) for t, c in enumerate(cols)}
                for c in lo:
                    if c not in shared: row[c] = canon(xd[c][i], True)
                for c in ro:
                    if c not in shared: row[c] = canon(yd[c][j], True)
                for c in shared:
                    l, r = xd[c][i], yd[c][j]
                    is_l = (isinstance(f, str) and f[:1].lower() == 'l') or (isinstance(f, int) and f == 0)
                    is_r = (isinstance(f, str) and f[:1].lower() == 'r') or (isinstance(f, int) and f == 1)
                    v = l if is_l else r if is_r else (l, r) if f is None else f(l, r)
                    row[c] = canon(v, True)
                rows.append(row)
    return cols, sorted(set(cols) | set(lo) | set(ro)), rows, lk, rk
def got_rows(t, keycols):
    cols = sorted(t.keys())
    return cols, [{c: canon(t[c][i], c not in keycols) for c in cols} for i in range(len(t))]
def multiset(rows):
    from collections import Counter
    return Counter(tuple(sorted(r.items())) for r in rows)
def diff_text(exp, got):
    e, g = multiset(exp), multiset(got)
    miss = list((e - g).elements()); extra = list((g - e).elements())
    return 'missing rows %s; unexpected rows %s' % (miss[:3], extra[:3])

def impl_setup():
    global dictable
    import logging
    logging.disable(logging.CRITICAL)
    from pyg_base import dictable

def build(t, nans, plain=False, share=None):
    cols = [n for n, _ in t]
    data = {n: [py_cell(c, nans) for c in col] for n, col in t}
    d = {n: list(v) for n, v in data.items()}
    if share and share[1]:
        for n in share[1]:                                    # the two operands hold the very same list object for this column
            d[n] = share[0][n]; data[n] = list(share[0][n])
    return cols, data, (d if plain else dictable(d))
def snapshot(tb): return [(k, list(v)) for k, v in tb.items()]
def unchanged(tb, snap):
    now = [(k, v) for k, v in tb.items()]
    return len(now) == len(snap) and all(k == k0 and len(v) == len(v0) and all(a is b for a, b in zip(v, v0)) for (k, v), (k0, v0) in zip(now, snap))

def call_join(x, y, case):
    if case.get('via') == 'op': return x * y
    return x.join(y, py_spec(case['lcols']), py_spec(case['rcols']), py_jmode(case['mode']))
def call_xor(x, y, case, mode='default'):
    if case.get('via') == 'op': return x / y
    if mode == 'default': return x.xor(y, py_spec(case['lcols']), py_spec(case['rcols']))
    return x.xor(y, py_spec(case['lcols']), py_spec(case['rcols']), XMODES[mode][0])

def check_join(case, res, xc, xd, yc, yd, mode):
    li, ri = resolve(xc, yc, case['lcols'], case['rcols'])
    cols, allcols, exp, lk, rk = expected_join(xc, xd, yc, yd, li, ri, mode)
    gcols, got = got_rows(res, cols)
    if gcols != allcols:
        return 'join columns %s, expected the key, every other column of both sides: %s' % (gcols, allcols)
    if multiset(exp) != multiset(got):
        return 'join returned %d rows, the relational join has %d: %s' % (len(got), len(exp), diff_text(exp, got))
    return None
def check_xor(case, res, xc, xd, yc, yd, right):
    li, ri = resolve(xc, yc, case['lcols'], case['rcols'])
    if right and li: xc, xd, yc, yd, li, ri = yc, yd, xc, xd, ri, li
    n = len(xd[xc[0]]) if xc else 0
    if li:
        lk = table_keys(xc, xd, li); rk = table_keys(yc, yd, ri)
        keep = [i for i in range(n) if not any(key_eq(lk[i], b) for b in rk)]
    else:
        m = len(yd[yc[0]]) if yc else 0
        keep = list(range(n)) if (m == 0 or not FLAG_NOKEY_XOR) else []
    exp = [{c: canon(xd[c][i], True) for c in xc} for i in keep]
    gcols, got = got_rows(res, ())
    if gcols != sorted(xc):
        return 'xor columns %s, expected those of the operand %s' % (gcols, sorted(xc))
    if multiset(exp) != multiset(got):
        return 'xor returned %d rows, the anti-join has %d: %s' % (len(got), len(exp), diff_text(exp, got))
    return None

def impl(case):
    nans = {'np': True} if case.get('npfloat') else {}
    xc, xd, x = build(case['x'], nans)
    if case.get('selfjoin'):
        yc, yd, y = xc, xd, x                                # the SAME object on both sides: x.join(x, ...), x * x, x / x
    else:
        yc, yd, y = build(case['y'], nans, plain=bool(case.get('ydict')), share=(x, case.get('sharecols')))      # ydict: the right operand is a plain dict of lists
    sx, sy = snapshot(x), snapshot(y)
    why_invalid = validity(case)
    kind = case['kind']
    status = 'ok'
    def run_calls():
        out = []
        if kind in ('join', 'both'):
            out.append(call_join(x, y, case) if kind == 'join' else x.join(y, py_spec(case['lcols']), py_spec(case['rcols']), 'l'))
        if kind in ('xor', 'both'):
            out.append(call_xor(x, y, case, case['mode'] if kind == 'xor' else 'default'))
        return out
    try:
        results = run_calls()
        again = run_calls()                                  # the same calls once more on the same operands: must give the same tables
    except Exception as e:
        status = err_name(e)
        viol = None if why_invalid else '%s raised %s: %s' % (kind, type(e).__name__, str(e)[:120])
        if not unchanged(x, sx) or not unchanged(y, sy):
            viol = 'an operand was modified by a failing %s' % kind
        return {'status': status, 'obs': ['ERR', status], 'viol': viol}
    viol = None
    if not unchanged(x, sx): viol = 'left operand modified by %s' % kind
    elif not unchanged(y, sy): viol = 'right operand modified by %s' % kind
    for r in results + again:
        if viol is None and not isinstance(r, dictable):
            viol = '%s returned a %s' % (kind, type(r).__name__)
    if viol:
        return {'status': status, 'obs': ['ERR', 'bad'], 'viol': viol}
    li, ri = resolve(xc, yc, case['lcols'], case['rcols'])
    kn = key_names(li, ri) if not why_invalid else []
    for r1, r2 in zip(results, again):
        if obs_table(r1, kn) != obs_table(r2, kn):
            return {'status': status, 'obs': ['ERR', 'unstable'], 'viol': 'the same %s on the same operands gave two different tables: %s then %s' % (kind, obs_table(r1, kn)[1:], obs_table(r2, kn)[1:])}
    if kind == 'join':
        obs = obs_table(results[0], kn)
        if not why_invalid: viol = check_join(case, results[0], xc, xd, yc, yd, case['mode'])
    elif kind == 'xor':
        obs = obs_table(results[0])
        if not why_invalid: viol = check_xor(case, results[0], xc, xd, yc, yd, XMODES[case['mode']][1])
    else:
        obs = [obs_table(results[0], kn), obs_table(results[1])]
        if not why_invalid:
            viol = check_join(case, results[0], xc, xd, yc, yd, 'l') or check_xor(case, results[1], xc, xd, yc, yd, False)
            if viol is None and 'id' in xc and li:
                ids_j = set(results[0]['id']); ids_x = list(results[1]['id'])
                if len(set(ids_x)) != len(ids_x) or (ids_j & set(ids_x)) or (ids_j | set(ids_x)) != set(xd['id']):
                    viol = 'rows of x are not partitioned: matched ids %s, xor ids %s, all ids %s' % (sorted(ids_j), ids_x, xd['id'])
    return {'status': status, 'obs': obs, 'viol': viol}

# ------------------------------------------------------------------ bookkeeping
def _stats(case):
    if validity(case): return None
    xc = [n for n, _ in case['x']]; yc = [n for n, _ in case['y']]
    nans = {}
    xd = {n: [py_cell(c, nans) for c in col] for n, col in case['x']}
    yd = {n: [py_cell(c, nans) for c in col] for n, col in case['y']}
    li, ri = resolve(xc, yc, case['lcols'], case['rcols'])
    if not li: return None
    lk = table_keys(xc, xd, li); rk = table_keys(yc, yd, ri)
    pairs = [(i, j) for i in range(len(lk)) for j in range(len(rk)) if key_eq(lk[i], rk[j])]
    return lk, rk, pairs
def nontrivial(case, result):
    try: st = _stats(case)
    except Exception: return False
    if not st: return False
    lk, rk, pairs = st
    if not pairs: return False
    unmatched = len({i for i, _ in pairs}) < len(lk) or len({j for _, j in pairs}) < len(rk)
    li = [i for i, _ in pairs]; rj = [j for _, j in pairs]
    many = any(li.count(i) > 1 for i in li) and any(rj.count(j) > 1 for j in rj)
    return unmatched or many
def shape(case):
    li = spec_items(case['lcols'])
    nk = 'auto' if li is None else str(len(li))
    fun = 'f' if any(it[0] == 'fun' for it in (li or []) + (spec_items(case['rcols']) or [])) else ''
    nan = 'nan' if any(c and c[0] == 'nan' for t in (case['x'], case['y']) for _, col in t for c in col) else ''
    flags = ''.join(f for f, on in (('N', case.get('renamed')), ('D', case.get('ydict')), ('P', case.get('npfloat')), ('S', case.get('selfjoin')), ('L', case.get('sharecols'))) if on)
    return '%s:%s:k%s%s%s%s%s' % (case['kind'], case.get('stream', '?'), nk, fun, nan, ':op' if case.get('via') == 'op' else '', ':' + flags if flags else '')

def shrink(case):
    if case.get('stream') == 'seed':
        return          # corpus seeds are already minimal: replay them as written
    if case.get('selfjoin'):
        t = case['x']; n = len(t[0][1]) if t else 0
        for i in range(n):
            x2 = [[nm, col[:i] + col[i + 1:]] for nm, col in t]
            yield dict(case, x=x2, y=x2)
        return
    case = dict(case); case.pop('sharecols', None)      # shrunk operands are rebuilt separately
    for side in ('x', 'y'):
        t = case[side]
        n = len(t[0][1]) if t else 0
        for i in range(n):
            yield dict(case, **{side: [[nm, col[:i] + col[i + 1:]] for nm, col in t]})
    used = set()
    for s in (case['lcols'], case['rcols']):
        for it in spec_items(s) or []:
            used.update([it[1]] if it[0] == 'col' else it[2])
    for side in ('x', 'y'):
        t = case[side]
        for k, (nm, _) in enumerate(t):
            if nm not in used and (case['lcols'] is not None or nm not in [a for a, _ in case['y' if side == 'x' else 'x']]):
                yield dict(case, **{side: t[:k] + t[k + 1:]})
    if case['kind'] == 'join' and case.get('mode') != 'none' and case.get('via') != 'op':
        yield dict(case, mode='none')

# ------------------------------------------------------------------ generation
POOLS = {
    'int': [['i', 0], ['i', 1], ['i', 2], ['i', 3]],
    'num': [['i', 0], ['i', 1], ['f', 2], ['i', 2], ['f', 3], ['f', 4]],          # 1 and 1.0 (twice=2), 1.5, 2 and 2.0
    'str': [['s', 'a'], ['s', 'b'], ['s', 'ab'], ['s', ''], ['s', 'B'], ['s', 'a b'], ['s', '\u00e9t\u00e9'], ['s', '\u4e2d'], ['s', 'a' * 40], ['s', '10'], ['s', '9']],
    'date': [['d', D1], ['d', D2], ['d', D3], ['d', D4], ['d', D5], ['d', D6]],
    'frac': [['x', (0.1).hex()], ['x', (0.3).hex()], ['x', (0.1 + 0.2).hex()], ['x', (1 / 3).hex()], ['x', (-2.75).hex()], ['x', (-0.0).hex()], ['i', 0], ['x', (1e-6).hex()], ['x', (1e15 + 0.5).hex()], ['i', -3]],
    'mixed': [None, ['i', 0], ['i', 1], ['f', 2], ['i', 2], ['f', 3], ['s', 'a'], ['s', 'b'], ['d', D1], ['d', D2]],
    'none': [None, None, ['i', 1], ['f', 2], ['s', 'a']],
    'big': [['i', 2**53], ['i', 2**53 + 1], ['i', 2**53 + 2], ['i', -(2**53) - 1], ['f', 2 * 2**53], ['f', 2 * (2**53 + 2)], ['i', -(2**53)]],
    'bigmixed': [['i', 2**53], ['i', 2**53 + 1], ['f', 2 * 2**53], ['i', -(2**53) - 1], ['f', -2 * 2**53], None, ['s', 'a'], ['i', 1]],
    'inf': [['inf', 1], ['inf', -1], ['inf', 1], ['nan', 1], ['nan', 2], ['i', 0], ['f', 3], ['i', 2**53], ['i', -5]],
    'infmixed': [['inf', 1], ['inf', -1], ['nan', 1], None, ['i', 1], ['s', 'a'], ['d', D1], ['x', (1e15 + 0.5).hex()]],
    'ts': [['ts', [D1, 1]], ['ts', [D1, 2]], ['ts', [D1, 999]], ['ts', [D1 + 1, 0]], ['ts', [D1, 0]], None, ['ts', [D2, 500]]],
    # the SAME whole-microsecond instants as pd.Timestamp and as datetime.datetime, mixed within a column and across the operands: equal keys
    'tsmix': [['ts', [D1, 0]], ['d', D1], ['ts', [D3, 0]], ['d', D3], ['ts', [D2, 0]], ['d', D2], None, ['d', D4]],
    'nan': [['nan', 1], ['nan', 2], ['nan', 3], ['i', 1], ['f', 2], ['i', 0]],
    'nanmixed': [['nan', 1], ['nan', 2], ['nan', 3], None, ['i', 1], ['f', 2], ['s', 'a'], ['d', D1]],
}
VALS_L = [['l', [7]], ['l', [1, 2]], ['l', []], ['t', [5]], ['t', [1, 2, 3]]]          # list / tuple valued cells: non-key columns only
VALS = [None, ['i', 5], ['i', 6], ['f', 11], ['s', 'p'], ['s', 'q'], ['i', 7], ['d', D3], ['x', (0.1).hex()], ['s', '']]

def rand_col(rng, pool, n):
    sub = rng.sample(POOLS[pool], min(len(POOLS[pool]), rng.choice([1, 2, 2, 3, 3, 4])))
    return [rng.choice(sub) for _ in range(n)]

def rand_case(rng, stream, kind=None):
    if stream == 'rand' and kind is None and rng.random() < 0.08:
        return self_case(rng, 'rand')
    nan = stream == 'nan'
    nx = rng.choice([0, 1, 2, 3, 3, 4, 5, 6]); ny = rng.choice([0, 1, 2, 3, 3, 4, 5, 6])
    nk = rng.choice([0, 1, 1, 1, 2, 2, 3])
    knames = ['a', 'b', 'c'][:nk]
    pools = [rng.choice(['nan', 'nanmixed'] if (nan and k == 0) else ['int', 'num', 'num', 'str', 'date', 'mixed', 'mixed', 'none', 'big', 'bigmixed', 'frac', 'inf', 'infmixed', 'ts', 'tsmix', 'tsmix']) for k in range(nk)]
    x = [[k, rand_col(rng, p, nx)] for k, p in zip(knames, pools)]
    y = [[k, rand_col(rng, p, ny)] for k, p in zip(knames, pools)]
    # other columns: v is shared (mode matters), d only left, e only right
    for nm, side in (('v', 'xy'), ('d', 'x'), ('e', 'y'), ('w', 'xy')):
        if rng.random() < (0.5 if nm != 'w' else 0.15):
            vals = VALS + VALS_L if nm in ('d', 'e') else VALS          # v / w may become key columns of a natural join
            if 'x' in side: x.append([nm, [rng.choice(vals) for _ in range(nx)]])
            if 'y' in side: y.append([nm, [rng.choice(vals) for _ in range(ny)]])
    kind = kind or rng.choice(['join', 'join', 'xor', 'both'])
    if kind == 'both':
        x.append(['id', [['i', 100 + i] for i in range(nx)]])
    rng.shuffle(x); rng.shuffle(y)
    case = {'kind': kind, 'stream': stream, 'x': x, 'y': y, 'lcols': None, 'rcols': None, 'via': 'method'}
    # spelling of the keys
    r = rng.random()
    cols = [['col', k] for k in knames]
    if nk == 0:
        sp = rng.choice(['auto', 'empty'])
        if sp == 'empty': case['lcols'] = ['list', []]; case['rcols'] = rng.choice([None, ['list', []]])
    elif r < 0.25:
        pass                                                   # natural join on the shared columns (v/w join the key when shared!)
    elif r < 0.6:
        use = cols[:rng.randrange(1, nk + 1)] if rng.random() < 0.4 else cols
        rng.shuffle(use)
        case['lcols'] = use[0] if len(use) == 1 and rng.random() < 0.5 else ['list', use]
        case['rcols'] = rng.choice([None, case['lcols']])
    elif r < 0.8:
        # differently named key on the right: rename y's first key column
        old = knames[0]; new = rng.choice(['k', 'd', 'v'])
        if new not in [n for n, _ in y]:
            y[:] = [[new if n == old else n, c] for n, c in y]
            case['lcols'] = ['list', cols] if nk > 1 or rng.random() < 0.5 else cols[0]
            rc = [['col', new]] + cols[1:]
            case['rcols'] = ['list', rc] if case['lcols'][0] == 'list' else rc[0]
        else:
            case['lcols'] = ['list', cols]
    else:
        # a callable on one side
        side = rng.choice('lr')
        f = rng.choice(['id', 'id', 'isnone', 'coalesce', 'const'])
        tbl = x if side == 'l' else y
        tn = [n for n, _ in tbl if n != 'id']
        others = [n for n in tn if n != knames[0]]
        if f == 'coalesce' and not others: f = 'id'
        args = [knames[0]] if f != 'coalesce' else [knames[0], rng.choice(others)]
        fun = ['fun', f, args]
        l = list(cols); rr = list(cols)
        if side == 'l': l[0] = fun
        else: rr[0] = fun
        one = nk == 1 and rng.random() < 0.5
        case['lcols'] = l[0] if one else ['list', l]
        case['rcols'] = rr[0] if one else ['list', rr]
    if kind == 'join':
        case['mode'] = rng.choice(list(JMODES))
    elif kind == 'xor':
        case['mode'] = rng.choice(list(XMODES))
    if kind in ('join', 'xor') and case['lcols'] is None and case['rcols'] is None and rng.random() < 0.5:
        case['via'] = 'op'; case['mode'] = 'none' if kind == 'join' else 'default'
    # more spellings: tuples instead of lists; lcols=None with rcols spelled out (the shared columns, in x's order)
    for side in ('lcols', 'rcols'):
        if case[side] is not None and case[side][0] == 'list' and rng.random() < 0.2:
            case[side] = ['tuple', case[side][1]]
    if case['lcols'] is None and case['via'] == 'method' and rng.random() < 0.3:
        shared = [n for n, _ in x if n in [m for m, _ in y]]
        case['rcols'] = ['list', [['col', n] for n in shared]] if len(shared) != 1 or rng.random() < 0.5 else ['col', shared[0]]
    if rng.random() < 0.1: case['ydict'] = True           # right operand given as a plain dict of lists
    # floats / NaN as numpy.float64 objects.  NOT combined with ints beyond 2**53: numpy compares np.float64(2**53) == 2**53+1 as True, so the
    # native sorted() inside sort() and cmp() disagree and join loses the match (open finding reported in coverage/C02.md; needs a fix in _sort.sort)
    huge = any(c is not None and c[0] == 'i' and abs(c[1]) >= 2**53 for t in (x, y) for _, col in t for c in col)
    if rng.random() < 0.1 and not huge: case['npfloat'] = True
    # the two operands share the list object of a key column (same content, same length)
    if nk and nx == ny and nx and rng.random() < 0.25 and not case.get('ydict'):
        kname = knames[0]
        xcol = [c for n_, c in x if n_ == kname]
        if xcol and any(n_ == kname for n_, _ in y):
            y[:] = [[n_, list(xcol[0]) if n_ == kname else c] for n_, c in y]
            case['sharecols'] = [kname]
    if rng.random() < 0.3: rename_columns(rng, case)
    return case

NAMES = {'a': ['Alpha', 'k_1', 'zz', 'A'], 'b': ['b_2', 'Beta', 'B'], 'c': ['zC', 'c3', '_c'], 'v': ['data', 'Value', 'columns', 'v2'],
         'w': ['self', 'w_w', 'Z'], 'd': ['col d', 'left-only', 'D'], 'e': ['right only', 'E', 'e.1'], 'k': ['key', 'K9'], 'id': ['id', 'row id', 'ID']}
def rename_columns(rng, case):
    """column names of every kind: long, upper case (sorts before lower case), digits / underscore, constructor keywords (data, columns),
    and - for columns no callable refers to - names that are not identifiers (spaces, dash, dot)"""
    used_by_fun = set()
    for sp in (case['lcols'], case['rcols']):
        for it in spec_items(sp) or []:
            if it[0] == 'fun': used_by_fun.update(it[2])
    have = {n for t in (case['x'], case['y']) for n, _ in t}
    m = {}
    for n in have:
        # a column called 'self' cannot coexist with a computed key: Dict.apply passes the row as **kwargs (TypeError: multiple values for 'self')
        opts = [o for o in NAMES.get(n, [n]) if (o.isidentifier() or n not in used_by_fun) and not (o == 'self' and used_by_fun)]
        m[n] = rng.choice(opts) if opts and rng.random() < 0.8 else n
    if len(set(m.values())) < len(m): return              # keep the renaming injective
    for side in ('x', 'y'):
        case[side] = [[m[n], col] for n, col in case[side]]
    def ren_item(it): return ['col', m.get(it[1], it[1])] if it[0] == 'col' else ['fun', it[1], [m.get(a, a) for a in it[2]]]
    for sp in ('lcols', 'rcols'):
        v = case[sp]
        if v is None: continue
        case[sp] = [v[0], [ren_item(i) for i in v[1]]] if v[0] in ('list', 'tuple') else ren_item(v)
    if case.get('sharecols'): case['sharecols'] = [m.get(n, n) for n in case['sharecols']]
    case['renamed'] = True

def large_case(rng):
    """tables of 70-150 rows: the sort leaves its small-list path (n >= 64), long merges, long groups"""
    nx = rng.randrange(70, 151); ny = rng.randrange(70, 151)
    K = max(nx, ny) * 2 // 3
    pool = [['i', i] for i in range(K)]
    if rng.random() < 0.6:                                # mixed types: sort takes the Cmp path
        pool = pool[: K // 2] + [['s', 's%d' % i] for i in range(K // 3)] + [None, ['f', 3], ['f', 2 * 7], ['d', D1], ['d', D3]]
    xk = [rng.choice(pool) for _ in range(nx)]; yk = [rng.choice(pool) for _ in range(ny)]
    x = [['a', xk], ['v', [['i', 1000 + i] for i in range(nx)]]]; y = [['a', yk], ['u', [['i', 5000 + j] for j in range(ny)]]]
    if rng.random() < 0.5:
        x.append(['b', [['i', rng.randrange(2)] for _ in range(nx)]]); y.append(['b', [['i', rng.randrange(2)] for _ in range(ny)]])
    kind = rng.choice(['join', 'xor', 'both'])
    if kind == 'both': x.append(['id', [['i', 100000 + i] for i in range(nx)]])
    keys = [['col', n] for n, _ in x if n in ('a', 'b')]
    case = {'kind': kind, 'stream': 'large', 'x': x, 'y': y, 'via': 'method', 'lcols': ['list', keys], 'rcols': None}
    if kind == 'join': case['mode'] = rng.choice(['none', 'l', 'r'])
    elif kind == 'xor': case['mode'] = rng.choice(['default', 'r'])
    return case

FINITE = [['i', 0], ['i', 1], ['f', 2], ['i', 2], ['f', 3], ['i', 3], ['i', -1], ['f', 5], ['inf', 1], ['inf', -1]]
def nan_numeric_case(rng):
    """all-numeric key column holding 1-2 NaN objects among several distinct finite values on BOTH sides, duplicates on both
    sides (many-to-many), NaN at any position: exercises the placement of NaN by sort() and the NaN ~ NaN match"""
    fin = rng.sample(FINITE, rng.choice([3, 4, 5]))
    def side(ids, n):
        k = [['nan', i] for i in rng.sample(ids, rng.choice([1, 2]))]
        vals = k + [rng.choice(fin) for _ in range(n - len(k))]
        if rng.random() < 0.5: vals += [rng.choice(k)]                 # the same NaN object twice
        rng.shuffle(vals)
        return vals
    xk = side([1, 2], rng.choice([4, 5, 6])); yk = side(rng.choice([[1, 2], [3, 4], [2, 3]]), rng.choice([4, 5, 6]))
    x = [['a', xk]]; y = [['a', yk]]
    if rng.random() < 0.3:                                             # a second, finite, key column
        x.append(['b', [rng.choice(fin[:2]) for _ in xk]]); y.append(['b', [rng.choice(fin[:2]) for _ in yk]])
    if rng.random() < 0.6:
        x.append(['v', [['i', 10 + i] for i in range(len(xk))]]); y.append(['v', [['i', 20 + i] for i in range(len(yk))]])
    kind = rng.choice(['join', 'xor', 'both', 'both'])
    if kind == 'both': x.append(['id', [['i', 100 + i] for i in range(len(xk))]])
    keys = [['col', n] for n, _ in x if n in ('a', 'b')]
    case = {'kind': kind, 'stream': 'nannum', 'x': x, 'y': y, 'via': 'method',
            'lcols': keys[0] if len(keys) == 1 and rng.random() < 0.5 else ['list', keys], 'rcols': None}
    if kind == 'join': case['mode'] = rng.choice(list(JMODES))
    elif kind == 'xor': case['mode'] = rng.choice(list(XMODES))
    return case

def m2m_shared_case(rng):
    """many-to-many keys x shared non-key columns with pairwise distinct cells x every mode (weighted to r / 1 / callables):
    a mix-up of which left / right cell lands in which output row is visible"""
    nk = rng.choice([1, 1, 2])
    pool = rng.choice(['int', 'num', 'mixed', 'str', 'none'])
    sub = rng.sample(POOLS[pool], 2)
    nx = rng.choice([3, 4, 5, 6]); ny = rng.choice([3, 4, 5, 6])
    x = [[k, [rng.choice(sub) for _ in range(nx)]] for k in ['a', 'b'][:nk]]
    y = [[k, [rng.choice(sub) for _ in range(ny)]] for k in ['a', 'b'][:nk]]
    for nm in ['v', 'w'][:rng.choice([1, 1, 2])]:
        off = 10 if nm == 'v' else 50
        xv = [['i', off + i] for i in range(nx)]; yv = [['i', off + 20 + j] for j in range(ny)]
        if rng.random() < 0.3: xv[rng.randrange(nx)] = None                # lets coalesce pick the right cell
        x.append([nm, xv]); y.append([nm, yv])
    if rng.random() < 0.4: x.append(['d', [['i', 80 + i] for i in range(nx)]])
    if rng.random() < 0.4: y.append(['e', [['i', 90 + j] for j in range(ny)]])
    rng.shuffle(x); rng.shuffle(y)
    keys = [['col', k] for k in ['a', 'b'][:nk]]
    return {'kind': 'join', 'stream': 'm2m', 'x': x, 'y': y, 'via': 'method',
            'lcols': keys[0] if nk == 1 and rng.random() < 0.5 else ['list', keys], 'rcols': rng.choice([None, ['list', keys]]),
            'mode': rng.choice(['r', 'r', '1', '1', 'right', 'coalesce', 'coalesce', 'swap', 'swap', 'l', '0', 'none'])}

def onerow_case(rng):
    """results of exactly ONE row whose non-key cells are lists / tuples (a one-element column holding a list must stay a list)"""
    k = rng.choice([['i', 1], ['s', 'a'], None, ['f', 3]]); other = rng.choice([['i', 9], ['s', 'zz']])
    cell = lambda: rng.choice(VALS_L + VALS_L + VALS)
    kind = rng.choice(['join', 'join', 'xor', 'cross'])
    if kind == 'cross':
        x = [['v', [cell()]], ['d', [cell()]]]; y = [['e', [cell()]], ['v', [cell()]]]
        return {'kind': 'join', 'stream': 'onerow', 'x': x, 'y': y, 'lcols': ['list', []], 'rcols': None, 'mode': rng.choice(list(JMODES)), 'via': 'method'}
    ny = rng.choice([1, 2, 3])
    x = [['a', [k]], ['v', [cell()]], ['d', [cell()]]]
    ykeys = [k] + [other] * (ny - 1) if kind == 'join' else [other] * ny
    rng.shuffle(ykeys)
    y = [['a', ykeys], ['v', [cell() for _ in ykeys]], ['e', [cell() for _ in ykeys]]]
    rng.shuffle(x); rng.shuffle(y)
    case = {'kind': kind, 'stream': 'onerow', 'x': x, 'y': y, 'lcols': ['col', 'a'], 'rcols': rng.choice([None, ['col', 'a']]), 'via': 'method'}
    case['mode'] = rng.choice(list(JMODES)) if kind == 'join' else rng.choice(['default', 'l', '0'])
    return case

def self_case(rng, stream='self'):
    """the SAME table object on both sides (x.join(x, lcols, rcols), x.xor(x, ...), x * x, x / x): id / boss style columns drawn from one
    pool so that rows match other rows; lcols == rcols and lcols != rcols, lists in different orders, a computed key, natural join"""
    n = rng.choice([0, 1, 2, 3, 4, 5, 6])
    pool = rng.choice(['int', 'num', 'mixed', 'none', 'str', 'nanmixed', 'big'])
    sub = rng.sample(POOLS[pool], min(len(POOLS[pool]), rng.choice([2, 3, 4])))
    x = [[k, [rng.choice(sub) for _ in range(n)]] for k in ['a', 'b', 'c'][:rng.choice([2, 2, 3])]]
    if rng.random() < 0.7: x.append(['v', [['i', 10 + i] for i in range(n)]])
    kind = rng.choice(['join', 'join', 'xor', 'xor', 'both'])
    if kind == 'both': x.append(['id', [['i', 100 + i] for i in range(n)]])
    rng.shuffle(x)
    keys = [k for k, _ in x if k in ('a', 'b', 'c')]
    case = {'kind': kind, 'stream': stream, 'selfjoin': True, 'x': x, 'via': 'method', 'lcols': None, 'rcols': None}
    r = rng.random()
    if r < 0.15:
        pass                                                                  # natural: every column is a key
    elif r < 0.35:
        case['lcols'] = ['col', keys[0]]; case['rcols'] = rng.choice([None, ['col', keys[0]]])       # lcols == rcols
    elif r < 0.65:
        case['lcols'] = ['col', keys[1]]; case['rcols'] = ['col', keys[0]]                             # boss joined with id
    elif r < 0.85:
        l = rng.sample(keys, 2); rr = rng.choice([l[::-1], [l[1], l[0]], rng.sample(keys, 2)])
        sp = rng.choice(['list', 'tuple'])
        case['lcols'] = [sp, [['col', k] for k in l]]; case['rcols'] = ['list', [['col', k] for k in rr]]
    else:
        f = rng.choice(['id', 'isnone', 'const'])
        case['lcols'] = ['fun', f, [keys[1]]]; case['rcols'] = ['col', keys[0]]
        if rng.random() < 0.5: case['lcols'], case['rcols'] = case['rcols'], case['lcols']
    if kind == 'join': case['mode'] = rng.choice(list(JMODES))
    elif kind == 'xor': case['mode'] = rng.choice(list(XMODES))
    if kind in ('join', 'xor') and case['lcols'] is None and rng.random() < 0.6:
        case['via'] = 'op'; case['mode'] = 'none' if kind == 'join' else 'default'
    case['y'] = case['x']
    if rng.random() < 0.25: rename_columns(rng, case)
    case['y'] = json.loads(json.dumps(case['x']))       # kept equal to x: the model and the oracle see the same table twice
    return case

def exhaustive_self():
    """every table of <= 2 rows with two columns over {None, 1, 1.0, 'a'}, joined / xor-ed with ITSELF on b vs a, on a, and naturally"""
    pool = [None, ['i', 1], ['f', 2], ['s', 'a']]
    out = []
    for n in range(3):
        for a in itertools.product(pool, repeat=n):
            for b in itertools.product(pool, repeat=n):
                x = [['a', list(a)], ['b', list(b)], ['v', [['i', 5 + i] for i in range(n)]]]
                for lc, rc in ((['col', 'b'], ['col', 'a']), (['col', 'a'], None), (None, None)):
                    for kind, mode in (('join', 'none'), ('xor', 'default')):
                        out.append({'kind': kind, 'stream': 'exhself', 'selfjoin': True, 'x': x, 'y': x, 'lcols': lc, 'rcols': rc, 'mode': mode, 'via': 'method'})
    return out

def malformed(rng):
    c = rand_case(rng, 'bad', rng.choice(['join', 'xor']))
    r = rng.random()
    if r < 0.35:
        c['lcols'] = ['list', [['col', 'a'], ['col', 'b']]]; c['rcols'] = ['col', 'a']
    elif r < 0.7:
        c['lcols'] = ['fun', 'id', ['a']]; c['rcols'] = ['fun', 'const', ['a']]
        for t in (c['x'], c['y']):
            if 'a' not in [n for n, _ in t]:
                n = len(t[0][1]) if t else 0
                t.append(['a', [['i', 1]] * n])
    else:
        c['lcols'] = ['col', 'zz']; c['rcols'] = rng.choice([None, ['col', 'a']])
    c['via'] = 'method'
    for t in (c['x'], c['y']):            # a column called 'self' cannot coexist with a computed key (see rename_columns)
        for col in t:
            if col[0] == 'self': col[0] = 'w_self'
    return c

def exhaustive_small():
    pool = [None, ['i', 1], ['f', 2], ['i', 2], ['s', 'a']]
    tabs = [list(t) for n in range(3) for t in itertools.product(pool, repeat=n)]
    out = []
    for a in tabs:
        for b in tabs:
            x = [['a', a], ['v', [['i', 5 + i] for i in range(len(a))]]]
            y = [['a', b], ['v', [['i', 8 + i] for i in range(len(b))]]]
            out.append({'kind': 'join', 'stream': 'exh', 'x': x, 'y': y, 'lcols': ['col', 'a'], 'rcols': None, 'mode': 'none', 'via': 'method'})
            out.append({'kind': 'xor', 'stream': 'exh', 'x': x, 'y': y, 'lcols': ['col', 'a'], 'rcols': None, 'mode': 'default', 'via': 'method'})
    return out

def gen_cases(rng, tier):
    q = tier == 'quick'
    cases = []
    for _ in range(1500 if q else 30000):
        cases.append(rand_case(rng, 'rand'))
    for _ in range(60 if q else 400):
        cases.append(rand_case(rng, 'nan'))
    for _ in range(300 if q else 3000):
        cases.append(nan_numeric_case(rng))
    for _ in range(400 if q else 4000):
        cases.append(m2m_shared_case(rng))
    for _ in range(6 if q else 80):
        cases.append(large_case(rng))
    for _ in range(120 if q else 1500):
        cases.append(malformed(rng))
    for _ in range(250 if q else 2500):
        cases.append(self_case(rng))
    for _ in range(150 if q else 1500):
        cases.append(onerow_case(rng))
    ex = exhaustive_small()
    if q:
        ex = rng.sample(ex, 400)
    cases.extend(ex)
    exs = exhaustive_self()
    cases.extend(rng.sample(exs, 300) if q else exs)
    return cases
