"""C11 — listby/unlist, groupby/ungroup and pivot/unpivot are lossless regroupings (reuses the value vocabulary of c07.py)."""
import json, functools
from implutil import call, err_name
from props import c07 as V

ID = 'C11'
TRANSLATOR = []
COQ_EXEC = ['exec.X_group', 'exec.X_sort']
COQ_IMPORTS = 'From PB Require Import model.M_sort model.M_group.\n'
PER_FILE = 400
CASE_TIMEOUT = 5
RULE = ('cases: tables of 0-8 rows (thorough 0-12) and 2-4 columns with scalar cells (None, ints incl. adjacent ints beyond 2^53, floats incl. 1 vs 1.0, float(2**53) and +-inf, NaN, strings, datetimes); keys = every '
        'kind of non-empty proper subset of the columns, duplicate / unique / mixed-type key columns, NaN objects of different identity in key columns. '
        '(1) listby(by) and listby(by).unlist(), (2) groupby(by) (key table, every sub-table) and .ungroup(), incl. the ValueError on all columns, '
        '(3) xyz(x, y, z, agg) for agg in None/last/first/len/sum, x columns named name/date/key1 passed as a string or as a list, y values that are strings '
        '(incl. substrings of the x names), multi-digit / negative ints, half-integer floats and mixed int/str (label order as strings differs from the '
        'value order), and its unpivot(x, y, z); (4) large tables of 101-400 rows with one or two int / mixed-type key columns of few distinct values and a '
        'row-id column, for listby/unlist and groupby/ungroup. Whole result tables '
        '(columns in name order) are compared with the model inside Coq; the oracle re-derives from the property text: one row per distinct key, cells '
        'list the key\'s values in original order, unlist = stable sort by keys (cells up to ==), group sizes sum to len, ungroup = same multiset of '
        'rows, every pivot cell = agg of the z of exactly the rows with that (x, y) and None elsewhere, unpivot minus None cells = the (x, label, cell) '
        'triples. non-trivial = at least 2 rows and a key with a duplicate or a re-ordering; distinct by full input')
EXPLANATION = ('theorems C11_* (coq/props/C11.v), for every table and key choice, about the executable model of _listby (sort decorated keys, run-length group) '
               'and of listby / unlist / groupby / ungroup / xyz / unpivot built on it: one group per distinct key holding exactly the rows with that key in '
               'original order; unlist(listby) = the stably sorted table at table level (key cells equal up to ==, literally equal rows when == keys are identical); '
               'ungroup(groupby) = a Permutation of the rows; every pivot cell = agg of the z of exactly the rows with that (x, y), None elsewhere (any x / z cells, '
               'NaN x keys included; y NaN-free); unpivot(pivot) recovers each (x, y label, z) row exactly once for unique (x, y) and z not None, as a Permutation '
               'when == keys are identical. The correspondence ties the model to /repo '
               'on every run, evaluated inside Coq')
TRUSTED = ['modelled, not verified: dictable construction / concat / dict_concat plumbing (column order is observed up to sorting), CPython sorted() is stable',
           'the theorems are about the Gallina model (M_group.v); its agreement with _dictable.py is what the correspondence checks']
ASSUMPTIONS = ['groupby: the name of the column of sub-tables (grp=, default \'grp\') is not the name of a KEY column - the key table cannot hold both, the unchanged code silently overwrites the key column (proposed repair: fixes/C11.patch raises ValueError); VALUE columns of that name are generated and must survive ungroup',
               '+-inf key cells are keys of their own (-inf, +inf and NaN are three different keys since fixes/C07-inf.patch) and are generated in the key pools',
               'datetime, pd.Timestamp and np.datetime64 cells of equal value are one key (generated in the dates columns)', 'ints are exact at any size (adjacent ints beyond 2^53, 10**30 and float(2**53) are in the key pools); cells are scalars; keys are grouped with cmp(...) == 0 as /repo does since 9228ab2 (any two NaN are one key)', 'key columns are distinct existing names',
               'pivot: y values are strings, ints or half-integer floats whose labels do not collide with x column names or each other; unpivot is not observed for float y; table non-empty']
EXHAUSTIVE = {'quick': False, 'thorough': False}

# ------------------------------------------------------------------ Coq side
LANES = 6
COQ_PRELUDE = ''.join('Definition run_%s_b%d := run_%s.\n' % (k, i, k) for k in ('listby', 'groupby') for i in range(LANES)) + \
    ''.join('Definition run_%s2 {A} (c : (table * A) * (table * A)) : J := JL [run_%s (fst c); run_%s (snd c)].\n'.replace('{A}', '') .replace('A', ty) % (k, k, k)
            for k, ty in (('listby', '(list colname)'), ('groupby', '(list colname)'), ('pivot', '(list colname * colname * colname * agg)'), ('pivot_only', '(list colname * colname * colname * agg)')))
def coq_runner(case):
    k = case['kind']
    if k == 'seq':
        return coq_runner(dict(case, kind=case['op'])) + '2'
    if k == 'pivot':
        return 'run_pivot_only' if case.get('nounpivot') else 'run_pivot_sub' if case.get('ysub') else 'run_pivot'
    if 'lane' in case:                       # large tables go to their own cases files so that they are evaluated in parallel
        return 'run_%s_b%d' % (k, case['lane'] % LANES)
    return 'run_' + k

AGG = {None: 'ANone', 'last': 'ALast', 'first': 'AFirst', 'len': 'ALen', 'sum': 'ASum'}
def coq_case(case):
    if case['kind'] == 'seq':
        return '(%s, %s)' % (coq_case(dict(case, kind=case['op'])), coq_case(dict(case, kind=case['op'], cols=seq_after(case))))
    t = V.coq_table(case['cols'])
    if case['kind'] == 'pivot' and case.get('ysub') and not case.get('nounpivot'):
        return '(%s, ([%s], %s, %s, %s), [%s])' % (t, '; '.join(V.coq_name(c) for c in case['x']), V.coq_name(case['y']), V.coq_name(case['z']), AGG[case['agg']], '; '.join(V.coq_name(c) for c in case['ysub']))
    if case['kind'] == 'pivot':
        return '(%s, ([%s], %s, %s, %s))' % (t, '; '.join(V.coq_name(c) for c in case['x']), V.coq_name(case['y']), V.coq_name(case['z']), AGG[case['agg']])
    return '(%s, [%s])' % (t, '; '.join(V.coq_name(c) for c in case['by']))

# ------------------------------------------------------------------ implementation side + oracle
def impl_setup():
    global cmp, dictable, last, first
    V.impl_setup()
    from pyg_base import cmp, dictable, last, first

def ctable(t, nans):
    """canonical table, columns in name order"""
    return sorted([[str(c), [V.canon(x, nans) for x in t[c]]] for c in t.keys()])

def same(a, b):
    # keys are grouped with cmp(...) == 0 (since /repo 9228ab2): == on scalars, and any two NaN are one key
    return a is b or a == b or (isinstance(a, float) and isinstance(b, float) and a != a and b != b)
def key_same(a, b):
    return len(a) == len(b) and all(same(x, y) for x, y in zip(a, b))
def ceq(x, nans):
    """canonical token up to python == (1 and 1.0 coincide)"""
    c = V.canon(x, nans)
    if c is not None and c[0] in ('i', 'f'):
        return ['n', 2 * c[1] if c[0] == 'i' else c[1]]
    if c is not None and c[0] == 'nan':
        return ['nan']                  # any two NaN are one key
    return c

def stable_rows(t, cols, by, n):
    keys = [tuple(t[c][i] for c in by) for i in range(n)]
    return keys, sorted(range(n), key=functools.cmp_to_key(lambda i, j: cmp(keys[i], keys[j])))

def seq_after(case):
    return [[c, (case['assign']['cells'] if c == case['assign']['col'] else cells)] for c, cells in case['cols']]

def impl_seq(case):
    """ONE table object: op, op again, an in-place re-assignment of a column, op, op again.  Every result is judged against the table as it is NOW"""
    nans = {}
    t = V.make_table(case['cols'], nans)
    f = {'listby': impl_listby, 'groupby': impl_groupby, 'pivot': impl_pivot}[case['op']]
    def run(c):
        cols = [x for x, _ in c['cols']]
        before = ctable(t, nans)
        r = f(c, t, cols, len(t), nans)
        if r['viol'] is None and ctable(t, nans) != before:
            r['viol'] = '%s modified its input table' % case['op']
        return r
    c1 = dict(case, kind=case['op'])
    r1 = run(c1); r1b = run(c1)
    a = case['assign']; new = [V.build(x, nans) for x in a['cells']]
    if a['how'] == 'attr': setattr(t, a['col'], new)
    else: t[a['col']] = new
    c2 = dict(c1, cols=seq_after(case))
    exp = ctable(V.make_table(c2['cols'], {}), {})
    r2 = run(c2); r2b = run(c2)
    viol = r1['viol'] or r2['viol']
    if viol is None and (r1b['obs'] != r1['obs'] or r2b['obs'] != r2['obs'] or r1b['viol'] or r2b['viol']):
        viol = '%s called twice on the same unchanged table gave different results: %s then %s' % (case['op'], (r1['obs'], r2['obs']), (r1b['obs'], r2b['obs']))
    if viol is not None and viol is r2['viol']:
        viol = 'after the in-place assignment of column %s: %s' % (a['col'], viol)
    return {'status': 'ok', 'obs': [r1['obs'], r2['obs']], 'viol': viol}

def impl(case):
    if case['kind'] == 'seq':
        return impl_seq(case)
    nans = {}
    t = V.make_table(case['cols'], nans)
    cols = [c for c, _ in case['cols']]; n = len(t)
    before = ctable(t, nans)
    k = case['kind']
    if k == 'listby':
        r = impl_listby(case, t, cols, n, nans)
    elif k == 'groupby':
        r = impl_groupby(case, t, cols, n, nans)
    else:
        r = impl_pivot(case, t, cols, n, nans)
    if r['viol'] is None and ctable(t, nans) != before:
        r['viol'] = '%s modified its input table' % k
    return r

def impl_listby(case, t, cols, n, nans):
    by = case['by']
    st, L = call(lambda: t.listby(list(by)) if case.get('bylist') else t.listby(*by))            # keys as arguments or as one list
    if not by: by = cols                                             # listby() groups on all columns
    if st != 'ok':
        return {'status': st, 'obs': ['ERR', st], 'viol': 'listby raised %s on %s' % (st, json.dumps(case)[:300])}
    st2, U = call(lambda: L.unlist())
    obs = [ctable(L, nans), ctable(U, nans) if st2 == 'ok' else ['ERR', st2]]
    if n == 0:
        return {'status': 'ok', 'obs': obs, 'viol': None if len(L) == 0 and st2 == 'ok' and len(U) == 0 else 'listby of an empty table is not empty'}
    viol = None
    other = [c for c in cols if c not in by]
    keys, idx = stable_rows(t, cols, by, n)
    m = len(L)
    if sorted(L.keys()) != sorted(cols):
        viol = 'listby changed the columns: %s' % list(L.keys())
    else:
        lkeys = [tuple(L[c][g] for c in by) for g in range(m)]
        for g in range(m):
            for h in range(g):
                if key_same(lkeys[g], lkeys[h]) and viol is None:
                    viol = 'listby has two rows for the key %r' % (lkeys[g],)
        for i in range(n):
            if not any(key_same(keys[i], lk) for lk in lkeys) and viol is None:
                viol = 'listby lost the key %r' % (keys[i],)
        for g in range(m):
            members = [i for i in range(n) if key_same(keys[i], lkeys[g])]
            for c in other:
                exp = [V.canon(t[c][i], nans) for i in members]
                got = L[c][g]
                if (not isinstance(got, list) or [V.canon(x, nans) for x in got] != exp) and viol is None:
                    viol = 'listby cell %s of key %r is %r, the values of that key in original order are %r' % (c, lkeys[g], got, [t[c][i] for i in members])
    if viol is None and not other:
        # every column is a key (outside the property's "proper subset"): nothing to spread, unlist must leave the distinct rows alone
        if st2 != 'ok' or ctable(U, nans) != ctable(L, nans):
            viol = 'unlist of a listby on all columns changed it'
    elif viol is None:
        if st2 != 'ok':
            viol = 'unlist raised %s' % st2
        elif sorted(U.keys()) != sorted(cols) or len(U) != n:
            viol = 'unlist(listby) has shape %s x %s, the original %s x %s' % (len(U), list(U.keys()), n, cols)
        else:
            for p, i in enumerate(idx):
                for c in cols:
                    a, b = U[c][p], t[c][i]
                    ok = (ceq(a, nans) == ceq(b, nans)) if c in by else (V.canon(a, nans) == V.canon(b, nans))
                    if not ok and viol is None:
                        viol = 'unlist(listby(%s)) row %d column %s is %r; the table stably sorted by the keys has %r there' % (by, p, c, a, b)
    return {'status': 'ok', 'obs': obs, 'viol': viol}

def impl_groupby(case, t, cols, n, nans):
    by = case['by']
    grp = case.get('grp', 'grp')                                     # name of the column of sub-tables
    kw = {} if grp == 'grp' else {'grp': grp}
    st, G = call(lambda: t.groupby(list(by), **kw) if case.get('bylist') else t.groupby(*by, **kw))
    allkeys = len(set(by)) == len(cols) or len(by) == 0
    if st != 'ok':
        ok = st == 'ValueError' and allkeys and n > 0
        return {'status': st, 'obs': ['ERR', st], 'viol': None if ok else 'groupby raised %s on %s' % (st, json.dumps(case)[:300])}
    if n == 0:
        c = ctable(G, nans)
        return {'status': 'ok', 'obs': [c, [], c], 'viol': None if len(G) == 0 else 'groupby of an empty table is not empty'}
    if grp not in G.keys():
        return {'status': 'ok', 'obs': ['ERR', 'nogrp'], 'viol': 'groupby returned no grp column'}
    subs = list(G[grp])
    msg2 = ''
    try:
        st2, UG = 'ok', (G.ungroup() if grp == 'grp' else G.ungroup(grp))
    except Exception as e:
        st2, UG, msg2 = err_name(e), None, ': ' + str(e)[:100]
    # the key table, column by column (G[[...]] is not used: on /repo d[['columns']] loses a column called 'columns')
    KT = sorted([[str(c), [V.canon(v, nans) for v in G[c]]] for c in by])
    obs = [KT, [ctable(s, nans) for s in subs], ctable(UG, nans) if st2 == 'ok' else ['ERR', st2]]
    viol = None
    other = [c for c in cols if c not in by]
    keys = [tuple(t[c][i] for c in by) for i in range(n)]
    gkeys = [tuple(G[c][g] for c in by) for g in range(len(G))]
    sizes = [len(s) for s in subs]
    if sum(sizes) != n:
        viol = 'group sizes %s do not add up to len = %d' % (sizes, n)
    for g in range(len(G)):
        for h in range(g):
            if key_same(gkeys[g], gkeys[h]) and viol is None:
                viol = 'groupby has two groups for the key %r' % (gkeys[g],)
        members = [i for i in range(n) if key_same(keys[i], gkeys[g])]
        if viol is None and (sorted(subs[g].keys()) != sorted(other) or
                             [[V.canon(subs[g][c][p], nans) for c in other] for p in range(len(subs[g]))] != [[V.canon(t[c][i], nans) for c in other] for i in members]):
            viol = 'group of key %r is %r, the rows with that key are %r' % (gkeys[g], dict(subs[g]), [[t[c][i] for c in other] for i in members])
    if viol is None:
        if st2 != 'ok':
            viol = 'ungroup raised %s%s' % (st2, msg2)
        elif sorted(UG.keys()) != sorted(cols) or len(UG) != n:
            viol = 'ungroup(groupby) has shape %s x %s, the original %s x %s' % (len(UG), list(UG.keys()), n, cols)
        else:
            rows = lambda d: sorted(json.dumps([ceq(d[c][i], nans) if c in by else V.canon(d[c][i], nans) for c in cols]) for i in range(n))
            if rows(UG) != rows(t):
                viol = 'ungroup(groupby(%s)) is not the original multiset of rows: %s vs %s' % (by, dict(UG), dict(t))
    return {'status': 'ok', 'obs': obs, 'viol': viol}

def py_agg(a):
    return {None: None, 'last': last, 'first': first, 'len': len, 'sum': sum}[a]
def label(y):
    return str(y) if isinstance(y, int) else y

def impl_pivot(case, t, cols, n, nans):
    x, y, z, a = case['x'], case['y'], case['z'], case['agg']
    xarg = list(x) if (len(x) > 1 or case.get('xlist')) else x[0]          # x as a list of names or as one string
    f0 = py_agg(a)
    aggarg = [f0] if (case.get('agglist') and f0 is not None) else f0       # agg as a callable or a list of callables
    st, P = call(lambda: (t.pivot if case.get('alias') else t.xyz)(xarg, y, z, aggarg))
    if st != 'ok':
        return {'status': st, 'obs': ['ERR', st], 'viol': 'xyz raised %s on %s' % (st, json.dumps(case)[:300])}
    if case.get('nounpivot'):
        st2, UP = 'skip', None
        obs = [ctable(P, nans)]
    else:
        ysub = case.get('ysub')                            # unpivot(x, {y: [labels]}, z): only these label columns, in this order
        st2, UP = call(lambda: P.unpivot(xarg, {y: list(ysub)} if ysub else y, z))
        obs = [ctable(P, nans), ctable(UP, nans) if st2 == 'ok' else ['ERR', st2]]
    viol = None
    xkeys = [tuple(t[c][i] for c in x) for i in range(n)]
    labels = []
    for i in range(n):
        if label(t[y][i]) not in labels: labels.append(label(t[y][i]))
    pk = [tuple(P[c][r] for c in x) for r in range(len(P))]
    f = py_agg(a)
    if sorted(map(str, P.keys())) != sorted(map(str, x + labels)):
        viol = 'pivot columns are %s, expected the x columns and one column per y value %s' % (list(P.keys()), labels)
    for r in range(len(P)):
        for h in range(r):
            if key_same(pk[r], pk[h]) and viol is None:
                viol = 'pivot has two rows for the x key %r' % (pk[r],)
    expected_triples = []
    if viol is None:
        for i in range(n):
            if not any(key_same(xkeys[i], k) for k in pk) and viol is None:
                viol = 'pivot lost the x key %r' % (xkeys[i],)
        for r in range(len(P)):
            for lb in labels:
                members = [i for i in range(n) if key_same(xkeys[i], pk[r]) and label(t[y][i]) == lb]
                got = P[lb][r]
                if members:
                    zs = [t[z][i] for i in members]
                    exp = f(zs) if f else zs
                    okc = V.canon(got, nans) == V.canon(exp, nans)
                    if exp is not None and (not case.get('ysub') or case.get('nounpivot') or lb in case['ysub']):
                        expected_triples.append(json.dumps([[ceq(v, nans) for v in pk[r]], lb, V.canon(exp, nans)]))
                else:
                    exp = None; okc = got is None
                if not okc and viol is None:
                    viol = 'pivot cell (x=%r, y=%r) is %r, expected %r' % (pk[r], lb, got, exp)
    if viol is None and st2 != 'skip':
        if st2 != 'ok':
            viol = 'unpivot raised %s' % st2
        else:
            got = sorted(json.dumps([[ceq(UP[c][i], nans) for c in x], UP[y][i], V.canon(UP[z][i], nans)]) for i in range(len(UP)) if UP[z][i] is not None)
            if got != sorted(expected_triples):
                viol = 'unpivot minus None cells gives %s, the (x, y label, cell) triples are %s' % (got, sorted(expected_triples))
    return {'status': 'ok', 'obs': obs, 'viol': viol}

def nontrivial(case, result):
    if case['kind'] == 'seq':
        return True
    cols = dict((c, cells) for c, cells in case['cols'])
    n = len(case['cols'][0][1]) if case['cols'] else 0
    if n < 2 or result.get('status') != 'ok':
        return False
    by = case['by'] if case['kind'] != 'pivot' else case['x'] + [case['y']]
    keys = [json.dumps([cols[c][i] for c in by]) for i in range(n)]
    return len(set(keys)) < n or keys != sorted(keys)

def shape(case):
    k = case['kind']
    if k == 'seq':
        return 'seq:%s:%s:%s' % (case['op'], 'key' if case['assign']['col'] in (case.get('by') or list(case.get('x', [])) + [case.get('y')]) else 'value', case['assign']['how'])
    if k == 'pivot':
        return 'pivot:x%d%s:%s%s' % (len(case['x']), 'list' if case.get('xlist') else '', case['agg'], (':floaty' if case.get('nounpivot') else ':ysub' if case.get('ysub') else '') + (':big' if case.get('big') else ''))
    return '%s:by%d/%d%s%s' % (k, len(case['by']), len(case['cols']), ':list' if case.get('bylist') else '', ':big' if 'lane' in case else '')

# ------------------------------------------------------------------ generation
def share_nan(cells):
    return [['nan', 0] if (v is not None and v[0] == 'nan') else v for v in cells]


XNAMES = ['name', 'date', 'key1', 'columns', 'data', 'self', '_columns']      # '_columns' is the name xyz gives the y column internally when y is not a string
YSUB = ['am', 'e', 'a', 'at', 'nam', 'te', 'ey', 'col', 'um']             # substrings of the x column names (an unpivot that tests `label in x` on a string drops them)
def rand_pivot(rng, tier):
    q = tier == 'quick'
    x = rng.sample(XNAMES, rng.choice([1, 1, 1, 2]))
    # x / y / z / value columns may also be called like the constructor's parameters or `self` (y = 'columns' raised KeyError before /repo 1210486)
    yn = rng.choice(['yy', 'yy', 'yy', 'data', 'columns', 'self', '_columns']); zn = rng.choice(['zz', 'zz', 'zz', 'columns', 'data', 'self'])
    if yn in x or yn == zn: yn = 'yy'
    if zn in x: zn = 'zz'
    wn = rng.choice(['w', 'columns', 'data'])
    names = list(x) + [yn, zn] + ([wn] if rng.random() < 0.3 and wn not in list(x) + [yn, zn] else [])
    rng.shuffle(names)
    n = rng.choice([1, 2, 3, 4, 5, 6, 8] if q else [1, 2, 3, 4, 6, 8, 10, 12])
    agg = rng.choice([None, 'last', 'last', 'first', 'len', 'sum'])
    ymode = rng.choice(['s', 'subs', 'subs', 'i', 'multi', 'multi', 'neg', 'half', 'mixed', 'mixed'])
    dense = rng.random() < 0.3                                   # few (x, y) cells, many rows in each
    if dense: n = rng.choice([5, 6, 8] if q else [6, 8, 12])
    def ycell():
        if ymode == 's': return ['s', rng.choice('pqr')]
        if ymode == 'subs': return ['s', rng.choice(YSUB)]
        if ymode == 'i': return ['i', rng.randrange(0, 4)]                      # '1' is a substring of 'key1'
        if ymode == 'multi': return ['i', rng.choice([1, 2, 9, 10, 11, 100])]   # numeric order differs from the order of the labels as strings
        if ymode == 'neg': return ['i', rng.choice([-11, -2, -1, 0, 3, 10])]
        if ymode == 'half': return rng.choice([['f', 5], ['f', 21], ['f', -5], ['f', 3], ['f', 201], ['i', 2], ['i', 10]])   # 2.5, 10.5, -2.5, 1.5, 100.5
        return rng.choice([['s', rng.choice(YSUB + ['p', 'q'])], ['i', rng.choice([1, 2, 10, -3])]])
    cols = []
    for c in names:
        if c == yn:
            cells = [ycell() for _ in range(n)]
            if dense: cells = [rng.choice(cells[:2]) for _ in range(n)]
        elif c == zn:
            cells = V.rand_column(rng, n, 'ints' if agg == 'sum' else rng.choice(['ints', 'mixed', 'nums', 'strs', 'none']))[1]
        elif c in x:
            cells = V.rand_column(rng, n, 'bin' if dense else rng.choice(['ints', 'ints', 'nums', 'strs', 'mixed', 'numsnan', 'huge', 'aware', 'dates']))[1]
        else:
            cells = V.rand_column(rng, n)[1]
        cols.append([c, cells])
    case = {'kind': 'pivot', 'cols': cols, 'x': x, 'y': yn, 'z': zn, 'agg': agg}
    if len(x) == 1 and rng.random() < 0.4:
        case['xlist'] = True
    if rng.random() < 0.25: case['agglist'] = True
    if rng.random() < 0.3: case['alias'] = True
    if any(v[0] == 'f' for v in dict(cols)[yn]):
        case['nounpivot'] = True
    elif rng.random() < 0.2:
        labels = []
        for v in dict(cols)[yn]:
            lb = v[1] if v[0] == 's' else str(v[1])
            if lb not in labels: labels.append(lb)
        k = rng.randrange(1, len(labels) + 1)
        case['ysub'] = rng.sample(labels, k)             # a float y stays a float column key; unpivot would return the float, not its label
    return case

def rand_big(rng, kind, lane):
    n = rng.randrange(101, 401)
    variant = rng.choice(['int1', 'int1', 'int2', 'mixed', 'mixed2'])
    a = [['i', rng.randrange(0, 5)] for _ in range(n)]
    if variant.startswith('mixed'):
        a = [rng.choice([None, ['s', 'x'], ['f', 2 * v[1]]]) if rng.random() < 0.15 else v for v in a]
    cols = [['a', a], ['v', [['i', i] for i in range(n)]]]
    by = ['a']
    if variant in ('int2', 'mixed2'):
        cols.insert(1, ['b', [['i', rng.randrange(0, 3)] for _ in range(n)]]); by = rng.choice([['a', 'b'], ['b', 'a']])
    if rng.random() < 0.3:
        cols.append(['w', [['s', rng.choice('pq')] for _ in range(n)]])
    return {'kind': kind, 'cols': cols, 'by': by, 'lane': lane}

def gen_cases(rng, tier):
    q = tier == 'quick'
    cases = []
    for kind, cnt in (('listby', 700 if q else 9000), ('groupby', 700 if q else 9000)):
        for _ in range(cnt):
            cols, modes, n = V.rand_table(rng, tier, 8 if q else 12)
            names = [c for c, _ in cols]
            r = rng.random()
            if kind == 'groupby' and r < 0.04:
                by = list(names)                                    # all columns: ValueError
            else:
                by = rng.sample(names, rng.randrange(1, len(names)))
            if r > 0.97 and n > 0:
                by = []                                             # no keys given: all columns (listby: distinct rows; groupby: ValueError)
            if rng.random() < 0.08 and 'self' not in names:      # a column literally named `self` (as a key: known finding for ungroup)
                o = rng.choice(names)
                cols = [['self' if x == o else x, cells] for x, cells in cols]; by = ['self' if x == o else x for x in by]
                names = [x for x, _ in cols]
            c = {'kind': kind, 'cols': cols, 'by': by}
            if by and rng.random() < 0.2: c['bylist'] = True
            if kind == 'groupby' and rng.random() < 0.2: c['grp'] = 'g2'
            other = [x for x in names if x not in by]
            if kind == 'groupby' and other and rng.random() < 0.25:
                # a VALUE column named like the column of sub-tables: 'grp' with the default, or the name passed as grp=
                g = rng.choice(['grp', 'grp', 'sub', 'g2'])
                if g not in names:
                    o = rng.choice(other)
                    c['cols'] = [[g if x == o else x, cells] for x, cells in cols]
                    if g != 'grp': c['grp'] = g
                    elif 'grp' in c: del c['grp']
            cases.append(c)
    for _ in range(800 if q else 9000):
        cases.append(rand_pivot(rng, tier))
    for i in range(12 if q else 60):                      # large tables: more than 100 rows, few keys, heavy duplication
        cases.append(rand_big(rng, 'listby', i))
        cases.append(rand_big(rng, 'groupby', i))
    for _ in range(360 if q else 3600):                   # sequences on ONE table object with an in-place column assignment in between
        op = rng.choice(['listby', 'groupby', 'pivot'])
        if op == 'pivot':
            base = rand_pivot(rng, tier); keys = list(base['x']) + [base['y']]
        else:
            cols, modes, n = V.rand_table(rng, tier, 8)
            names = [c for c, _ in cols]
            if n == 0: cols = [[c, [['i', 1], ['i', 0]]] for c in names]
            base = {'kind': op, 'cols': cols, 'by': rng.sample(names, rng.randrange(1, len(names)))}; keys = base['by']
        names = [c for c, _ in base['cols']]; n = len(base['cols'][0][1])
        col = rng.choice(keys) if rng.random() < 0.7 else rng.choice(names)
        old = dict((c, cells) for c, cells in base['cols'])[col]
        r = rng.random()
        if op == 'pivot' and col == base['y']: new = [rng.choice(old + [['s', 'p'], ['s', 'q']]) for _ in range(n)]      # y values stay valid labels
        elif op == 'pivot' and col == base['z'] and base['agg'] == 'sum': new = [['i', rng.randrange(0, 4)] for _ in range(n)]
        elif r < 0.4: new = list(old); rng.shuffle(new)                      # same values, other rows
        elif r < 0.7: new = [rng.choice(old) for _ in range(n)]
        else: new = V.rand_column(rng, n, rng.choice(['ints', 'bin', 'strs', 'mixed', 'nums']))[1]
        if op == 'pivot' and any(v is not None and v[0] == 'f' for v in (new if col == base['y'] else dict((c, cells) for c, cells in base['cols'])[base['y']])):
            base['nounpivot'] = True
        how = 'attr' if (col.isidentifier() and not col.startswith('_') and not hasattr(dict, col) and col not in ('columns', 'shape', 'self') and rng.random() < 0.4) else 'item'
        case = dict(base, kind='seq', op=op, assign={'col': col, 'cells': new, 'how': how})
        case.pop('lane', None); case.pop('ysub', None)
        cases.append(case)
    for i in range(6 if q else 30):                       # large pivots: few x keys and y labels, many rows per cell
        n = rng.randrange(101, 251)
        cols = [['name', [['i', rng.randrange(0, 4)] for _ in range(n)]], ['yy', [rng.choice([['s', 'am'], ['s', 'p'], ['i', 10], ['i', 9]]) for _ in range(n)]],
                ['zz', [['i', j] for j in range(n)]]]
        cases.append({'kind': 'pivot', 'cols': cols, 'x': ['name'], 'y': 'yy', 'z': 'zz', 'agg': rng.choice([None, 'last', 'first', 'len', 'sum']), 'big': True})
    return cases

def shrink(case):
    cols = case['cols']; n = len(cols[0][1]) if cols else 0
    if case['kind'] == 'seq':                           # drop the same row from the table and from the assigned column
        a = case['assign']
        for i in range(n if n > 1 else 0):
            yield dict(case, cols=[[c, cells[:i] + cells[i + 1:]] for c, cells in cols], assign=dict(a, cells=a['cells'][:i] + a['cells'][i + 1:]))
        used = set(case.get('by', [])) | set(case.get('x', [])) | {case.get('y'), case.get('z'), a['col']}
        for j, (c, _) in enumerate(cols):
            if c not in used and len(cols) - 1 > len(case.get('by', [])):
                yield dict(case, cols=cols[:j] + cols[j + 1:])
        return
    size = n // 2
    while size >= 2:                                   # drop blocks of rows first (large tables), then single rows
        for i in range(0, n, size):
            yield dict(case, cols=[[c, cells[:i] + cells[i + size:]] for c, cells in cols])
        size //= 2
        if n > 60 and size < n // 8: break        # large tables: coarse blocks only (every candidate is a fresh run of the implementation)
    for i in range(n if n <= 60 else 0):
        if n > 1 or case['kind'] != 'pivot':
            yield dict(case, cols=[[c, cells[:i] + cells[i + 1:]] for c, cells in cols])
    used = set(case.get('by', [])) | set(case.get('x', [])) | {case.get('y'), case.get('z')}
    for j, (c, _) in enumerate(cols):
        if c not in used and len(cols) - 1 > len(case.get('by', [])):
            yield dict(case, cols=cols[:j] + cols[j + 1:])
    if len(case.get('by', [])) > 1:
        for j in range(len(case['by'])):
            yield dict(case, by=case['by'][:j] + case['by'][j + 1:])

LEVEL_TEXT = ('machine-checked Coq theorems (C11_*, for every table, every key choice, no bound) about the executable model: _listby partitions the stably sorted '
              'row indices into one group per distinct key, each holding EXACTLY the rows whose key compares 0 with the group key, in original order '
              '(C11_listby_one_row_per_key); unlist(listby(keys)) is, at table level, the stably sorted table with key cells replaced by an == representative, '
              'and literally map (row T) idx when == keys are identical (C11_unlist_listby); group sizes sum to len (C11_groupby_sizes_sum); '
              'ungroup(groupby(keys)) holds the rows of the table at a permutation of the indices, a Permutation of rows when == keys are identical '
              '(C11_ungroup_groupby); every pivot cell is agg of the z values of exactly the rows with that (x key, y value) in original order and None '
              'where no row exists, every row has its cell - for ANY x and z cells, NaN objects of different identity in x being one key (C11_pivot_cell); '
              'for unique (x, y) and z not None, unpivot(pivot) lists each (x, y label, z) row of the table exactly once next to None rows '
              '(C11_unpivot_pivot), and its rows with z not None are a Permutation of the (x, y label, z) rows when == keys are identical and labels '
              'distinct (C11_unpivot_pivot_perm). The model is compared with /repo inside Coq on thousands of tables on every run')
LEVEL_NOTE = ('the only cell hypothesis of the pivot theorems is that the y cells are NaN-free scalars (xyz looks y up in a dict by ==/hash; a NaN y raises '
              'KeyError in the code) - x and z cells are arbitrary, NaN x keys included; unpivot: y labels do not collide with x column names, agg last/first; '
              'the theorems are about the Gallina model, tied to _dictable.py by the correspondence; sorting follows the repaired sort of C07; '
              'trusted: Coq kernel/vm_compute, dictable construction plumbing')
TECHNIQUE = 'Coq proof (induction over the run-length grouping of a stably sorted index list) + differential correspondence in vm_compute + property oracle on the real outputs'
