"""C16 — ulist, dictattr and Dict implement ordered set / key algebra without side effects."""
import itertools, json
from implutil import err_name

ID = 'C16'
TRANSLATOR = []
COQ_EXEC = ['exec.X_keys']
COQ_IMPORTS = 'From PB Require Import model.M_keys.\n'
COQ_PRELUDE = ''
PER_FILE = 150
CASE_TIMEOUT = 10
RULE = ('three streams. ulist: raw lists (len 0-7, repeats likely) over a pool of hashables with ==-collisions (1, 1.0, True; tuples; None; strings) '
        'x op in {init,+,|,-,&} x other = element or list, on ulist and a user subclass. dict: every class in {dictattr, Dict, user subclass of each} '
        'x op in {-, &, [list], [tuple], .attr, +, |, relabel, keys(), keys() -/&/+} x key selections present/absent/mixed/repeated/empty in every accepted '
        'spelling (str, list, tuple, None) x other operand of every mapping class. call: Dict(**base)(**kw) for EVERY loop-free dependency graph on <= 4 '
        'derived keys up to renaming (1+1+3+16+218 graphs) in EVERY keyword order, plus sampled graphs on 5 and 6 keys in all 120 / 720 orders, self-loops, '
        'references to base keys / constants / the implicit key parameter, mapping entries / constants / derived keys named like the names the implementation injects or uses '
        'internally (key, value, args, kwargs, function, res, callables, keys, cls), and a malformed stream with missing arguments; callables are free terms '
        '[k, arg1, ...] so any change of evaluation order or argument is visible. Compared in Coq: result (class, ordered items / values / error), the operand '
        'and the other operand after the call. The oracle recomputes the result from the property text with plain list/dict code and checks class, value identity '
        'and operand immutability. Also: elements of further kinds (inf, 0.5, bytes, frozenset, 10**20), lists of 100-300 elements, constructor given a tuple / generator, ulist operands; '
        'key names that are dict attribute names / private-looking / Python keywords / non-identifiers / implementation names, mappings of 120 keys with selections '
        'of 101, selections spelled as ulist / dict_keys / 1-tuple, rename alias, str.upper relabel, Dict.__call__ on a 150-entry mapping. non-trivial = repeats or overlap (ulist), mixed / absent / repeated selection or overlapping update (dict), >= 2 callables '
        'with >= 1 edge (call); distinct by full input')
EXPLANATION = ('theorems C16_* (coq/props/C16.v) hold for all lists over any type with a decidable equivalence, all ordered string-keyed mappings and all '
               'dependency graphs with arbitrary callables, every keyword permutation, no size bound; the correspondence ties the models in M_keys.v to '
               '_ulist.py / _dictattr.py / _dict.py on the exhaustive small scopes above')
TRUSTED = ['modelled, not verified: CPython dict (insertion-ordered map with in-place assignment), set iteration order (any permutation; proved irrelevant), '
           'copy.copy of a dict subclass (fresh object with the same items), inspect-based getargs (names of positional parameters)']
ASSUMPTIONS = ['elements are hashable; == is lawful except for NaN objects, which are covered through identity (a NaN object is a member of what holds it)', 'mapping keys are str; a key containing a dot is generated only as a present top-level key or with no key equal to a prefix of it (the dotted-path convention reaches into branches: C15); values are leaves (not dicts) except in tree_add',
               'callables passed to Dict.__call__ are plain functions with positional / defaulted / keyword-only parameters (no *args / **kwargs, no builtins or partials) and do not raise',
               "inherent name collisions of a dict subclass are outside the property: attribute access d.k for a key named like an attribute of dict / dictattr / Dict "
               "(keys, items, copy, ...) finds the method, and the KEYWORD spelling d.relabel(keys=...) / d.relabel(self=...) cannot name those two keys (the dict / affix / "
               "callable spellings can)",
               'operands of d - keys are a key or a list (ulist) of keys as the statement lists; a dict_keys view (dictattr(a=1) - dict(a=1).keys()) is taken for one unhashable key and raises TypeError']
EXHAUSTIVE = {'quick': False, 'thorough': False}
LEVEL_TEXT = ('machine-checked Coq theorems (C16_*) for all lists / mappings / dependency graphs and every keyword permutation, about executable models of '
              'ulist, dictattr and Dict.__call__; the models are compared with the real classes inside Coq on every loop-free dependency graph with <= 4 '
              'derived keys in every keyword order and on thousands of generated operator cases')
LEVEL_NOTE = ('trusted: Coq kernel/vm_compute; modelled not verified: CPython dict/set/copy semantics. Known findings: Dict + <instance of a dict subclass other '
              "than dict/dictattr/Dict> raises ValueError (tree_update recognises branches by exact type); a mapping entry or keyword literally named 'self' makes "
              'Dict.__call__ raise TypeError (theorems assume self_free; Coq: C16_call_self_named_key_refuted). a subclass with its own __init__ signature has its constructor re-run by &, d[[...]], | and relabel (KNOWN FINDING c16_subclass_constructor_rerun; theorems about the core operators + C16_entry_points). Assumed away (see ASSUMPTIONS): attribute access for keys named like dict '
              'attributes, relabel(keys=...)/relabel(self=...) in the keyword spelling, a dict_keys operand of d - keys')
TECHNIQUE = 'Coq proof (induction, invariant over the round loop, uniqueness of solutions of an acyclic equation system) + differential correspondence in vm_compute'

INCLUDE_SUBCLASS_OTHER = True     # generate Dict-family + user-subclass operands (the known finding class)

# ------------------------------------------------------------------ element coding (ulist)
# further hashables, each equal only to itself (HOther t in the model)
import decimal
# 20-22: NaN OBJECTS (one shared float nan, a second float nan object, one Decimal nan): not == to themselves, but Python containers
# test identity first (x is y or x == y), so each object is a member of what holds it and the model's "equal only to itself" is exact
OTHERS = {1: float('inf'), 2: float('-inf'), 3: 0.5, 4: -1.5, 5: b'a', 6: frozenset({1}), 7: b'', 8: frozenset(),
          20: float('nan'), 21: float('nan'), 22: decimal.Decimal('nan')}
def eqm(x, y):
    """membership equality of Python containers"""
    return x is y or x == y

def dec(e):
    if isinstance(e, dict):
        if 'o' in e: return OTHERS[e['o']]
        if 'f' in e: return float(e['f'])
        if 'b' in e: return bool(e['b'])
        if 't' in e: return tuple(dec(x) for x in e['t'])
    return e

def canon(x):
    if x is None or isinstance(x, str): return x
    if isinstance(x, bool): return ['b', int(x)]
    if isinstance(x, int): return x
    for t, o in OTHERS.items():
        if o is x or (type(o) is type(x) and o == x): return ['o', t]
    if isinstance(x, float): return ['f', int(x)]
    if isinstance(x, tuple): return ['t'] + [canon(y) for y in x]
    raise TypeError(x)

def coq_str(s):
    return '"' + s.replace('"', '""') + '"'
def coq_hv(e):
    if e is None: return 'HNone'
    if isinstance(e, str): return '(HStr %s)' % coq_str(e)
    if isinstance(e, int): return '(HInt (%d))' % e
    if 'o' in e: return '(HOther (%d))' % e['o']
    if 'f' in e: return '(HFloat (%d))' % e['f']
    if 'b' in e: return '(HBool %s)' % ('true' if e['b'] else 'false')
    return '(HTup [%s])' % '; '.join(coq_hv(x) for x in e['t'])
def coq_strs(l):
    return '[' + '; '.join(coq_str(s) for s in l) + ']'
def coq_items(items):
    return '[' + '; '.join('(%s, (%d))' % (coq_str(k), v) for k, v in items) + ']'
CLS = {'dict': 'CPlain', 'dictattr': 'CDictattr', 'Dict': 'CDict', 'UA': 'CUserA', 'UD': 'CUserD', 'PT': 'CPoint', 'KO': 'CKwInit'}
def coq_tr(t):
    """a nested mapping: int leaf or {'cls': .., 'items': [[k, sub], ...]}"""
    if isinstance(t, int): return '(TLeaf (%d))' % t
    return '(TNode %s [%s])' % (CLS[t['cls']], '; '.join('(%s, %s)' % (coq_str(k), coq_tr(v)) for k, v in t['items']))

def coq_fun(v):
    """a callable: parameter names in order, each with its default if it has one (positional and keyword-only alike)"""
    d = v.get('d', {})
    return '(KFun [%s])' % '; '.join('(%s, %s)' % (coq_str(x), 'Some (%d)' % d[x] if x in d else 'None') for x in v['f'])

def coq_runner(case):
    k = case['kind']
    if k == 'ulist': return 'run_ulist'
    if k == 'dict': return 'run_dict'
    if k == 'tree_add': return 'run_tree_add'
    return 'run_call' if case.get('perms', 'all') == 'all' else 'run_call_one'

def coq_other(o, enc, eqb='hv_eqb'):
    if 'elem' in o: return '(OElem %s)' % enc(o['elem'])
    if 'ulist' in o: return '(OList (mk %s [%s]))' % (eqb, '; '.join(enc(x) for x in o['ulist']))      # the operand is itself a ulist
    return '(OList [%s])' % '; '.join(enc(x) for x in o['list'])
def coq_sel(case):
    """the selection as the list of keys the operator finally sees: a ulist / dict_keys operand arrives without repeats"""
    if case.get('form') in ('ulist', 'dict_keys'): return '(mk String.eqb %s)' % coq_strs(case['sel'])
    return coq_strs(case['sel'])

def coq_case(case):
    k = case['kind']
    if k == 'tree_add': return '(%s, %s)' % (coq_tr(case['d']), coq_tr(case['other']))
    if k == 'ulist':
        o = case.get('other') or {'list': []}
        return '(%s, [%s], %s)' % (coq_str(case['op']), '; '.join(coq_hv(e) for e in case['raw']), coq_other(o, coq_hv))
    if k == 'dict':
        op = case['op']
        if op in ('sub', 'and', 'getlist', 'gettuple'):
            t = '(%s %s)' % ({'sub': 'OpSub', 'and': 'OpAnd', 'getlist': 'OpGetList', 'gettuple': 'OpGetTuple'}[op], coq_sel(case))
        elif op == 'attr':
            t = '(OpAttr %s)' % coq_str(case['sel'][0])
        elif op in ('add', 'or'):
            t = '(%s %s %s)' % ('OpAdd' if op == 'add' else 'OpOr', CLS[case['other']['cls']], coq_items(case['other']['items']))
        elif op == 'relabel':
            a = case['arg']
            if 'none' in a: ra = 'RNone'
            elif 'affix' in a: ra = '(RAffix %s)' % coq_str(a['affix'])
            elif 'names' in a: ra = '(RNames %s)' % coq_strs(a['names'])
            elif 'double' in a: ra = 'RDouble'
            elif 'upper' in a: ra = 'RUpper'
            else: ra = '(RDict [%s])' % '; '.join('(%s, %s)' % (coq_str(o), coq_str(n)) for o, n in a['dict'])
            t = '(OpRelabel %s [%s])' % (ra, '; '.join('(%s, %s)' % (coq_str(o), coq_str(n)) for o, n in case['kw']))
        elif op == 'keys':
            t = 'OpKeys'
        else:
            sel = {'elem': case['sel'][0]} if case['form'] == 'str' else {'ulist': case['sel']} if case['form'] == 'ulist' else {'list': case['sel']}
            t = '(%s %s)' % ({'keys_sub': 'OpKeysSub', 'keys_and': 'OpKeysAnd', 'keys_add': 'OpKeysAdd'}[op], coq_other(sel, coq_str, 'String.eqb'))
        return '(%s, %s, %s)' % (CLS[case['cls']], coq_items(case['items']), t)
    kw = '[' + '; '.join('(%s, %s)' % (coq_str(k), '(KConst (%d))' % v['c'] if 'c' in v else coq_fun(v)) for k, v in case['kw']) + ']'
    return '(%s, %s, %s)' % (CLS[case['cls']], coq_items(case['base']), kw)

# ------------------------------------------------------------------ implementation side + oracle
def impl_setup():
    global ulist, dictattr, Dict, U2, UA, UD, CLASSES
    from pyg_base import ulist, dictattr, Dict
    class U2(ulist): pass
    class UA(dictattr): pass
    class UD(Dict): pass
    class PT(Dict):                         # user subclasses with their own __init__ signature: operations must not re-run it
        def __init__(self, x = 0, y = 0, **kw): super().__init__(x = x, y = y, **kw)
    class KO(dictattr):
        def __init__(self, *, name = 'n', **kw): super().__init__(name = name, **kw)
    CLASSES = {'dict': dict, 'dictattr': dictattr, 'Dict': Dict, 'UA': UA, 'UD': UD, 'ulist': ulist, 'U2': U2, 'PT': PT, 'KO': KO}

def same(a, b):
    """same Python value as passed: equal and of the same type, recursively"""
    return canon(a) == canon(b)

def first_occ(l):
    out = []
    for x in l:
        if not any(eqm(x, y) for y in out):
            out.append(x)
    return out

def impl_ulist(case):
    cls = CLASSES[case.get('cls', 'ulist')]
    raw = [dec(e) for e in case['raw']]
    raw0 = list(raw)
    src = case.get('src', 'list')
    u = cls(raw) if src == 'list' else cls(tuple(raw)) if src == 'tuple' else cls(x for x in raw)
    exp_u = first_occ(raw0)
    viol = None
    if type(u) is not cls: viol = 'constructor returned %s' % type(u).__name__
    elif len(u) != len(exp_u) or not all(a is b or same(a, b) for a, b in zip(u, exp_u)):
        viol = 'ulist(%r) = %r, first occurrences in order are %r' % (raw0, list(u), exp_u)
    op = case['op']
    if op == 'init':
        return {'status': 'ok', 'obs': [[canon(x) for x in u], [canon(x) for x in u]], 'viol': viol}
    o = case['other']
    other = dec(o['elem']) if 'elem' in o else ulist([dec(x) for x in o['ulist']]) if 'ulist' in o else [dec(x) for x in o['list']]
    ol = [other] if 'elem' in o else list(other)
    u0 = list(u)
    try:
        r = {'+': lambda: u + other, '|': lambda: u | other, '-': lambda: u - other, '&': lambda: u & other}[op]()
    except Exception as e:
        return {'status': err_name(e), 'obs': ['ERR', err_name(e)], 'viol': 'ulist %s raised %s' % (op, type(e).__name__)}
    if op in '+|': exp = u0 + [x for x in first_occ(ol) if not any(eqm(x, y) for y in u0)]
    elif op == '-': exp = [x for x in u0 if not any(eqm(x, y) for y in ol)]
    else: exp = [x for x in u0 if any(eqm(x, y) for y in ol)]
    if viol is None:
        if type(r) is not cls: viol = 'ulist %s returned a %s, not a %s' % (op, type(r).__name__, cls.__name__)
        elif list(r) != exp: viol = '%r %s %r = %r, expected %r' % (u0, op, other, list(r), exp)
        elif any(eqm(r[i], r[j]) for i in range(len(r)) for j in range(i)): viol = 'result %r has duplicates' % (list(r),)
        elif len(u) != len(u0) or not all(a is b for a, b in zip(u, u0)): viol = 'operand changed: %r -> %r' % (u0, list(u))
        elif 'elem' not in o and not (len(other) == len(ol) and all(a is b for a, b in zip(other, ol))): viol = 'other operand changed'
    return {'status': 'ok', 'obs': [[canon(x) for x in r], [canon(x) for x in u]], 'viol': viol}

class Leaf(list):
    """a leaf value with identity; observed as its integer"""
    pass
def mkmap(cls, items):
    d = cls.__new__(cls)                    # exactly these items, whatever the class constructor would add
    for k, v in items:
        dict.__setitem__(d, k, Leaf([v]))
    return d
def cv(v):
    """canonical form of whatever a (possibly broken) implementation left as a value"""
    if v is None or isinstance(v, (bool, int, str)): return v
    if isinstance(v, dict): return ['<%s>' % type(v).__name__, [[str(k), cv(x)] for k, x in dict.items(v)]]
    if isinstance(v, (list, tuple)): return [cv(x) for x in v]
    return '<%s>' % type(v).__name__
INIT_DEFAULT = {('x', 0): -1000, ('y', 0): -1001, ('name', 'n'): -1002}      # what a re-run constructor injects (model: init_z)
def obs_value(k, v):
    if isinstance(v, Leaf) and len(v) == 1 and isinstance(v[0], int): return v[0]
    if isinstance(v, dict): return -2000                                        # a whole mapping landed in a constructor parameter (model: whole_z)
    if isinstance(v, (int, str)) and not isinstance(v, bool) and (k, v) in INIT_DEFAULT: return INIT_DEFAULT[(k, v)]
    return ['?', cv(v)]
def obs_items(d):
    return [[k, obs_value(k, v)] for k, v in dict.items(d)]

def impl_dict(case):
    cls = CLASSES[case['cls']]
    d = mkmap(cls, case['items'])
    before = list(dict.items(d))
    op = case['op']; sel = case.get('sel'); form = case.get('form')
    other = None; obefore = None
    def spelled():
        if form == 'str': return sel[0]
        if form == 'tuple': return tuple(sel)
        if form == 'none': return None
        if form == 'tuple1': return (sel[0],)
        if form == 'ulist': return ulist(list(sel))
        if form == 'dict_keys': return dict.fromkeys(sel).keys()
        return list(sel)
    claim = True          # does the property text fix the result for this input?
    exp = None            # expected ordered items (list of (key, value object)) / values / keys
    if op == 'sub':
        f = lambda: d - spelled(); exp = ('map', [(k, v) for k, v in before if k not in sel])
    elif op == 'and':
        f = lambda: d & spelled(); exp = ('map', [(k, v) for k, v in before if k in sel])
    elif op == 'getlist':
        f = lambda: d[spelled()]
        if all(k in dict(before) for k in sel): exp = ('map', [(k, dict(before)[k]) for k in first_occ(sel)])
        else: exp = ('err', 'KeyError')          # item access of an absent key
    elif op == 'gettuple':
        f = lambda: d[tuple(sel)]
        if all(k in dict(before) for k in sel): exp = ('vals', [dict(before)[k] for k in sel])
        else: exp = ('err', 'KeyError')
    elif op == 'attr':
        f = lambda: [getattr(d, sel[0])]
        if sel[0] in dict(before): exp = ('vals', [dict(before)[sel[0]]])
        else: exp = ('err', 'AttributeError')
    elif op in ('add', 'or'):
        other = mkmap(CLASSES[case['other']['cls']], case['other']['items'])
        obefore = list(dict.items(other))
        f = (lambda: d + other) if op == 'add' else (lambda: d | other)
        m = {}
        for k, v in before + obefore: m[k] = v          # {**d, **o}
        exp = ('map', list(m.items()))
    elif op == 'relabel':
        a = case['arg']; kw = dict((o, n) for o, n in case['kw'])
        if 'none' in a: args = ()
        elif 'affix' in a: args = (a['affix'],)
        elif 'names' in a: args = (list(a['names']),) if a.get('form', 'list') == 'list' else tuple(a['names'])
        elif 'double' in a: args = (lambda k: k * 2,)
        elif 'upper' in a: args = (str.upper,)
        else: args = (dict((o, n) for o, n in a['dict']),)
        f = (lambda: d.rename(*args, **kw)) if case.get('alias') == 'rename' else (lambda: d.relabel(*args, **kw))
        keys = [k for k, _ in before]
        new = {}
        if 'affix' in a:
            s = a['affix']
            if s.startswith('_'): new = {k: k + s for k in keys}
            elif s.endswith('_'): new = {k: s + k for k in keys}
            else: claim = False
        elif 'names' in a:
            if len(a['names']) == len(keys) and len(keys) != 1: new = dict(zip(keys, a['names']))
            else: claim = False
        elif 'double' in a: new = {k: k + k for k in keys}
        elif 'upper' in a: new = {k: k.upper() for k in keys}
        elif 'dict' in a: new = dict((o, n) for o, n in a['dict'])
        new.update(kw)
        m = {}
        for k, v in before: m[new.get(k, k)] = v
        exp = ('map', list(m.items()))
    elif op == 'keys':
        f = lambda: d.keys(); exp = ('keys', [k for k, _ in before])
    else:
        keys = [k for k, _ in before]
        f = {'keys_sub': lambda: d.keys() - spelled(), 'keys_and': lambda: d.keys() & spelled(), 'keys_add': lambda: d.keys() + spelled()}[op]
        exp = ('keys', {'keys_sub': [k for k in keys if k not in sel], 'keys_and': [k for k in keys if k in sel],
                        'keys_add': keys + [k for k in first_occ(sel) if k not in keys]}[op])
    status = 'ok'; viol = None
    try:
        r = f()
    except Exception as e:
        status = err_name(e); r = None
    # observation
    if status != 'ok': robs = ['ERR', status]
    elif isinstance(r, dict): robs = [type(r).__name__, obs_items(r)]
    elif op in ('keys', 'keys_sub', 'keys_and', 'keys_add'): robs = list(r)
    else: robs = [v[0] if isinstance(v, Leaf) else cv(v) for v in r]
    obs = [robs, obs_items(d), obs_items(other) if other is not None else None]
    # oracle
    after = list(dict.items(d))
    if len(after) != len(before) or not all(a[0] == b[0] and a[1] is b[1] for a, b in zip(after, before)) or type(d) is not cls:
        viol = 'operand changed by %s: %r -> %r' % (op, [(k, v[0]) for k, v in before], [(k, v[0]) for k, v in after])
    elif other is not None and not (len(obefore) == len(dict.items(other)) and all(a[0] == b[0] and a[1] is b[1] for a, b in zip(dict.items(other), obefore))):
        viol = 'other operand changed by %s' % op
    elif claim:
        kind, want = exp
        if kind == 'err':
            if status != want: viol = '%s on an absent key gave %s, expected %s' % (op, status, want)
        elif status != 'ok':
            viol = '%s %s %r raised %s' % (case['cls'], op, sel if sel is not None else (case.get('other') or case.get('arg')), status)
        elif kind == 'map':
            got = list(dict.items(r)) if isinstance(r, dict) else None
            if type(r) is not cls: viol = '%s returned a %s, not a %s' % (op, type(r).__name__, cls.__name__)
            elif r is d: viol = '%s returned the operand itself' % op
            elif [k for k, _ in got] != [k for k, _ in want]: viol = '%s: keys %r, expected %r' % (op, [k for k, _ in got], [k for k, _ in want])
            elif not all(a[1] is b[1] for a, b in zip(got, want)): viol = '%s: values are not the original objects: %r vs %r' % (op, [obs_value(k, v) for k, v in got], [obs_value(k, v) for k, v in want])
            elif op == 'sub' and form in ('list', 'str') and list(r.keys()) != list(d.keys() - spelled()): viol = '(d - k).keys() != d.keys() - k'
            elif op == 'and' and form in ('list', 'str') and list(r.keys()) != list(d.keys() & spelled()): viol = '(d & k).keys() != d.keys() & k'
        elif kind == 'vals':
            if not isinstance(r, list) or len(r) != len(want) or not all(a is b for a, b in zip(r, want)): viol = '%s %r returned %r' % (op, sel, robs)
        elif kind == 'keys':
            if type(r) is not ulist or list(r) != want: viol = '%s %r returned %s %r, expected ulist %r' % (op, sel, type(r).__name__, list(r), want)
    res = {'status': status, 'obs': obs, 'viol': viol}
    if claim and exp and exp[0] == 'map': res['exp'] = [[k, v[0]] for k, v in exp[1]]      # the expected items (used by the known-finding predicate)
    return res

def make_fn(k, deps, dflt=None, ko=0, partial=False):
    """the free callable [k, arg1, ...]; dflt = defaults by parameter name; the last ko parameters are keyword-only;
    partial: the defaults are keywords pre-bound by functools.partial on a function whose parameters are all required"""
    dflt = {x: y for x, y in (dflt or {}).items() if x in deps}; ko = min(ko, len(deps))          # (a shrunk case may have lost the parameter)
    if partial and dflt:
        import functools
        return functools.partial(eval('lambda %s: [%r%s]' % (', '.join(deps), k, ''.join(', ' + d for d in deps))), **dflt)
    text = [d + ('=%d' % dflt[d] if d in dflt else '') for d in deps]
    if ko: text.insert(len(deps) - ko, '*')
    return eval('lambda %s: [%r%s]' % (', '.join(text), k, ''.join(', ' + d for d in deps)))

def sccs_ge2(nodes, edges):
    """is there a cycle of length >= 2 in the graph restricted to nodes"""
    reach = {a: set(b for b in edges[a] if b in nodes and b != a) for a in nodes}
    changed = True
    while changed:
        changed = False
        for a in nodes:
            new = set().union(*[reach[b] for b in reach[a]]) - reach[a] if reach[a] else set()
            if new:
                reach[a] |= new; changed = True
    return any(a in reach[b] and b in reach[a] for a in nodes for b in nodes if a != b)

def impl_call(case):
    cls = CLASSES[case['cls']]
    kw = case['kw']
    orders = list(itertools.permutations(kw)) if case.get('perms', 'all') == 'all' else [tuple(kw)]
    fkeys = [k for k, v in kw if 'f' in v]
    edges = {k: list(v['f']) for k, v in kw if 'f' in v}
    dflts = {k: v.get('d', {}) for k, v in kw if 'f' in v}
    base = dict((k, v) for k, v in case['base'])
    consts = dict((k, v['c']) for k, v in kw if 'c' in v)
    avail = set(base) | set(consts) | set(fkeys) | {'key'}
    complete = all(d in avail or d in dflts[k] for k in fkeys for d in edges[k])
    cyc2 = sccs_ge2(set(fkeys), edges)
    selfloop = any(k in edges[k] for k in fkeys)
    expected = None
    if complete and not cyc2 and not selfloop:
        memo = {}
        def val(k):
            if k not in memo:
                memo[k] = [k] + [val(d) if d in edges else consts[d] if d in consts else base[d] if d in base else k if d == 'key' else dflts[k][d] for d in edges[k]]
            return memo[k]
        expected = dict(base); expected.update(consts)
        for k in fkeys: expected[k] = val(k)
    results = []; viol = None; status = 'ok'
    d = cls.__new__(cls)
    for k, v in case['base']: dict.__setitem__(d, k, v)
    before = list(dict.items(d))
    for order in orders:
        kwargs = {k: (v['c'] if 'c' in v else make_fn(k, v['f'], v.get('d'), v.get('ko', 0), v.get('partial', False))) for k, v in order}
        try:
            r = d(**kwargs)
            results.append([type(r).__name__, [[k, cv(v)] for k, v in dict.items(r)]])
            st = 'ok'
        except Exception as e:
            st = err_name(e); results.append(['ERR', st]); status = st; r = None
        if viol is None and complete:
            names = [k for k, _ in order]
            if cyc2 and st != 'ValueError':
                viol = 'circular definitions %r in keyword order %r: %s instead of ValueError' % (edges, names, st if st != 'ok' else dict(r))
            elif expected is not None:
                if st != 'ok': viol = 'acyclic definitions %r in keyword order %r raised %s' % (edges, names, st)
                elif dict(r) != expected: viol = 'definitions %r in keyword order %r gave %r, dependency-order evaluation gives %r' % (edges, names, dict(r), expected)
                elif type(r) is not cls: viol = 'Dict.__call__ returned a %s, not a %s' % (type(r).__name__, cls.__name__)
        if viol is None and list(dict.items(d)) != before:
            viol = 'Dict.__call__ changed the operand: %r -> %r' % (before, list(dict.items(d)))
    return {'status': status, 'obs': [results, [[k, cv(v)] for k, v in dict.items(d)]], 'viol': viol}

def mktree(t):
    if isinstance(t, int): return Leaf([t])
    d = CLASSES[t['cls']].__new__(CLASSES[t['cls']])
    for k, v in t['items']: dict.__setitem__(d, k, mktree(v))
    return d
def obs_tree(x):
    if isinstance(x, Leaf): return x[0]
    return [type(x).__name__, [[k, obs_tree(v)] for k, v in dict.items(x)]]
def deep_snapshot(x):
    """structure AND identity of every mapping and leaf object below x (the objects are kept alive by the snapshot)"""
    if isinstance(x, Leaf): return (x, 'leaf', x[0])
    return (x, type(x).__name__, [(k, deep_snapshot(v)) for k, v in dict.items(x)])
def deep_same(snap, x):
    obj, kind, body = snap
    if obj is not x: return False
    if kind == 'leaf': return isinstance(x, Leaf) and list(x) == [body]
    if type(x).__name__ != kind or len(body) != len(x): return False
    return all(k == k2 and deep_same(s2, v2) for (k, s2), (k2, v2) in zip(body, dict.items(x)))
def impl_tree_add(case):
    """Dict + other where the values are nested mappings: neither operand may change at ANY depth"""
    d = mktree(case['d']); o = mktree(case['other'])
    sd, so = deep_snapshot(d), deep_snapshot(o)
    status = 'ok'; viol = None
    try:
        r = d + o
    except Exception as e:
        status = err_name(e); r = None
    obs = [obs_tree(r) if status == 'ok' else ['ERR', status], obs_tree(d), obs_tree(o)]
    if not deep_same(sd, d): viol = 'd + other changed d below the top level: %r -> %r' % (obs_of_snap(sd), obs_tree(d))
    elif not deep_same(so, o): viol = 'd + other changed other: %r -> %r' % (obs_of_snap(so), obs_tree(o))
    elif status == 'ok':
        if type(r) is not type(d): viol = 'd + other returned a %s, not a %s' % (type(r).__name__, type(d).__name__)
        elif r is d: viol = 'd + other returned d itself'
        else:
            flat = lambda t, p=(): [(p, t)] if isinstance(t, Leaf) or type(t).__name__ not in ('dict', 'dictattr', 'Dict') else [x for k, v in dict.items(t) for x in flat(v, p + (k,))]
            def walk(t, path):
                for k in path:
                    if not isinstance(t, dict) or k not in t: return None
                    t = dict.__getitem__(t, k)
                return t
            for path, leaf in flat(o):          # {**d, **o} along every path of other: the leaf of other, the very object
                if path and walk(r, path) is not leaf: viol = viol or 'd + other: path %r does not hold the value of other' % (path,)
    elif type(o).__name__ in ('dict', 'dictattr', 'Dict'):
        viol = 'd + other raised %s' % status
    return {'status': status, 'obs': obs, 'viol': viol}
def obs_of_snap(s):
    obj, kind, body = s
    return body if kind == 'leaf' else [kind, [[k, obs_of_snap(v)] for k, v in body]]
def flat_any(t, p=()):
    if not isinstance(t, dict): return [(p, t)]
    return [x for k, v in dict.items(t) for x in flat_any(v, p + (k,))] or ([(p, t)] if p else [])

def impl(case):
    k = case['kind']
    if k == 'tree_add': return impl_tree_add(case)
    if k == 'ulist': return impl_ulist(case)
    if k == 'dict': return impl_dict(case)
    return impl_call(case)

# ------------------------------------------------------------------ classification
def nontrivial(case, result):
    k = case['kind']
    if k == 'tree_add': return True
    if k == 'ulist':
        raw = [json.dumps(canon(dec(e))) for e in case['raw']]
        vals = [dec(e) for e in case['raw']]
        rep = len(first_occ(vals)) < len(vals)
        if case['op'] == 'init': return rep
        o = case['other']; ol = [dec(o['elem'])] if 'elem' in o else [dec(x) for x in o.get('list', o.get('ulist'))]
        return rep or any(x == y for x in ol for y in vals)
    if k == 'dict':
        keys = [k for k, _ in case['items']]
        op = case['op']
        if op in ('add', 'or'):
            ok = [k for k, _ in case['other']['items']]
            return any(k in keys for k in ok) and any(k not in keys for k in ok)
        if op == 'relabel': return bool(case['kw']) or 'none' not in case['arg']
        if op == 'keys': return len(keys) > 1
        sel = case['sel']
        return (any(k in keys for k in sel) and any(k not in keys for k in sel)) or len(set(sel)) < len(sel) or len(sel) > 1
    fk = [k for k, v in case['kw'] if 'f' in v]
    return len(fk) >= 2 and any(d in fk for k, v in case['kw'] if 'f' in v for d in v['f'])

def shape(case):
    k = case['kind']
    if k == 'tree_add': return 'tree_add'
    if k == 'ulist': return 'ulist:%s:%s' % (case['op'], 'elem' if 'elem' in (case.get('other') or {}) else 'list')
    if k == 'dict': return 'dict:%s:%s' % (case['cls'], case['op'])
    n = len([1 for _, v in case['kw'] if 'f' in v])
    return 'call:n%d' % n

# ------------------------------------------------------------------ generation
POOL = [0, 1, 2, 3, -1, {'f': 0}, {'f': 1}, {'f': 2}, {'b': 0}, {'b': 1}, None, 'a', 'b', '1', '', 10 ** 20, -2 ** 63,
        {'o': 1}, {'o': 2}, {'o': 3}, {'o': 4}, {'o': 5}, {'o': 6}, {'o': 7}, {'o': 8}, {'t': [{'o': 3}, 1]},
        {'o': 20}, {'o': 20}, {'o': 21}, {'o': 22}, {'t': [{'o': 20}, 1]}, {'t': [{'o': 21}, 1]},
        {'t': []}, {'t': [1]}, {'t': [1, 2]}, {'t': [{'f': 1}, 2]}, {'t': [{'b': 1}, 2]}, {'t': ['a']}, {'t': [{'t': [1]}, 2]}, {'t': [None]}]
SMALL = [1, {'f': 1}, {'b': 1}, 2, 'a', {'t': [1, 2]}, {'t': [{'f': 1}, 2]}, None, {'o': 20}, {'o': 20}]

def gen_ulist(rng, tier):
    out = []
    n = 1200 if tier == 'quick' else 30000
    for _ in range(n):
        pool = SMALL if rng.random() < 0.6 else POOL
        raw = [rng.choice(pool) for _ in range(rng.choice([0, 1, 2, 3, 4, 5, 7]))]
        op = rng.choice(['init', '+', '|', '-', '-', '&', '&', '+'])
        case = {'kind': 'ulist', 'cls': rng.choice(['ulist', 'ulist', 'U2']), 'raw': raw, 'op': op}
        r = rng.random()
        if r < 0.1: case['src'] = 'tuple'            # the constructor is given a tuple / a generator instead of a list
        elif r < 0.2: case['src'] = 'gen'
        if op != 'init':
            r = rng.random()
            if r < 0.45: case['other'] = {'elem': rng.choice(pool)}
            elif r < 0.9: case['other'] = {'list': [rng.choice(pool) for _ in range(rng.choice([0, 1, 2, 3, 5]))]}
            else: case['other'] = {'ulist': [rng.choice(pool) for _ in range(rng.choice([0, 1, 3, 5]))]}       # the operand is itself a ulist
        out.append(case)
    # long lists (100-300 elements, few distinct values) against long operands
    big = [0, 1, 2, 3, -1, 7, 10 ** 20, -10 ** 20, 2 ** 63, {'f': 1}, {'f': 2}, {'b': 1}, 'a', 'b', None, {'t': [1, 2]}, {'o': 1}, {'o': 3}, {'o': 5}] + list(range(20, 60))
    for op in (['init', '+', '-', '&'] if tier == 'quick' else ['init', '+', '-', '&', '|'] * 6):
        raw = [rng.choice(big) for _ in range(rng.choice([101, 150, 300]))]
        case = {'kind': 'ulist', 'cls': 'ulist', 'raw': raw, 'op': op}
        if op != 'init': case['other'] = {'list': [rng.choice(big) for _ in range(rng.choice([1, 120]))]}
        out.append(case)
    # every list of length <= 3 over three ==-colliding values and one other, every operator, element operands
    vals = [1, {'f': 1}, {'b': 1}, 2]
    for n in range(0, 4 if tier == 'quick' else 5):
        for raw in itertools.product(vals, repeat=n):
            for op in '+-&':
                for e in vals:
                    out.append({'kind': 'ulist', 'cls': 'ulist', 'raw': list(raw), 'op': op, 'other': {'elem': e}})
                out.append({'kind': 'ulist', 'cls': 'ulist', 'raw': list(raw), 'op': op, 'other': {'list': [vals[2], vals[3], vals[0]]}})
            out.append({'kind': 'ulist', 'cls': 'ulist', 'raw': list(raw), 'op': 'init'})
    # NaN objects as elements: every list of length <= 3 over {nan A, nan B, Decimal nan, 1}, every operator, element and list operands
    nans = [{'o': 20}, {'o': 21}, {'o': 22}, 1]
    for n in range(0, 4):
        for raw in itertools.product(nans, repeat=n):
            if tier == 'quick' and n == 3 and rng.random() < 0.5: continue
            for op in '+-&':
                for e in nans[:3] if tier == 'quick' else nans:
                    out.append({'kind': 'ulist', 'cls': 'ulist', 'raw': list(raw), 'op': op, 'other': {'elem': e}})
                out.append({'kind': 'ulist', 'cls': 'ulist', 'raw': list(raw), 'op': op, 'other': {'list': [nans[0], nans[3], nans[2]]}})
            out.append({'kind': 'ulist', 'cls': 'ulist', 'raw': list(raw), 'op': 'init'})
    return out

KEYS = ['a', 'b', 'c', 'd', 'x_a', 'aa', 'a_x', 'zz', 'B']
DCLASSES = ['dictattr', 'Dict', 'UA', 'UD']

def rand_items(rng, lo=0, base=0):
    ks = rng.sample(KEYS[:6], rng.choice([lo, 1, 2, 3, 3, 4]))
    return [[k, base + i] for i, k in enumerate(ks)]

def rand_sel(rng, keys):
    r = rng.random()
    absent = [k for k in KEYS if k not in keys]
    if r < 0.25 and keys: return rng.sample(keys, rng.randrange(1, len(keys) + 1))
    if r < 0.4: return rng.sample(absent, rng.choice([1, 2]))
    if r < 0.5: return []
    pool = keys + absent[:2]
    return [rng.choice(pool) for _ in range(rng.choice([1, 2, 3, 4]))]

def gen_dict(rng, tier):
    out = []
    n = 2100 if tier == 'quick' else 40000
    ops = ['sub', 'and', 'getlist', 'gettuple', 'attr', 'add', 'add', 'or', 'relabel', 'relabel', 'keys', 'keys_sub', 'keys_and', 'keys_add']
    for _ in range(n):
        cls = rng.choice(DCLASSES); items = rand_items(rng); keys = [k for k, _ in items]
        op = rng.choice(ops)
        case = {'kind': 'dict', 'cls': cls, 'items': items, 'op': op}
        if op in ('sub', 'and', 'keys_sub', 'keys_and', 'keys_add'):
            sel = rand_sel(rng, keys)
            forms = ['list', 'list', 'ulist'] + (['str'] if len(sel) == 1 else [])
            if op == 'and': forms += ['tuple', 'dict_keys'] + (['none'] if not sel else [])
            if op == 'sub' and len(sel) == 1: forms += ['tuple1']
            case['sel'] = sel; case['form'] = rng.choice(forms)
        elif op in ('getlist', 'gettuple'):
            case['sel'] = rand_sel(rng, keys)
            if op == 'getlist': case['form'] = rng.choice(['list', 'list', 'ulist', 'dict_keys'])
        elif op == 'attr':
            case['sel'] = [rng.choice(keys + ['zz', 'b'])]
        elif op in ('add', 'or'):
            classes = ['dict', 'dictattr', 'Dict'] + (['UA', 'UD'] if INCLUDE_SUBCLASS_OTHER or op == 'or' or cls in ('dictattr', 'UA') else [])
            case['other'] = {'cls': rng.choice(classes), 'items': rand_items(rng, base=100)}
        elif op == 'relabel':
            r = rng.random()
            if r < 0.2: arg = {'none': 1}
            elif r < 0.4: arg = {'affix': rng.choice(['x_', '_x', '_', 'q', 'a_', '__'])}
            elif r < 0.6:
                m = len(keys) if rng.random() < 0.8 else rng.choice([0, 1, 2, 3])
                arg = {'names': [rng.choice(['A', 'B', 'C', 'D', 'a', 'b']) for _ in range(m)], 'form': rng.choice(['list', 'args'])}
            elif r < 0.7: arg = {'double': 1}
            elif r < 0.78: arg = {'upper': 1}
            else: arg = {'dict': [[rng.choice(KEYS[:4]), rng.choice(['A', 'b', 'c', 'zz'])] for _ in range(rng.choice([0, 1, 2]))]}
            if 'dict' in arg and len(set(o for o, _ in arg['dict'])) < len(arg['dict']): arg = {'none': 1}
            kwk = rng.sample(KEYS[:5], rng.choice([0, 0, 1, 2]))
            case['arg'] = arg; case['kw'] = [[k, rng.choice(['A', 'b', 'c', 'zz', 'a'])] for k in kwk]
            if rng.random() < 0.2: case['alias'] = 'rename'
        out.append(case)
    out += gen_odd_names(rng, tier) + gen_large_maps(rng, tier)
    return out

# key names that are attribute / method names, private-looking, Python keywords, not identifiers, or names used inside the implementation
ODD_KEYS = ['p.q', 'p.q.r', 'u.v', '_x', '__x', 'class', 'a b', '1', '', 'key', 'self', 'function', 'keys', 'items', 'copy', 'get', 'update', 'relabel', 'value', 'other', 'lambda']
DICT_ATTRS = set(dir(dict)) | {'keys', 'values', 'copy', 'relabel', 'rename'}
def gen_odd_names(rng, tier):
    out = []
    for _ in range(150 if tier == 'quick' else 3000):
        ks = rng.sample(ODD_KEYS, rng.choice([1, 2, 3, 4])); items = [[k, i] for i, k in enumerate(ks)]
        sel = [rng.choice(ks + ['zz', '_y']) for _ in range(rng.choice([1, 1, 2, 3]))]
        op = rng.choice(['sub', 'and', 'getlist', 'gettuple', 'attr', 'add', 'or', 'relabel', 'keys_sub', 'keys_and'])
        case = {'kind': 'dict', 'cls': rng.choice(DCLASSES), 'items': items, 'op': op}
        if op in ('sub', 'and', 'keys_sub', 'keys_and'):
            case['sel'] = sel; case['form'] = 'str' if len(sel) == 1 and rng.random() < 0.5 else 'list'
        elif op in ('getlist', 'gettuple'): case['sel'] = sel
        elif op == 'attr':
            ok = [k for k in ks + ['_y', 'zz'] if k not in DICT_ATTRS]        # names of dict attributes are found by normal attribute lookup first
            if not ok: continue
            case['sel'] = [rng.choice(ok)]
        elif op in ('add', 'or'):
            case['other'] = {'cls': rng.choice(['dict', 'dictattr', 'Dict']), 'items': [[k, 100 + i] for i, k in enumerate(rng.sample(ODD_KEYS, 2))]}
        else:        # relabel through the dict / affix / callable spellings (the keyword spelling cannot name 'self' or 'keys')
            case['arg'] = rng.choice([{'affix': 'p_'}, {'affix': '_s'}, {'double': 1}, {'upper': 1}, {'dict': [[ks[0], rng.choice(ODD_KEYS)]]}]); case['kw'] = []
        out.append(case)
    return out

def gen_large_maps(rng, tier):
    out = []
    keys = ['k%d' % i for i in range(130)]
    for op in ['sub', 'and', 'getlist', 'gettuple', 'add', 'or', 'relabel', 'keys_sub'] * (1 if tier == 'quick' else 5):
        items = [[k, i] for i, k in enumerate(rng.sample(keys, 120))]
        sel = [rng.choice(keys) for _ in range(101)] if op != 'getlist' and op != 'gettuple' else [rng.choice([k for k, _ in items]) for _ in range(101)]
        case = {'kind': 'dict', 'cls': rng.choice(DCLASSES), 'items': items, 'op': op}
        if op in ('sub', 'and', 'keys_sub'): case['sel'] = sel; case['form'] = 'list'
        elif op in ('getlist', 'gettuple'): case['sel'] = sel
        elif op in ('add', 'or'): case['other'] = {'cls': 'dict', 'items': [[k, 1000 + i] for i, k in enumerate(rng.sample(keys, 110))]}
        else: case['arg'] = {'affix': 'p_'}; case['kw'] = []
        out.append(case)
    return out

def digraph_classes(n):
    """one representative (edge dict on range(n)) per isomorphism class of loop-free digraphs on n nodes"""
    pairs = [(i, j) for i in range(n) for j in range(n) if i != j]
    seen = set(); reps = []
    perms = list(itertools.permutations(range(n)))
    for mask in range(1 << len(pairs)):
        es = [pairs[b] for b in range(len(pairs)) if mask >> b & 1]
        key = min(tuple(sorted((p[i], p[j]) for i, j in es)) for p in perms)
        if key in seen: continue
        seen.add(key); reps.append(es)
    return reps

NAMES = ['a', 'b', 'c', 'd', 'e', 'f']
def graph_case(rng, n, es, cls='Dict', extra=False, selfloops=0.0, missing=False):
    base = [['p', 1], ['q', 2]]
    deps = {i: [NAMES[j] for (a, j) in es if a == i] for i in range(n)}
    kw = []
    for i in range(n):
        ds = list(deps[i])
        if selfloops and rng.random() < selfloops: ds.append(NAMES[i])
        if extra:
            ds += rng.sample(['p', 'q', 'r', 'key'], rng.choice([0, 1, 2]))
        if missing and rng.random() < 0.4: ds.append('nope')
        rng.shuffle(ds)
        kw.append([NAMES[i], {'f': ds}])
    if extra:
        if n <= 4: kw.insert(rng.randrange(len(kw) + 1), ['r', {'c': 7}])       # a constant among the keywords
        else: base.append(['r', 7])
        if rng.random() < 0.5:
            base.append([rng.choice(NAMES[:max(n, 1)]), 9])          # a derived key that already exists in the mapping
        if n <= 3 and rng.random() < 0.3: kw.insert(rng.randrange(len(kw) + 1), ['p', {'c': 5}])
    return {'kind': 'call', 'cls': cls, 'base': base, 'kw': kw, 'perms': 'all'}

def rand_graph(rng, n):
    p = rng.choice([0.15, 0.3, 0.5])
    return [(i, j) for i in range(n) for j in range(n) if i != j and rng.random() < p]
def rand_dag(rng, n):
    order = list(range(n)); rng.shuffle(order)
    p = rng.choice([0.3, 0.5, 0.8])
    return [(order[i], order[j]) for i in range(n) for j in range(i) if rng.random() < p]

def gen_call(rng, tier):
    out = []
    for n in range(0, 5):
        for es in digraph_classes(n):
            out.append(graph_case(rng, n, es, cls='Dict' if rng.random() < 0.8 else 'UD'))
    quick = tier == 'quick'
    for n, m in ((2, 8), (3, 30 if quick else 300), (4, 60 if quick else 1500)):
        for _ in range(m):
            g = rand_dag(rng, n) if rng.random() < 0.6 else rand_graph(rng, n)
            r = rng.random()
            out.append(graph_case(rng, n, g, cls=rng.choice(['Dict', 'UD']), extra=r < 0.6, selfloops=0.25 if 0.5 < r < 0.8 else 0.0, missing=r > 0.85))
    for n, m in ((5, 10 if quick else 150), (6, 4 if quick else 40)):
        for _ in range(m):
            g = rand_dag(rng, n) if rng.random() < 0.7 else rand_graph(rng, n)
            out.append(graph_case(rng, n, g, extra=rng.random() < 0.5))
    return out

# names the implementation injects ('key' = the name being computed) or uses internally: as entries of the mapping and as
# derived keys they must behave like any other name - the mapping's own value wins over the injected default
COLLIDE = ['key', 'value', 'args', 'kwargs', 'function', 'res', 'callables', 'keys', 'cls']
INCLUDE_SELF_KEY = True     # a mapping entry / keyword named 'self' makes Dict.__call__ raise TypeError (multiple values for 'self'): KNOWN FINDING c16_self_named_key

def gen_collide(rng, tier):
    out = []
    names = COLLIDE + (['self'] if INCLUDE_SELF_KEY else [])
    for nm in names:
        for cls in ('Dict', 'UD'):
            # the name is an entry of the mapping and a parameter of the callables
            out.append({'kind': 'call', 'cls': cls, 'base': [[nm, 2], ['a', 1]], 'kw': [['k1', {'f': [nm]}]], 'perms': 'all'})
            out.append({'kind': 'call', 'cls': cls, 'base': [['a', 1], [nm, 2]], 'kw': [['k1', {'f': [nm, 'a']}], ['k2', {'f': ['k1', nm]}]], 'perms': 'all'})
            # the name is a constant among the keywords
            out.append({'kind': 'call', 'cls': cls, 'base': [['a', 1]], 'kw': [[nm, {'c': 7}], ['k1', {'f': ['a', nm]}]], 'perms': 'all'})
            if True:
                # the name is itself a derived key, with and without an older value in the mapping
                out.append({'kind': 'call', 'cls': cls, 'base': [['a', 1]], 'kw': [[nm, {'f': ['a']}], ['z', {'f': [nm]}]], 'perms': 'all'})
                out.append({'kind': 'call', 'cls': cls, 'base': [['a', 1], [nm, 2]], 'kw': [[nm, {'f': ['a']}], ['z', {'f': [nm, 'a']}], ['y', {'f': ['z']}]], 'perms': 'all'})
    # the injected default key = <name being computed> is visible exactly when the mapping has no entry named key
    for cls in ('Dict', 'UD'):
        out.append({'kind': 'call', 'cls': cls, 'base': [['a', 1]], 'kw': [['k1', {'f': ['key']}], ['k2', {'f': ['key', 'k1']}]], 'perms': 'all'})
        out.append({'kind': 'call', 'cls': cls, 'base': [['key', 2]], 'kw': [['k1', {'f': ['key']}], ['k2', {'f': ['k1', 'key']}], ['k3', {'f': []}]], 'perms': 'all'})
        out.append({'kind': 'call', 'cls': cls, 'base': [['a', 1]], 'kw': [['key', {'c': 5}], ['k1', {'f': ['key']}], ['k2', {'f': ['key', 'a']}]], 'perms': 'all'})
    for _ in range(20 if tier == 'quick' else 300):
        n = rng.choice([2, 3, 4])
        case = graph_case(rng, n, rand_dag(rng, n), cls=rng.choice(['Dict', 'UD']))
        nm = rng.choice(names if not INCLUDE_SELF_KEY else COLLIDE)
        for kv in case['kw']:
            if rng.random() < 0.6: kv[1]['f'].insert(rng.randrange(len(kv[1]['f']) + 1), nm)
        r = rng.random()
        if r < 0.5: case['base'].append([nm, 3])
        elif r < 0.75: case['kw'].insert(rng.randrange(len(case['kw']) + 1), [nm, {'f': ['p']}])
        elif nm != 'key': case['kw'].append([nm, {'c': 4}])
        out.append(case)
    return out

def gen_defaults(rng, tier):
    """callables with defaulted and keyword-only parameters named after other derived keys, base keys, the implicit key, or nothing"""
    out = []
    def with_defaults(case):
        for kv in case['kw']:
            v = kv[1]
            if 'f' not in v: continue
            names = list(v['f'])
            req = [x for x in names if rng.random() < 0.5]
            opt = [x for x in names if x not in req]
            extra = [x for x in rng.sample(['p', 'q', 'key', 'nowhere', 'nope2'], rng.choice([0, 1, 2])) if x not in names]
            opt = opt + extra; rng.shuffle(opt)
            ko = rng.choice([0, 0, 1, 2])
            if ko:          # keyword-only parameters may be required or defaulted in any order; positional ones: required first
                tail = (req + opt)[-ko:]; head = [x for x in req + opt if x not in tail]
                head = [x for x in head if x in req] + [x for x in head if x in opt]; rng.shuffle(tail)
                order = head + tail
            else: order = req + opt
            v['f'] = order; v['d'] = {x: 100 + i for i, x in enumerate(opt)}; v['ko'] = ko
            if opt and rng.random() < 0.35: v['partial'] = True          # the same defaults as keywords pre-bound by functools.partial
        return case
    for n in range(1, 4):                                   # every loop-free graph on <= 3 derived keys, every order, two default patterns each
        for es in digraph_classes(n):
            for _ in range(2): out.append(with_defaults(graph_case(rng, n, es, cls=rng.choice(['Dict', 'UD']))))
    for _ in range(60 if tier == 'quick' else 1500):
        n = rng.choice([2, 3, 4, 4])
        out.append(with_defaults(graph_case(rng, n, rand_dag(rng, n) if rng.random() < 0.6 else rand_graph(rng, n), cls=rng.choice(['Dict', 'UD']))))
    # the seeded example: c = lambda a, b = 100 must wait for the derived b
    out.append({'kind': 'call', 'cls': 'Dict', 'base': [['a', 1]], 'kw': [['c', {'f': ['a', 'b'], 'd': {'b': 100}}], ['b', {'f': ['a']}]], 'perms': 'all'})
    out.append({'kind': 'call', 'cls': 'Dict', 'base': [['a', 2]], 'kw': [['rate', {'f': ['a']}], ['c', {'f': ['a', 'rate'], 'd': {'rate': 10}, 'partial': True}]], 'perms': 'all'})
    out.append({'kind': 'call', 'cls': 'UD', 'base': [['a', 2], ['rate', 3]], 'kw': [['c', {'f': ['rate', 'a'], 'd': {'rate': 10}, 'partial': True}], ['e', {'f': ['c', 'q'], 'd': {'q': 4, 'c': 0}, 'partial': True}]], 'perms': 'all'})
    out.append({'kind': 'call', 'cls': 'Dict', 'base': [['a', 1]], 'kw': [['c', {'f': ['b'], 'd': {'b': 100}}], ['b', {'f': ['c'], 'd': {'c': 5}}]], 'perms': 'all'})
    out.append({'kind': 'call', 'cls': 'Dict', 'base': [['a', 1]], 'kw': [['c', {'f': ['a', 'b'], 'd': {'b': 100}, 'ko': 1}], ['e', {'f': ['c', 'zz'], 'd': {'zz': 7, 'c': 0}, 'ko': 2}]], 'perms': 'all'})
    return out

def gen_large_call(rng, tier):
    out = []
    for _ in range(2 if tier == 'quick' else 20):
        base = [['v%d' % i, i] for i in range(150)]
        kw = [['a', {'f': ['v3', 'v149']}], ['b', {'f': ['a', 'v77']}], ['c', {'f': ['b', 'a', 'v0']}], ['v5', {'f': ['c']}]]
        rng.shuffle(kw)
        out.append({'kind': 'call', 'cls': rng.choice(['Dict', 'UD']), 'base': base, 'kw': kw, 'perms': 'all'})
    return out

def rand_tree(rng, cls, depth, keys, base):
    """a mapping of class cls whose values are leaves or mappings down to the given depth"""
    items = []
    for k in rng.sample(keys, rng.choice([1, 2, 3])):
        if depth > 0 and rng.random() < 0.7:
            items.append([k, rand_tree(rng, rng.choice(['dict', 'dictattr', 'Dict', 'Dict', 'UD', 'UA']), depth - 1, keys, base)])
        else:
            base[0] += 1; items.append([k, base[0]])
    return {'cls': cls, 'items': items}
def gen_tree_add(rng, tier):
    out = []; keys = ['a', 'b', 'c']
    for _ in range(150 if tier == 'quick' else 3000):
        cnt = [0]
        d = rand_tree(rng, rng.choice(['Dict', 'Dict', 'UD']), rng.choice([1, 2, 3]), keys, cnt)
        cnt = [100]
        o = rand_tree(rng, rng.choice(['dict', 'dictattr', 'Dict']), rng.choice([1, 2, 3]), keys, cnt)
        out.append({'kind': 'tree_add', 'd': d, 'other': o})
    leaf = lambda i: i
    N = lambda cls, *items: {'cls': cls, 'items': [list(x) for x in items]}
    out.append({'kind': 'tree_add', 'd': N('Dict', ('a', N('Dict', ('b', N('Dict', ('c', 1), ('d', 2))))), ('z', 3)), 'other': N('dict', ('a', N('dict', ('b', N('dict', ('c', 100), ('e', 101))))))})
    out.append({'kind': 'tree_add', 'd': N('Dict', ('a', N('dict', ('b', N('dictattr', ('c', N('dict', ('q', 1)))))))), 'other': N('Dict', ('a', N('Dict', ('b', N('Dict', ('c', N('Dict', ('q', 100), ('r', 101))))))))})
    return out

def gen_init_subclasses(rng, tier):
    """user subclasses whose __init__ has its own signature, on the operators that work on a copy of the operand"""
    out = []
    for _ in range(200 if tier == 'quick' else 4000):
        cls = rng.choice(['PT', 'KO'])
        own = ['x', 'y'] if cls == 'PT' else ['name']
        ks = rng.sample(own + ['a', 'b', 'zz'], rng.choice([1, 2, 3, 4])); items = [[k, i] for i, k in enumerate(ks)]
        sel = [rng.choice(ks + own + ['q']) for _ in range(rng.choice([1, 1, 2, 3]))]
        op = rng.choice(['sub', 'sub', 'add', 'gettuple', 'attr', 'keys', 'keys_sub', 'call'] if cls == 'PT' else ['sub', 'sub', 'add', 'gettuple', 'attr', 'keys', 'keys_and'])
        if rng.random() < 0.25: op = rng.choice(['and', 'getlist', 'or', 'relabel'])      # rebuilt through type(self)(...): KNOWN FINDING c16_subclass_constructor_rerun
        if op == 'call':
            kw = [['k1', {'f': [ks[0]]}], ['k2', {'f': ['k1'] + ks[:1]}], [rng.choice(own), {'c': 9}]]; rng.shuffle(kw)
            out.append({'kind': 'call', 'cls': cls, 'base': items, 'kw': kw, 'perms': 'all'}); continue
        case = {'kind': 'dict', 'cls': cls, 'items': items, 'op': op}
        if op in ('sub', 'keys_sub', 'keys_and'): case['sel'] = sel; case['form'] = 'str' if len(sel) == 1 and rng.random() < 0.5 else 'list'
        elif op == 'gettuple': case['sel'] = sel
        elif op == 'attr': case['sel'] = [rng.choice(ks + ['q'])]
        elif op in ('add', 'or'): case['other'] = {'cls': rng.choice(['dict', 'dictattr', 'Dict']), 'items': [[k, 100 + i] for i, k in enumerate(rng.sample(own + ['a', 'w'], 2))]}
        elif op == 'and': case['sel'] = sel; case['form'] = rng.choice(['list', 'tuple'])
        elif op == 'getlist': case['sel'] = sel; case['form'] = 'list'
        elif op == 'relabel':
            case['arg'] = rng.choice([{'none': 1}, {'affix': 'p_'}, {'dict': [[rng.choice(ks), 'q']]}, {'upper': 1}]); case['kw'] = [[k, 'r' + k] for k in rng.sample(ks, rng.choice([0, 1]))]
        out.append(case)
    return out

def gen_cases(rng, tier):
    return gen_tree_add(rng, tier) + gen_init_subclasses(rng, tier) + gen_large_call(rng, tier) + gen_defaults(rng, tier) + gen_ulist(rng, tier) + gen_dict(rng, tier) + gen_call(rng, tier) + gen_collide(rng, tier)

def shrink(case):
    k = case['kind']
    if k == 'tree_add': return
    if k == 'ulist':
        for i in range(len(case['raw'])):
            yield dict(case, raw=case['raw'][:i] + case['raw'][i + 1:])
        o = case.get('other')
        if o and 'list' in o:
            for i in range(len(o['list'])):
                yield dict(case, other={'list': o['list'][:i] + o['list'][i + 1:]})
    elif k == 'dict':
        for i in range(len(case['items'])):
            yield dict(case, items=case['items'][:i] + case['items'][i + 1:])
        if case.get('sel') and len(case['sel']) > 1 and case.get('form') != 'str':
            for i in range(len(case['sel'])):
                yield dict(case, sel=case['sel'][:i] + case['sel'][i + 1:])
        if 'other' in case:
            it = case['other']['items']
            for i in range(len(it)):
                yield dict(case, other=dict(case['other'], items=it[:i] + it[i + 1:]))
    else:
        kw = case['kw']
        if case.get('perms', 'all') == 'all':
            for p in itertools.permutations(kw):
                yield dict(case, kw=[list(x) for x in p], perms='one')
        for i in range(len(kw)):
            gone = kw[i][0]
            yield dict(case, kw=[[k, (dict(v, f=[d for d in v['f'] if d != gone]) if 'f' in v else v)] for k, v in kw[:i] + kw[i + 1:]])
        for i, (k_, v) in enumerate(kw):
            if 'f' in v:
                for j in range(len(v['f'])):
                    yield dict(case, kw=kw[:i] + [[k_, dict(v, f=v['f'][:j] + v['f'][j + 1:])]] + kw[i + 1:])
