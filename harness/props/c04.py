"""C04 — dt() maps every supported spelling of an instant to the same datetime."""
import datetime, calendar
from implutil import dt2us, us2dt, DAYUS, call, err_name

ID = 'C04'
TRANSLATOR = ['dates']
COQ_EXEC = ['exec.X_dates']
COQ_IMPORTS = 'From PB Require Import model.M_cal model.M_dates model.M_dtparse.\n'
COQ_PRELUDE = '''Definition run_sp (s : spelling) : J :=
  let a := run_dt s in let b := run_dt_gen s in if J_eqb a b then a else JL [JS "GEN<>MODEL"; a; b].
Definition run_sps (l : list spelling) : J := JL (map run_sp l).
'''
PER_FILE = 1500
CASE_TIMEOUT = 5
RULE = ('cases: (calendar day in [1900,2300), spelling) for spellings date, datetime, (y,m,d[,h,m,s]) tuple, yyyymmdd int, ordinal, '
        'numpy datetime64 [D/s/us/ns], pandas Timestamp, ISO string, yyyymmdd string, d<sep>m<sep>y / m<sep>d<sep>y with sep in - / . space '
        'padded and unpadded under both dialects (incl. the cross-dialect rejections), month-name strings, dt2str round trip, ymd(); '
        'dt(y,m,d) with m in [-36,48], d in [-400,400]; and the calendar itself (fromordinal/weekday/toordinal). quick: month ends, '
        'leap days, century years, days 12/13 of every month + random days; thorough: EVERY day of the cycle for every spelling (oracle) '
        'with the Coq model evaluated on every day for the calendar and a rotating subset of spellings. non-trivial = day<=12 (ambiguous), '
        'month end / leap day, overflow tuple, or a cross-dialect string; distinct by (day, spelling)')
EXPLANATION = ('theorems C04_* hold for every date of years 1..9999: ordinal<->(y,m,d) bijection (one 400-year cycle computed in the kernel, '
               'lifted by periodicity), tuple / overflow / yyyymmdd / ordinal through the Gallina text generated from _dates.py, the two '
               'dialects and cross-dialect rejection on the token-level model; the correspondence ties the token model (dateutil field '
               'resolution, regex dispatch) and the calendar model to the running code')
TRUSTED = ['translator/py2coq.py + gen_dates.py (ym, _ymd, num2dt)',
           'modelled, not verified: dateutil.parser tokenisation and field resolution (du_resolve), numpy/pandas timestamp conversion, strftime/isoformat']
ASSUMPTIONS = ['4-digit years', 'no time zones']
EXHAUSTIVE = {'quick': False, 'thorough': True}
LEVEL_TEXT = ('machine-checked Coq theorems for every calendar date (years 1..9999, no sampling): calendar bijection, dt(y,m,d) incl. month/day overflow, '
              'yyyymmdd and ordinal integers (stated on the Gallina regenerated from /repo), UK/US dialect strings and cross-dialect rejection, dt2str '
              'round trip, ymd(); thorough tier additionally runs the real dt() on every day of 1900-2300 for every spelling')
LEVEL_NOTE = ('trusted: Coq kernel/vm_compute, translator (ints only); modelled not verified: dateutil tokenisation/resolution (du_resolve, compared on all '
              'a,b in 1..31), numpy/pandas conversions, strftime. Strings are modelled after tokenisation')
TECHNIQUE = 'Coq proof (kernel-computed 400-year sweep lifted by periodicity + lia) over a model regenerated from source + differential correspondence in vm_compute'

LO = 693596; HI = 839693
MONTHS = ['January', 'February', 'March', 'April', 'May', 'June', 'July', 'August', 'September', 'October', 'November', 'December']
DATE_SP = ['date', 'tuple', 'int_ymd', 'ordinal', 'np_D', 'ymd8', 'dBY', 'BdY', 'dbY', 'YBd', 'Y-b-d', 'Y.B.d'] + \
          ['%s:%s:%s:%s' % (k, sep, pad, dia) for k in ('dmy', 'mdy') for sep in '-/. ' for pad in (0, 1) for dia in ('uk', 'us')]
TIME_SP = ['datetime', 'np_us', 'np_ns', 'np_s', 'pdts', 'iso', 'iso_space', 'tuple_hms', 'ymd', 'dt2str']

def fields(t):
    d = us2dt(t)
    return d.year, d.month, d.day, t % DAYUS

def impl_setup():
    global dt, ymd, dt2str, np, pd
    from pyg_base import dt, ymd, dt2str
    import numpy as np, pandas as pd

def build_call(case):
    """returns (callable producing the result, expected: ('t', us) | ('err',) | ('free',))"""
    sp = case['sp']; t = case.get('t')
    if sp == 'overflow':
        y, m, d = case['y'], case['m'], case['d']
        y2 = y + (m - 1) // 12; m2 = 1 + (m - 1) % 12
        exp = datetime.datetime(y2, m2, 1) + datetime.timedelta(d - 1)
        return (lambda: dt(y, m, d)), ('t', dt2us(exp))
    if sp == 'ym':
        y, m = case['y'], case['m']
        y2 = y + (m - 1) // 12; m2 = 1 + (m - 1) % 12
        return (lambda: dt(y, m)), ('t', dt2us(datetime.datetime(y2, m2, 1)))
    T = us2dt(t); y, m, d, tod = fields(t)
    if sp == 'date': return (lambda: dt(T.date())), ('t', t)
    if sp == 'datetime': return (lambda: dt(T)), ('t', t)
    if sp == 'tuple': return (lambda: dt(y, m, d)), ('t', t)
    if sp == 'tuple_hms': return (lambda: dt(y, m, d, T.hour, T.minute, T.second)), ('t', t - T.microsecond)
    if sp == 'int_ymd': return (lambda: dt(y * 10000 + m * 100 + d)), ('t', t)
    if sp == 'ordinal': return (lambda: dt(T.toordinal())), ('t', t)
    if sp == 'np_D': return (lambda: dt(np.datetime64(T).astype('datetime64[D]'))), ('t', t)
    if sp == 'np_us': return (lambda: dt(np.datetime64(T))), ('t', t)
    if sp == 'np_ns': return (lambda: dt(np.datetime64(T).astype('datetime64[ns]'))), ('t', t)
    if sp == 'pdts': return (lambda: dt(pd.Timestamp(T))), ('t', t)
    if sp == 'iso': return (lambda: dt(T.isoformat())), ('t', t)
    if sp == 'iso_space': return (lambda: dt(T.isoformat(' '))), ('t', t)
    if sp == 'np_s': return (lambda: dt(np.datetime64(T).astype('datetime64[s]'))), ('t', t - T.microsecond)
    if sp == 'ymd8': return (lambda: dt('%04d%02d%02d' % (y, m, d))), ('t', t)
    if sp == 'dBY': return (lambda: dt('%d %s %d' % (d, MONTHS[m - 1], y), dialect=case.get('dia', 'uk'))), ('t', t)
    if sp == 'BdY': return (lambda: dt('%s %d %d' % (MONTHS[m - 1], d, y), dialect=case.get('dia', 'uk'))), ('t', t)
    if sp == 'dbY': return (lambda: dt('%d %s %d' % (d, MONTHS[m - 1][:3], y), dialect=case.get('dia', 'uk'))), ('t', t)
    if sp == 'YBd': return (lambda: dt('%d %s %d' % (y, MONTHS[m - 1], d), dialect=case.get('dia', 'uk'))), ('t', t)
    if sp == 'Y-b-d': return (lambda: dt('%d-%s-%02d' % (y, MONTHS[m - 1][:3], d), dialect=case.get('dia', 'uk'))), ('t', t)
    if sp == 'Y.B.d': return (lambda: dt('%d.%s.%d' % (y, MONTHS[m - 1], d), dialect=case.get('dia', 'uk'))), ('t', t)
    if sp == 'ymd': return (lambda: ymd(T)), ('t', t - tod)
    if sp == 'dt2str': return (lambda: dt(dt2str(T))), ('t', t)
    use_ymd = sp.startswith('ymdstr:')
    if use_ymd:
        sp = sp[len('ymdstr:'):]
    k, sep, pad, dia = sp.split(':')
    a, b = (d, m) if k == 'dmy' else (m, d)
    f = '%02d' if pad == '1' else '%d'
    s = (f % a) + sep + (f % b) + sep + '%04d' % y
    matches = (k == 'dmy') == (dia == 'uk')
    if matches:
        exp = ('t', t)
    elif d > 12:
        exp = ('err',)          # unambiguous, other dialect: must be rejected
    else:
        exp = ('free',)         # ambiguous: reads as the other date; the property does not constrain it
    return ((lambda: ymd(s, dialect=dia)) if use_ymd else (lambda: dt(s, dialect=dia))), exp

def impl(case):
    if case['sp'] == 'allsp':
        obs = []; viol = None; status = 'ok'
        for sp in DATE_SP:
            r = impl({'sp': sp, 't': case['t']})
            obs.append(r['obs']); viol = viol or r['viol']
            if r['status'] != 'ok' and not (':' in sp): status = r['status']
        return {'status': status, 'obs': obs, 'viol': viol}
    if case['sp'] == 'cal':
        n = case['n']; D = datetime.date.fromordinal(n)
        obs = [D.year, D.month, D.day, D.weekday(), D.toordinal()]
        return {'status': 'ok', 'obs': obs, 'viol': None}
    f, exp = build_call(case)
    try:
        r = f(); status = 'ok'; obs = dt2us(r)
    except Exception as e:
        status = err_name(e); obs = None; r = e
    viol = None
    if exp[0] == 't' and (status != 'ok' or obs != exp[1]):
        viol = 'spelling %s of %s gives %s, expected %s' % (case['sp'], us2dt(case['t']) if 't' in case else (case['y'], case['m'], case.get('d')), r if status == 'ok' else status + ': ' + str(r)[:80], us2dt(exp[1]))
    if exp[0] == 'err' and status != 'ValueError':
        viol = 'unambiguous string in the other dialect was not rejected with ValueError: %s -> %s' % (case['sp'], r)
    return {'status': status, 'obs': obs, 'viol': viol}

# ---------------- Coq side
def coq_runner(case):
    sp = case['sp']
    return {'cal': 'run_calendar', 'ymd': 'run_ymd', 'dt2str': 'run_dt2str', 'allsp': 'run_sps'}.get(sp, 'run_sp')

def coq_case(case):
    sp = case['sp']
    if sp == 'cal': return '(%d)' % case['n']
    if sp == 'allsp': return '[' + '; '.join(coq_case({'sp': x, 't': case['t']}) for x in DATE_SP) + ']'
    if sp in ('ymd', 'dt2str'): return '(%d)' % case['t']
    if sp == 'overflow': return '(SpTuple (%d) (%d) (%d))' % (case['y'], case['m'], case['d'])
    if sp == 'ym': return '(SpYM (%d) (%d))' % (case['y'], case['m'])
    y, m, d, tod = fields(case['t'])
    if sp == 'tuple': return '(SpTuple %d %d %d)' % (y, m, d)
    if sp == 'tuple_hms':
        T = us2dt(case['t']); return '(SpTupleHMS %d %d %d %d %d %d)' % (y, m, d, T.hour, T.minute, T.second)
    if sp == 'int_ymd': return '(SpNum %d)' % (y * 10000 + m * 100 + d)
    if sp == 'ordinal': return '(SpNum %d)' % (case['t'] // DAYUS)
    if ':' in sp:
        k, sep, pad, dia = sp.replace('ymdstr:', '').split(':')
        a, b = (d, m) if k == 'dmy' else (m, d)
        return '(SpDMY %s %d %d %d)' % ('true' if dia == 'us' else 'false', a, b, y)
    return '(SpFields %d %d %d %d)' % (y, m, d, (tod - tod % 1000000) if sp == 'np_s' else tod if sp not in ('date', 'np_D', 'ymd8', 'dBY', 'BdY', 'dbY', 'YBd', 'Y-b-d', 'Y.B.d') else 0)

def nontrivial(case, result):
    sp = case['sp']
    if sp in ('overflow', 'ym'): return not (1 <= case['m'] <= 12)
    if sp == 'cal': return False
    if sp == 'allsp': return True
    y, m, d, tod = fields(case['t'])
    if ':' in sp: return True
    return d >= 28 or tod != 0

def shape(case):
    sp = case['sp']
    if ':' in sp:
        k, sep, pad, dia = sp.replace('ymdstr:', '').split(':')
        return ('ymd:' if sp.startswith('ymdstr:') else '') + '%s/%s' % (k, dia)
    return sp

# ---------------- generation
def special_days():
    out = []
    for y in [1900, 1901, 1904, 1999, 2000, 2001, 2024, 2096, 2100, 2200, 2299]:
        for m in range(1, 13):
            last = calendar.monthrange(y, m)[1]
            for d in (1, 12, 13, last):
                out.append(datetime.date(y, m, d).toordinal())
    return out

def gen_cases(rng, tier):
    cases = []
    days = special_days() + [rng.randrange(LO, HI) for _ in range(700)]
    if tier == 'thorough':
        days = list(range(LO, HI))
    for i, n in enumerate(days):
        t0 = n * DAYUS
        if tier == 'quick':
            sps = rng.sample(DATE_SP, 8) if i >= 132 * 4 else DATE_SP if i % 4 == 3 or i % 4 == 2 else rng.sample(DATE_SP, 10)
            for sp in sps:
                cases.append({'sp': sp, 't': t0})
        else:
            c = {'sp': 'allsp', 't': t0}   # every date spelling of this day in one case
            if n % 32:
                c['nomodel'] = 1           # oracle on every day; the Coq model on every 32nd day
            cases.append(c)
        if tier == 'thorough' or i % 3 == 0:
            cases.append({'sp': 'cal', 'n': n})
        if i % 4 == 0:      # ymd() on dialect strings (the dialect must reach the parser)
            cases.append({'sp': 'ymdstr:' + rng.choice([x for x in DATE_SP if ':' in x]), 't': t0})
        # month names under the US dialect too
        if i % 5 == 0:
            cases.append({'sp': rng.choice(['dBY', 'BdY', 'dbY', 'YBd', 'Y-b-d', 'Y.B.d']), 't': t0, 'dia': 'us'})
    n_time = 1500 if tier == 'quick' else 100000
    for _ in range(n_time):
        n = rng.randrange(LO, HI)
        tod = rng.choice([0, 1, 999999, 86399999999, rng.randrange(DAYUS), rng.randrange(86400) * 1000000])
        sp = rng.choice(TIME_SP)
        if sp in ('np_ns', 'pdts'):
            n = min(n, 825700)      # numpy/pandas nanosecond timestamps end in 2262
        c = {'sp': sp, 't': n * DAYUS + tod}
        if tier == 'thorough' and rng.random() < 0.8:
            c['nomodel'] = 1
        cases.append(c)
    n_over = 1500 if tier == 'quick' else 60000
    for _ in range(n_over):
        y = rng.randrange(1905, 2295)
        cases.append({'sp': 'overflow', 'y': y, 'm': rng.randrange(-36, 49), 'd': rng.choice([rng.randrange(-400, 401), rng.randrange(-3, 35)])})
    for _ in range(200 if tier == 'quick' else 5000):
        cases.append({'sp': 'ym', 'y': rng.randrange(1905, 2295), 'm': rng.randrange(-36, 49)})
    return cases
