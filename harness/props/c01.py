"""C01 - a dictable behaves as a rectangular list of records under any history of public table operations."""
import datetime, itertools, json, math
from implutil import dt2us, us2dt, err_name

ID = 'C01'
TRANSLATOR = []
COQ_EXEC = ['exec.X_table']
COQ_IMPORTS = 'From PB Require Import model.M_table.\n'
PER_FILE = 120
CASE_TIMEOUT = 10
NREGS = 3
RULE = ('cases: histories of 1-12 public table operations over 3 registers (integer column names (d[0]=v, update({0: v}), dictable({0: ..}), records / d + {0: ..}: stored as "0"); assignment as d[k]=v, d.update({k: v}), d.k = v with extra misfits on one-row tables; constructors from records / keyword or dict columns '
        'with scalars / rows+headers / header-row form; d[k]=v, del d[k]; d[i], d[k], d[i][k] vs d[k][i], d[k1,k2], d[callable], list(d); '
        'slices incl. negative bounds and steps (negative too), range indices (ascending, descending down to row 0, stepped, empty, out of range), bool masks, int lists, column lists; d(k=value|callable); d & names; columns called `columns` / `data` in every op; empty numpy index arrays / masks (np.where without match) on tables with and without rows; d - key / d - [keys] (substring-related names id/bid, a/ab/name/surname); read / mutate / read-again triples for every (read spelling x in-place mutation spelling) pair on one table object; every read and table-returning call made twice; relabel / rename prefix, suffix, maps to fresh names, bijective maps among existing columns (swaps, cycles, identity entries, absent columns, chains ending in a fresh name); do; '
        'dictable.concat of 0-3 tables, d+None, d+0, 0+d, d+d, d+record; copy) on tables of 0-5 rows x 0-4 columns incl. empty tables and '
        'columns without rows, cells None/int/float/NaN objects/str/datetime; a separate malformed stream (misfit lengths, missing keys, '
        'out-of-range indices, ragged rows, wrong-length masks); plus every single op on every table with <= 2 rows x <= 2 columns over two '
        'cell values. After EVERY op the op\'s output and all registers (dict(d), len, shape, list(d), which registers are the same object) are '
        'compared inside Coq with the model run on the same history (columns sorted by name: dict_concat key order is hash dependent), and '
        'the oracle re-derives the registers from a plain python list-of-records interpreter written from the property text. '
        'non-trivial = history with >= 2 different kinds of op that succeed on a table with >= 1 row; distinct by history')
EXPLANATION = ('theorems C01_* (coq/props/C01.v) hold for every history (fold over any op list) and every table: the rectangularity invariant '
               'is preserved by each op incl. rejected ones, and the dict-of-lists model commutes with the abstraction to a list of records '
               'with equal outputs; the correspondence ties the dict-of-lists model to /repo on generated histories')
TRUSTED = ['modelled, not verified: the dict-of-lists model coq/model/M_table.v of _dictable.py/_zip.py (tied by the correspondence only)',
           'dict key order is not modelled: observations are compared with columns sorted by name; generated ops never depend on key order '
           '(relabel maps are injective on every table: permutations of a name set or chains ending in a history-fresh name; two-argument do-functions only with explicit keys)',
           'Dict.copy is modelled as the identity on contents (it re-inserts every column through __setitem__)']
ASSUMPTIONS = ['cells are None, ints, half-integer floats, +-inf, NaN objects, ASCII strings, datetimes (year 1 .. 9999, microseconds); no bool cells, no nested containers', 'column names are ASCII identifiers or ints (an int name is stored as its str; float / tuple names are kept as they are by the code and are not generated) (a column named "key" is modelled: it wins over the key=<new column> default of d(k=f)); incl. columns / data (the constructor\'s own parameter names: built from a dict, never through keyword spellings of the constructor; d.columns is the key list, not that column)',
               'row/column callables come from the named set coalesce, is_none, identity, eq (model: M_table.rowfn, colfn); a derived-column function with a parameter "key" and NO such column receives the new column name (modelled, no oracle claim)']
EXHAUSTIVE = {'quick': False, 'thorough': False}
LEVEL_TEXT = ('machine-checked Coq theorems C01_* for all histories and tables (invariant + refinement to a list-of-records spec by induction over the '
              'op list) about a dict-of-lists model of dictable; the model is compared with the real dictable after every op of thousands of generated histories')
LEVEL_NOTE = 'the model is tied to the source by the differential run only (no translator: the code is dict/list manipulation, not arithmetic)'
TECHNIQUE = 'Coq refinement proof (data refinement dict-of-lists -> list of records, fold_left induction) + differential correspondence in vm_compute + list-of-records oracle'

NAMES = ['a', 'b', 'c', 'd', 'id', '_x', 'find_a', 'key', 'bid', 'name', 'surname', 'ab',
         'columns', 'data']     # names of the constructor's own parameters: such columns exist (built from a dict) and must survive every op     # substring-related names: id/bid, a/ab/name/surname      # 'key': Dict.__call__ injects key=<new column> as a default; a column of that name must win

# ------------------------------------------------------------------ cells
def cell_py(c, nans):
    if c is None or isinstance(c, int):
        return c
    if 'f' in c: return c['f'] / 2.0
    if 'nan' in c: return nans.setdefault(c['nan'], float('nan'))
    if 'inf' in c: return float('inf') * c['inf']
    if 's' in c: return c['s']
    if 'd' in c: return us2dt(c['d'])
    raise ValueError(c)

def cell_obs(x, nanid):
    if x is None: return None
    if isinstance(x, bool): return ['bool', int(x)]
    if isinstance(x, int): return x
    if isinstance(x, float):
        if x != x: return ['nan', nanid.get(id(x), -1)]
        if math.isinf(x): return ['inf', 1 if x > 0 else -1]
        if (2 * x) != int(2 * x): return ['f?', repr(x)]
        return ['f', int(2 * x)]
    if isinstance(x, str): return ['s', x]
    if isinstance(x, datetime.datetime): return ['d', dt2us(x)]
    return ['?', type(x).__name__]

def cell_coq(c):
    if c is None: return 'CNone'
    if isinstance(c, int): return '(CNum false (%d))' % (2 * c)
    if 'f' in c: return '(CNum true (%d))' % c['f']
    if 'nan' in c: return '(CNaN %d%%N)' % c['nan']
    if 'inf' in c: return '(CInf %s)' % ('true' if c['inf'] < 0 else 'false')
    if 's' in c: return '(CStr %s)' % qs(c['s'])
    if 'd' in c: return '(CDate (%d))' % c['d']
    raise ValueError(c)

def qs(s): return '"' + s.replace('"', '""') + '"'
def clist(xs): return '[' + '; '.join(xs) + ']'
def cval_coq(v): return '(VS %s)' % cell_coq(v['S']) if 'S' in v else '(VL %s)' % clist(cell_coq(x) for x in v['L'])
def rec_coq(r): return clist('(%s, %s)' % (qs(k), cell_coq(x)) for k, x in r)
def nat(n): return '%d%%nat' % n
def optz(x): return 'None' if x is None else '(Some (%d))' % x
def rowfn_coq(f):
    return {'coalesce': lambda: '(RCoalesce %s %s)' % (qs(f[1]), qs(f[2])), 'isnone': lambda: '(RIsNone %s)' % qs(f[1]),
            'ident': lambda: '(RIdent %s)' % qs(f[1]), 'eq': lambda: '(REq %s %s)' % (qs(f[1]), qs(f[2]))}[f[0]]()
def colfn_coq(f):
    return {'isnone': 'FIsNone', 'none': 'FNone', 'ident': 'FIdent'}.get(f[0]) or ('(FEq %s)' if f[0] == 'eq' else '(FCoalesce %s)') % qs(f[1])
def do_fns(o): return o['fs'] if 'fs' in o else [o['f']]

def op_coq(o):
    k = o['op']
    if k == 'new_records': return 'ONewRecords %s %s' % (nat(o['dst']), clist(rec_coq(r) for r in o['recs']))
    if k == 'new_cols': return 'ONewCols %s %s' % (nat(o['dst']), clist('(%s, %s)' % (qs(n), cval_coq(v)) for n, v in o['kvs']))
    if k == 'new_rows': return 'ONewRows %s %s %s %s' % (nat(o['dst']), 'true' if o['hdr'] else 'false', clist(qs(n) for n in o['names']),
                                                       clist(clist(cell_coq(x) for x in r) for r in o['rows']))
    if k == 'set': return 'OSet %s %s %s' % (nat(o['r']), qs(o['key']), cval_coq(o['v']))
    if k == 'del': return 'ODel %s %s' % (nat(o['r']), qs(o['key']))
    if k == 'getrow': return 'OGetRow %s (%d)' % (nat(o['r']), o['i'])
    if k == 'getcol': return 'OGetCol %s %s' % (nat(o['r']), qs(o['key']))
    if k == 'cell': return 'OCell %s (%d) %s' % (nat(o['r']), o['i'], qs(o['key']))
    if k == 'tuple': return 'OTuple %s %s' % (nat(o['r']), clist(qs(n) for n in o['names']))
    if k == 'apply': return 'OApply %s %s' % (nat(o['r']), rowfn_coq(o['f']))
    if k == 'iter': return 'OIter %s' % nat(o['r'])
    if k == 'slice': return 'OSlice %s %s %s %s %s' % (nat(o['dst']), nat(o['r']), optz(o['a']), optz(o['b']), optz(o.get('s')))
    if k == 'range': return 'ORange %s %s (%d) (%d) (%d)' % (nat(o['dst']), nat(o['r']), o['a'], o['b'], o['s'])
    if k == 'mask': return 'OMask %s %s %s' % (nat(o['dst']), nat(o['r']), clist('true' if b else 'false' for b in o['m']))
    if k == 'ints': return 'OInts %s %s %s' % (nat(o['dst']), nat(o['r']), clist('(%d)' % i for i in o['idx']))
    if k == 'proj': return 'OProj %s %s %s' % (nat(o['dst']), nat(o['r']), clist(qs(n) for n in o['names']))
    if k == 'call':
        arg = '(inl %s)' % cval_coq(o['arg']['v']) if 'v' in o['arg'] else '(inr %s)' % rowfn_coq(o['arg']['f'])
        return 'OCall %s %s %s %s' % (nat(o['dst']), nat(o['r']), qs(o['key']), arg)
    if k == 'relabel':
        sp = o['sp']
        s = '(RelPrefix %s)' % qs(sp[1]) if sp[0] == 'prefix' else '(RelSuffix %s)' % qs(sp[1]) if sp[0] == 'suffix' else \
            '(RelMap %s)' % clist('(%s, %s)' % (qs(a), qs(b)) for a, b in sp[1])
        return 'ORelabel %s %s %s' % (nat(o['dst']), nat(o['r']), s)
    if k == 'do':
        ks = 'None' if o['ks'] is None else '(Some %s)' % clist(qs(n) for n in o['ks'])
        return 'ODo %s %s %s %s' % (nat(o['dst']), nat(o['r']), clist(colfn_coq(f) for f in do_fns(o)), ks)
    if k == 'concat': return 'OConcat %s %s' % (nat(o['dst']), clist(nat(r) for r in o['srcs']))
    if k == 'add':
        a = o['a']
        s = 'AddNone' if a == 'none' else 'AddZero' if a in ('zero', 'zerof') else '(AddRec [("data", %s)])' % cell_coq(a['num']) if 'num' in a else '(AddReg %s)' % nat(a['reg']) if 'reg' in a else '(AddRecs %s)' % clist(rec_coq(x) for x in a['recs']) if 'recs' in a else '(AddRec %s)' % rec_coq(a['rec'])
        return 'OAdd %s %s %s' % (nat(o['dst']), nat(o['r']), s)
    if k == 'copy': return 'OCopy %s %s' % (nat(o['dst']), nat(o['r']))
    if k == 'sub': return 'OSub %s %s %s' % (nat(o['dst']), nat(o['r']), clist(qs(n) for n in o['ks']))
    if k == 'and': return 'OAnd %s %s %s' % (nat(o['dst']), nat(o['r']), clist(qs(n) for n in o['names']))
    raise ValueError(k)

def coq_runner(case): return 'run_c01'
def coq_case(case): return clist(op_coq(o) for o in case['ops'])

# ------------------------------------------------------------------ named functions (python side)
def mk_rowfn(f):
    if f[0] == 'coalesce': return eval('lambda %s, %s: %s if %s is None else %s' % (f[1], f[2], f[2], f[1], f[1]))
    if f[0] == 'isnone': return eval('lambda %s: 1 if %s is None else 0' % (f[1], f[1]))
    if f[0] == 'ident': return eval('lambda %s: %s' % (f[1], f[1]))
    if f[0] == 'eq': return eval('lambda %s, %s: 1 if %s == %s else 0' % (f[1], f[2], f[1], f[2]))
    raise ValueError(f)
def mk_colfn(f):
    if f[0] == 'isnone': return lambda v: 1 if v is None else 0
    if f[0] == 'none': return lambda v: None
    if f[0] == 'ident': return lambda v: v
    if f[0] == 'coalesce': return eval('lambda v, %s: %s if v is None else v' % (f[1], f[1]))
    if f[0] == 'eq': return eval('lambda v, %s: 1 if v == %s else 0' % (f[1], f[1]))
    raise ValueError(f)
def rowfn_args(f): return f[1:]
def ref_rowfn(f, row):
    if f[0] == 'coalesce': return row[f[2]] if row[f[1]] is None else row[f[1]]
    if f[0] == 'isnone': return 1 if row[f[1]] is None else 0
    if f[0] == 'ident': return row[f[1]]
    if f[0] == 'eq': return 1 if row[f[1]] == row[f[2]] else 0
def ref_colfn(f, v, row):
    if f[0] == 'isnone': return 1 if v is None else 0
    if f[0] == 'none': return None
    if f[0] == 'ident': return v
    if f[0] == 'coalesce': return row[f[1]] if v is None else v
    if f[0] == 'eq': return 1 if v == row[f[1]] else 0

# ------------------------------------------------------------------ the list-of-records reference (the property text, value semantics)
class Ref:
    """cols: list of names (order immaterial), rows: list of dicts. None result = 'no claim for this input'."""
    def __init__(self, cols, rows): self.cols = list(cols); self.rows = rows
    def copy(self): return Ref(self.cols, [dict(r) for r in self.rows])

def same(x, y):
    return x is y or (type(x) is type(y) and x == y)

def ref_of_table(d):
    cols = list(dict.keys(d)); vals = [dict.__getitem__(d, k) for k in cols]
    n = len(vals[0]) if vals else 0
    return Ref(cols, [{k: v[i] for k, v in zip(cols, vals)} for i in range(n)])

def ref_set(t, key, l):
    """assign column; returns new Ref, or 'ValueError' when the length does not fit"""
    n = len(t.rows)
    if not t.cols:
        return Ref([key], [{key: x} for x in l])
    if len(l) == n: vals = l
    elif len(l) == 1: vals = l * n
    else: return 'ValueError'
    return Ref(t.cols + ([key] if key not in t.cols else []), [dict(r, **{key: x}) for r, x in zip(t.rows, vals)])

def ref_concat(ts):
    cols = []
    for t in ts:
        for k in t.cols:
            if k not in cols: cols.append(k)
    return Ref(cols, [{k: r.get(k) for k in cols} for t in ts for r in t.rows])

def vlist(v, conv): return [conv(v['S'])] if 'S' in v else [conv(x) for x in v['L']]

def ref_step(o, get, conv):
    """returns ('new', Ref|None) | ('inplace', Ref|'ValueError'|None) | ('alias', reg) | ('out', value|NOCLAIM) ; None = no claim"""
    k = o['op']
    if k == 'new_records':
        recs = [dict((n, conv(x)) for n, x in r) for r in o['recs']]
        cols = []
        for r in recs:
            for n in r:
                if n not in cols: cols.append(n)
        return 'new', Ref(cols, [{n: r.get(n) for n in cols} for r in recs] if cols else [])
    if k == 'new_cols':
        d = {}
        for n, v in o['kvs']: d[n] = vlist(v, conv)
        L = {len(v) for v in d.values() if len(v) != 1}
        if len(L) > 1: return 'new', None
        n = L.pop() if L else (1 if d else 0)
        return 'new', Ref(list(d), [{c: (v[0] if len(v) == 1 else v[i]) for c, v in d.items()} for i in range(n)])
    if k == 'new_rows':
        names, rows = o['names'], o['rows']
        if not o['hdr'] and not rows:
            return 'new', Ref(list(dict.fromkeys(names)), [])
        if names and rows and len(set(names)) == len(names) and all(len(r) == len(names) for r in rows):
            return 'new', Ref(names, [dict(zip(names, [conv(x) for x in r])) for r in rows])
        return 'new', None
    t = get(o['r']) if 'r' in o else None
    if k == 'set':
        if t is None: return 'inplace', None
        return 'inplace', ref_set(t, o['key'], vlist(o['v'], conv))
    if k == 'del':
        if t is None or o['key'] not in t.cols: return 'inplace', None
        cs = [c for c in t.cols if c != o['key']]
        return 'inplace', Ref(cs, [{c: x for c, x in r.items() if c != o['key']} for r in t.rows] if cs else [])
    if k == 'getrow':
        if t is None or not t.cols or not -len(t.rows) <= o['i'] < len(t.rows): return 'out', NOCLAIM
        return 'out', t.rows[o['i']]
    if k == 'getcol':
        if t is None or o['key'] not in t.cols: return 'out', NOCLAIM
        return 'out', [r[o['key']] for r in t.rows]
    if k == 'cell':
        if t is None or o['key'] not in t.cols or not -len(t.rows) <= o['i'] < len(t.rows): return 'out', NOCLAIM
        x = t.rows[o['i']][o['key']]
        return 'out', [x, x]
    if k == 'tuple':
        if t is None or not o['names'] or any(n not in t.cols for n in o['names']): return 'out', NOCLAIM
        return 'out', [[r[n] for n in o['names']] for r in t.rows]
    if k == 'apply':
        if t is None or any(n not in t.cols for n in rowfn_args(o['f'])): return 'out', NOCLAIM
        return 'out', [ref_rowfn(o['f'], r) for r in t.rows]
    if k == 'iter':
        return 'out', (NOCLAIM if t is None else t.rows)
    if t is None and k not in ('concat',): return 'new', None
    if k == 'slice':
        if o.get('s') == 0: return 'new', None
        return 'new', Ref(t.cols, [dict(r) for r in t.rows[slice(o['a'], o['b'], o.get('s'))]])
    if k == 'range':
        if o['s'] == 0: return 'new', None
        idx = list(range(o['a'], o['b'], o['s']))          # d[range(...)] selects those rows, in that order
        if any(not -len(t.rows) <= i < len(t.rows) for i in idx): return 'new', None
        return 'new', Ref(t.cols, [dict(t.rows[i]) for i in idx])
    if k == 'mask':
        if len(o['m']) != len(t.rows): return 'new', None
        return 'new', Ref(t.cols, [dict(r) for r, tf in zip(t.rows, o['m']) if tf])
    if k == 'ints':
        if any(not -len(t.rows) <= i < len(t.rows) for i in o['idx']): return 'new', None
        return 'new', Ref(t.cols, [dict(t.rows[i]) for i in o['idx']])
    if k == 'proj':
        if not o['names'] or any(n not in t.cols for n in o['names']): return 'new', None
        ns = list(dict.fromkeys(o['names']))
        return 'new', Ref(ns, [{n: r[n] for n in ns} for r in t.rows])
    if k == 'call':
        if 'v' in o['arg']:
            r = ref_set(t, o['key'], vlist(o['arg']['v'], conv))
        else:
            if any(n not in t.cols for n in rowfn_args(o['arg']['f'])): return 'new', None
            r = ref_set(t, o['key'], [ref_rowfn(o['arg']['f'], row) for row in t.rows])
        return 'new', (None if r == 'ValueError' else r)
    if k == 'relabel':
        sp = o['sp']
        f = (lambda n: sp[1] + n) if sp[0] == 'prefix' else (lambda n: n + sp[1]) if sp[0] == 'suffix' else (lambda n, m=dict(map(tuple, sp[1])): m.get(n, n))
        new = [f(n) for n in t.cols]
        if len(set(new)) != len(new): return 'new', None
        return 'new', Ref(new, [{f(n): x for n, x in r.items()} for r in t.rows])
    if k == 'do':
        ks = t.cols if o['ks'] is None else o['ks']
        rows = [dict(r) for r in t.rows]
        fns = do_fns(o)
        if any(n not in t.cols for n in ks) or any(n not in t.cols for f in fns for n in f[1:]): return 'new', None
        # per-column transforms applied in sequence: columns left to right, for each column the functions left to right,
        # every step sees the rows as they are at that moment (extra, column-named arguments included)
        for key in ks:
            for f in fns:
                rows = [dict(r, **{key: ref_colfn(f, r[key], r)}) for r in rows]
        return 'new', Ref(t.cols, rows)
    if k == 'concat':
        ts = [get(r) for r in o['srcs']]
        if any(x is None for x in ts): return ('alias', o['srcs'][0]) if len(ts) == 1 else ('new', None)
        if len(ts) == 1: return 'alias', o['srcs'][0]
        return 'new', ref_concat(ts)
    if k == 'add':
        a = o['a']
        if a in ('none', 'zero', 'zerof'): return 'alias', o['r']
        if 'reg' in a:
            t2 = get(a['reg'])
            return 'new', (None if t2 is None else ref_concat([t, t2]))
        if 'num' in a: return 'new', ref_concat([t, Ref(['data'], [{'data': conv(a['num'])}])])       # d + 5 = d + dictable(5): a one-cell table with the column 'data'
        if 'recs' in a:
            recs = [dict((n, conv(x)) for n, x in rc) for rc in a['recs']]
            cols = list(dict.fromkeys(n for rc in recs for n in rc))
            return 'new', ref_concat([t, Ref(cols, [{n: rc.get(n) for n in cols} for rc in recs] if cols else [])])
        rec = dict((n, conv(x)) for n, x in a['rec'])
        return 'new', ref_concat([t, Ref(list(rec), [rec] if rec else [])])
    if k == 'copy': return 'new', t.copy()
    if k == 'and':          # d & names: the named columns that exist, all rows (nothing named exists: the code returns all columns and no rows - no claim)
        cs = [c for c in t.cols if c in o['names']]
        return 'new', (Ref(cs, [{c: r[c] for c in cs} for r in t.rows]) if cs else None)
    if k == 'sub':          # d - key / d - [keys]: a new table without exactly these columns (absent ones ignored)
        cs = [c for c in t.cols if c not in o['ks']]
        return 'new', Ref(cs, [{c: r[c] for c in cs} for r in t.rows] if cs else [])
    raise ValueError(k)

class _NoClaim: pass
NOCLAIM = _NoClaim()

# ------------------------------------------------------------------ implementation side
def impl_setup():
    global dictable, np
    from pyg_base import dictable
    import numpy as np

def snapshot(d):
    return {k: list(dict.__getitem__(d, k)) for k in dict.keys(d)}
def snap_equal(a, b):
    return list(a) == list(b) and all(len(a[k]) == len(b[k]) and all(same(x, y) for x, y in zip(a[k], b[k])) for k in a)

def dump_table(d, nanid):
    co = lambda x: cell_obs(x, nanid)
    out = []
    try: out.append(sorted([k, [co(x) for x in dict.__getitem__(d, k)]] for k in dict.keys(d)))
    except Exception as e: out.append(['ERR', err_name(e)])
    try: out.append(len(d))
    except Exception as e: out.append(['ERR', err_name(e)])
    try: out.append(list(d.shape))
    except Exception as e: out.append(['ERR', err_name(e)])
    try: out.append([sorted([k, co(x)] for k, x in dict.items(r)) for r in d])
    except Exception as e: out.append(['ERR', err_name(e)])
    return out

def clauses(d, label):
    """the property's own clauses on one real table"""
    ks = list(dict.keys(d)); vs = [dict.__getitem__(d, k) for k in ks]
    if any(not isinstance(v, list) for v in vs): return '%s: a column is not a list' % label
    ls = {len(v) for v in vs}
    if len(ls) > 1: return '%s is not rectangular: column lengths %s' % (label, sorted(ls))
    n = ls.pop() if ls else 0
    try:
        if len(d) != n: return '%s: len() = %s but columns have %s cells' % (label, len(d), n)
        if tuple(d.shape) != (n, len(ks)): return '%s: shape %s but %s rows x %s columns' % (label, d.shape, n, len(ks))
        rows = list(d)
    except Exception as e:
        return '%s: len/shape/iteration raised %s' % (label, type(e).__name__)
    if len(rows) != n: return '%s: iteration yields %s rows, table has %s' % (label, len(rows), n)
    for i, r in enumerate(rows):
        if set(dict.keys(r)) != set(ks) or any(not same(dict.__getitem__(r, k), v[i]) for k, v in zip(ks, vs)):
            return '%s: iteration row %s = %s differs from the columns' % (label, i, dict(r))
    for i in range(n):
        for k in ks:
            try: x = d[i][k]; y = d[k][i]
            except Exception as e: return '%s: d[%s][%r] / d[%r][%s] raised %s' % (label, i, k, k, i, type(e).__name__)
            if not same(x, y): return '%s: d[%s][%r] = %r but d[%r][%s] = %r' % (label, i, k, x, k, i, y)
    return None

def ref_matches(t, d):
    ks = list(dict.keys(d))
    if set(ks) != set(t.cols) or len(ks) != len(t.cols): return 'columns %s, list-of-records model has %s' % (sorted(ks, key=repr), sorted(t.cols))
    vs = {k: dict.__getitem__(d, k) for k in ks}
    for k in ks:
        if len(vs[k]) != len(t.rows): return 'column %r has %s cells, list-of-records model has %s rows' % (k, len(vs[k]), len(t.rows))
        for i, r in enumerate(t.rows):
            if not same(vs[k][i], r[k]): return 'cell [%s][%r] = %r, list-of-records model has %r' % (i, k, vs[k][i], r[k])
    return None

def out_matches(exp, got):
    if isinstance(exp, dict):
        return isinstance(got, dict) and set(exp) == set(dict.keys(got)) and all(same(exp[k], dict.__getitem__(got, k)) for k in exp)
    if isinstance(exp, (list, tuple)):
        return isinstance(got, (list, tuple)) and len(exp) == len(got) and all(out_matches(a, b) for a, b in zip(exp, got))
    return same(exp, got)

def canon(k, out, co):
    if k == 'getrow': return sorted([n, co(x)] for n, x in dict.items(out))
    if k in ('getcol', 'apply'): return [co(x) for x in out]
    if k == 'cell': return [co(v) if t == 'v' else ['ERR', v] for t, v in out]
    if k == 'tuple': return [[co(x) for x in tup] for tup in out]
    if k == 'iter': return [sorted([n, co(x)] for n, x in dict.items(r)) for r in out]
    return 'ok'

def describe(o):
    return json.dumps(o, sort_keys=True)

def impl(case):
    nans = {}
    conv = lambda c: cell_py(c, nans)
    regs = [dictable() for _ in range(NREGS)]
    keep = list(regs)                       # keep every table alive: ids are identities
    ref_heap = [Ref([], []) for _ in range(NREGS)]      # list-of-records objects; None = no claim
    ref_regs = list(range(NREGS))
    obs = []; viol = None; status = 'ok'
    def get(r): return ref_heap[ref_regs[r]]
    for step_no, o in enumerate(case['ops']):
        k = o['op']
        before = [(t, snapshot(t)) for t in {id(t): t for t in regs}.values()]
        # every read / table-returning call is made TWICE on the same objects: same answer required (in-place ops once)
        first = None
        for pass_no in range(1 if k in ('set', 'del') else 2):
            result = None; out = 'ok'; errn = None
            try:
                if k == 'new_records': result = dictable(Krecs(o, [[(n, conv(x)) for n, x in r] for r in o['recs']]))
                elif k == 'new_cols':
                    kv = dict((n, conv(v['S']) if 'S' in v else [conv(x) for x in v['L']]) for n, v in o['kvs'])
                    if o.get('form') == 'mixed' and not RESERVED & set(kv):          # dictable(data_dict, **kw): keyword columns first, then the data columns
                        ks_ = list(kv); sp_ = o.get('split', 0)
                        result = dictable({K(o, k_): kv[k_] for k_ in ks_[sp_:]}, **{k_: kv[k_] for k_ in ks_[:sp_]})
                    else: result = dictable({K(o, k_): v_ for k_, v_ in kv.items()}) if o.get('form') == 'dict' or RESERVED & set(kv) else dictable(**kv)
                elif k == 'new_rows':
                    rows = [[conv(x) for x in r] for r in o['rows']]
                    result = dictable([list(o['names'])] + rows) if o['hdr'] else dictable(rows, list(o['names']))
                elif k == 'set':
                    v = o['v']; val = conv(v['S']) if 'S' in v else [conv(x) for x in v['L']]
                    if o.get('form') == 'update': regs[o['r']].update({K(o, o['key']): val})
                    elif o.get('form') == 'attr' and not o['key'].startswith('_'): setattr(regs[o['r']], o['key'], val)
                    else: regs[o['r']][K(o, o['key'])] = val
                elif k == 'del':
                    if o.get('form') == 'attr' and not o['key'].startswith('_'): delattr(regs[o['r']], o['key'])
                    else: del regs[o['r']][o['key']]
                elif k == 'getrow': out = regs[o['r']][o['i']]
                elif k == 'getcol':
                    d_ = regs[o['r']]      # d.key is the same column when it exists (a missing attribute is an AttributeError / find_ accessor: not used then)
                    out = getattr(d_, o['key']) if o.get('form') == 'attr' and o['key'] in dict.keys(d_) and not o['key'].startswith('_') and o['key'] != 'columns' else d_[o['key']]
                elif k == 'cell':
                    out = []
                    for f in (lambda d: d[o['i']][o['key']], lambda d: d[o['key']][o['i']]):
                        try: out.append(('v', f(regs[o['r']])))
                        except Exception as e: out.append(('e', err_name(e)))
                elif k == 'tuple': out = regs[o['r']][tuple(o['names'])]
                elif k == 'apply': out = regs[o['r']][mk_rowfn(o['f'])]
                elif k == 'iter': out = list(regs[o['r']])
                elif k == 'slice': result = regs[o['r']][slice(o['a'], o['b'], o.get('s'))]
                elif k == 'range': result = regs[o['r']][range(o['a'], o['b'], o['s'])]
                elif k == 'mask': result = regs[o['r']][np.array(o['m'], dtype=bool) if o.get('form') == 'np' else list(o['m'])]
                elif k == 'ints': result = regs[o['r']][(np.where(np.zeros(3, dtype=bool))[0] if not o['idx'] and o.get('npkind') == 'where' else np.array(o['idx'], dtype=int)) if o.get('form') == 'np' else list(o['idx'])]
                elif k == 'proj': result = regs[o['r']][list(o['names'])]
                elif k == 'call':
                    a = o['arg']
                    val = mk_rowfn(a['f']) if 'f' in a else (conv(a['v']['S']) if 'S' in a['v'] else [conv(x) for x in a['v']['L']])
                    result = regs[o['r']](**{o['key']: val})
                elif k == 'relabel':
                    sp = o['sp']
                    meth = regs[o['r']].rename if o.get('form') == 'rename' else regs[o['r']].relabel
                    if sp[0] in ('prefix', 'suffix'):
                        result = meth((lambda k, p=sp[1]: p + k) if sp[0] == 'prefix' else (lambda k, p=sp[1]: k + p)) if o.get('argform') == 'fn' else meth(sp[1])
                    else:
                        result = meth(dict(map(tuple, sp[1]))) if o.get('argform') == 'dict' else meth(**dict(map(tuple, sp[1])))
                elif k == 'do':
                    fns_ = [mk_colfn(f_) for f_ in do_fns(o)]; f = fns_[0] if len(fns_) == 1 and o.get('fform') != 'list' else fns_
                    result = regs[o['r']].do(f) if o['ks'] is None else regs[o['r']].do(f, []) if not o['ks'] else regs[o['r']].do(f, list(o['ks'])) if o.get('form') == 'list' else regs[o['r']].do(f, *o['ks'])
                elif k == 'concat': result = dictable.concat([regs[r] for r in o['srcs']]) if o.get('form') == 'list' else dictable.concat(*[regs[r] for r in o['srcs']])
                elif k == 'add':
                    a = o['a']
                    other = None if a == 'none' else 0 if a == 'zero' else 0.0 if a == 'zerof' else conv(a['num']) if 'num' in a else regs[a['reg']] if 'reg' in a else Krecs(o, [[(n, conv(x)) for n, x in rc] for rc in a['recs']]) if 'recs' in a else dict((K(o, n), conv(x)) for n, x in a['rec'])
                    result = (other + regs[o['r']]) if o.get('radd') and (a in ('zero', 'zerof') or (isinstance(a, dict) and 'num' in a)) else (regs[o['r']] + other)
                elif k == 'and': result = regs[o['r']] & list(o['names'])
                elif k == 'sub': result = regs[o['r']] - (o['ks'][0] if len(o['ks']) == 1 and o.get('form') != 'list' else list(o['ks']))
                elif k == 'copy': result = dictable(regs[o['r']]) if o.get('form') == 'ctor' else regs[o['r']].copy()
                else: raise RuntimeError('unknown op ' + k)
            except Exception as e:
                errn = err_name(e); out = ['ERR', errn]
            if pass_no == 0: first = (result, out, errn)
        second = (result, out, errn); result, out, errn = first
        nanid = {id(v): n for n, v in nans.items()}
        co = lambda x: cell_obs(x, nanid)
        if result is not None and errn is None:
            if not isinstance(result, dictable):
                viol = viol or 'step %d %s: returned %s, not a table' % (step_no, describe(o), type(result).__name__)
                result = dictable()
            regs[o['dst']] = result; keep.append(result); keep.append(second[0])
        # ---- canonical output
        if errn is None:
            if k == 'getrow': oj = sorted([n, co(x)] for n, x in dict.items(out))
            elif k in ('getcol', 'apply'): oj = [co(x) for x in out]
            elif k == 'cell': oj = [co(v) if t == 'v' else ['ERR', v] for t, v in out]
            elif k == 'tuple': oj = [[co(x) for x in tup] for tup in out]
            elif k == 'iter': oj = [sorted([n, co(x)] for n, x in dict.items(r)) for r in out]
            else: oj = 'ok'
        else:
            oj = out
        n = len(regs)
        obs.append([oj, [[dump_table(t, nanid) for t in regs], [regs[i] is regs[j] for i in range(n) for j in range(i + 1, n)]]])
        if viol: continue
        # ---- oracle: the property's clauses on the real objects
        here = 'step %d %s' % (step_no, describe(o))
        if k not in ('set', 'del'):
            r2, o2, e2 = second
            if e2 != errn: viol = '%s: the same call made twice answered %s, then %s' % (here, errn or 'ok', e2 or 'ok')
            elif errn is None and isinstance(result, dictable) and not (isinstance(r2, dictable) and snap_equal(snapshot(result), snapshot(r2))):
                viol = '%s: the same call made twice returned %s, then %s' % (here, snapshot(result), snapshot(r2) if isinstance(r2, dictable) else r2)
            elif errn is None and not isinstance(result, dictable) and k in ('getrow', 'getcol', 'cell', 'tuple', 'apply', 'iter') and json.dumps(canon(k, out, co)) != json.dumps(canon(k, o2, co)):
                viol = '%s: the same call made twice returned %r, then %r' % (here, out, o2)
            if viol: continue
        for i, t in enumerate(regs):
            w = clauses(t, '%s: register %d' % (here, i))
            if w: viol = w; break
        if viol: continue
        kind, exp = ref_step(o, get, conv)
        inplace_target = regs[o['r']] if k in ('set', 'del') else None
        for t, snap in before:
            if t is inplace_target and errn is None: continue
            if not snap_equal(snap, snapshot(t)):
                why = ('raised %s but' % errn) if errn else 'returned a result but'
                viol = '%s: %s an operand / other table was altered: %s -> %s' % (here, why, snap, snapshot(t)); break
        if viol: continue
        if kind == 'out':
            if exp is not NOCLAIM:
                if errn: viol = '%s raised %s; the list-of-records model yields %r' % (here, errn, exp)
                elif k == 'cell':
                    got = [v if t == 'v' else ('ERR', v) for t, v in out]
                    if not out_matches(exp, got): viol = '%s: d[i][c], d[c][i] = %r; the list-of-records model has %r' % (here, got, exp[0])
                elif not out_matches(exp, out): viol = '%s returned %r; the list-of-records model yields %r' % (here, out, exp)
        elif kind == 'alias':
            if errn: viol = '%s raised %s' % (here, errn)
            else:
                src = exp
                if regs[o['dst']] is regs[src] or o['dst'] == src: ref_regs[o['dst']] = ref_regs[src]
                else:
                    ref_heap.append(None if get(src) is None else get(src).copy()); ref_regs[o['dst']] = len(ref_heap) - 1
        elif kind == 'inplace':
            if exp == 'ValueError':
                if errn != 'ValueError':
                    viol = '%s: assignment of a column whose length fits neither the table nor 1 was %s, not rejected with ValueError' % (here, 'accepted' if errn is None else 'answered with ' + errn)
            elif exp is None:
                if errn is None: ref_heap[ref_regs[o['r']]] = ref_of_table(regs[o['r']])
            else:
                if errn: viol = '%s raised %s; on the list-of-records model it succeeds' % (here, errn)
                else: ref_heap[ref_regs[o['r']]] = exp
        elif kind == 'new':
            if exp is None:
                if errn is None:
                    ref_heap.append(ref_of_table(regs[o['dst']])); ref_regs[o['dst']] = len(ref_heap) - 1
            else:
                if errn: viol = '%s raised %s; on the list-of-records model it yields %d rows' % (here, errn, len(exp.rows))
                else:
                    ref_heap.append(exp); ref_regs[o['dst']] = len(ref_heap) - 1
        if viol: continue
        # every register against the list-of-records state (value semantics: detects aliasing of "new" tables and altered operands)
        for i, t in enumerate(regs):
            r = get(i)
            if r is None: continue
            w = ref_matches(r, t)
            if w:
                viol = '%s: register %d: %s (real table %s)' % (here, i, w, snapshot(t)); break
        if errn and status == 'ok': status = errn
    return {'status': status, 'obs': obs, 'viol': viol}

# ------------------------------------------------------------------ generation
CELLS = [None, None, 0, 1, 2, -3, {'f': 2}, {'f': 5}, {'nan': 0}, {'nan': 1}, {'s': 'x'}, {'s': 'y'}, {'s': ''}, {'d': 63113904000000000 + 86400000000},
         10 ** 12, -7, {'f': -5}, {'f': 0}, {'inf': 1}, {'inf': -1}, {'s': 'a b'}, {'s': 'None'}, {'s': '0'},
         {'d': 86400000000}, {'d': 315537983999999999}, {'d': 64093000089123456}]        # 0001-01-01, 9999-12-31 23:59:59.999999, a sub-second time in 2031

def rcell(rng): return rng.choice(CELLS)
RESERVED = {'columns', 'data'}      # dictable(columns = .., data = ..) means something else: such columns are built from a dict; d.columns is the key list
DIGITS = ['0', '7']          # integer column names: d[0] = v / update({0: v}) / dictable({0: ..}) / d + {0: ..} store the column under str(0)
def rname(rng, t=None, p_exist=0.7, ident=False):
    """ident: the name becomes a lambda parameter, it must be an identifier"""
    cols = [c for c in (t.cols if t is not None else []) if not (ident and not c.isidentifier())]
    if cols and rng.random() < p_exist: return rng.choice(cols)
    return rng.choice(NAMES if ident or rng.random() < 0.85 else DIGITS)

def K(o, name):
    """the python spelling of a column name: an int when the op says so and the name is all digits"""
    return int(name) if o.get('intkeys') and name.isdigit() else name
def Krecs(o, recs):
    allint = o.get('intkeys') and all(n.isdigit() for r in recs for n, _ in r)      # mixed int/str keys in a LIST of records: dict_concat sorts the keys
    return [dict((int(n) if allint else n, x) for n, x in r) for r in recs]

def gen_new(rng, dst, malformed):
    nrows = rng.choice([0, 0, 1, 1, 1, 2, 3, 4, 5]); ncols = rng.choice([0, 1, 1, 2, 2, 3, 4])
    names = rng.sample(NAMES + DIGITS, ncols) if rng.random() < 0.3 else rng.sample(NAMES, ncols)
    r = rng.random()
    if r < 0.3:
        recs = []
        for _ in range(nrows):
            ks = [n for n in names if rng.random() < 0.8] if rng.random() < 0.5 else names
            ks = list(ks); rng.shuffle(ks)
            recs.append([[n, rcell(rng)] for n in ks])
        return {'op': 'new_records', 'dst': dst, 'recs': recs}
    if r < 0.65:
        kvs = []
        for n in names:
            q = rng.random()
            if q < 0.2: kvs.append([n, {'S': rcell(rng)}])
            elif malformed and q < 0.35: kvs.append([n, {'L': [rcell(rng) for _ in range(rng.choice([0, 1, 2, nrows + 1]))]}])
            else: kvs.append([n, {'L': [rcell(rng) for _ in range(nrows)]}])
        return {'op': 'new_cols', 'dst': dst, 'kvs': kvs, 'form': rng.choice(['kw', 'dict'])}
    hdr = rng.random() < 0.4
    rows = [[rcell(rng) for _ in range(ncols)] for _ in range(nrows)]
    if malformed and rows and rng.random() < 0.7:
        i = rng.randrange(len(rows)); q = rng.random()
        if q < 0.4 and rows[i]: rows[i] = rows[i][:-1]
        elif q < 0.7: rows[i] = rows[i] + [rcell(rng)]
        else: rows[i] = [rcell(rng)]
    if malformed and rng.random() < 0.3: names = names[:-1] if names and rng.random() < 0.5 else names + [rng.choice(NAMES)]
    return {'op': 'new_rows', 'dst': dst, 'hdr': hdr, 'names': names, 'rows': rows}

FRESH = itertools.count(1)
ROWFNS = ['coalesce', 'isnone', 'ident', 'eq']
def gen_rowfn(rng, t):
    k = rng.choice(ROWFNS)
    if k in ('coalesce', 'eq'):
        a = rname(rng, t, 0.9, True); b = rname(rng, t, 0.9, True)
        if a == b: b = [n for n in NAMES if n != a][rng.randrange(3)]
        return [k, a, b]
    return [k, rname(rng, t, 0.9, True)]

def gen_op(rng, shadow, malformed):
    """shadow(r) -> Ref or None (unknown)"""
    r = rng.randrange(NREGS); dst = rng.randrange(NREGS); t = shadow(r)
    for _ in range(2):          # prefer operands that have rows / columns
        if t is None or (t.rows and t.cols) or rng.random() < 0.25: break
        r = rng.randrange(NREGS); t = shadow(r)
    n = len(t.rows) if t is not None else rng.randrange(4)
    kind = rng.choice(['new', 'new', 'set', 'set', 'set', 'del', 'getrow', 'getcol', 'cell', 'cell', 'tuple', 'apply', 'iter', 'slice', 'slice', 'range', 'range', 'mask', 'mask',
                       'ints', 'ints', 'proj', 'call', 'call', 'relabel', 'do', 'concat', 'concat', 'add', 'add', 'copy', 'sub', 'sub', 'and', 'and'])
    if kind == 'new': return gen_new(rng, dst, malformed)
    if kind == 'set':
        q = rng.random()
        if q < 0.25: v = {'S': rcell(rng)}
        elif q < 0.35: v = {'L': [rcell(rng)]}
        elif malformed or q < 0.5: v = {'L': [rcell(rng) for _ in range(rng.choice([0, 2, n + 1, max(0, n - 1), n]))]}
        else: v = {'L': [rcell(rng) for _ in range(n)]}
        if n == 1 and rng.random() < 0.4: v = {'L': [rcell(rng) for _ in range(rng.choice([2, 3, 3, 0]))]}     # a longer column on a ONE-row table
        return {'op': 'set', 'r': r, 'key': rname(rng, t, 0.4), 'v': v, 'form': rng.choice(['item', 'item', 'update', 'update', 'attr'])}
    if kind == 'and': return {'op': 'and', 'dst': dst, 'r': r, 'names': [rname(rng, t, 0.8) for _ in range(rng.choice([1, 2, 2, 3]))]}
    if kind == 'sub':
        ks = [rname(rng, t, 0.85) for _ in range(rng.choice([1, 1, 1, 2, 3, 0]))]
        return {'op': 'sub', 'dst': dst, 'r': r, 'ks': ks, 'form': rng.choice(['single', 'list'])}
    if kind == 'del': return {'op': 'del', 'r': r, 'key': rname(rng, t, 0.95 if not malformed else 0.5)}
    ri = lambda: rng.randrange(-n - 1, n + 1) if (malformed or n == 0) else rng.randrange(-n, n)
    if kind == 'getrow': return {'op': 'getrow', 'r': r, 'i': ri()}
    if kind == 'getcol': return {'op': 'getcol', 'r': r, 'key': rname(rng, t, 0.9)}
    if kind == 'cell': return {'op': 'cell', 'r': r, 'i': ri(), 'key': rname(rng, t, 0.9)}
    if kind == 'tuple': return {'op': 'tuple', 'r': r, 'names': [rname(rng, t, 0.95) for _ in range(rng.choice([1, 2, 2, 3]))]}
    if kind == 'apply': return {'op': 'apply', 'r': r, 'f': gen_rowfn(rng, t)}
    if kind == 'iter': return {'op': 'iter', 'r': r}
    if kind == 'slice':
        b = lambda: rng.choice([None, rng.randrange(-n - 2, n + 3)])
        st = rng.choice([None, None, None, 1, 2, -1, -1, -2, 3, -3] + ([0] if malformed else []))
        return {'op': 'slice', 'dst': dst, 'r': r, 'a': b(), 'b': b(), 's': st}
    if kind == 'range':
        q = rng.random()
        if q < 0.25: a, bb, st = rng.randrange(0, n + 1), rng.randrange(0, n + 1), rng.choice([1, 1, 2, 3])            # ascending (maybe empty)
        elif q < 0.6: a, bb, st = rng.randrange(0, max(n, 1)), -1, rng.choice([-1, -1, -2, -3])                      # descending, reaching row 0
        elif q < 0.8: a, bb, st = rng.randrange(0, max(n, 1)), rng.randrange(-1, max(n, 1)), rng.choice([-1, -2])      # descending
        elif q < 0.9: a, bb, st = rng.randrange(-n - 1, n + 2), rng.randrange(-n - 1, n + 2), rng.choice([1, -1, 2, -2])  # negative / out-of-range members
        else: a, bb, st = 0, n, 1
        if malformed and rng.random() < 0.15: st = 0
        return {'op': 'range', 'dst': dst, 'r': r, 'a': a, 'b': bb, 's': st}
    if kind == 'mask':
        q = rng.random()
        m = n if not malformed and q < 0.9 else rng.choice([0, 1, n, n + 1, 2])
        p = rng.choice([0.0, 0.5, 0.5, 1.0])
        return {'op': 'mask', 'dst': dst, 'r': r, 'm': [rng.random() < p for _ in range(m)]}
    if kind == 'ints': return {'op': 'ints', 'dst': dst, 'r': r, 'idx': [ri() for _ in range(rng.choice([0, 1, 2, 3]))]}
    if kind == 'proj': return {'op': 'proj', 'dst': dst, 'r': r, 'names': [rname(rng, t, 0.95) for _ in range(rng.choice([0, 1, 2, 2, 3]))]}
    if kind == 'call':
        if rng.random() < 0.5: arg = {'f': gen_rowfn(rng, t)}
        else:
            q = rng.random()
            arg = {'v': {'S': rcell(rng)} if q < 0.4 else {'L': [rcell(rng) for _ in range(n if q < 0.85 and not malformed else rng.choice([0, 1, 2, n + 1]))]}}
            if n == 1 and rng.random() < 0.4: arg = {'v': {'L': [rcell(rng) for _ in range(rng.choice([2, 3, 3, 0]))]}}   # t(c=[1,2,3]) on a ONE-row table
        return {'op': 'call', 'dst': dst, 'r': r, 'key': rname(rng, t, 0.3), 'arg': arg}
    if kind == 'relabel':
        q = rng.random()
        if q < 0.25: sp = ['prefix', rng.choice(['x_', 'y_'])]
        elif q < 0.5: sp = ['suffix', rng.choice(['_x', '_y'])]
        else:
            # The rename map must be injective on the table's columns WHATEVER they are (the shadow state may be stale, and a
            # collision makes the result depend on dict key order, which dict_concat takes from a set = hash order, not modelled).
            # Two shapes guarantee that: a PERMUTATION of a set of names (swap, 3-cycle, identity entries, entries for absent columns;
            # identity outside the set => a bijection on all names), and a CHAIN s1->s2->..->sm->fresh whose end is a name never used
            # in this history (shift onto a name that is itself renamed away).
            cols = list(t.cols) if t is not None else []
            cand = list(dict.fromkeys(cols + cols + NAMES)) if rng.random() < 0.8 else list(cols)
            m = min(len(cand), rng.choice([0, 1, 2, 2, 3, 3, 4]))
            pref = [c for c in cols if rng.random() < 0.85]; rng.shuffle(pref)
            names = list(dict.fromkeys(pref + rng.sample(cand, len(cand))))[:m]
            q2 = rng.random()
            if q2 < 0.2 or not names:                                   # renames to fresh names only
                pairs = [[a, 'n%d' % next(FRESH)] for a in names]
            elif q2 < 0.7:                                              # permutation: one cycle or a random permutation (fixed points allowed)
                if rng.random() < 0.6: tgt = names[1:] + names[:1]
                else: tgt = rng.sample(names, len(names))
                pairs = [[a, b] for a, b in zip(names, tgt)]
            else:                                                       # chain ending in a fresh name
                pairs = [[a, b] for a, b in zip(names, names[1:] + ['n%d' % next(FRESH)])]
            rng.shuffle(pairs)
            sp = ['map', pairs]
        return {'op': 'relabel', 'dst': dst, 'r': r, 'sp': sp, 'form': rng.choice(['relabel', 'relabel', 'rename'])}
    if kind == 'do':
        q = rng.random()
        if q < 0.45:
            fs = [[rng.choice(['isnone', 'none', 'ident'])] for _ in range(rng.choice([1, 1, 1, 2, 0]))]
            ks = rng.choice([None, None, [], [rname(rng, t, 0.9)], [rname(rng, t, 0.9), rname(rng, t, 0.9)]])
        else:
            # functions with a second, column-named parameter (explicit keys only: the order of the keys matters). The column they read is
            # often itself among the keys and transformed EARLIER in the same call: each step must see the rows as they are by then
            b = rname(rng, t, 0.9, True)
            fs = [[rng.choice(['eq', 'eq', 'coalesce']), b]]
            if rng.random() < 0.4: fs.insert(rng.randrange(2), rng.choice([['isnone'], ['eq', rname(rng, t, 0.9, True)], ['none']]))
            ks = [rname(rng, t, 0.9) for _ in range(rng.choice([1, 2, 2]))]
            if rng.random() < 0.6: ks = [b] + [k_ for k_ in ks if k_ != b]
        return {'op': 'do', 'dst': dst, 'r': r, 'fs': fs, 'ks': ks, 'fform': rng.choice(['single', 'list'])}
    if kind == 'concat': return {'op': 'concat', 'dst': dst, 'srcs': [rng.randrange(NREGS) for _ in range(rng.choice([0, 1, 1, 2, 2, 2, 3]))]}
    if kind == 'add':
        q = rng.random()
        if q < 0.15: a = 'none'
        elif q < 0.3: a = rng.choice(['zero', 'zerof'])
        elif q < 0.38: a = {'num': rng.choice([1, 5, -2, {'f': 3}, {'f': -1}])}          # a non-zero number is NOT the identity: it is appended as a cell of column 'data'
        elif q < 0.65: a = {'reg': rng.randrange(NREGS)}
        else:
            ks = [nm for nm in NAMES + DIGITS if rng.random() < 0.4]
            a = {'rec': [[nm, rcell(rng)] for nm in ks]}
        return {'op': 'add', 'dst': dst, 'r': r, 'a': a, 'radd': rng.random() < 0.3}
    return {'op': 'copy', 'dst': dst, 'r': r}

def gen_probe(rng, t, r, dst):
    """an op whose result has the operand's content (all-True mask, full slice / range / int list, all columns, no-op relabel / do, copy,
    + empty record); followed by an in-place edit of the result and a re-inspection of the operand: catches results that ARE the operand"""
    n = len(t.rows) if t is not None else 0; cols = list(t.cols) if t is not None else []
    k = rng.choice(['mask', 'mask', 'mask', 'slice', 'range', 'ints', 'proj', 'relabel', 'do', 'copy', 'addrec', 'call'])
    if k == 'mask': return {'op': 'mask', 'dst': dst, 'r': r, 'm': [True] * n}
    if k == 'slice': return {'op': 'slice', 'dst': dst, 'r': r, 'a': rng.choice([None, 0, -n]), 'b': rng.choice([None, n]), 's': rng.choice([None, 1])}
    if k == 'range': return {'op': 'range', 'dst': dst, 'r': r, 'a': 0, 'b': n, 's': 1}
    if k == 'ints': return {'op': 'ints', 'dst': dst, 'r': r, 'idx': list(range(n))}
    if k == 'proj' and cols: return {'op': 'proj', 'dst': dst, 'r': r, 'names': cols}
    if k == 'relabel': return {'op': 'relabel', 'dst': dst, 'r': r, 'sp': ['map', []]}
    if k == 'do': return {'op': 'do', 'dst': dst, 'r': r, 'f': ['ident'], 'ks': rng.choice([None, []])}
    if k == 'addrec': return {'op': 'add', 'dst': dst, 'r': r, 'a': {'rec': []}, 'radd': False}
    if k == 'call' and cols and cols[0].isidentifier(): return {'op': 'call', 'dst': dst, 'r': r, 'key': cols[0], 'arg': {'f': ['ident', cols[0]]}}
    return {'op': 'copy', 'dst': dst, 'r': r}

def add_forms(rng, o):
    """alternative SPELLINGS of the same operation (same model op): chosen at random so every spelling meets every kind of table"""
    k = o['op']; q = rng.random()
    if k in ('new_cols', 'new_records', 'set', 'add') and rng.random() < 0.7: o['intkeys'] = True      # digit names are passed as python ints
    if k == 'new_cols':
        o['form'] = rng.choice(['kw', 'dict', 'mixed'])
        if o['form'] == 'mixed': o['split'] = rng.randrange(0, len(o['kvs']) + 1)
    elif k in ('del', 'getcol') and q < 0.3: o['form'] = 'attr'
    elif k in ('mask', 'ints') and (q < 0.3 or (q < 0.6 and not (o.get('m') or o.get('idx')))):       # numpy selectors, also EMPTY ones (np.where with no match, empty masks)
        o['form'] = 'np'
        if k == 'ints' and rng.random() < 0.5: o['npkind'] = 'where'
    elif k in ('concat', 'do') and q < 0.3: o['form'] = 'list'
    elif k == 'copy' and q < 0.4: o['form'] = 'ctor'
    elif k == 'relabel' and q < 0.4: o['argform'] = 'fn' if o['sp'][0] in ('prefix', 'suffix') else 'dict'
    elif k == 'add' and isinstance(o['a'], dict) and 'rec' in o['a'] and q < 0.4:
        recs = [o['a']['rec']] + [[[nm, rcell(rng)] for nm in NAMES if rng.random() < 0.3] for _ in range(rng.choice([0, 1, 2]))]
        o['a'] = {'recs': recs if rng.random() < 0.9 else []}
    return o

def gen_big(rng):
    """tables far beyond the 0-5 x 0-4 scope: 101-180 rows, or 12 columns; a few row-selection / concat / assignment ops on them"""
    if rng.random() < 0.75:
        n = rng.randrange(101, 181); names = rng.sample(NAMES, rng.choice([1, 2, 3]))
        kvs = [[nm, {'L': [rng.choice([i, i, -i, None, {'f': 2 * i + 1}, {'s': 'r%d' % i}]) for i in range(n)]}] for nm in names]
    else:
        n = rng.choice([1, 2, 3]); names = ['c%d' % j for j in range(12)]
        kvs = [[nm, {'L': [rcell(rng) for _ in range(n)]}] for nm in names]
    ops = [{'op': 'new_cols', 'dst': 0, 'kvs': kvs, 'form': rng.choice(['kw', 'dict'])}]
    for _ in range(rng.choice([2, 3, 4])):
        k = rng.choice(['slice', 'mask', 'ints', 'range', 'add', 'set', 'cell', 'getrow', 'proj', 'setlist', 'concat3'])
        key = rng.choice(names)
        if k == 'slice': ops.append({'op': 'slice', 'dst': 1, 'r': 0, 'a': rng.choice([None, rng.randrange(-n, n)]), 'b': rng.choice([None, rng.randrange(-n, n + 5)]), 's': rng.choice([None, 7, -1, -13, 100])})
        elif k == 'mask': ops.append({'op': 'mask', 'dst': 1, 'r': 0, 'm': [rng.random() < 0.5 for _ in range(n)]})
        elif k == 'ints': ops.append({'op': 'ints', 'dst': 1, 'r': 0, 'idx': [rng.randrange(-n, n) for _ in range(rng.choice([1, 5, 130]))]})
        elif k == 'range': ops.append({'op': 'range', 'dst': 1, 'r': 0, 'a': n - 1, 'b': rng.choice([-1, 100, n // 2]), 's': rng.choice([-1, -7, -100])})
        elif k == 'add': ops.append({'op': 'add', 'dst': 2, 'r': 0, 'a': {'reg': rng.choice([0, 1])}, 'radd': False})
        elif k == 'concat3': ops.append({'op': 'concat', 'dst': 2, 'srcs': [0, 1, 0]})
        elif k == 'set': ops.append({'op': 'set', 'r': 0, 'key': rng.choice([key, 'z']), 'v': {'S': rcell(rng)}})
        elif k == 'setlist': ops.append({'op': 'set', 'r': 0, 'key': 'z', 'v': {'L': list(range(rng.choice([n, n, n - 1, n + 1])))}})
        elif k == 'cell': ops.append({'op': 'cell', 'r': 0, 'i': rng.choice([-1, n - 1, -n, n // 2, n]), 'key': key})
        elif k == 'getrow': ops.append({'op': 'getrow', 'r': 0, 'i': rng.choice([-1, n - 1, 100, -n])})
        else: ops.append({'op': 'proj', 'dst': 1, 'r': 0, 'names': rng.sample(names, rng.randrange(1, len(names) + 1))})
    return {'ops': ops, 'kind': 'big'}

def gen_keycol(rng):
    """a column literally named 'key' read by derived-column functions, d[callable] and do(): d(k=f) injects key=<k> as a DEFAULT only"""
    n = rng.choice([1, 2, 3, 4]); other = rng.choice(['a', 'b', 'v'])
    ops = [{'op': 'new_cols', 'dst': 0, 'kvs': [['key', {'L': [rcell(rng) for _ in range(n)]}], [other, {'L': [rcell(rng) for _ in range(n)]}]], 'form': rng.choice(['kw', 'dict'])}]
    for _ in range(rng.choice([2, 3, 4])):
        f = rng.choice([['ident', 'key'], ['isnone', 'key'], ['coalesce', 'key', other], ['coalesce', other, 'key'], ['eq', 'key', other]])
        k = rng.choice(['call', 'call', 'call', 'apply', 'do', 'delkey'])
        if k == 'call': ops.append({'op': 'call', 'dst': rng.choice([1, 2]), 'r': 0, 'key': rng.choice(['label', 'z', other, 'key']), 'arg': {'f': f}})
        elif k == 'apply': ops.append({'op': 'apply', 'r': rng.choice([0, 1]), 'f': f})
        elif k == 'do': ops.append({'op': 'do', 'dst': rng.choice([1, 2]), 'r': 0, 'fs': [[rng.choice(['eq', 'coalesce']), 'key']], 'ks': rng.choice([['key', other], [other], [other, 'key']]), 'fform': 'single'})
        else: ops.append({'op': 'relabel', 'dst': 0, 'r': 0, 'sp': ['map', [['key', other], [other, 'key']]]})
    return {'ops': ops, 'kind': 'keycol'}

def gen_history(rng, length, malformed):
    """the generator follows the list-of-records reference to produce mostly meaningful ops"""
    global FRESH
    FRESH = itertools.count(1)
    heap = [Ref([], []) for _ in range(NREGS)]; regs = list(range(NREGS))
    get = lambda r: heap[regs[r]]
    conv = lambda c: c if not isinstance(c, dict) else json.dumps(c, sort_keys=True)     # cells only need to be carried here
    ops = []; pending = []
    for i in range(length):
        if pending: o = pending.pop(0)
        elif i > 0 and i + 2 < length and rng.random() < 0.12:
            r = rng.randrange(NREGS); dst = rng.choice([x for x in range(NREGS) if x != r]); t = get(r)
            o = gen_probe(rng, t, r, dst)
            edit = {'op': 'set', 'r': dst, 'key': rng.choice((list(t.cols) if t is not None and t.cols else []) + ['z']), 'v': {'S': rcell(rng)}} if rng.random() < 0.7 \
                else {'op': 'del', 'r': dst, 'key': rng.choice(list(t.cols) if t is not None and t.cols else ['z'])}
            pending = [edit, {'op': rng.choice(['iter', 'iter', 'getrow']), 'r': r, 'i': 0}]
        else:
            o = gen_new(rng, rng.randrange(NREGS), False) if i == 0 and rng.random() < 0.8 else gen_op(rng, get, malformed and rng.random() < 0.4)
        add_forms(rng, o)
        ops.append(o)
        try:
            kind, exp = ref_step(o, get, conv)
        except Exception:
            kind, exp = 'new', None
        if kind == 'alias': regs[o['dst']] = regs[exp]
        elif kind == 'inplace':
            if exp is None: heap[regs[o['r']]] = heap[regs[o['r']]]   # error expected (KeyError): unchanged
            elif exp != 'ValueError': heap[regs[o['r']]] = exp
        elif kind == 'new':
            if exp is not None:
                heap.append(exp); regs[o['dst']] = len(heap) - 1
            elif o['op'] in ('new_cols', 'new_rows'):
                pass        # most likely rejected
            # otherwise most likely an error: register unchanged
    return {'ops': ops}

def small_tables():
    vals = [None, 1]
    for ncols in range(3):
        for nrows in range(3):
            names = NAMES[:ncols]
            for cells in itertools.product(vals, repeat=ncols * nrows):
                if ncols == 0 and nrows > 0: continue
                yield names, [[names[j], {'L': [cells[j * nrows + i] for i in range(nrows)]}] for j in range(ncols)]

def single_ops(names, nrows):
    r, dst = 0, 1
    ks = ['a', 'b', 'c']
    for key in ks:
        for v in ({'S': 2}, {'L': []}, {'L': [2]}, {'L': [2, None]}, {'L': [2, 3, 4]}):
            yield {'op': 'set', 'r': r, 'key': key, 'v': v}
            yield {'op': 'set', 'r': r, 'key': key, 'v': v, 'form': 'update'}
        for v in ({'S': 2}, {'L': [2, None]}):
            yield {'op': 'set', 'r': r, 'key': '0', 'v': v, 'intkeys': True, 'form': 'item' if key == 'a' else 'update'}
            yield {'op': 'call', 'dst': dst, 'r': r, 'key': key, 'arg': {'v': v}}
        yield {'op': 'del', 'r': r, 'key': key}
        yield {'op': 'getcol', 'r': r, 'key': key}
        for i in range(-3, 3): yield {'op': 'cell', 'r': r, 'i': i, 'key': key}
        yield {'op': 'call', 'dst': dst, 'r': r, 'key': key, 'arg': {'f': ['coalesce', 'a', 'b']}}
        yield {'op': 'call', 'dst': dst, 'r': r, 'key': key, 'arg': {'f': ['isnone', 'a']}}
        yield {'op': 'do', 'dst': dst, 'r': r, 'f': ['isnone'], 'ks': [key]}
        yield {'op': 'do', 'dst': dst, 'r': r, 'f': ['coalesce', 'b'], 'ks': [key]}
        yield {'op': 'do', 'dst': dst, 'r': r, 'fs': [['eq', 'a']], 'ks': ['a', key]}
        yield {'op': 'do', 'dst': dst, 'r': r, 'fs': [['isnone'], ['eq', 'b']], 'ks': [key, 'b'], 'fform': 'list'}
    for i in range(-3, 3): yield {'op': 'getrow', 'r': r, 'i': i}
    yield {'op': 'iter', 'r': r}
    for a in (None, -3, -1, 0, 1, 2, 3):
        for b in (None, -3, -1, 0, 1, 2, 3):
            yield {'op': 'slice', 'dst': dst, 'r': r, 'a': a, 'b': b, 's': None}
            for st in (-1, 2, -2): yield {'op': 'slice', 'dst': dst, 'r': r, 'a': a, 'b': b, 's': st}
    for a in range(-1, 4):
        for b in range(-2, 4):
            for st in (1, -1, 2, -2): yield {'op': 'range', 'dst': dst, 'r': r, 'a': a, 'b': b, 's': st}
    for m in range(4):
        for bits in itertools.product([False, True], repeat=m): yield {'op': 'mask', 'dst': dst, 'r': r, 'm': list(bits)}
    for idx in ([], [0], [1], [-1], [-2], [2], [-3], [0, 0], [1, 0], [0, 1, 0], [-1, -2]): yield {'op': 'ints', 'dst': dst, 'r': r, 'idx': idx}
    for ns in ([], ['a'], ['b'], ['b', 'a'], ['a', 'a'], ['a', 'c']):
        yield {'op': 'proj', 'dst': dst, 'r': r, 'names': ns}
        if ns: yield {'op': 'tuple', 'r': r, 'names': ns}
    for f in (['coalesce', 'a', 'b'], ['eq', 'a', 'b'], ['isnone', 'b'], ['ident', 'c']): yield {'op': 'apply', 'r': r, 'f': f}
    for sp in (['prefix', 'x_'], ['suffix', '_x'], ['map', [['a', 'p']]], ['map', [['a', 'p'], ['b', 'q']]], ['map', [['c', 'p']]], ['map', []],
               ['map', [['a', 'b'], ['b', 'a']]], ['map', [['b', 'a'], ['a', 'b']]], ['map', [['a', 'b'], ['b', 'c'], ['c', 'a']]], ['map', [['c', 'a'], ['b', 'c'], ['a', 'b']]],
               ['map', [['a', 'b'], ['b', 'p']]], ['map', [['b', 'p'], ['a', 'b']]], ['map', [['a', 'a']]], ['map', [['a', 'a'], ['b', 'b']]],
               ['map', [['a', 'c'], ['c', 'a']]], ['map', [['c', 'b'], ['b', 'c']]]):
        yield {'op': 'relabel', 'dst': dst, 'r': r, 'sp': sp}
        yield {'op': 'relabel', 'dst': dst, 'r': r, 'sp': sp, 'form': 'rename'}
    for f in (['isnone'], ['none'], ['ident']):
        yield {'op': 'do', 'dst': dst, 'r': r, 'f': f, 'ks': None}
        yield {'op': 'do', 'dst': dst, 'r': r, 'f': f, 'ks': []}
    for srcs in ([], [0], [0, 0], [0, 2], [2, 0], [0, 2, 0]): yield {'op': 'concat', 'dst': dst, 'srcs': srcs}
    for a in ('none', 'zero', 'zerof', {'num': 1}, {'num': {'f': 5}}, {'reg': 0}, {'reg': 2}, {'rec': []}, {'rec': [['a', 5]]}, {'rec': [['c', 5], ['a', None]]}):
        yield {'op': 'add', 'dst': dst, 'r': r, 'a': a, 'radd': False}
    yield {'op': 'add', 'dst': dst, 'r': r, 'a': 'zero', 'radd': True}
    yield {'op': 'copy', 'dst': dst, 'r': r}
    for m in ([], [False] * nrows):
        yield {'op': 'mask', 'dst': dst, 'r': r, 'm': m, 'form': 'np'}
    yield {'op': 'ints', 'dst': dst, 'r': r, 'idx': [], 'form': 'np'}
    yield {'op': 'ints', 'dst': dst, 'r': r, 'idx': [], 'form': 'np', 'npkind': 'where'}
    for ns in (['a'], ['b', 'a'], ['c'], ['c', 'a'], []):
        yield {'op': 'and', 'dst': dst, 'r': r, 'names': ns}
    for ks in (['a'], ['b'], ['c'], ['ab'], ['ba'], ['a', 'b'], ['b', 'c'], []):
        yield {'op': 'sub', 'dst': dst, 'r': r, 'ks': ks, 'form': 'single'}
        yield {'op': 'sub', 'dst': dst, 'r': r, 'ks': ks, 'form': 'list'}

# ---- read / mutate / read again on the SAME table object: every read spelling x every in-place mutation spelling
def read_ops(rng, cols, n, r=0, dst=1):
    c0 = cols[0] if cols else 'a'; c1 = cols[-1] if cols else 'b'
    idx = [rng.randrange(-n, n) for _ in range(rng.choice([1, 2, 3]))] if n else [0]
    return [{'op': 'ints', 'dst': dst, 'r': r, 'idx': idx}, {'op': 'ints', 'dst': dst, 'r': r, 'idx': idx, 'form': 'np'},
            {'op': 'ints', 'dst': dst, 'r': r, 'idx': list(range(n))}, {'op': 'range', 'dst': dst, 'r': r, 'a': n - 1, 'b': -1, 's': -1},
            {'op': 'getrow', 'r': r, 'i': rng.randrange(-n, n) if n else 0}, {'op': 'getcol', 'r': r, 'key': c1}, {'op': 'getcol', 'r': r, 'key': c0, 'form': 'attr'},
            {'op': 'cell', 'r': r, 'i': 0, 'key': c1}, {'op': 'iter', 'r': r}, {'op': 'tuple', 'r': r, 'names': [c0, c1]},
            {'op': 'slice', 'dst': dst, 'r': r, 'a': None, 'b': None, 's': rng.choice([None, -1])}, {'op': 'mask', 'dst': dst, 'r': r, 'm': [True] * n},
            {'op': 'proj', 'dst': dst, 'r': r, 'names': list(cols)}, {'op': 'copy', 'dst': dst, 'r': r}, {'op': 'concat', 'dst': dst, 'srcs': [r, r]},
            {'op': 'sub', 'dst': dst, 'r': r, 'ks': [], 'form': 'list'}, {'op': 'and', 'dst': dst, 'r': r, 'names': list(cols)},
            {'op': 'ints', 'dst': dst, 'r': r, 'idx': [], 'form': 'np'}, {'op': 'mask', 'dst': dst, 'r': r, 'm': [False] * n, 'form': 'np'}] + \
           ([{'op': 'apply', 'r': r, 'f': ['ident', c1]}] if c1.isidentifier() else [])
def mutate_ops(rng, cols, n, r=0):
    c0 = cols[0] if cols else 'a'; c1 = cols[-1] if cols else 'b'
    out = []
    for form in ('item', 'update', 'attr'):
        out.append({'op': 'set', 'r': r, 'key': c1, 'v': {'L': [rcell(rng) for _ in range(n)]}, 'form': form})        # replace a column
        out.append({'op': 'set', 'r': r, 'key': 'zz', 'v': {'S': rcell(rng)}, 'form': form})                           # new column
    out.append({'op': 'set', 'r': r, 'key': c0, 'v': {'L': [rcell(rng) for _ in range(n + 1)]}, 'form': 'item'})         # rejected misfit
    for form in ('item', 'attr'):
        out.append({'op': 'del', 'r': r, 'key': c1, 'form': form})
        out.append({'op': 'del', 'r': r, 'key': c0, 'form': form})
    return out
def rmr_cases(rng, kvs_list, frac):
    out = []
    for kvs in kvs_list:
        cols = [k for k, _ in kvs]; n = len(kvs[0][1]['L']) if kvs else 0
        for rd in read_ops(rng, cols, n):
            for mu in mutate_ops(rng, cols, n):
                if frac < 1 and rng.random() > frac: continue
                ops = [{'op': 'new_cols', 'dst': 0, 'kvs': kvs, 'form': 'kw'}, dict(rd), dict(mu), dict(rd)]
                if rng.random() < 0.3: ops += [dict(rng.choice(mutate_ops(rng, cols, n))), dict(rd)]
                out.append({'ops': ops, 'kind': 'rmr'})
    return out

def gen_reserved(rng):
    """columns named like the constructor's parameters through every op that rebuilds a table"""
    names = rng.sample(['columns', 'data', 'a', 'b'], rng.choice([2, 3, 4]))
    if not RESERVED & set(names): names[0] = rng.choice(['columns', 'data'])
    n = rng.choice([0, 0, 1, 2, 3])
    ops = [{'op': 'new_cols', 'dst': 0, 'kvs': [[nm, {'L': [rcell(rng) for _ in range(n)]}] for nm in names], 'form': 'dict'}]
    for _ in range(rng.choice([3, 4, 5])):
        key = rng.choice(names); dst = rng.choice([1, 2]); r = rng.choice([0, 0, 1])
        k = rng.choice(['proj', 'proj', 'and', 'and', 'relabel', 'relabel', 'sub', 'del', 'set', 'concat', 'do', 'call', 'mask', 'ints', 'slice', 'copy', 'add', 'getcol', 'apply'])
        if k == 'proj': o = {'op': 'proj', 'dst': dst, 'r': r, 'names': rng.sample(names, rng.randrange(1, len(names) + 1))}
        elif k == 'and': o = {'op': 'and', 'dst': dst, 'r': r, 'names': rng.sample(names + ['zz'], rng.randrange(1, len(names) + 1))}
        elif k == 'relabel':
            sp = rng.choice([['prefix', 'x_'], ['suffix', '_y'], ['map', [[key, 'n%d' % next(FRESH)]]], ['map', [['a', 'columns'], ['columns', 'a']]], ['map', [['data', 'columns'], ['columns', 'data']]], ['map', [['b', 'data'], ['data', 'n%d' % next(FRESH)]]]])
            o = {'op': 'relabel', 'dst': dst, 'r': r, 'sp': sp, 'form': rng.choice(['relabel', 'rename'])}
            if rng.random() < 0.6: o['argform'] = 'dict' if sp[0] == 'map' else 'fn'
        elif k == 'sub': o = {'op': 'sub', 'dst': dst, 'r': r, 'ks': [key], 'form': rng.choice(['single', 'list'])}
        elif k == 'del': o = {'op': 'del', 'r': dst, 'key': key, 'form': rng.choice(['item', 'attr'])}
        elif k == 'set': o = {'op': 'set', 'r': rng.choice([0, dst]), 'key': rng.choice(['columns', 'data']), 'v': {'S': rcell(rng)}, 'form': rng.choice(['item', 'update', 'attr'])}
        elif k == 'concat': o = {'op': 'concat', 'dst': dst, 'srcs': [0, r], 'form': rng.choice(['args', 'list'])}
        elif k == 'do': o = {'op': 'do', 'dst': dst, 'r': r, 'fs': [['isnone']], 'ks': [key], 'fform': 'single'}
        elif k == 'call': o = {'op': 'call', 'dst': dst, 'r': r, 'key': rng.choice(['columns', 'data', 'z']), 'arg': {'f': ['ident', key]}}
        elif k == 'mask': o = {'op': 'mask', 'dst': dst, 'r': r, 'm': [rng.random() < 0.5 for _ in range(n)], 'form': rng.choice(['list', 'np'])}
        elif k == 'ints': o = {'op': 'ints', 'dst': dst, 'r': r, 'idx': [rng.randrange(n) for _ in range(rng.choice([0, 1, 2]))] if n else [], 'form': rng.choice(['list', 'np'])}
        elif k == 'slice': o = {'op': 'slice', 'dst': dst, 'r': r, 'a': None, 'b': None, 's': rng.choice([None, -1])}
        elif k == 'copy': o = {'op': 'copy', 'dst': dst, 'r': r, 'form': rng.choice(['copy', 'ctor'])}
        elif k == 'add': o = {'op': 'add', 'dst': dst, 'r': r, 'a': rng.choice([{'rec': [[key, rcell(rng)]]}, {'num': 5}, {'reg': 0}]), 'radd': False}
        elif k == 'getcol': o = {'op': 'getcol', 'r': r, 'key': key, 'form': rng.choice(['item', 'attr'])}
        else: o = {'op': 'apply', 'r': r, 'f': ['ident', key]}
        ops.append(o)
    return {'ops': ops, 'kind': 'reserved'}

def gen_sub(rng):
    """d - key / d - [keys] / del on tables whose column names contain one another (id/bid, a/ab/name/surname)"""
    fam = rng.choice([['id', 'bid'], ['a', 'ab', 'name', 'surname'], ['id', 'bid', 'a', 'name'], ['a', 'ab'], ['name', 'surname', 'bid']])
    names = rng.sample(fam, rng.randrange(2, len(fam) + 1)); n = rng.choice([0, 1, 2, 3])
    ops = [{'op': 'new_cols', 'dst': 0, 'kvs': [[nm, {'L': [rcell(rng) for _ in range(n)]}] for nm in names], 'form': rng.choice(['kw', 'dict'])}]
    for _ in range(rng.choice([2, 3, 4])):
        k = rng.random()
        key = rng.choice(fam + ['names', 'i'])
        if k < 0.5: ops.append({'op': 'sub', 'dst': rng.choice([1, 2]), 'r': 0, 'ks': [key], 'form': rng.choice(['single', 'single', 'list'])})
        elif k < 0.75: ops.append({'op': 'sub', 'dst': rng.choice([1, 2]), 'r': 0, 'ks': rng.sample(fam + ['zz'], rng.choice([0, 2, 3])), 'form': 'list'})
        elif k < 0.9: ops.append({'op': 'del', 'r': rng.choice([1, 2]), 'key': key, 'form': rng.choice(['item', 'attr'])})
        else: ops.append({'op': 'proj', 'dst': 1, 'r': 0, 'names': [key]})
    return {'ops': ops, 'kind': 'sub'}

def exhaustive_cases(rng, frac):
    """every single op on every table of <= 2 rows x <= 2 columns over {None, 1}; register 2 holds a fixed second table;
    each case ends with an in-place assignment on the result register (detects results that are not new tables)"""
    other = {'op': 'new_cols', 'dst': 2, 'kvs': [['a', {'L': [7]}], ['c', {'L': [{'s': 'x'}]}]], 'form': 'kw'}
    out = []
    for names, kvs in small_tables():
        nrows = len(kvs[0][1]['L']) if kvs else 0
        for o in single_ops(names, nrows):
            if frac < 1 and rng.random() > frac: continue
            ops = [{'op': 'new_cols', 'dst': 0, 'kvs': kvs, 'form': 'kw'}, other, o]
            if 'dst' in o: ops.append({'op': 'set', 'r': o['dst'], 'key': 'z', 'v': {'S': 9}})
            out.append({'ops': ops, 'kind': 'small'})
    return out

def gen_cases(rng, tier):
    cases = []
    n_hist = 1300 if tier == 'quick' else 30000
    for i in range(n_hist):
        length = rng.choice([1, 2, 3, 4, 5, 6, 7, 8, 9, 10, 11, 12])
        c = gen_history(rng, length, malformed=(i % 4 == 3)); c['kind'] = 'malformed' if i % 4 == 3 else 'history'
        cases.append(c)
    cases += [gen_keycol(rng) for _ in range(60 if tier == 'quick' else 1500)]
    cases += [gen_sub(rng) for _ in range(60 if tier == 'quick' else 1500)]
    cases += [gen_reserved(rng) for _ in range(100 if tier == 'quick' else 2500)]
    # read / mutate / read again: random 1-4 row tables (all pairs) + every table of the small scope (sampled in the quick tier)
    rt = []
    for _ in range(2 if tier == 'quick' else 40):
        names = rng.sample(NAMES + DIGITS, rng.choice([2, 3])); n = rng.choice([1, 2, 3, 4])
        rt.append([[nm, {'L': [rcell(rng) for _ in range(n)]}] for nm in names])
    cases += rmr_cases(rng, rt, 1.0)
    cases += rmr_cases(rng, [kvs for _, kvs in small_tables() if kvs], 0.06 if tier == 'quick' else 1.0)
    big = [gen_big(rng) for _ in range(12 if tier == 'quick' else 300)]
    step_ = max(1, len(cases) // (len(big) + 1))            # spread over the cases files: they are the slow ones inside Coq
    for j, b in enumerate(big): cases.insert(min(len(cases), (j + 1) * step_ + j), b)
    cases += exhaustive_cases(rng, 0.08 if tier == 'quick' else 1.0)
    return cases

def nontrivial(case, result):
    if case.get('kind') == 'small': return False
    if case.get('kind') == 'big': return True
    kinds = set(); rows = False
    for o, ob in zip(case['ops'], result.get('obs') or []):
        try:
            ok = not (isinstance(ob[0], list) and ob[0][:1] == ['ERR'])
            if ok: kinds.add(o['op'])
            rows = rows or any(isinstance(t[1], int) and t[1] >= 1 for t in ob[1][0])
        except Exception:
            pass
    return len(kinds) >= 2 and rows

def shape(case):
    k = case.get('kind', 'corpus')
    return k if k in ('small', 'big', 'keycol', 'rmr', 'sub', 'reserved') else '%s:len%d' % (k, len(case['ops']))

def shrink(case):
    ops = case['ops']
    for i in range(len(ops) - 1, -1, -1):
        yield dict(case, ops=ops[:i] + ops[i + 1:])
    for i, o in enumerate(ops):
        for fld in ('recs', 'rows', 'kvs', 'm', 'idx', 'names', 'srcs'):
            if isinstance(o.get(fld), list) and len(o[fld]) > 0:
                for j in range(len(o[fld])):
                    yield dict(case, ops=ops[:i] + [dict(o, **{fld: o[fld][:j] + o[fld][j + 1:]})] + ops[i + 1:])
