"""C20 - perdictable evaluates a function once per row of the keyed join of its inputs."""
import datetime, functools, itertools, json
from implutil import err_name
from props.c02 import py_cell, coq_cell, enc, JKEY, cell_eq

ID = 'C20'
TRANSLATOR = []
COQ_EXEC = ['exec.X_perdict']
COQ_IMPORTS = 'From PB Require Import model.M_join model.M_perdict.\n'
COQ_PRELUDE = ''
PER_FILE = 300
CASE_TIMEOUT = 20
RULE = ('cases: 1-4 named inputs, each a scalar or a unique-key table over 1 or 2 key columns (`on` in any order, table columns in any order; keys from a small universe of strings / ints / '
        'floats / None so that overlap, disjointness and emptiness all occur; 1 vs 1.0 across tables), value column named after the input, '
        '"data", or a single other column, or with extra columns; any subset of inputs named in defaults (values 0-8 or None); previously '
        'computed values supplied as a data table over any keys, expiry absent / scalar / table with cells {2000-01-01, 2999-01-01, None} and, relative to the day of the run, today 00:00 (= dt(0)), later today, today +- 1 microsecond, yesterday, tomorrow (an expiry DATE equal to today is not in the past: recomputed); scalar inputs are None / ints / LIST- or TUPLE-valued (length 0-3 or exactly the number of rows); defaults= is spelled None / {} / {name: v} and f has python keyword defaults on some parameters, spelled as positional defaults, keyword-only defaults (def f(a, *, b=5)) or functools.partial keywords; 20% of the functions also accept **extras (and must be handed nothing undeclared); streams with the same table OBJECT passed for two parameters and with a second call on the same instance reusing the tables under other parameter names; after every call every input table must be unchanged (columns, order, identity of each cell); 40% of the cases go through the dict-output path: f declared with 1-3 named outputs and returning a dict, one cache table per output, each supplied or not; an exhaustive stream over all overlap patterns of two tables on 3 keys x defaults x expiry '
        'assignments. f records (key, arguments) of every call and returns the decimal digits of its arguments (output i: + 10000 i). Compared inside Coq: the '
        'returned scalar / None / table rows IN ORDER (key columns up to ==) and the multiset of calls. The oracle re-derives from the '
        'property text the expected key set, the order, each value and the exact set of calls. non-trivial = at least one table, and some key '
        'dropped by the inner join, added by a default, or kept from the cache; distinct by input')
EXPLANATION = ('theorems C20_* (coq/props/C20.v) hold for every f, every list of inputs, every data / expiry assignment: scalar pass-through with one '
               'call; result keys = keys present in every non-default table (union of all tables when there is none); sorted by cmp; value = f of the '
               "row's arguments with defaults filling absent keys; expired rows keep the cached value and are not called; every other row is called "
               'exactly once (trace = rows needing evaluation, NoDup). The C20_dict_output_* companions state the same for functions with named outputs (a row is recomputed iff some output has no supplied cache or the expiry is not in the past). The correspondence ties the model to _item / join / _value_output / _dict_output on every run.')
TRUSTED = ['modelled, not verified: _item column selection, dictable * and / (their meaning is C02), dictable.sort, Dict.__getitem__(callable) / kwargs_support',
           'today is not modelled: expiries are 2000-01-01 / 2999-01-01 / None']
ASSUMPTIONS = ['a table input carries all `on` columns, or - stream `partial` - only one of two (behaviour documented in join\'s docstring, outside the literal property text: pinned by the model pjoinP / perdictP, an oracle written from _join_dictable_with_defaults\' docstring, and C20_partial_keys_defaults_step); unique keys; `on` has 1 or 2 columns, in any order, with names before / between / after the value column names; "sorted by key" = lexicographic by cmp in the order of `on`',
               'with defaults=None f\'s own keyword defaults are the join defaults (documented), with a dict ({} included) only its entries; input tables must come back unchanged except the column renames= copies into the caller\'s table; constant defaults, if_none=False, output_is_input=True, include_inputs=False; both a plain function (_value_output) and a function with .output (_dict_output)',
               'when the join is empty the call returns the supplied data (or None) instead of an empty table: observed and modelled, not judged by the oracle']
EXHAUSTIVE = {'quick': False, 'thorough': False}
LEVEL_TEXT = ('machine-checked Coq theorems (C20_*, every f, any number of inputs, any key sets) about the model of perdictable: pass-through, key set of the '
              'inner / outer join, order, values, call trace; model compared with the real perdictable inside Coq on thousands of generated input sets '
              'per run, plus an oracle derived from the property text on the real outputs and the recorded calls')
LEVEL_NOTE = 'trusted: Coq kernel/vm_compute; modelled not verified: dictable plumbing (join/xor meaning from C02), wall clock'
TECHNIQUE = 'Coq proof (lists, filter/map, NoDup, StronglySorted) over an executable model + differential correspondence in vm_compute + call-recording oracle'

PAST = datetime.datetime(2000, 1, 1); FUTURE = datetime.datetime(2999, 1, 1)
EXPV = {'past': PAST, 'future': FUTURE, 'none': None}
# expiry cells relative to the day of the run.  The property speaks of an expiry DATE in the past: today's date is not in the past, so an
# expiry equal to today (dt(0)), later today, or tomorrow must be recomputed; yesterday (and today 00:00 minus 1 microsecond) is past.
ECLASS = {'past': 'past', 'future': 'future', 'none': 'none', 'past2': 'past', 'future2': 'future',
          'today': 'future', 'today_late': 'future', 'tomorrow': 'future', 'yesterday': 'past'}
REL = {'past2': dict(microseconds=-1), 'future2': dict(microseconds=1), 'today': dict(), 'today_late': dict(hours=17, minutes=30),
       'tomorrow': dict(days=1), 'yesterday': dict(days=-1)}
EPOOL = ['past', 'past', 'future', 'none', 'past2', 'future2', 'today', 'today', 'today_late', 'tomorrow', 'yesterday']
# _dict_output compares with `value > today` (strict) where _value_output uses `>=`: at expiry == today the dict path keeps the stale value.
# That was a genuine defect, repaired by fixes/C20.patch (/repo 66110a1).
import os
DICT_TODAY = True          # the dict path is repaired in /repo (66110a1): the boundary is exercised on both paths, no switch
def expv(e):
    if e in EXPV: return EXPV[e]
    from pyg_base import dt
    return dt(0) + datetime.timedelta(**REL[e])

# ------------------------------------------------------------------ Coq side
def norm(v):
    """a value of the case (JSON) or of the implementation -> None | int | ('list', (..)) | ('tuple', (..))"""
    if isinstance(v, dict): return ('list', tuple(v['list'])) if 'list' in v else ('tuple', tuple(v['tuple']))
    if isinstance(v, list): return ('list', tuple(int(e) for e in v))
    if isinstance(v, tuple) and not (len(v) == 2 and v[0] in ('list', 'tuple') and isinstance(v[1], tuple)): return ('tuple', tuple(int(e) for e in v))
    return v
def py_pv(v):
    v = norm(v)
    if isinstance(v, tuple): return list(v[1]) if v[0] == 'list' else tuple(v[1])
    return v
def coq_pv(v):
    v = norm(v)
    if v is None: return 'VNone'
    if isinstance(v, tuple): return '(VList %s [%s])' % ('true' if v[0] == 'tuple' else 'false', '; '.join('(%d)' % e for e in v[1]))
    return '(VInt (%d))' % v
def eff_default(case, a):
    """the default join gives input a: the entry of defaults= when a dict is passed ({} included), else f's own keyword default. -> {'v': value} | None"""
    mode = case.get('defaults_mode') or ('dict' if any('default' in b for b in case['args']) else 'empty' if case.get('defaults_given') else 'none')
    if mode == 'dict': return a.get('default')
    if mode == 'empty': return None
    return a.get('pydefault')
def resolved(case):
    """'same' arguments (the SAME table object passed again under another name) spelled out as tables"""
    if not DICT_TODAY and case.get('outputs') and case.get('expiry') is not None and 'today' in json.dumps(case['expiry']):
        case = json.loads(json.dumps(case)); no_dict_today(case)         # switch off: the boundary is kept off the dict path (corpus seeds too)
    if not any(a['kind'] == 'same' for a in case['args']): return case
    byname = {a['name']: a for a in case['args']}
    args = [dict(a, kind='table', rows=byname[a['ref']]['rows'], layout=byname[a['ref']].get('layout', 'named'), _same=a['ref']) if a['kind'] == 'same' else a for a in case['args']]
    return dict(case, args=args)
def second_case(case):
    """the second of two consecutive calls: table parameter n now receives the table object the first call passed as again[n]"""
    byname = {a['name']: a for a in case['args']}
    args = [dict(a, rows=byname[case['again'][a['name']]]['rows'], layout=byname[case['again'][a['name']]].get('layout', 'named')) if a['name'] in case['again'] else a for a in case['args']]
    c2 = dict(case, args=args); c2.pop('again')
    return c2
def coq_key(k): return '[' + '; '.join(coq_cell(c) for c in k) + ']'
def coq_rows(rows): return '[%s]' % '; '.join('(%s, %s)' % (coq_key(k), coq_pv(v)) for k, v in rows)
def is_partial(case): return any('mask' in a for a in case['args'])
def coq_runner(case):
    if is_partial(case): return 'run_pjoinP' if case.get('kind') == 'pjoin' else 'run_perdictP'
    return 'run_pjoin' if case.get('kind') == 'pjoin' else 'run_perdictN' if case.get('outputs') else 'run_perdict2' if case.get('again') else 'run_perdict'
def coq_case(case):
    if case.get('again'):
        return '(%s, %s)' % (coq_case(dict(case, again=None)), coq_case(second_case(resolved(case))))
    case = resolved(case)
    args = []
    for a in case['args']:
        ed = eff_default(case, a)
        d = 'None' if ed is None else '(Some %s)' % coq_pv(ed['v'])
        if a['kind'] == 'scalar':
            args.append('(mkArg (Scalar %s) %s)' % (coq_pv(a['v']), d))
        else:
            args.append('(mkArg (Table %s) %s)' % (coq_rows(a['rows']), d))
    if case.get('outputs'):
        dat = '[%s]' % '; '.join('(Some %s)' % coq_rows(c['rows']) if c is not None else 'None' for _, c in cache_list(case))
    else:
        dat = 'None' if case['data'] is None else '(Some %s)' % coq_rows(case['data']['rows'])
    x = case['expiry']
    E = {k: {'past': 'EPast', 'future': 'EFuture', 'none': 'ENone'}[v] for k, v in ECLASS.items()}
    if x is None: xs = 'XAbsent'
    elif 'scalar' in x: xs = '(XScalar %s)' % E[x['scalar']]
    else: xs = '(XTable [%s])' % '; '.join('(%s, %s)' % (coq_key(k), E[e]) for k, e in x['rows'])
    if is_partial(case):
        masks = [a.get('mask') or [1] * len(case['on']) for a in case['args']]
        return '[%s]' % '; '.join('([%s], %s)' % ('; '.join('true' if m else 'false' for m in mk), t) for mk, t in zip(masks, args))
    if case.get('kind') == 'pjoin': return '[%s]' % '; '.join(args)
    return '([%s], %s, %s)' % ('; '.join(args), dat, xs)

def cache_list(case):
    """[(output name, supplied cache or None)]: the value path has the single output 'data'"""
    if case.get('outputs'):
        return [(o, (case.get('caches') or {}).get(o)) for o in case['outputs']]
    return [('data', case['data'])]
def fval(z): return None if z % 7 == 3 else z          # some results are None
def fvals(case, args):
    """what f returns on args, per output"""
    if case.get('outputs'):
        return [fval(fcode(args) + 10000 * (i + 1)) for i in range(len(case['outputs']))]
    return [fval(fcode(args))]

# ------------------------------------------------------------------ implementation side
def impl_setup():
    global dictable, perdictable, pjoin
    import logging
    logging.disable(logging.CRITICAL)
    from pyg_base import dictable, perdictable
    from pyg_base._perdictable import join as pjoin

def digit(v):
    v = norm(v)
    if v is None: return 9
    if isinstance(v, tuple): return 20 + 3 * len(v[1]) + sum(v[1]) + (1 if v[0] == 'tuple' else 0)
    return v
def fcode(vals):
    r = 0
    for v in reversed(vals): r = digit(v) + 10 * r
    return r

def mk_table(on, rows, valcol, vals, extra=None, order=0):
    """order: 0 = key columns in `on` order then the value; 1 = value first, key columns reversed; 2 = key columns reversed, then value"""
    nans = {}
    cols = {c: [py_cell(k[i], nans) for k, _ in rows] for i, c in enumerate(on)}
    cols[valcol] = list(vals)
    for c, v in (extra or {}).items(): cols[c] = [v] * len(rows)
    names = list(cols)
    if order == 1: names = [valcol] + [c for c in reversed(on)] + [c for c in names if c != valcol and c not in on]
    elif order == 2: names = [c for c in reversed(on)] + [c for c in names if c not in on]
    return dictable({c: cols[c] for c in names})

def build_inputs(case):
    on = case['on']; inputs = {}; defaults = {}; renames = {}
    for a in case['args']:
        n = a['name']
        if 'default' in a: defaults[n] = a['default']['v']
        if a['kind'] == 'scalar':
            inputs[n] = py_pv(a['v'])
        elif a.get('_same'):
            inputs[n] = None                         # filled below: the very same table object under a second parameter name
        else:
            lay = a.get('layout', 'named')
            vals = [v for _, v in a['rows']]
            o = a.get('order', 0)
            if lay == 'named': t = mk_table(on, a['rows'], n, vals, order=o)
            elif lay == 'data': t = mk_table(on, a['rows'], 'data', vals, order=o)
            elif lay == 'other': t = mk_table(on, a['rows'], 'zz_' + n, vals, order=o)
            elif lay == 'renamed': t = mk_table(on, a['rows'], 'val_' + n, vals, {'zz1': 77}, order=o); renames[n] = 'val_' + n
            else: t = mk_table(on, a['rows'], n, vals, {'zz1': 77, 'zz2': 'q'}, order=o)
            inputs[n] = t
    for a in case['args']:
        if a.get('_same'): inputs[a['name']] = inputs[a['_same']]
    for o, c in (cache_list(case) if case.get('outputs') else []):
        if c is not None:
            lay = c.get('layout', 'named')
            col = o if lay == 'named' else 'data' if lay == 'data' else 'zz_' + o
            inputs[o] = mk_table(on, c['rows'], col, [v for _, v in c['rows']], order=c.get('order', 0))
    if case['data'] is not None and not case.get('outputs'):
        inputs['data'] = mk_table(on, case['data']['rows'], 'data', [v for _, v in case['data']['rows']], order=case['data'].get('order', 0))
    x = case['expiry']
    if x is not None:
        if 'scalar' in x: inputs['expiry'] = expv(x['scalar'])
        else: inputs['expiry'] = mk_table(on, x['rows'], x.get('layout', 'data'), [expv(e) for _, e in x['rows']], order=x.get('order', 0))
    sp = case.get('renames_spelling')
    if renames and sp in ('str', 'list1') and len(renames) == 1:          # renames='col' / ['col'] instead of {input: 'col'}
        renames = list(renames.values())[0] if sp == 'str' else list(renames.values())
    mode = case.get('defaults_mode') or ('dict' if defaults else 'empty' if case.get('defaults_given') else 'none')
    return inputs, (None if mode == 'none' else {} if mode == 'empty' else defaults), (renames or None)

def obs_key(k): return [enc(c, False) for c in k]
def obs_pv(v):
    v = norm(v)
    if v is None: return 'None'
    if isinstance(v, tuple): return [v[0], [int(e) for e in v[1]]]
    if isinstance(v, bool) or not isinstance(v, int): raise TypeError('value %r' % (v,))
    return int(v)
def nargs(a): return [norm(v) for v in a]

# ---- the oracle: straight from the property text
def kcanon(k):
    """key up to == (1 == 1.0), exact for huge ints"""
    from fractions import Fraction
    return tuple(('N',) if c is None else ('n', Fraction(c)) if isinstance(c, (int, float)) else ('d', c) if isinstance(c, datetime.datetime) else ('s', c) for c in k)
def korder(k):
    """cmp order of a key tuple: None < datetimes < numbers < strings (rank of the type name), then by value"""
    from fractions import Fraction
    return tuple((0, 0) if c is None else (2, Fraction(c)) if isinstance(c, (int, float)) else (1, c) if isinstance(c, datetime.datetime) else (3, c) for c in k)
def pykey(k):
    nans = {}
    return tuple(py_cell(c, nans) for c in k)

def expected(case):
    """-> ('scalar', args) | ('table', [(key, args, runs, cached values per output)] sorted by key) from the property text"""
    case = resolved(case)
    tables = [a for a in case['args'] if a['kind'] == 'table']
    cl = cache_list(case)
    cmaps = [({kcanon(pykey(k)): v for k, v in c['rows']} if c is not None else None) for _, c in cl]
    x = case['expiry']
    xt = {kcanon(pykey(k)): e for k, e in x['rows']} if (x is not None and 'rows' in x) else None
    if not tables and all(m is None for m in cmaps) and xt is None:
        return 'scalar', [a['v'] for a in case['args']]
    maps = {a['name']: {kcanon(pykey(k)): v for k, v in a['rows']} for a in tables}
    keyobjs = {}
    for a in tables:
        for k, _ in a['rows']: keyobjs.setdefault(kcanon(pykey(k)), pykey(k))
    for _, c in cl:
        if c is not None:
            for k, _ in c['rows']: keyobjs.setdefault(kcanon(pykey(k)), pykey(k))
    if xt is not None:
        for k, _ in x['rows']: keyobjs.setdefault(kcanon(pykey(k)), pykey(k))
    inner = [a for a in tables if eff_default(case, a) is None]
    keys = [c for c in keyobjs if all(c in maps[a['name']] for a in inner)]       # present in every table input without a default
    keys.sort(key=lambda c: korder(keyobjs[c]))
    all_supplied = all(m is not None for m in cmaps)      # a previously computed value is supplied for every output
    rows = []
    for c in keys:
        args = []
        for a in case['args']:
            if a['kind'] == 'scalar': args.append(a['v'])
            elif c in maps[a['name']]: args.append(maps[a['name']][c])
            else: args.append(eff_default(case, a)['v'])
        if x is None: e = 'none'
        elif 'scalar' in x: e = x['scalar']
        else: e = xt.get(c, 'none')
        runs = (not all_supplied) or ECLASS[e] != 'past'
        rows.append((c, args, runs, [m.get(c) if m is not None else None for m in cmaps]))
    return 'table', rows

# ------------------------------------------------------------------ partially keyed inputs (an input carrying only some of the `on` columns)
def p_tables(case):
    """every table input as (columns it carries, rows [(key dict, value dict)]) in plain python"""
    on = case['on']; out = []
    for a in case['args']:
        if a['kind'] != 'table': continue
        mask = a.get('mask') or [1] * len(on)
        cols = [c for c, m in zip(on, mask) if m]
        rows = [({c: pykey(k)[i] for i, c in enumerate(on) if mask[i]}, {a['name']: v}) for k, v in a['rows']]
        out.append((a, cols, rows))
    return out
def p_match(r1, r2): return all(cell_eq(r1[0][c], r2[0][c]) for c in r1[0] if c in r2[0])
def p_mul(t1, t2):
    cols = t1[0] + [c for c in t2[0] if c not in t1[0]]
    return (cols, [(dict(b[0], **a[0]), dict(a[1], **b[1])) for a in t1[1] for b in t2[1] if p_match(a, b)])
def p_anti(t1, t2): return [a for a in t1[1] if not any(p_match(a, b) for b in t2[1])]
def p_outer(td1, td2):
    """_join_dictable_with_defaults as documented: the matched rows, plus the rows of either side without partner carrying the other
    side's defaults; a key column such a row's table does not have is None"""
    (d1, f1), (d2, f2) = td1, td2
    if d1 is None: return (d2, dict(f1, **f2))
    if d2 is None: return (d1, dict(f1, **f2))
    d = p_mul(d1, d2)
    rows = list(d[1])
    fill = lambda r, extra: ({c: r[0].get(c) for c in d[0]}, dict(r[1], **extra))
    if f1: rows += [fill(r, f1) for r in p_anti(d2, d1)]
    if f2: rows += [fill(r, f2) for r in p_anti(d1, d2)]
    return ((d[0], rows), dict(f1, **f2))
def expected_partial(case):
    """[(key tuple in `on` order, args)] sorted by key: inner join of the inputs without default, full outer join among the defaulted ones,
    defaults where a defaulted input has no row for the key, scalars broadcast"""
    on = case['on']
    tabs = p_tables(case)
    nod = [(cols, rows) for a, cols, rows in tabs if eff_default(case, a) is None]
    wd = [((cols, rows), {a['name']: eff_default(case, a)['v']}) for a, cols, rows in tabs if eff_default(case, a) is not None]
    t1 = None
    for t in nod: t1 = t if t1 is None else p_mul(t1, t)
    td2 = (None, {})
    for td in wd: td2 = p_outer(td2, td)
    res, _ = p_outer((t1, {}), td2)
    out = []
    for k, v in (res[1] if res is not None else [({}, {})]):
        args = [a['v'] if a['kind'] == 'scalar' else v.get(a['name']) for a in case['args']]
        out.append((tuple(k.get(c) for c in on), args))
    out.sort(key=lambda r: korder(r[0]))
    return out

def impl_partial(case):
    on = case['on']; names = [a['name'] for a in case['args']]
    inputs = {}; defaults = {}
    for a in case['args']:
        if 'default' in a: defaults[a['name']] = a['default']['v']
        if a['kind'] == 'scalar': inputs[a['name']] = py_pv(a['v']); continue
        mask = a.get('mask') or [1] * len(on)
        sub = [c for c, m in zip(on, mask) if m]
        rows = [[[k[i] for i in range(len(on)) if mask[i]], v] for k, v in a['rows']]
        inputs[a['name']] = mk_table(sub, rows, a['name'] if a.get('layout', 'named') == 'named' else 'zz_' + a['name'], [v for _, v in rows], order=a.get('order', 0))
    snap = snapshot(inputs)
    exp = expected_partial(case)
    calls = []
    try:
        if case.get('kind') == 'pjoin':
            r = pjoin(inputs, on=list(on), defaults=defaults or None)
        else:
            def rec(key, args):
                calls.append((key, list(args))); return fvals(case, args)[0]
            f = eval('lambda %s: rec((%s), (%s,))' % (', '.join(names + ['%s=None' % c for c in on]), ''.join(c + ',' for c in on), ', '.join(names)), {'rec': rec})
            r = perdictable(f, on=list(on), defaults=(defaults if case.get('defaults_mode') != 'none' else None))(**inputs)
    except Exception as e:
        return {'status': err_name(e), 'obs': ['ERR', err_name(e)], 'viol': '%s raised %s: %s' % (case.get('kind', 'perdictable'), type(e).__name__, str(e)[:150])}
    bad = modified(inputs, snap)
    viol = 'the call modified the input table(s) it was given: %s' % bad if bad else None
    ek = [kcanon(k) for k, _ in exp]
    if case.get('kind') == 'pjoin':
        if not isinstance(r, dictable) or sorted(r.keys()) != sorted(on + names):
            return {'status': 'ok', 'obs': ['ERR', 'columns'], 'viol': 'join columns %s, expected %s' % (sorted(r.keys()) if isinstance(r, dictable) else type(r).__name__, sorted(on + names))}
        got = [(tuple(r[c][i] for c in on), [r[n][i] for n in names]) for i in range(len(r))]
        obs = ['pjoin', [[obs_key(k), [obs_pv(v) for v in a]] for k, a in got]]
        gk = [kcanon(k) for k, _ in got]
        if viol is None:
            if sorted(map(repr, zip(gk, [nargs(a) for _, a in got]))) != sorted(map(repr, zip(ek, [nargs(a) for _, a in exp]))):
                viol = 'join of partially keyed inputs: rows (key, values) %s, expected %s (inputs without default inner-joined on the key columns they share, a defaulted input contributes its default where it has no row for the key)' % (got, exp)
            elif gk != ek: viol = 'join rows are not sorted by key: %s' % gk
        return {'status': 'ok', 'obs': obs, 'viol': viol}
    trace = sorted([[obs_key(k), [obs_pv(v) for v in a]] for k, a in calls], key=JKEY)
    if r is None:
        res = 'None'; got = []
    elif isinstance(r, dictable) and sorted(r.keys()) == sorted(on + ['data']):
        got = [(tuple(r[c][i] for c in on), r['data'][i]) for i in range(len(r))]
        res = ['table', [[obs_key(k), obs_pv(v)] for k, v in got]]
    else:
        return {'status': 'ok', 'obs': ['ERR', 'shape'], 'viol': 'unexpected result %r' % (r,)}
    if viol is None:
        want = [(kcanon(k), fvals(case, a)[0]) for k, a in exp]
        if sorted(map(repr, [(kcanon(k), v) for k, v in got])) != sorted(map(repr, want)):
            viol = 'partially keyed inputs: rows (key, value) %s, expected one row per joined key with f of its values: %s' % (got, [(k, fvals(case, a)[0]) for k, a in exp])
        elif [kcanon(k) for k, _ in got] != ek: viol = 'rows are not sorted by key'
        elif sorted(map(repr, [(kcanon(k), nargs(a)) for k, a in calls])) != sorted(map(repr, [(kcanon(k), nargs(a)) for k, a in exp])):
            viol = 'f must be called exactly once per row with its values: calls %s, rows %s' % (calls, exp)
    return {'status': 'ok', 'obs': [res, trace], 'viol': viol}

def partial_case(rng):
    """two key columns; some inputs carry only ONE of them (the same one for all such inputs of the case); defaults on any subset; several fine keys
    per coarse key; row counts of the inputs coincide often"""
    on = rng.sample(KEYNAMES, 2)
    coarse = rng.randrange(2)                                           # the column the coarse inputs carry
    A = rng.sample([['i', 1], ['i', 2], ['i', 3], ['s', 'x'], ['s', 'y'], None, ['f', 4]], rng.choice([2, 3, 4]))
    B = rng.sample([['i', 1], ['i', 2], ['s', 'x'], None, ['i', 5]], rng.choice([1, 2, 3]))
    fine_uni = [[a, b] if coarse == 0 else [b, a] for a in A for b in B]
    n = rng.choice([2, 2, 3])
    names = ['x', 'y', 'z'][:n]
    kinds = ['fine'] + [rng.choice(['fine', 'coarse', 'coarse']) for _ in range(n - 1)]
    if 'coarse' not in kinds: kinds[-1] = 'coarse'
    rng.shuffle(kinds)
    size = rng.choice([1, 2, 2, 3, 3])
    args = []
    for nm, kd in zip(names, kinds):
        m = rng.choice([size, size, rng.randrange(0, 5)])             # coinciding row counts most of the time
        if kd == 'fine':
            ks = rng.sample(fine_uni, min(m, len(fine_uni)))
            a = {'name': nm, 'kind': 'table', 'rows': [[k, rand_pv(rng)] for k in ks]}
        else:
            ks = rng.sample(A, min(m, len(A)))
            a = {'name': nm, 'kind': 'table', 'mask': [1, 0] if coarse == 0 else [0, 1],
                 'rows': [[[k, None] if coarse == 0 else [None, k], rand_pv(rng)] for k in ks]}
        a['layout'] = rng.choice(['named', 'other']); a['order'] = rng.choice([0, 1, 2])
        if rng.random() < 0.5: a['default'] = {'v': rand_pv(rng)}
        args.append(a)
    if rng.random() < 0.35 and len(A) >= 2 and len(B) >= 2:
        # matched-row count equal to the other table's row count although some of its keys found no partner:
        # m fine keys under ONE coarse key (defaulted input), and a coarse input with exactly m keys
        m = min(len(B), len(A), rng.choice([2, 3]))
        a0 = A[0]
        fk = [[a0, b] if coarse == 0 else [b, a0] for b in B[:m]]
        ck = A[:m]
        fa = {'name': 'x', 'kind': 'table', 'rows': [[k, rand_pv(rng)] for k in fk], 'layout': 'named', 'order': 0, 'default': {'v': rand_pv(rng)}}
        ca = {'name': 'y', 'kind': 'table', 'mask': [1, 0] if coarse == 0 else [0, 1], 'rows': [[[k, None] if coarse == 0 else [None, k], rand_pv(rng)] for k in ck], 'layout': 'named', 'order': 0}
        if rng.random() < 0.3: ca['default'] = {'v': rand_pv(rng)}
        args = [fa, ca] if rng.random() < 0.5 else [ca, fa]
    if rng.random() < 0.3: args.append({'name': 's', 'kind': 'scalar', 'v': rand_pv(rng)})
    case = {'stream': 'partial', 'on': on, 'args': args, 'data': None, 'expiry': None,
            'defaults_mode': 'dict' if any('default' in a for a in args) else rng.choice(['none', 'empty'])}
    if rng.random() < 0.5: case['kind'] = 'pjoin'
    return case

def impl_pjoin(case, inputs, defaults, renames):
    """join(inputs, on, renames, defaults) called directly: the table perdictable evaluates row by row"""
    on = case['on']; names = [a['name'] for a in case['args']]
    try:
        r = pjoin(inputs, on=(on[0] if case.get('on_str') and len(on) == 1 else list(on)), renames=renames, defaults=defaults)
    except Exception as e:
        return {'status': err_name(e), 'obs': ['ERR', err_name(e)], 'viol': 'join raised %s: %s' % (type(e).__name__, str(e)[:150])}
    kind, exp = expected(case)
    if not isinstance(r, dictable):
        return {'status': 'ok', 'obs': ['ERR', 'shape'], 'viol': 'join returned a %s' % type(r).__name__}
    keycols = [] if kind == 'scalar' else on
    if sorted(r.keys()) != sorted(keycols + names):
        return {'status': 'ok', 'obs': ['ERR', 'columns'], 'viol': 'join columns %s, expected the key columns and one column per input %s' % (sorted(r.keys()), sorted(keycols + names))}
    got = [(tuple(r[c][i] for c in keycols), [r[n][i] for n in names]) for i in range(len(r))]
    obs = ['pjoin', [[obs_key(k), [obs_pv(v) for v in a]] for k, a in got]]
    viol = None
    if kind == 'scalar':
        if [nargs(a) for _, a in got] != [nargs(exp)]: viol = 'all inputs are scalars: expected the single row %s, got %s' % (exp, got)
    else:
        gk = [kcanon(k) for k, _ in got]; ek = [c for c, _, _, _ in exp]
        if sorted(gk, key=repr) != sorted(ek, key=repr):
            viol = 'join keys %s, expected the keys present in every table input without default: %s' % (gk, ek)
        elif gk != ek:
            viol = 'join rows are not sorted by key: %s' % gk
        else:
            for (c, args, _, _), (k, a) in zip(exp, got):
                if nargs(a) != nargs(args): viol = 'join row %s holds %s, expected %s (table value, else default, scalars broadcast)' % (k, a, args); break
    return {'status': 'ok', 'obs': obs, 'viol': viol}

def snapshot(inputs):
    return {n: [(c, list(v)) for c, v in t.items()] for n, t in inputs.items() if isinstance(t, dictable)}
def modified(inputs, snap, exempt=()):
    """names of the input tables that are no longer what the caller passed (columns, order, identity of every cell)"""
    bad = []
    for n, cols in snap.items():
        now = [(c, v) for c, v in inputs[n].items()]
        same = len(now) == len(cols) and all(c == c0 and len(v) == len(v0) and all(a is b for a, b in zip(v, v0)) for (c, v), (c0, v0) in zip(now, cols))
        if not same and n not in exempt: bad.append((n, [c for c, _ in cols], [c for c, _ in now]))
    return bad

def impl(case):
    if is_partial(case): return impl_partial(case)
    case = resolved(case)
    inputs, defaults, renames = build_inputs(case)
    snap = snapshot(inputs)
    exempt = [a['name'] for a in case['args'] if a.get('layout') == 'renamed']      # renames= copies the named column into the caller's table (documented)
    exempt += [a['name'] for a in case['args'] if a.get('_same') and any(b['name'] == a['_same'] and b.get('layout') == 'renamed' for b in case['args'])]
    if case.get('kind') == 'pjoin':
        res = impl_pjoin(case, inputs, defaults, renames)
        bad = modified(inputs, snap, exempt)
        if bad and not res['viol']: res['viol'] = 'join modified the input table(s) it was given: %s' % bad
        return res
    names = [a['name'] for a in case['args']]
    outs = case.get('outputs')
    on = case['on']
    calls = []; extras_seen = []
    def rec(key, args, extras=None):
        calls.append((key, list(args)))
        if extras: extras_seen.append(sorted(extras))
        v = fvals(case, args)
        return dict(zip(outs, v)) if outs else v[0]
    plain = [n for n in names if not any(a['name'] == n and 'pydefault' in a for a in case['args'])]
    withd = [(a['name'], a['pydefault']['v']) for a in case['args'] if 'pydefault' in a]        # f's own keyword defaults
    fsig = case.get('fsig')
    body = 'rec((%s), (%s,)%s)' % (''.join(c + ',' for c in on), ', '.join(names), ', extras' if fsig == 'varkw' else '')
    keyp = ['%s=None' % c for c in on]
    if fsig == 'kwonly':        # every default is a keyword-only default: def f(a, *, b=5, k=None)
        src = 'lambda %s: %s' % (', '.join(plain + ['*'] + ['%s=%r' % nd for nd in withd] + keyp), body)
        f = eval(src, {'rec': rec})
    elif fsig == 'partial':     # the defaults are the keywords of a functools.partial
        src = 'lambda %s: %s' % (', '.join(plain + [n for n, _ in withd] + keyp), body)
        f = functools.partial(eval(src, {'rec': rec}), **dict(withd)) if withd else eval(src, {'rec': rec})
    else:                        # positional defaults; 'varkw': the function also accepts **extras and must not be handed any
        src = 'lambda %s: %s' % (', '.join(plain + ['%s=%r' % nd for nd in withd] + keyp + (['**extras'] if fsig == 'varkw' else [])), body)
        f = eval(src, {'rec': rec})
    if outs: f.output = list(outs)          # a function declared with named outputs: handled by _dict_output
    opts = {}
    if case.get('oii'):          # output_is_input: whether f is SHOWN its previous output; must not change which rows are kept
        first = outs[0] if outs else 'data'
        opts['output_is_input'] = {'false': False, 'data': first, 'other': 'something_else', 'list_data': [first], 'list_other': ['zz']}[case['oii']]
    p = perdictable(f, on=(on[0] if case.get('on_str') and len(on) == 1 else list(on)), defaults=defaults, renames=renames, **opts)
    # signature extension: the lifted function also accepts expiry and one argument per output (the previously computed values)
    spec_args = list(p.fullargspec.args) + list(p.fullargspec.kwonlyargs or [])
    missing = [n for n in names + ['expiry'] + (list(outs) if outs else ['data']) if n not in spec_args]
    if missing:
        return {'status': 'ok', 'obs': ['ERR', 'signature'], 'viol': 'the lifted signature %s lacks %s' % (spec_args, missing)}
    rounds = [(dict(case, again=None), inputs)]
    if case.get('again'):
        inputs2 = dict(inputs)
        for n, src_name in case['again'].items(): inputs2[n] = inputs[src_name]      # the same objects under other parameter names
        rounds.append((second_case(case), inputs2))
    results = []
    for rcase, rin in rounds:
        del calls[:]
        try:
            r = p(**rin)
        except Exception as e:
            return {'status': err_name(e), 'obs': ['ERR', err_name(e)], 'viol': 'perdictable raised %s: %s (call %d)' % (type(e).__name__, str(e)[:150], len(results) + 1)}
        res = judge(rcase, r, rin, list(calls))
        if extras_seen and not res['viol']:
            res['viol'] = 'f(%s, **extras) is applied to the key\'s values only, but it was also handed the undeclared keywords %s' % (', '.join(names), extras_seen[0])
        bad = modified(inputs, snap, exempt)
        if bad and not res['viol']: res['viol'] = 'the call modified the input table(s) it was given (columns before / after): %s' % bad
        results.append(res)
        if res['viol'] or res['obs'][0] == 'ERR': break
    if len(rounds) == 1 or results[-1]['viol'] or results[-1]['obs'][0] == 'ERR':
        return results[-1] if len(rounds) == 1 or len(results) == 1 else dict(results[-1], viol='second call (tables reused under other parameter names): ' + str(results[-1]['viol']))
    return {'status': 'ok', 'obs': [r['obs'] for r in results], 'viol': None}

def judge(case, r, inputs, calls):
    """observation and oracle verdict for one call"""
    outs = case.get('outputs'); on = case['on']
    kind, exp = expected(case)
    case_scalar = kind == 'scalar'
    def call_key(k):      # the key columns f saw (None when the row has no key column: the scalar call)
        return [] if all(c is None for c in k) and case_scalar else obs_key(k)
    trace = sorted([[call_key(k), [obs_pv(v) for v in a]] for k, a in calls], key=JKEY)
    viol = None; got_rows = None
    if outs:
        # ---- dict-output path: {output: table(on + output)} | f's own dict | the supplied caches
        if not isinstance(r, dict) or isinstance(r, dictable) or list(r.keys()) != list(outs) and sorted(r.keys()) != sorted(outs):
            return {'status': 'ok', 'obs': ['ERR', 'shape'], 'viol': 'a function with outputs %s must return one entry per output, got %r' % (outs, type(r).__name__)}
        vals = [r[o] for o in outs]
        if case_scalar and not any(isinstance(v, dictable) for v in vals):
            res = ['dscalar', [obs_pv(v) for v in vals]]          # f's own record (a None result is not the empty-join answer)
        elif all(v is inputs.get(o) for o, v in zip(outs, vals)):
            res = ['dempty', ['None' if v is None else [[obs_key([v[c][i] for c in on]), obs_pv(v[dcol(v, on)][i])] for i in range(len(v))] for v in vals]]
        elif all(isinstance(v, dictable) for v in vals):
            tabs = []
            for o, v in zip(outs, vals):
                if sorted(v.keys()) != sorted(on + [o]):
                    return {'status': 'ok', 'obs': ['ERR', 'columns'], 'viol': 'output %s: columns %s, expected the key columns and %s' % (o, sorted(v.keys()), o)}
                tabs.append([(tuple(v[c][i] for c in on), v[o][i]) for i in range(len(v))])
            ks = [[kcanon(k) for k, _ in t] for t in tabs]
            if any(k != ks[0] for k in ks):
                return {'status': 'ok', 'obs': ['ERR', 'keys'], 'viol': 'the outputs do not share their rows: %s' % ks}
            got_rows = [(tabs[0][i][0], [t[i][1] for t in tabs]) for i in range(len(tabs[0]))]
            res = ['dict', [[obs_key(k), [obs_pv(v) for v in vs]] for k, vs in got_rows]]
        elif not any(isinstance(v, dictable) for v in vals):
            res = ['dscalar', [obs_pv(v) for v in vals]]
        else:
            return {'status': 'ok', 'obs': ['ERR', 'mixed'], 'viol': 'outputs are a mix of tables and values: %r' % [type(v).__name__ for v in vals]}
        scalar_res = ['dscalar', [obs_pv(v) for v in fvals(case, exp)]] if case_scalar else None
    else:
        if isinstance(r, dictable):
            if case['data'] is not None and r is inputs.get('data'):
                res = ['data', [[obs_key([r[c][i] for c in on]), obs_pv(r['data'][i])] for i in range(len(r))]]
            else:
                if sorted(r.keys()) != sorted(on + ['data']):
                    viol = 'result columns %s, expected the key columns and data' % sorted(r.keys())
                    return {'status': 'ok', 'obs': ['ERR', 'columns'], 'viol': viol}
                got_rows = [(tuple(r[c][i] for c in on), [r['data'][i]]) for i in range(len(r))]
                res = ['table', [[obs_key(k), obs_pv(v[0])] for k, v in got_rows]]
        elif r is None and not case_scalar:
            res = 'None'
        else:
            res = ['scalar', obs_pv(r)]
        scalar_res = ['scalar', obs_pv(fvals(case, exp)[0])] if case_scalar else None
    # ---- oracle (both paths)
    if kind == 'scalar':
        if res != scalar_res:
            viol = 'all inputs are scalars: expected f(...) = %s itself, got %s' % (scalar_res, res)
        elif [nargs(a) for _, a in calls] != [nargs(exp)]:
            viol = 'all inputs are scalars: f must be evaluated once on them, calls were %s' % calls
    elif not exp:
        if calls: viol = 'no key is common to the inputs, yet f was called: %s' % calls
        elif got_rows: viol = 'no key is common to the inputs, yet rows were returned: %s' % got_rows
    else:
        if got_rows is None:
            viol = 'expected %d rows (keys %s), got %s' % (len(exp), [c for c, _, _, _ in exp], res)
        else:
            gk = [kcanon(k) for k, _ in got_rows]
            ek = [c for c, _, _, _ in exp]
            if sorted(gk, key=repr) != sorted(ek, key=repr):
                viol = 'result keys %s, expected the keys present in every table input without default: %s' % (gk, ek)
            elif gk != ek:
                viol = 'rows are not sorted by key: %s' % gk
            else:
                by_key = {}
                for k, a in calls: by_key.setdefault(kcanon(k), []).append(a)
                for (c, args, runs, cached), (k, v) in zip(exp, got_rows):
                    n = len(by_key.get(c, []))
                    if runs:
                        if n != 1: viol = 'row %s must be computed exactly once, f was called %d times' % (k, n); break
                        if nargs(by_key[c][0]) != nargs(args): viol = 'row %s: f called with %s, expected %s' % (k, by_key[c][0], args); break
                        if v != fvals(case, args): viol = 'row %s: value %s, expected f%s = %s' % (k, v, tuple(args), fvals(case, args)); break
                    else:
                        if n: viol = 'row %s has an expiry in the past: it must keep its value, but f was called %d times' % (k, n); break
                        if v != cached: viol = 'row %s has an expiry in the past: value %s, expected the supplied %s' % (k, v, cached); break
                if viol is None and len(calls) != sum(1 for e in exp if e[2]):
                    viol = 'f was called %d times for %d rows needing evaluation' % (len(calls), sum(1 for e in exp if e[2]))
    return {'status': 'ok', 'obs': [res, trace], 'viol': viol}

def dcol(t, on):
    """the value column of a supplied cache table handed back untouched"""
    return [c for c in t.keys() if c not in on][0]

# ------------------------------------------------------------------ bookkeeping
def nontrivial(case, result):
    if is_partial(case):
        try: exp = expected_partial(case)
        except Exception: return False
        return len(exp) > 0 and any(eff_default(case, a) is not None for a in case['args'])
    try: kind, exp = expected(case)
    except Exception: return False
    if kind == 'scalar': return False
    case = resolved(case)
    tables = [a for a in case['args'] if a['kind'] == 'table']
    allk = {kcanon(pykey(k)) for a in tables for k, _ in a['rows']}
    keys = {c for c, _, _, _ in exp}
    dropped = bool(allk - keys)
    defaulted = any(c not in {kcanon(pykey(k)) for k, _ in a['rows']} for a in tables if eff_default(case, a) is not None for c in keys)
    kept = any(not r for _, _, r, _ in exp)
    return bool(exp) and (dropped or defaulted or kept)
def shape(case):
    case = resolved(case)
    t = sum(1 for a in case['args'] if a['kind'] == 'table'); d = sum(1 for a in case['args'] if eff_default(case, a) is not None)
    x = case['expiry']
    if case.get('outputs'):
        cl = cache_list(case)
        dat = 'D%d/%d' % (sum(1 for _, c in cl if c is not None), len(cl))
    else:
        dat = 'data' if case['data'] is not None else '-'
    return '%s%s:n%d:t%d:d%d:on%d:%s:%s' % ('pjoin:' if case.get('kind') == 'pjoin' else '', case.get('stream', '?'), len(case['args']), t, d, len(case['on']), dat,
                                          '-' if x is None else 'xs' if 'scalar' in x else 'xt')
def shrink(case):
    if case.get('stream') == 'seed': return
    if is_partial(case):
        for i, a in enumerate(case['args']):
            if a['kind'] == 'table':
                for j in range(len(a['rows'])):
                    yield dict(case, args=case['args'][:i] + [dict(a, rows=a['rows'][:j] + a['rows'][j + 1:])] + case['args'][i + 1:])
        return
    for i, a in enumerate(case['args']):
        if len(case['args']) > 1:
            yield dict(case, args=case['args'][:i] + case['args'][i + 1:])
        if a['kind'] == 'table':
            for j in range(len(a['rows'])):
                yield dict(case, args=case['args'][:i] + [dict(a, rows=a['rows'][:j] + a['rows'][j + 1:])] + case['args'][i + 1:])
            if a.get('layout', 'named') != 'named':
                yield dict(case, args=case['args'][:i] + [dict(a, layout='named')] + case['args'][i + 1:])
    if case['data'] is not None: yield dict(case, data=None)
    for o in list((case.get('caches') or {})):
        yield dict(case, caches={k: v for k, v in case['caches'].items() if k != o})
    if case.get('outputs') and len(case['outputs']) > 1:
        yield dict(case, outputs=case['outputs'][:-1], caches={k: v for k, v in (case.get('caches') or {}).items() if k in case['outputs'][:-1]})
    if case['expiry'] is not None: yield dict(case, expiry=None)

# ------------------------------------------------------------------ generation
from props.c02 import D1, D3, D5
UNI1 = [[['s', 'x']], [['s', 'y']], [['s', 'z']], [['s', 'w']], [['i', 1]], [['i', 2]], [None], [['s', 'ab']],
        [['d', D1]], [['d', D3]], [['d', D5]], [['i', 2**53]], [['i', 2**53 + 1]], [['x', (0.1).hex()]], [['s', '']], [['s', '\u00e9']]]
def key_variant(rng, k):
    """the same key spelled as an == value of another type (1 vs 1.0)"""
    return [['f', 2 * c[1]] if (c is not None and c[0] == 'i' and abs(c[1]) < 2**52 and rng.random() < 0.3) else c for c in k]
def universe(rng, nk):
    if nk == 1:
        return rng.sample(UNI1, rng.choice([3, 4, 5, 6]))
    a = [['s', 'x'], ['s', 'y'], ['i', 1], ['i', 2]]; b = [['i', 1], ['i', 2], None, ['s', 'x']]
    allk = [[p, q] for p in a for q in b]
    return rng.sample(allk, rng.choice([3, 4, 5, 6]))
def rand_rows(rng, uni, val):
    r = rng.random()
    ks = [] if r < 0.08 else list(uni) if r < 0.2 else [k for k in uni if rng.random() < 0.6]
    rng.shuffle(ks)
    return [[key_variant(rng, k), val(rng)] for k in ks]
def rand_pv(rng): return rng.choice([None, 0, 1, 2, 3, 4, 5, 6, 7, 8])

def no_dict_today(case):
    if DICT_TODAY or not case.get('outputs') or case['expiry'] is None: return
    x = case['expiry']
    if 'scalar' in x:
        if x['scalar'] == 'today': x['scalar'] = 'today_late'
    else:
        for r in x['rows']:
            if r[1] == 'today': r[1] = 'today_late'

def rand_seq(rng, n=None):
    n = rng.choice([0, 1, 2, 3]) if n is None else n
    return {rng.choice(['list', 'tuple']): [rng.randrange(6) for _ in range(n)]}

def decorate(rng, case, force=None):
    """the kinds of call the plain stream lacks: list / tuple valued scalars (also of exactly the row count), the defaults= spellings
    None / {} / {name: v} with and without python keyword defaults of f, the same table object under two parameter names, and a second
    call that reuses the tables under other parameter names"""
    args = case['args']
    # ---- defaults= spelling and f's own keyword defaults
    for a in args:
        if rng.random() < 0.25: a['pydefault'] = {'v': rand_pv(rng)}
    explicit = any('default' in a for a in args)
    case['defaults_mode'] = 'dict' if explicit else rng.choice(['none', 'none', 'empty'])
    if force == 'defaults':
        t = [a for a in args if a['kind'] == 'table']
        if t:
            t[0]['pydefault'] = {'v': rand_pv(rng)}; [a.pop('default', None) for a in args]
            case['defaults_mode'] = rng.choice(['none', 'empty', 'empty'])
    # ---- renames= spelled as a plain column name or a one-element list (it then applies to every table input: only with a single table)
    tabs_all = [a for a in args if a['kind'] in ('table', 'same')]
    xt = case.get('expiry') is not None and 'rows' in case['expiry']
    if force == 'renames' and len(tabs_all) >= 1:
        for a in tabs_all[1:]:
            nm = a['name']; keep = {k: v for k, v in a.items() if k in ('default', 'pydefault')}
            a.clear(); a.update(keep); a.update({'name': nm, 'kind': 'scalar', 'v': rand_pv(rng)})
        tabs_all = tabs_all[:1]; tabs_all[0]['layout'] = 'renamed'
        case['data'] = None; case.pop('outputs', None); case.pop('caches', None)
        if xt: case['expiry'] = None; xt = False
    if len(tabs_all) == 1 and tabs_all[0].get('layout') == 'renamed' and case.get('data') is None and not case.get('caches') and not xt:
        case['renames_spelling'] = rng.choice(['dict', 'str', 'list1'])
    # ---- output_is_input option (True is the default), mostly where previously computed values are supplied
    cached = case.get('data') is not None or bool(case.get('caches'))
    if rng.random() < (0.45 if cached else 0.1):
        case['oii'] = rng.choice(['false', 'false', 'data', 'other', 'list_data', 'list_other'])
    # ---- the shape of f's signature: positional defaults (default), **extras, keyword-only defaults, functools.partial keywords
    case['fsig'] = rng.choice([None, None, 'varkw', 'kwonly', 'partial']) if force != 'defaults' else rng.choice([None, 'kwonly', 'kwonly', 'partial', 'partial'])
    # ---- the same table object passed for two parameters
    tabs = [a for a in args if a['kind'] == 'table' and a.get('layout', 'named') in ('named', 'data', 'other')]
    if tabs and len(args) >= 2 and (force == 'same' or rng.random() < 0.08):
        src = tabs[0]
        others = [a for a in args if a is not src]
        o = rng.choice(others)
        keep = {k: v for k, v in o.items() if k in ('name', 'default', 'pydefault')}
        o.clear(); o.update(keep); o['kind'] = 'same'; o['ref'] = src['name']
    # ---- a second call reusing the tables under other parameter names (plain function path only)
    tabs = [a for a in args if a['kind'] == 'table']
    if (force == 'again' or rng.random() < 0.1) and len(tabs) >= 2 and not case.get('outputs') and not any(a['kind'] == 'same' for a in args):
        for a in tabs:
            if a.get('layout', 'named') not in ('named', 'data', 'other'): a['layout'] = rng.choice(['named', 'data', 'other'])
        names = [a['name'] for a in tabs]
        case['again'] = {n: names[(i + 1) % len(names)] for i, n in enumerate(names)}
    # ---- list / tuple valued scalars
    sc = [a for a in args if a['kind'] == 'scalar']
    if force == 'list' and not sc:
        used = {a.get('ref') for a in args} | set((case.get('again') or {}))
        cand = [a for a in args if a['kind'] == 'table' and a['name'] not in used]
        if cand:
            a = cand[-1]; nm = a['name']; a.clear(); a.update({'name': nm, 'kind': 'scalar', 'v': None}); sc = [a]
    for a in sc:
        if force == 'list' or rng.random() < 0.15:
            a['v'] = rand_seq(rng)
    if any(isinstance(a.get('v'), dict) for a in sc):
        try:
            kind, exp = expected(case)
            nrows = len(exp) if kind == 'table' else 1
        except Exception:
            nrows = 2
        for a in sc:
            if isinstance(a.get('v'), dict) and rng.random() < 0.5:
                a['v'] = rand_seq(rng, nrows)                  # as long as the table has rows: must still go whole to every row

KEYNAMES = ['k', 'm', 'B', 'zk', 'aa', 'c9']      # before / between / after the value columns a b c d data expiry zz_*
def rand_case(rng, stream='rand'):
    force = stream if stream in ('list', 'defaults', 'same', 'again', 'renames') else None
    nk = rng.choice([1, 1, 2, 2])
    on = rng.sample(KEYNAMES, nk)            # any order: 'sorted by key' = lexicographic in the order of `on`
    uni = universe(rng, nk)
    n = rng.choice([1, 2, 2, 3, 3, 4])
    args = []
    for name in rng.choice([['a', 'b', 'c', 'd'], ['a', 'b', 'c', 'd'], ['price', 'amount_2', 'Zeta', 'x1'], ['zz', 'm2', 'b', 'A']])[:n]:
        if rng.random() < 0.3:
            a = {'name': name, 'kind': 'scalar', 'v': rand_pv(rng)}
        else:
            a = {'name': name, 'kind': 'table', 'rows': rand_rows(rng, uni, rand_pv), 'layout': rng.choice(['named', 'named', 'data', 'other', 'extra', 'renamed']), 'order': rng.choice([0, 0, 1, 2])}
        if rng.random() < 0.35:
            a['default'] = {'v': rand_pv(rng)}
        args.append(a)
    case = {'stream': stream, 'on': on, 'args': args, 'data': None, 'expiry': None}
    r = rng.random()
    if r < 0.55:
        case['data'] = {'rows': rand_rows(rng, uni, lambda g: g.choice([None, 500, 600, 700])), 'order': rng.choice([0, 1, 2])}
    r = rng.random()
    if r < 0.45:
        case['expiry'] = {'rows': rand_rows(rng, uni, lambda g: g.choice(EPOOL)), 'layout': rng.choice(['data', 'expiry']), 'order': rng.choice([0, 1, 2])}
    elif r < 0.6:
        case['expiry'] = {'scalar': rng.choice(EPOOL)}
    if rng.random() < 0.4:
        # dict-output path: f declared with named outputs, one cache per output (each supplied or not)
        outs = rng.choice([['p'], ['p', 'q'], ['q', 'p'], ['p', 'q', 'r']])
        every = rng.random() < 0.55
        caches = {}
        for i, o in enumerate(outs):
            if every or rng.random() < 0.5:
                caches[o] = {'rows': rand_rows(rng, uni, lambda g, i=i: g.choice([None, 500 + i, 600 + i, 700 + i])),
                             'layout': rng.choice(['named', 'named', 'data', 'other']), 'order': rng.choice([0, 1, 2])}
        case['outputs'] = outs; case['caches'] = caches; case['data'] = None
        no_dict_today(case)
    decorate(rng, case, force)
    if nk == 1 and rng.random() < 0.3: case['on_str'] = True          # on='k' instead of on=['k']
    if rng.random() < 0.12:
        # join(inputs, on, renames, defaults) observed directly
        case['kind'] = 'pjoin'; case['data'] = None; case['expiry'] = None; case.pop('outputs', None); case.pop('caches', None); case.pop('again', None)
        for a in case['args']: a.pop('pydefault', None)            # python defaults of f play no part in a direct join
        if case['defaults_mode'] == 'none' and any('default' in a for a in case['args']): case['defaults_mode'] = 'dict'
    # (not with an EMPTY table: dictable.rename on an empty table drops a column called data - a dictable quirk outside C20, reported)
    nonempty = all(len(a['rows']) > 0 for a in case['args'] if a['kind'] == 'table') and all(len(c['rows']) > 0 for c in (case.get('caches') or {}).values()) \
        and not (case['expiry'] is not None and 'rows' in case['expiry'] and len(case['expiry']['rows']) == 0)
    if (case.get('outputs') or case.get('kind') == 'pjoin') and nonempty and rng.random() < 0.2:
        # a key column called `data` (the name _item treats specially when it is NOT a key); not on the plain-function path,
        # whose output column is itself called data
        case['on'] = list(case['on']); case['on'][rng.randrange(len(case['on']))] = 'data'
        for a in case['args']:
            if a.get('layout') == 'data': a['layout'] = 'other'
        for c in (case.get('caches') or {}).values():
            if c.get('layout') == 'data': c['layout'] = 'named'
        if case['expiry'] is not None and 'rows' in case['expiry']: case['expiry']['layout'] = 'expiry'
    return case

def large_case(rng):
    """tables of 60-130 keys (ints, strings, a date, None): long sorts and joins"""
    n = rng.randrange(60, 131)
    uni = [[['i', i]] for i in range(n // 2)] + [[['s', 'k%d' % i]] for i in range(n // 2)] + [[None], [['d', D1]]]
    def rows(p, val):
        ks = [k for k in uni if rng.random() < p]; rng.shuffle(ks)
        return [[k, val(rng)] for k in ks]
    args = [{'name': 'a', 'kind': 'table', 'rows': rows(0.9, rand_pv), 'layout': 'named'},
            {'name': 'b', 'kind': 'table', 'rows': rows(0.7, rand_pv), 'layout': rng.choice(['data', 'other'])}]
    if rng.random() < 0.5: args[1]['default'] = {'v': rand_pv(rng)}
    case = {'stream': 'large', 'on': ['k'], 'args': args, 'data': {'rows': rows(0.5, lambda g: g.choice([None, 500, 600]))},
            'expiry': {'rows': rows(0.5, lambda g: g.choice(['past', 'future', 'none', 'past2', 'today', 'yesterday'])), 'layout': 'data'}}
    if rng.random() < 0.4:
        case['outputs'] = ['p', 'q']; case['caches'] = {'p': case['data'], 'q': {'rows': rows(0.6, lambda g: g.choice([None, 501]))}}; case['data'] = None
        no_dict_today(case)
    return case

def exhaustive():
    """all overlap patterns of two tables on keys {x,y,z}, defaults on none / a / b / both, cache on y with every expiry"""
    K = [[['s', 'x']], [['s', 'y']], [['s', 'z']]]
    out = []
    subs = [[k for k, b in zip(K, bits) if b] for bits in itertools.product([0, 1], repeat=3)]
    for sa in subs:
        for sb in subs:
            for da, db in itertools.product([False, True], repeat=2):
                for e in [None, 'absent', 'past', 'future', 'none']:
                    a = {'name': 'a', 'kind': 'table', 'rows': [[k, 1 + i] for i, k in enumerate(sa)], 'layout': 'named'}
                    b = {'name': 'b', 'kind': 'table', 'rows': [[k, 4 + i] for i, k in enumerate(sb)], 'layout': 'named'}
                    if da: a['default'] = {'v': 0}
                    if db: b['default'] = {'v': None}
                    c = {'stream': 'exh', 'on': ['k'], 'args': [a, b], 'data': None, 'expiry': None}
                    if e is not None:
                        c['data'] = {'rows': [[K[1], 500], [K[2], 600]]}
                        if e != 'absent': c['expiry'] = {'rows': [[K[1], e], [K[0], 'past']], 'layout': 'data'}
                    out.append(c)
                    if e is not None:
                        # the same overlap pattern through the dict-output path: outputs p, q; q cached for y only, or not supplied
                        for qc in ([[K[1], 501]], None):
                            c2 = dict(c, data=None, outputs=['p', 'q'], caches={'p': {'rows': [[K[1], 500], [K[2], 600]]}})
                            if qc is not None: c2['caches']['q'] = {'rows': qc}
                            out.append(c2)
    return out

def gen_cases(rng, tier):
    q = tier == 'quick'
    cases = [rand_case(rng) for _ in range(2000 if q else 30000)]
    ex = exhaustive()
    for _ in range(400 if q else 4000):
        cases.append(partial_case(rng))
    for force, n in (('renames', 80), ('list', 200), ('defaults', 200), ('same', 120), ('again', 150)):
        for _ in range(n if q else 10 * n):
            c = rand_case(rng, force)
            cases.append(c)
    cases.extend(rng.sample(ex, 600) if q else ex)
    cases.extend(large_case(rng) for _ in range(5 if q else 60))
    return cases
