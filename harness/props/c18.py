"""C18 — decorators are transparent: same results, same signature, no double wrapping."""
import itertools, inspect, json
from implutil import err_name

ID = 'C18'
TRANSLATOR = []
COQ_EXEC = ['exec.X_deco']
COQ_IMPORTS = 'From PB Require Import model.M_keys model.M_deco.\n'
COQ_PRELUDE = ''
PER_FILE = 500
CASE_TIMEOUT = 10
RULE = ('three streams. bind: EVERY signature with 0-4 positional parameters x 0..n trailing defaults x *args x **kw (60 signatures) and EVERY call with '
        '0..n+2 positional arguments and every subset (size <= n+1) of {declared names, one undeclared name} passed by keyword: the 936 valid calls and all '
        'invalid ones, plus calls whose keywords are spelled like the *args / **kw parameters themselves (args, kw, kwargs, self) on every signature; compared: inspect.getcallargs, pyg_base.getcallargs and f called through call_with_callargs (f returns its own binding). stack: every '
        'stack of 1-3 decorators from {try_none, try_back, kwargs_support, cache, loop(list), pd2np}: single decorators on all 936 valid calls, longer stacks on '
        'sampled signatures/calls, with returning and raising f; compared: the chain of wrapper types, the chain after re-applying the outermost and the '
        'innermost decorator, the result, getargspec. cache: call sequences (len 2-8) on a counting function whose n-th evaluation returns a value from a pool '
        'with None, 0, "", [], False, NaN, (), {}, 0.0 (evaluations counted per distinct combination exactly) with repeated, ==-equal (1, 1.0, True) and '
        'unhashable list/dict arguments, lists vs tuples vs dict-item tuples of the same content, keywords in different orders; compared: every return and the '
        'list of evaluated calls. The oracle is written from the property text (inspect as reference binding, Python == on the arguments as passed for '
        '"distinct combination"). pd2np built with exc= (str / list / tuple / None) on non-pandas and pandas (Series, DataFrame) first arguments with the excluded parameter by keyword / position / absent; try_back with f raising and all arguments by keyword in every permuted order. tryhist: try_value with a mutable fallback ([], {}, filled, list subclass, try_list) over histories in which f raises >= 2 times '
        'and the caller mutates every fallback it receives: every fallback must be the pristine value and a new object. non-trivial = valid call passing >= 1 keyword or using a default (bind), stack of >= 2 or raising f (stack), sequence with a '
        'repeated combination (cache); distinct by full input')
EXPLANATION = ('theorems C18_* (coq/props/C18.v) hold for every signature, every call, every chain of wrapper types and every call sequence (induction, no '
               'bound); the correspondence ties the models of M_deco.v to _inspect.py / _decorators.py / _cache.py on the exhaustive scopes above')
TRUSTED = ['modelled, not verified: CPython argument binding (inspect.getcallargs is the reference, itself compared on every generated call), dict key equality / '
           'hashing of tuples, copy.copy of a wrapper']
ASSUMPTIONS = ['keyword-only parameters: generated for every wrapper, for getcallargs / call_with_callargs only where no keyword-only parameter is passed by keyword or required (there unchanged /repo deviates from inspect: candidate findings, switch INCLUDE_KWONLY_DEVIATIONS); parameter names distinct from the *args / **kw names', 'the wrapped function is deterministic given its evaluation count and does not raise (cache claims)',
               'arguments are ints, floats, bools, None, str, and tuples / lists / str-keyed dicts of these (no NaN)',
               'cache: arguments that stay unhashable after normalisation (sets, pandas objects) are deliberately not cached - f runs on every call (tests/test_cache.py::test_cache_revert_to_no_cache expects it)']
EXHAUSTIVE = {'quick': False, 'thorough': False}
LEVEL_TEXT = ('machine-checked Coq theorems (C18_*) for every signature / call / wrapper chain / call sequence about executable models of getcallargs, '
              'call_with_callargs, wrapper construction, try_*, kwargs_support and cache; the models are compared with the real code inside Coq on all 60 '
              'signatures x all calls (936 valid), all stacks of <= 3 decorators and generated cache histories')
LEVEL_NOTE = ('trusted: Coq kernel/vm_compute; reference binding = inspect.getcallargs. Known finding: kwargs_support drops undeclared keywords even when f '
              'declares **kwargs (documented, relied upon by Dict.apply / kwpartial). Known finding: parameter names colliding with the own argument names of the wrappers '
              '(axis popped by loops, self by keyword in every wrapper, function by keyword in getcallargs; Coq: C18_reserved_names_refuted)')
TECHNIQUE = 'Coq proof (induction over parameter lists, wrapper chains and call sequences; refinement of the dict-update implementation to the binding spec) + differential correspondence in vm_compute'

# variants of the try_value and loops wrapper types (same wrapper class, other parameters)
FALLBACK = {'try_none': None, 'try_zero': 0, 'try_nan': 'NaN', 'try_true': True, 'try_false': False, 'try_list': []}
FALLBACK_J = {'try_none': 'JNone', 'try_zero': '(JZ 0)', 'try_nan': '(JS "NaN")', 'try_true': '(JS "True")', 'try_false': '(JS "False")', 'try_list': '(JL [])'}
LOOPV = ['loop', 'loop_dict', 'loop_tuple_dict', 'loop_all']
# argument VALUES of other kinds: the int v of a case stands for KOBJ[v]; results are translated back, so the model stays over ints
import numpy as _np
KOBJ = {1: 'one', 2: _np.int32(2), 3: 2.5, 4: (1, 2), 5: {'x': 1}, 6: (3,), 10: -7.25, 11: float('inf'), 12: _np.int16(12), 13: frozenset({1}), 14: '',
        15: _np.int64(15)}     # numpy integer SCALARS are not arrays: pd2np must hand them on untouched; no value that is also a try_* fallback
_KINDS = [False]
# codes 50..59 stand for pandas objects, code + 10 for their numpy values (pd2np cases)
_PD = {}
def pdobj(v):
    if not _PD:
        import pandas as pd
        _PD[50] = pd.Series([1.5, 2.5], index=[10, 20]); _PD[51] = pd.Series([7.5]); _PD[52] = pd.DataFrame({'u': [1.5, 2.5], 'v': [3.5, 4.5]})
    return _PD.get(v)
def uncode_pd(x):
    import numpy as np, pandas as pd
    if isinstance(x, (pd.Series, pd.DataFrame)):
        for v in (50, 51, 52):
            if type(pdobj(v)) is type(x) and pdobj(v).equals(x): return v
    if isinstance(x, np.ndarray):
        for v in (50, 51, 52):
            if np.array_equal(pdobj(v).values, x): return v + 10
    return None
def encode_kind(v):
    return KOBJ.get(v, v)
def uncode(x):
    if type(x) is int: return x
    if type(x).__module__.split('.')[0] in ('pandas', 'numpy') and not isinstance(x, _np.generic):
        c = uncode_pd(x)
        return '<%s>' % type(x).__name__ if c is None else c
    if not _KINDS[0]: return x
    for v, o in KOBJ.items():
        if type(o) is type(x) and o == x: return v
    if x is None or isinstance(x, (bool, str)): return x
    return '<%s %r>' % (type(x).__name__, x)          # not one of the values that were passed (e.g. a converted copy)

NAMES = ['a', 'b', 'c', 'd']
RESERVED = ['axis', 'self', 'function']      # parameter names that collide with the wrappers' own argument names (KNOWN FINDING c18_reserved_parameter_names)
def pnames(case):
    return case.get('pnames') or NAMES[:case['npos']]
UNDECL = 'zz'
DECOS = ['try_none', 'try_back', 'kwargs_support', 'cache', 'loop', 'pd2np']
TYPE_OF = {'try_none': 'try_value', 'try_back': 'try_back', 'kwargs_support': 'kwargs_support', 'cache': 'cache_func', 'loop': 'loops', 'pd2np': 'pd2np'}
TAG = {'try_none': 'TTry', 'try_back': 'TBack', 'kwargs_support': 'TKws', 'cache': 'TCache', 'loop': 'TLoop', 'pd2np': 'TPd'}

# ------------------------------------------------------------------ Coq side
def coq_str(s):
    return '"' + s.replace('"', '""') + '"'
def coq_sig(c):
    n, nd = c['npos'], c['ndef']
    return '{| pos := [%s]; defs := [%s]; varargs := %s; varkw := %s |}' % (
        '; '.join(coq_str(x) for x in pnames(c)), '; '.join('(%d)' % (100 + i) for i in range(n - nd, n)),
        'true' if c['va'] else 'false', 'true' if c['vk'] else 'false')
def coq_call(c):
    return '([%s], [%s])' % ('; '.join('(%d)' % a for a in c['args']), '; '.join('(%s, (%d))' % (coq_str(k), v) for k, v in c['kw']))
def coq_av(e):
    if e is None: return 'ANone'
    if isinstance(e, str): return '(AStr %s)' % coq_str(e)
    if isinstance(e, int): return '(AInt (%d))' % e
    if 'f' in e: return '(AFloat (%d))' % e['f']
    if 'b' in e: return '(ABool %s)' % ('true' if e['b'] else 'false')
    if 'nan' in e: return '(AStr "NaN")'
    if 't' in e: return '(ATup [%s])' % '; '.join(coq_av(x) for x in e['t'])
    if 'u' in e: return '(AUnh (%d))' % e['u']
    if 'l' in e: return '(AList [%s])' % '; '.join(coq_av(x) for x in e['l'])
    return '(ADict [%s])' % '; '.join('(%s, %s)' % (coq_str(k), coq_av(v)) for k, v in e['d'])

def coq_runner(case):
    return {'bind': 'run_bind', 'stack': 'run_stack', 'cache': 'run_cache', 'tryhist': 'run_tryhist', 'seq': 'run_seq'}[case['kind']]
def coq_ko(case):
    return '[%s]' % '; '.join('(%s, %s)' % (coq_str(x), 'Some (%d)' % dv if dv is not None else 'None') for x, dv in case.get('ko', []))
def coq_case(case):
    k = case['kind']
    if k == 'bind':
        return '(%s, %s, %s)' % (coq_sig(case), coq_ko(case), coq_call(case))
    if k == 'seq':
        return '([%s], %s, %s, [%s])' % ('; '.join(TAG[d] for d in case['decos']), coq_sig(case), coq_ko(case),
                                         '; '.join('(%s, %s)' % ('true' if st['via'] == 'call' else 'false', coq_call(st)) for st in case['steps']))
    if k == 'tryhist':
        return '(%s, [%s])' % (coq_av(case['value']), '; '.join('true' if b else 'false' for b in case['steps']))
    if k == 'stack':
        return '([%s], %s, %s, %s, %s, %s, [%s])' % ('; '.join(TAG[d] for d in case['decos']), coq_sig(case), coq_ko(case), 'true' if case['raises'] else 'false', coq_call(case),
                                               FALLBACK_J[case.get('tryv', 'try_none')], '; '.join(coq_str(x) for x in case.get('exc', [])))
    return '([%s], [%s])' % ('; '.join(coq_av(r) for r in ret_pool(case)),
                             '; '.join('([%s], [%s])' % ('; '.join(coq_av(a) for a in c['args']), '; '.join('(%s, %s)' % (coq_str(k), coq_av(v)) for k, v in c['kw'])) for c in case['calls']))

def ret_pool(case):
    """what the n-th evaluation of the cached function returns (default: the evaluation count)"""
    return case['rets'] if 'rets' in case else list(range(1, len(case['calls']) + 1))

# ------------------------------------------------------------------ implementation side
def impl_setup():
    global getcallargs, call_with_callargs, getargspec, wrapper, D
    from pyg_base._inspect import getcallargs, call_with_callargs, getargspec
    from pyg_base._decorators import kwargs_support, try_none, try_back, wrapper
    from pyg_base._cache import cache
    from pyg_base import loop, pd2np
    import pyg_base
    D = {'try_none': try_none, 'try_back': try_back, 'kwargs_support': kwargs_support, 'cache': cache, 'loop': loop(list), 'pd2np': pd2np,
         'try_zero': pyg_base.try_zero, 'try_nan': pyg_base.try_nan, 'try_true': pyg_base.try_true, 'try_false': pyg_base.try_false, 'try_list': pyg_base.try_list,
         'loop_dict': loop(dict), 'loop_tuple_dict': loop(tuple, dict), 'loop_all': pyg_base.loop_all}

def _bv(v):
    if isinstance(v, tuple): return ['t'] + [uncode(x) for x in v]
    if isinstance(v, dict): return ['d', [[k, uncode(v[k])] for k in sorted(v)]]
    return v
def canon_binding(d):
    return [[k, _bv(d[k])] for k in sorted(d)]
def BIND(named, args, kw):
    d = {k: uncode(v) for k, v in named.items()}
    if args is not None: d['args'] = args
    if kw is not None: d['kw'] = kw
    return canon_binding(d)
def RAISE():
    return 1 // 0

def make_f(case, raises=False, spelled=True):
    n, nd = case['npos'], case['ndef']
    NM = pnames(case)
    params = [NM[i] + ('=%d' % (100 + i) if i >= n - nd else '') for i in range(n)]
    ko = case.get('ko', [])
    if case['va']: params.append('*args')
    elif ko: params.append('*')
    params += [x + ('=%d' % dv if dv is not None else '') for x, dv in ko]        # keyword-only parameters
    if case['vk']: params.append('**kw')
    body = 'RAISE()' if raises else 'BIND(dict(%s), %s, %s)' % (', '.join('%s=%s' % (x, x) for x in NM + [x for x, _ in ko]), 'args' if case['va'] else 'None', 'kw' if case['vk'] else 'None')
    if spelled and case.get('partial') and ko and all(dv is not None for _, dv in ko):
        # the same signature spelled as functools.partial(g, k = 7, ...): keywords a partial pre-binds become keyword-only parameters with that default
        import functools
        params = [NM[i] + ('=%d' % (100 + i) if i >= n - nd else '') for i in range(n)]
        if case['va']: params.append('*args')
        params += ['%s=0' % x for x, _ in ko]
        if case['vk']: params.append('**kw')
        return functools.partial(eval('lambda %s: %s' % (', '.join(params), body), {'BIND': BIND, 'RAISE': RAISE}), **{x: dv for x, dv in ko})
    if spelled and case.get('ann'):
        # the same function with annotations on parameters, *args, **kw and the return value
        ANN = ['int', "'text'", 'float', 'list']
        ptxt = []
        for i, ptext in enumerate(params):
            name, eq, dflt = ptext.partition('=')
            if name == '*': ptxt.append('*'); continue
            ptxt.append('%s: %s%s' % (name, ANN[i % 4], ' = ' + dflt if eq else ''))
        env = {'BIND': BIND, 'RAISE': RAISE}
        exec('def annotated(%s) -> dict:\n    return %s' % (', '.join(ptxt), body), env)
        return env['annotated']
    return eval('lambda %s: %s' % (', '.join(params), body), {'BIND': BIND, 'RAISE': RAISE})

def outcome(f, *a, **k):
    try:
        return 'ok', f(*a, **k)
    except Exception as e:
        return err_name(e) if type(e).__name__ != 'ZeroDivisionError' else 'ZeroDivisionError', None
def obs_of(st, r):
    if st != 'ok': return ['ERR', st]
    if isinstance(r, float) and r != r: return 'NaN'
    return r if isinstance(r, list) else uncode(r)

def impl_bind(case):
    _KINDS[0] = False
    f = make_f(case)
    a = tuple(case['args']); k = dict((x, y) for x, y in case['kw'])
    try:
        exp = inspect.getcallargs(f, *a, **k); spec = canon_binding(exp); valid = True
    except TypeError:
        exp = None; spec = ['ERR', 'TypeError']; valid = False
    st, got = outcome(getcallargs, f, *a, **k)
    lib = canon_binding(got) if st == 'ok' else ['ERR', st]
    if st == 'ok':
        st2, rt = outcome(call_with_callargs, f, got)
        rto = obs_of(st2, rt)
    else:
        st2, rt, rto = st, None, ['ERR', st]
    viol = None
    if valid:
        if st != 'ok': viol = 'getcallargs raised %s on the valid call %r %r of %s' % (st, a, k, sig_text(case))
        elif got != exp: viol = 'getcallargs(%s, *%r, **%r) = %r, inspect.getcallargs gives %r' % (sig_text(case), a, k, got, exp)
        else:
            direct = f(*a, **k)
            if st2 != 'ok' or rt != direct:
                viol = 'call_with_callargs(f, getcallargs(f, *%r, **%r)) gave %r, f(*a, **k) = %r for %s' % (a, k, rto, direct, sig_text(case))
    return {'status': st if st != 'ok' else st2, 'obs': [spec, lib, rto], 'viol': viol, 'valid': valid}

def sig_text(case):
    n, nd = case['npos'], case['ndef']
    ko = case.get('ko', [])
    params = [pnames(case)[i] + ('=%d' % (100 + i) if i >= n - nd else '') for i in range(n)] + (['*args'] if case['va'] else ['*'] if ko else []) + \
             [x + ('=%d' % dv if dv is not None else '') for x, dv in ko] + (['**kw'] if case['vk'] else [])
    return 'f(%s)' % ', '.join(params)

def chain_of(w):
    out = []
    while isinstance(w, wrapper):
        out.append(type(w).__name__); w = w.function
    return out

def impl_stack(case):
    decos = case['decos']
    f = make_f(case, case['raises'])
    f_ref = make_f(case, case['raises'], spelled=False)          # the plain spelling of the same signature, for inspect.getcallargs
    variant = {'try_none': case.get('tryv', 'try_none'), 'loop': case.get('loopv', 'loop')}
    def DD(d):
        if d == 'pd2np' and 'exc' in case:             # pd2np built with an exclusion list, in each accepted spelling
            exc = case['exc']; form = case.get('excform', 'list')
            return D['pd2np'](exc = (exc[0] if form == 'str' and len(exc) == 1 else tuple(exc) if form == 'tuple' else None if not exc and form == 'none' else list(exc)))
        return D[variant.get(d, d)]
    def mk():
        w = f
        for d in decos: w = DD(d)(w)
        return w
    _KINDS[0] = bool(case.get('kinds'))
    enc0 = encode_kind if case.get('kinds') else (lambda v: v)
    enc = lambda v: pdobj(v) if 50 <= v < 60 else enc0(v)
    a = tuple(enc(x) for x in case['args']); k = dict((x, enc(y)) for x, y in case['kw'])
    w = mk()
    chain = chain_of(w)
    st, r = outcome(w, *a, **k)
    stf, rf = outcome(f, *a, **k)
    try:
        spec_ok = not (getargspec(w) != inspect.getfullargspec(f) and dict(getargspec(w)) != inspect.getfullargspec(f)._asdict())
    except Exception:
        spec_ok = False
    again_outer = chain_of(DD(decos[-1])(mk()))
    again_inner = chain_of(DD(decos[0])(mk()))
    try:
        same_object = bool(DD(decos[-1])(mk()) == mk())        # W(W(f)) == W(f) as the library compares wrappers
    except Exception:
        same_object = False
    obs = [chain, again_outer, again_inner, obs_of(st, r), obs_of(stf, rf), spec_ok]
    # ---- oracle
    viol = None
    want_chain = []
    for d in decos:
        want_chain = [TYPE_OF[d]] + [x for x in want_chain if x != TYPE_OF[d]]
    if chain != want_chain: viol = 'stack %r is built as %r, expected %r (no double wrapping)' % (decos, chain, want_chain)
    elif again_outer != chain: viol = 'wrapping %r again with %s gives %r, not %r' % (decos, decos[-1], again_outer, chain)
    elif again_inner != [TYPE_OF[decos[0]]] + [x for x in chain if x != TYPE_OF[decos[0]]]:
        viol = 'wrapping %r again with %s through the chain gives %r' % (decos, decos[0], again_inner)
    elif not spec_ok: viol = 'getargspec of the stack %r differs from that of %s' % (decos, sig_text(case))
    elif not same_object and not case.get('partial'): viol = 'W(W(f)) == W(f) is False for the stack %r re-wrapped with %s' % (decos, decos[-1])
    try:
        inspect.getcallargs(f_ref, *a, **k); valid = True
    except TypeError:
        valid = False
    declared = pnames(case) + [x for x, _ in case.get('ko', [])]          # getargs: positional names, then keyword-only names
    undeclared = [x for x in k if x not in declared]
    kws_finding = False
    if viol is None:
        k2 = k; claim = valid
        if 'kwargs_support' in decos and undeclared:
            if not case['vk']:
                k2 = {x: y for x, y in k.items() if x in declared}        # ignores exactly the undeclared keywords
                try:
                    inspect.getcallargs(f_ref, *a, **k2); claim = True
                except TypeError:
                    claim = False
        a_f, k2_f = a, k2
        if 'pd2np' in decos:                 # with a pandas FIRST argument pd2np hands f numpy values, except for the keywords excluded at construction
            first = case['args'][0] if case['args'] else dict(case['kw']).get(declared[0] if declared else None)
            if first is not None and 50 <= first < 60:
                conv = lambda v: v.values if hasattr(v, 'values') and type(v).__module__.startswith('pandas') else v
                a_f = tuple(conv(v) for v in a); k2_f = {x: (y if x in case.get('exc', []) else conv(y)) for x, y in k2.items()}
        if claim:
            st0, r0 = outcome(f, *a_f, **k2_f)
            eff = []                                                       # the stack after double wrapping is removed, innermost first
            for d in decos: eff = [x for x in eff if x != d] + [d]
            tries = [d for d in eff if d in ('try_none', 'try_back')]
            if st0 == 'ok':
                want = ('ok', r0)
            elif tries:                                                    # the innermost try_* supplies its fallback
                if tries[0] == 'try_none': want = ('ok', FALLBACK[variant['try_none']])
                elif a: want = ('ok', a[0])
                elif declared and declared[0] in k: want = ('ok', k[declared[0]])
                else: want = None
            else:
                want = (st0, None)
            if want is not None and (st, obs_of(st, r)) != (want[0], obs_of(*want)):
                if 'kwargs_support' in decos and undeclared and case['vk'] and st == 'ok' and r == outcome(f, *a_f, **{x: y for x, y in k2_f.items() if x in declared})[1]:
                    viol = 'kwargs_support dropped the undeclared keyword(s) %r although %s declares **kw: stack %r returned %r, f returns %r' % (undeclared, sig_text(case), decos, r, r0)
                    kws_finding = True
                else:
                    viol = 'stack %r on %s called with *%r **%r%s gave %r, expected %r' % (decos, sig_text(case), a, k, ' (f raises)' if case['raises'] else '', obs_of(st, r), obs_of(*want))
    return {'status': st, 'obs': obs, 'viol': viol, 'valid': valid, 'kws_finding': kws_finding}

# arguments that stay unhashable after _prehash: numpy arrays (same bytes, different shapes / dtypes), a Series, a set
def unh(i):
    import numpy as np, pandas as pd
    return [lambda: np.zeros(4), lambda: np.zeros((2, 2)), lambda: np.arange(6.).reshape(2, 3), lambda: np.arange(6.).reshape(3, 2), lambda: np.arange(6.),
            lambda: pd.Series([0., 0., 0., 0.]), lambda: {1, 2}, lambda: np.zeros(4, dtype = 'int32'), lambda: np.zeros(2), lambda: np.zeros((4, 1)),
            lambda: np.arange(6.).reshape(1, 6), lambda: {2, 3}][i]()
N_UNH = 12
def same_arg(x, y):
    """equality of two arguments as passed, also for arrays / Series / sets"""
    import numpy as np, pandas as pd
    if isinstance(x, np.ndarray) or isinstance(y, np.ndarray):
        return isinstance(x, np.ndarray) and isinstance(y, np.ndarray) and x.dtype == y.dtype and x.shape == y.shape and bool(np.array_equal(x, y))
    if isinstance(x, pd.Series) or isinstance(y, pd.Series):
        return isinstance(x, pd.Series) and isinstance(y, pd.Series) and x.equals(y)
    if isinstance(x, (list, tuple)) and type(x) is type(y): return len(x) == len(y) and all(same_arg(a, b) for a, b in zip(x, y))
    if isinstance(x, dict) and isinstance(y, dict): return set(x) == set(y) and all(same_arg(x[k], y[k]) for k in x)
    return x == y
def has_unh(e):
    if isinstance(e, dict):
        if 'u' in e: return True
        for key in ('t', 'l'):
            if key in e: return any(has_unh(x) for x in e[key])
        if 'd' in e: return any(has_unh(v) for _, v in e['d'])
    return False

def dec(e):
    if isinstance(e, dict):
        if 'u' in e: return unh(e['u'])
        if 'f' in e: return float(e['f'])
        if 'b' in e: return bool(e['b'])
        if 'nan' in e: return float('nan')
        if 't' in e: return tuple(dec(x) for x in e['t'])
        if 'l' in e: return [dec(x) for x in e['l']]
        if 'd' in e: return {k: dec(v) for k, v in e['d']}
    return e
def canon_av(x):
    if x is None or isinstance(x, str): return x
    if isinstance(x, bool): return ['b', int(x)]
    if isinstance(x, int): return x
    if isinstance(x, float): return 'NaN' if x != x else ['f', int(x)]
    if isinstance(x, tuple): return ['t'] + [canon_av(y) for y in x]
    if isinstance(x, list): return ['l'] + [canon_av(y) for y in x]
    if isinstance(x, dict): return ['d'] + [[k, canon_av(v)] for k, v in x.items()]
    for i in range(N_UNH):
        if type(unh(i)) is type(x) and same_arg(unh(i), x): return ['u', i]
    raise TypeError(x)

def impl_cache(case):
    evaluated = []
    pool = ret_pool(case)
    def g(*args, **kw):
        evaluated.append([[canon_av(x) for x in args], [[k, canon_av(v)] for k, v in kw.items()]])
        n = len(evaluated) - 1
        return dec(pool[n]) if n < len(pool) else None
    w = D['cache'](g)
    rets = []; viol = None; status = 'ok'
    seen = []            # (args, kw, first return, index, evaluations) per distinct combination as passed
    any_uh = False
    for i, c in enumerate(case['calls']):
        a = tuple(dec(x) for x in c['args']); k = {x: dec(y) for x, y in c['kw']}
        before = len(evaluated)
        try:
            r = w(*a, **k)
        except Exception as e:
            status = err_name(e); rets.append(None); viol = viol or 'cached call %d raised %s' % (i, status); continue
        rets.append(canon_av(r))
        a0 = tuple(dec(x) for x in c['args']); k0 = {x: dec(y) for x, y in c['kw']}
        hit = [s for s in seen if same_arg(s[0], a0) and same_arg(s[1], k0)]
        if hit: hit[0][4] += len(evaluated) - before
        uh = any(has_unh(x) for x in c['args']) or any(has_unh(v) for _, v in c['kw'])
        any_uh = any_uh or uh
        if viol is None:
            if hit and uh:
                pass          # arguments that cannot be hashed are deliberately not cached (ASSUMPTIONS): a repeat may be evaluated again
            elif hit:
                if len(evaluated) != before:
                    viol = 'call %d repeats the combination of call %d (which returned %r) but the function was evaluated again: %d evaluations for one combination' % (i, hit[0][3], hit[0][2], hit[0][4])
                elif not (r is hit[0][2] or canon_av(r) == canon_av(hit[0][2])):
                    viol = 'call %d repeats the combination of call %d but returned %r, not the first result %r' % (i, hit[0][3], r, hit[0][2])
            elif len(evaluated) != before + 1:
                j = [s for s in seen if canon_av(s[2]) == canon_av(r)]
                viol = 'call %d %r %r is a new combination of arguments but the function was evaluated %d times: the result %r of call %s was returned' % (i, a0, k0, len(evaluated) - before, r, j[0][3] if j else '?')
        if not hit: seen.append([a0, k0, r, i, len(evaluated) - before])
    if viol is None and not any_uh and len(evaluated) != len(seen):
        viol = '%d evaluations for %d distinct combinations of arguments' % (len(evaluated), len(seen))
    return {'status': status, 'obs': [rets, evaluated], 'viol': viol}

def impl_seq(case):
    """getcallargs / calls repeated on ONE wrapper object: every step must agree with inspect.getcallargs / f, whatever came before;
    the wrapper's reported specification is checked again afterwards"""
    _KINDS[0] = False
    f = make_f(case)
    w = f
    for d in case['decos']: w = D[d](w)
    obs = []; viol = None; status = 'ok'
    for i, stp in enumerate(case['steps']):
        a = tuple(stp['args']); k = dict((x, y) for x, y in stp['kw'])
        try:
            exp = inspect.getcallargs(f, *a, **k); valid = True
        except TypeError:
            exp = None; valid = False
        if stp['via'] == 'call':
            st, r = outcome(w, *a, **k); obs.append(obs_of(st, r))
            if viol is None and valid and (st != 'ok' or r != f(*a, **k)):
                viol = 'step %d: the wrapper called with *%r **%r gave %r, f gives %r (%s, after %d earlier steps on the same wrapper)' % (i, a, k, obs_of(st, r), f(*a, **k), sig_text(case), i)
        else:
            st, got = outcome(getcallargs, w, *a, **k)
            lib = canon_binding(got) if st == 'ok' else ['ERR', st]
            if st == 'ok':
                st2, rt = outcome(call_with_callargs, w, got); rto = obs_of(st2, rt)
            else:
                st2, rt, rto = st, None, ['ERR', st]
            obs.append([canon_binding(exp) if valid else ['ERR', 'TypeError'], lib, rto])
            if viol is None and valid:
                if st != 'ok' or got != exp:
                    viol = 'step %d: getcallargs(wrapper of %s, *%r, **%r) = %r, inspect.getcallargs(f, ...) gives %r (after %d earlier steps on the same wrapper)' % (i, sig_text(case), a, k, got if st == 'ok' else st, exp, i)
                elif st2 != 'ok' or rt != f(*a, **k):
                    viol = 'step %d: call_with_callargs(wrapper, getcallargs(...)) gave %r, f gives %r' % (i, rto, f(*a, **k))
        if st != 'ok': status = st
    try:
        spec_ok = not (getargspec(w) != inspect.getfullargspec(f) and dict(getargspec(w)) != inspect.getfullargspec(f)._asdict())
    except Exception:
        spec_ok = False
    obs.append(spec_ok)
    if viol is None and not spec_ok: viol = 'after the calls the wrapper reports %r, f has %r' % (dict(getargspec(w)), inspect.getfullargspec(f)._asdict())
    return {'status': status, 'obs': obs, 'viol': viol}

class CustomList(list):
    pass

def impl_tryhist(case):
    """try_value(value = <mutable>) over a history: f raises on the marked steps; the caller mutates every fallback it gets"""
    import copy as _copy
    from pyg_base._decorators import try_value
    from pyg_base import try_list
    v = dec(case['value'])
    if case.get('custom'): v = CustomList(v)
    pristine = _copy.deepcopy(v)
    def f(i, fail):
        if fail: raise ValueError('step %d' % i)
        return i
    w = try_list(f) if case.get('via') == 'try_list' else try_value(value=v)(f)
    obs = []; viol = None; status = 'ok'; handed = []
    for i, fail in enumerate(case['steps']):
        try:
            r = w(i, fail)
        except Exception as e:
            status = err_name(e); obs.append(['ERR', status]); viol = viol or 'try_value raised %s at step %d' % (status, i); continue
        obs.append(canon_av(list(r)) if isinstance(r, CustomList) else canon_av(r))
        if not fail:
            if viol is None and r != i: viol = 'step %d returned %r, f returned %r' % (i, r, i)
            continue
        if viol is None:
            if type(r) is not type(pristine) or r != pristine:
                viol = 'failure %d (step %d) returned %r, the fallback is %r (earlier fallbacks were mutated by the caller)' % (len(handed) + 1, i, r, pristine)
            elif any(r is h for h in handed):
                viol = 'failure %d (step %d) returned the same object as an earlier failure' % (len(handed) + 1, i)
        handed.append(r)
        if isinstance(r, list): r.append(99)           # the caller uses what it was given
        elif isinstance(r, dict): r['zz'] = 99
    return {'status': status, 'obs': obs, 'viol': viol}

def impl(case):
    return {'bind': impl_bind, 'stack': impl_stack, 'cache': impl_cache, 'tryhist': impl_tryhist, 'seq': impl_seq}[case['kind']](case)

# ------------------------------------------------------------------ classification
def nontrivial(case, result):
    k = case['kind']
    if k == 'bind': return bool(result.get('valid')) and (len(case['kw']) > 0 or len(case['args']) < case['npos'])
    if k == 'stack': return len(case['decos']) > 1 or case['raises']
    if k == 'tryhist': return sum(case['steps']) >= 2
    if k == 'seq': return len(case['steps']) >= 2
    keys = [json.dumps(c, sort_keys=True) for c in case['calls']]
    return len(set(keys)) < len(keys)
def shape(case):
    k = case['kind']
    if k == 'bind': return 'bind:n%d:d%d:%s%s' % (case['npos'], case['ndef'], 'v' if case['va'] else '', 'k' if case['vk'] else '')
    if k == 'stack': return 'stack:%d%s' % (len(case['decos']), ':raises' if case['raises'] else '')
    if k == 'tryhist': return 'tryhist:%d' % sum(case['steps'])
    if k == 'seq': return 'seq:%d' % len(case['steps'])
    if k == 'bind' and case.get('ko'): return 'bind:kwonly'
    return 'cache:%d' % len(case['calls'])

# ------------------------------------------------------------------ generation
def all_sigs():
    for n in range(0, 5):
        for nd in range(0, n + 1):
            for va in (False, True):
                for vk in (False, True):
                    yield {'npos': n, 'ndef': nd, 'va': va, 'vk': vk}
def all_calls(sig):
    n = sig['npos']
    for kpos in range(0, n + 3):
        for r in range(0, n + 2):
            for kwn in itertools.combinations(NAMES[:n] + [UNDECL], r):
                yield {'args': list(range(1, kpos + 1)), 'kw': [[x, 10 + i] for i, x in enumerate(kwn)]}
SPECIAL = [('args',), ('kw',), ('kwargs',), ('self',), ('args', 'kw'), ('kw', 'zz'), ('args', 'kwargs', 'self')]
def special_calls(sig):
    """keywords spelled like the *args / **kw parameters (and other reserved-looking names): they belong in the **kw dict"""
    n = sig['npos']
    for kpos in range(0, n + 2):
        for declared in {(), tuple(NAMES[min(kpos, n):n]), tuple(NAMES[min(kpos, n):n][-1:])}:
            for sp in SPECIAL:
                names = list(declared) + list(sp)
                yield {'args': list(range(1, kpos + 1)), 'kw': [[x, 10 + i] for i, x in enumerate(names)]}
def is_valid(sig, call):
    n, nd = sig['npos'], sig['ndef']
    a, k = call['args'], [x for x, _ in call['kw']]
    if len(a) > n and not sig['va']: return False
    if any(x in NAMES[:min(len(a), n)] for x in k): return False
    if not sig['vk'] and any(x not in NAMES[:n] for x in k): return False
    return all(i < len(a) or NAMES[i] in k or i >= n - nd for i in range(n))

# ---- keyword-only parameters (after *args or a bare star), with and without defaults
KO_VARIANTS = [[['k', 7]], [['k', None]], [['k', 7], ['m', None]], [['m', None], ['k', 8]], [['k', 7], ['m', 9]]]
INCLUDE_KWONLY_DEVIATIONS = False      # classes on which unchanged /repo already deviates from inspect (reported as candidate findings)
def ko_sigs():
    for n in (0, 1, 2):
        for nd in range(0, n + 1):
            for va in (False, True):
                for vk in (False, True):
                    for ko in KO_VARIANTS:
                        yield {'npos': n, 'ndef': nd, 'va': va, 'vk': vk, 'ko': ko}
def ko_calls(sig):
    n = sig['npos']; kn = [x for x, _ in sig['ko']]
    for kpos in range(0, n + (3 if sig['va'] else 2)):
        for r in range(0, n + 1):
            for kwn in itertools.combinations(NAMES[:n], r):
                for m in range(0, 1 << len(kn)):
                    passed = [kn[i] for i in range(len(kn)) if m >> i & 1]
                    for extra in ([], [UNDECL]):
                        names = list(kwn) + passed + extra
                        yield {'args': list(range(1, kpos + 1)), 'kw': [[x, 10 + i if x in NAMES else 30 + i] for i, x in enumerate(names)]}
def is_valid_k(sig, call):
    kn = [x for x, _ in sig['ko']]
    rest = dict(call, kw=[kv for kv in call['kw'] if kv[0] not in kn])
    passed = [x for x, _ in call['kw']]
    return is_valid(sig, rest) and all(dv is not None or x in passed for x, dv in sig['ko'])
def ko_deviates(sig, call, what):
    """classes where unchanged /repo deviates from inspect on keyword-only parameters (candidate findings, not generated by default)"""
    kn = [x for x, _ in sig['ko']]; passed = [x for x, _ in call['kw'] if x in kn]
    if what == 'bind':      # getcallargs puts a keyword-only keyword into the **kw dict; call_with_callargs never passes keyword-only values on
        return bool(passed) or any(dv is None for _, dv in sig['ko'])
    if what == 'loop':      # loops re-passes its first getargs name positionally: with no positional parameter that is a keyword-only one
        return sig['npos'] == 0 and kn[0] in passed and not call['args']
    return False

AV_POOL = [1, {'f': 1}, {'b': 1}, 2, None, 'a', {'t': [1]}, {'l': [1]}, {'t': []}, {'l': []}, {'d': []}, {'d': [['x', 1]]}, {'t': [{'t': ['x', 1]}]},
           {'l': [{'t': ['x', 1]}]}, {'d': [['x', {'l': [1]}]]}, {'d': [['x', {'t': [1]}]]}, {'l': [{'l': [1]}]}, {'t': [{'l': [1]}]}, {'l': [{'t': [1]}]},
           {'t': [1, 2]}, {'l': [1, 2]}, {'l': [{'f': 1}]}, {'d': [['x', 1], ['y', 2]]}, {'d': [['y', 2], ['x', 1]]}, 0, {'b': 0}, '',
           -1, -2, 2 ** 61 - 1, {'t': [-1]}, {'t': [-2]}]

RET_POOL = [None, 0, '', {'l': []}, {'b': 0}, {'nan': 1}, {'t': []}, {'d': []}, {'f': 0}, 1, 'x', {'l': [None]}]

def gen_cases(rng, tier):
    quick = tier == 'quick'
    cases = []
    valid = []
    for sig in all_sigs():
        for call in all_calls(sig):
            v = is_valid(sig, call)
            if v: valid.append((sig, call))
            if v or not quick or rng.random() < 0.35:
                cases.append(dict(kind='bind', **sig, **call))
    # parameters NAMED like the wrappers' own arguments: loops pops a keyword axis, wrapper.__call__ owns self, getcallargs owns function
    for nm in RESERVED:
        for nd in (0, 1):
            for va, vk in ((False, False), (True, True), (False, True)):
                sig = {'npos': 2, 'ndef': nd, 'va': va, 'vk': vk, 'pnames': ['a', nm]}
                calls = [{'args': [1], 'kw': [[nm, 7]]}, {'args': [], 'kw': [['a', 10], [nm, 7]]}, {'args': [1, 7], 'kw': []}] + ([{'args': [1], 'kw': []}] if nd else [])
                for call in calls:
                    cases.append(dict(kind='bind', **sig, **call))
                    for d in DECOS:
                        cases.append(dict(kind='stack', decos=[d], raises=False, **sig, **call))
                    cases.append(dict(kind='stack', decos=['loop', 'try_none'], raises=False, **sig, **call))
                    cases.append(dict(kind='stack', decos=['kwargs_support', 'cache', 'loop'], raises=False, **sig, **call))
    # pd2np built with exc = ...: non-pandas and pandas first arguments; the excluded parameter by keyword, by position, absent
    for sig in ({'npos': 3, 'ndef': 2, 'va': False, 'vk': False}, {'npos': 3, 'ndef': 1, 'va': False, 'vk': True}, {'npos': 2, 'ndef': 1, 'va': True, 'vk': True},
                {'npos': 3, 'ndef': 3, 'va': False, 'vk': False}):
        names = NAMES[:sig['npos']]
        for exc, form in ((['b'], 'str'), (['b'], 'list'), (['b', 'c'], 'list'), (['c', 'zz'], 'tuple'), (['a'], 'str'), ([], 'none'), (['nope'], 'list')):
            for first in (1, 50, 52):
                for others in ((7, 8), (51, 8), (51, 50)):
                    vals = dict(zip(names, (first,) + others))
                    for kpos in range(0, sig['npos'] + 1):
                        for drop in ((), names[-1:], names[1:]):
                            kwn = [x for x in names[kpos:] if x not in drop]
                            call = {'args': [vals[x] for x in names[:kpos]], 'kw': [[x, vals[x]] for x in kwn]}
                            if sig['vk'] and rng.random() < 0.3: call['kw'].insert(0, ['zz', 51])
                            if not is_valid(sig, call) or rng.random() < (0.75 if quick else 0.0): continue
                            decos, raises = rng.choice(((['pd2np'], False), (['pd2np'], False), (['pd2np', 'try_none'], True), (['kwargs_support', 'pd2np'], False), (['pd2np', 'cache'], False)))
                            cases.append(dict(kind='stack', decos=decos, raises=raises, exc=exc, excform=form, **sig, **call))
    # try_back: f raises and every argument is passed by keyword in a permuted order (extra keywords first for **kw functions):
    # the fallback is the value bound to the FIRST parameter, not the first keyword
    for n in (1, 2, 3):
        for nd in range(0, n + 1):
            for vk in (False, True):
                sig = {'npos': n, 'ndef': nd, 'va': rng.random() < 0.3, 'vk': vk}
                for kpos in range(0, n):
                    rest = NAMES[kpos:n] + ([UNDECL] if vk else [])
                    for order in itertools.permutations(rest):
                        if order == tuple(rest) and kpos == 0 and not vk and n > 1: pass
                        if quick and len(rest) > 3 and rng.random() < 0.5: continue
                        call = {'args': list(range(1, kpos + 1)), 'kw': [[x, 20 + NAMES.index(x) if x in NAMES else 29] for x in order]}
                        decos = rng.choice((['try_back'], ['try_back'], ['try_back', 'try_none'], ['kwargs_support', 'try_back'], ['try_back', 'cache'], ['try_back', 'loop']))
                        cases.append(dict(kind='stack', decos=decos, raises=True, **sig, **call))
    # keyword-only parameters: getcallargs vs inspect, every wrapper, and sequences on one wrapper object
    ko_valid = []
    for sig in ko_sigs():
        for call in ko_calls(sig):
            v = is_valid_k(sig, call)
            if v: ko_valid.append((sig, call))
            if (v or rng.random() < 0.05) and (INCLUDE_KWONLY_DEVIATIONS or not ko_deviates(sig, call, 'bind')) and rng.random() < (0.5 if quick else 1.0):
                cases.append(dict(kind='bind', **sig, **call))
    for sig, call in (rng.sample(ko_valid, 900) if quick else ko_valid):
        d = rng.choice(DECOS)
        if d == 'loop' and ko_deviates(sig, call, 'loop') and not INCLUDE_KWONLY_DEVIATIONS: d = 'cache'
        decos = [d] if rng.random() < 0.8 else [d, rng.choice(['try_none', 'kwargs_support', 'cache'])]
        case = dict(kind='stack', decos=decos, raises=rng.random() < 0.1, **sig, **call)
        r = rng.random()
        if r < 0.35 and all(dv is not None for _, dv in sig['ko']): case['partial'] = True       # spelled as functools.partial(g, k = 7, ...)
        elif r < 0.5: case['ann'] = True
        if rng.random() < 0.2: case['kinds'] = True
        cases.append(case)
    by_sig = {}
    for sig, call in ko_valid:
        if not ko_deviates(sig, call, 'bind') or INCLUDE_KWONLY_DEVIATIONS: by_sig.setdefault(json.dumps(sig, sort_keys=True), (sig, []))[1].append(call)
    for key in sorted(by_sig):
        sig, calls = by_sig[key]
        for _ in range(2 if quick else 10):
            decos = rng.choice((['try_none'], ['kwargs_support'], ['cache'], ['try_back'], ['kwargs_support', 'try_none'], ['pd2np'], []))
            if 'kwargs_support' in decos and sig['vk']: calls = [c for c in calls if not any(x == UNDECL for x, _ in c['kw'])] or calls[:1]     # (known finding class)
            steps = [dict(rng.choice(calls), via=rng.choice(['getcallargs', 'getcallargs', 'call'])) for _ in range(rng.choice([2, 3, 5]))]
            cases.append(dict(kind='seq', decos=decos, steps=steps, **sig))
    # the plain signatures too: sequences on one wrapper
    for _ in range(60 if quick else 1000):
        sig, _c = rng.choice(valid)
        calls = [c for s2, c in valid if s2 == sig]
        decos = rng.choice((['try_none'], ['kwargs_support'], ['cache'], ['loop'], ['kwargs_support', 'cache']))
        if 'kwargs_support' in decos and sig['vk']: calls = [c for c in calls if not any(x == UNDECL for x, _ in c['kw'])] or calls[:1]
        cases.append(dict(kind='seq', decos=decos, steps=[dict(rng.choice(calls), via=rng.choice(['getcallargs', 'call'])) for _ in range(rng.choice([2, 4]))], **sig))
    special_valid = []
    for sig in all_sigs():
        for call in special_calls(sig):
            v = is_valid(sig, call)
            if v and not any(x == 'self' for x, _ in call['kw']): special_valid.append((sig, call))
            if v or sig['vk'] or not quick or rng.random() < 0.3:
                cases.append(dict(kind='bind', **sig, **call))
    for sig, call in (rng.sample(special_valid, min(len(special_valid), 250)) if quick else special_valid):
        cases.append(dict(kind='stack', decos=[rng.choice(DECOS)], raises=False, **sig, **call))
    # single decorators on every valid call; the raising variant on a sample
    def vary(case):
        """other variants of the same wrapper types, and argument values of other kinds (None, str, float, tuple, dict, bool, inf, bytes, frozenset)"""
        if 'try_none' in case['decos'] and rng.random() < 0.4: case['tryv'] = rng.choice(list(FALLBACK))
        if 'loop' in case['decos'] and rng.random() < 0.4: case['loopv'] = rng.choice(LOOPV)
        if rng.random() < 0.3: case['kinds'] = True
        if rng.random() < 0.15: case['ann'] = True          # the same function with annotations (parameters, *args, **kw, return)
        return case
    for d in DECOS:
        for sig, call in valid:
            cases.append(vary(dict(kind='stack', decos=[d], raises=False, **sig, **call)))
            if rng.random() < (0.1 if quick else 0.5):
                cases.append(vary(dict(kind='stack', decos=[d], raises=True, **sig, **call)))
    # every stack of 2 and 3 decorators on sampled calls (valid ones, and ones with an undeclared keyword)
    with_undecl = [(s, c) for s, c in valid if any(x == UNDECL for x, _ in c['kw'])]
    kws_ok = []
    for sig in all_sigs():
        if not sig['vk']:
            for call in all_calls(sig):
                if any(x == UNDECL for x, _ in call['kw']) and is_valid(sig, dict(call, kw=[kv for kv in call['kw'] if kv[0] != UNDECL])):
                    kws_ok.append((sig, call))
    for ln in (2, 3):
        for decos in itertools.product(DECOS, repeat=ln):
            m = (3 if ln == 2 else 2) if quick else 12
            for _ in range(m):
                r = rng.random()
                sig, call = rng.choice(valid if r < 0.6 else with_undecl if r < 0.75 else kws_ok if 'kwargs_support' in decos else valid)
                cases.append(vary(dict(kind='stack', decos=list(decos), raises=rng.random() < 0.35, **sig, **call)))
    # cache histories
    for _ in range(400 if quick else 6000):
        n = rng.choice([2, 3, 4, 6, 8])
        pool = rng.sample(AV_POOL, rng.choice([2, 3, 4]))
        calls = []
        for _ in range(n):
            if calls and rng.random() < 0.3:
                c = json.loads(json.dumps(rng.choice(calls)))
                if len(c['kw']) > 1 and rng.random() < 0.5: c['kw'].reverse()
            else:
                c = {'args': [rng.choice(pool) for _ in range(rng.choice([0, 1, 1, 2]))],
                     'kw': [[x, rng.choice(pool)] for x in rng.sample(['k', 'b', 'z'], rng.choice([0, 0, 1, 2]))]}
            calls.append(c)
        case = {'kind': 'cache', 'calls': calls}
        if rng.random() < 0.7:          # what the evaluations return: falsy / None / NaN values must be cached like any other
            case['rets'] = [rng.choice(RET_POOL) for _ in calls]
        cases.append(case)
    for _ in range(3 if quick else 20):     # long histories: 150-400 calls over few distinct combinations
        m = rng.choice([150, 250, 400]) if not quick else 150
        calls = [{'args': [rng.randrange(12)] + ([{'l': [rng.randrange(3)]}] if rng.random() < 0.3 else []),
                  'kw': ([['k', rng.choice([1, {'f': 1}, None, {'t': [1]}, {'l': [1]}])]] if rng.random() < 0.3 else [])} for _ in range(m)]
        cases.append({'kind': 'cache', 'calls': calls})
    # arguments whose CPython hashes coincide (hash(-1) == hash(-2), hash(0) == hash(2**61 - 1), hash(1) == hash(2**61)) are distinct combinations
    M61 = 2 ** 61 - 1
    for x, y in ((-1, -2), (0, M61), (1, 2 ** 61), (-M61 - 1, -1), (M61 + 3, 3)):
        for wrap in (lambda v: {'args': [v], 'kw': []}, lambda v: {'args': [3, v], 'kw': []}, lambda v: {'args': [{'t': [v]}], 'kw': []},
                     lambda v: {'args': [{'t': [3, v]}], 'kw': []}, lambda v: {'args': [{'l': [v, 3]}], 'kw': []}, lambda v: {'args': [], 'kw': [['k', v]]},
                     lambda v: {'args': [1], 'kw': [['k', {'t': [v]}]]}, lambda v: {'args': [{'d': [['x', v]]}], 'kw': []}):
            cases.append({'kind': 'cache', 'calls': [wrap(x), wrap(y), wrap(x), wrap(y)]})
            cases.append({'kind': 'cache', 'calls': [wrap(y), wrap(x)]})
    # arguments that cannot be hashed: same bytes, different shape / dtype / kind; they must never be served a stale result
    U = lambda i: {'u': i}
    for x, y in ((0, 1), (1, 0), (2, 3), (2, 4), (4, 10), (3, 2), (0, 9), (0, 5), (6, 11), (7, 8), (0, 7), (0, 0), (2, 2)):
        for wrap in (lambda v: {'args': [v], 'kw': []}, lambda v: {'args': [1, v], 'kw': []}, lambda v: {'args': [], 'kw': [['k', v]]},
                     lambda v: {'args': [{'l': [v]}], 'kw': []}, lambda v: {'args': [{'d': [['x', v]]}], 'kw': []}):
            cases.append({'kind': 'cache', 'calls': [wrap(U(x)), wrap(U(y)), wrap(U(x))]})
    for _ in range(40 if quick else 600):
        pool = [U(rng.randrange(N_UNH)) for _ in range(2)] + rng.sample(AV_POOL, 2)
        cases.append({'kind': 'cache', 'calls': [{'args': [rng.choice(pool) for _ in range(rng.choice([1, 1, 2]))], 'kw': ([['k', rng.choice(pool)]] if rng.random() < 0.3 else [])} for _ in range(rng.choice([3, 5]))]})
    for r0 in RET_POOL:                 # f returns r0 once, the same call repeated three times
        for c0 in ({'args': [], 'kw': []}, {'args': [1], 'kw': []}, {'args': [{'l': [1]}], 'kw': [['k', None]]}):
            cases.append({'kind': 'cache', 'calls': [c0, c0, c0], 'rets': [r0, 5, 6]})
    # try_* with a mutable fallback over a history in which the caller mutates what it is given
    for value, extra in (({'l': []}, {}), ({'l': []}, {'via': 'try_list'}), ({'d': []}, {}), ({'l': [1, 2]}, {}), ({'d': [['x', 1]]}, {}),
                         ({'l': []}, {'custom': 1}), ({'l': [5]}, {'custom': 1})):
        for steps in ([1, 1], [1, 1, 1], [1, 0, 1], [0, 1, 1, 0, 1], [1, 1, 0, 1, 1, 1]):
            cases.append(dict({'kind': 'tryhist', 'value': value, 'steps': steps}, **extra))
        for _ in range(2 if quick else 20):
            cases.append(dict({'kind': 'tryhist', 'value': value, 'steps': [int(rng.random() < 0.6) for _ in range(rng.choice([2, 4, 7]))]}, **extra))
    for x, y in itertools.permutations(AV_POOL[:19], 2):      # every ordered pair of the small pool as a two-call history
        cases.append({'kind': 'cache', 'calls': [{'args': [x], 'kw': []}, {'args': [y], 'kw': []}]})
    return cases

def shrink(case):
    k = case['kind']
    if k == 'seq':
        st = case['steps']
        for i in range(len(st)):
            if len(st) > 1: yield dict(case, steps=st[:i] + st[i + 1:])
        return
    if k == 'cache':
        cs = case['calls']
        for i in range(len(cs)):
            if len(cs) > 1: yield dict(case, calls=cs[:i] + cs[i + 1:])
        for i, c in enumerate(cs):
            for j in range(len(c['kw'])):
                yield dict(case, calls=cs[:i] + [dict(c, kw=c['kw'][:j] + c['kw'][j + 1:])] + cs[i + 1:])
            for j in range(len(c['args'])):
                yield dict(case, calls=cs[:i] + [dict(c, args=c['args'][:j] + c['args'][j + 1:])] + cs[i + 1:])
    elif k == 'stack':
        d = case['decos']
        for i in range(len(d)):
            if len(d) > 1: yield dict(case, decos=d[:i] + d[i + 1:])
        for j in range(len(case['kw'])):
            yield dict(case, kw=case['kw'][:j] + case['kw'][j + 1:])
