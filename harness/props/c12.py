"""C12 — df_fillna / nona fill or drop exactly the missing cells, arrays and pandas alike."""
import datetime, itertools, math

ID = 'C12'
TRANSLATOR = []
COQ_EXEC = ['exec.X_fill']
COQ_IMPORTS = 'From PB Require Import model.M_fill.\n'
COQ_PRELUDE = 'Definition run_fill_seq (l : list (nat * option nat * list meth * lframe * list form)) : J := JL (map run_fill l).\n'
PER_FILE = 500
CASE_TIMEOUT = 10
RULE = ('case = one rectangular float table (0-10 rows, 1-3 columns, distinct integer values, NaN pattern), an index kind '
        '(default RangeIndex or gapped dates), a method or method list and a limit; the SAME data is passed to df_fillna / nona as '
        'Series, DataFrame, 1-d and 2-d ndarray (cells: finite integer-valued floats, NaN, +inf and -inf: all-inf rows, inf+NaN rows, inf next to NaN runs) and each result (kind, index labels, every cell) plus the argument re-inspected '
        'after the call is compared inside Coq with M_fill.fill / nona_f. Single methods x limit {None,1,2,3} are exhaustive over all '
        'NaN patterns of length 0..6; method pairs / triples, multi-column frames (all-NaN rows and columns forced), lengths 7..10 '
        'and nona(value, edge) are sampled (pairs exhaustive to length 6 in the thorough tier). Oracle, from the property text: '
        'plain loops recompute which NaNs lie within `limit` of an observation, which rows are all-NaN / leading, the tail rule of '
        'ffill_na/ffill_0; lists must equal applying the real single methods one after another; ndarray result == pandas result '
        'values; argument unchanged; non-NaN cells unchanged. non-trivial = data with both NaN and non-NaN cells; distinct by full case. Every argument is an object owned by the caller: the method object of a case is built once, shared by all its calls (forms in a rotated order) and re-read after each call; stream S (500) applies ONE method list / tuple object to 2-4 different inputs in a row (half of them starting with nona / fnna), each result judged on its own. Kinds that must not matter are varied in the random streams: finite values (integers, half-integers, 0, negatives, 2^40; carried as 2v), constants as Python int / float and numpy scalars of every width (float16/32/64, int8/16/32/64), index = RangeIndex / dates 1698-2248 / intraday sub-second stamps / nanosecond stamps 250 ns apart / text labels, Series name, column labels (text, ints, duplicates, tuples), index name, positional vs keyword call, list / tuple / scalar method, dict / list of series, int64 and float32 data, 101-257 rows with limits up to 1000')
EXPLANATION = ('theorems C12_* (coq/props/C12.v) hold for vectors and frames of every length and NaN pattern, every method list and '
               'every limit: fill exactly within limit, constants, fold over method lists, nona / fnna / ffill_na / ffill_0, nona edge, '
               'columns of a frame behave as vectors, rows/labels/non-NaN cells preserved. pandas\' own ffill/bfill/fillna are modelled; '
               'the correspondence compares them and the whole dispatcher with the model on every generated case, in four input forms')
TRUSTED = ['modelled, not verified: pandas 3.0 ffill / bfill / fillna(value, limit) / boolean row selection / concat(axis=1) / '
           'last_valid_index and numpy isnan (compared with the model on every case of every run)',
           'harness/props/c12.py rendering of inputs and observations']
ASSUMPTIONS = ['cells are float64: NaN, +-inf or finite (generated integer-valued so that values are carried exactly); nona(value=inf) (np.isinf mask) is not exercised', 'limit is None or >= 1; axis = 0',
               'frames have at least one column; index labels strictly increasing (RangeIndex or dates)',
               'methods: ffill, bfill/backfill, a number, nona, fnna, ffill_na, ffill_0 (interpolation methods, a date as method and '
               "'pad' - which pandas 3 rejects - are outside the property)"]
EXHAUSTIVE = {'quick': False, 'thorough': False}

SINGLES = ['ffill', 'bfill', ['c', 0], 'nona', 'fnna', 'ffill_na', 'ffill_0']
LIMITS = [None, 1, 2, 3]
DAY0 = 737425   # 2020-01-01

# ------------------------------------------------------------------ Coq side
def coq_runner(case):
    return 'run_nona' if case['kind'] == 'nona' else 'run_fill_seq' if case['kind'] == 'seq' else 'run_fill'

def enc(c):
    """finite values are carried as twice their value, so that half-integers stay integers in the model"""
    e = 2 * c
    assert e == int(e), c
    return int(e)

def _cell(c):
    if c is None: return 'None'
    if c == 'inf': return 'Some PInf'
    if c == '-inf': return 'Some NInf'
    return 'Some (Fin (%d))' % enc(c)
def _lf(case):
    return '[' + '; '.join('((%d), [%s])' % (l, '; '.join(_cell(c) for c in r)) for l, r in zip(case['labels'], case['rows'])) + ']'
def forms_of(case):
    f = ['S', 'D', 'A1', 'A2'] if case['k'] == 1 else ['D', 'A2']
    r = case.get('rot', 0) % len(f)            # order in which the forms are called (the method object is shared by the calls of a case)
    return f[r:] + f[:r]
_METH = {'ffill': 'MFfill', 'bfill': 'MBfill', 'backfill': 'MBfill', 'nona': 'MNona', 'fnna': 'MFnna', 'ffill_na': 'MFfillNa', 'ffill_0': 'MFfill0'}
def _meth(m):
    return '(MConst (Fin (%d)))' % enc(m[1]) if isinstance(m, list) else _METH[m]
def coq_case(case):
    if case['kind'] == 'seq':
        return '[' + '; '.join(coq_case(c) for c in seq_items(case)) + ']'
    forms = '[' + '; '.join('F' + f for f in forms_of(case)) + ']'
    if case['kind'] == 'nona':
        e = {None: 'EAll', 1: 'ELatest', -1: 'EHistoric'}[case['edge']]
        return '(%d%%nat, %s, %s, %s, %s)' % (case['k'], '(%s : cell)' % _cell(case['value']), e, _lf(case), forms)
    lim = 'None' if case['limit'] is None else '(Some %d%%nat)' % case['limit']
    return '(%d%%nat, %s, [%s], %s, %s)' % (case['k'], lim, '; '.join(_meth(m) for m in case['methods']), _lf(case), forms)

# ------------------------------------------------------------------ implementation side
def impl_setup():
    global np, pd, df_fillna, nona
    import numpy as np, pandas as pd
    from pyg_base import df_fillna, nona

NS0 = 1577836800 * 10 ** 9 + 789                            # 2020-01-01 00:00:00.000000789 in ns; labels are 250 ns apart
HOUR0 = datetime.datetime(2020, 1, 1, 0, 0, 0, 250000)      # intraday index: whole hours from here (sub-second offset)
IDX = 'range'
def _index(case):
    i = None
    if case['idx'] == 'date':
        i = pd.DatetimeIndex([datetime.datetime.fromordinal(d) for d in case['labels']])
    elif case['idx'] == 'hour':
        i = pd.DatetimeIndex([HOUR0 + datetime.timedelta(hours=h) for h in case['labels']])
    elif case['idx'] == 'ns':      # nanosecond resolution, several rows inside one microsecond
        i = pd.DatetimeIndex([pd.Timestamp(NS0 + 250 * l) for l in case['labels']])
    elif case['idx'] == 'str':
        i = pd.Index(['r%05d' % l for l in case['labels']])
    if i is not None and case.get('iname'):
        i = i.rename(case['iname'])
    return i

def _nm(x):
    return tuple(x) if isinstance(x, list) else x        # JSON turns tuple names into lists

def build(case, form):
    k = case['k']; n = len(case['rows'])
    a = np.array([[np.nan if c is None else float(c) for c in r] for r in case['rows']], dtype=float).reshape(n, k)
    if case.get('dtype'):
        a = a.astype(case['dtype'])
    idx = _index(case)
    if form == 'S':
        return pd.Series(a[:, 0].copy(), index=idx, name=_nm(case.get('name')))
    if form == 'D':
        return pd.DataFrame(a.copy(), index=idx, columns=None if case.get('cols') is None else [_nm(c) for c in case['cols']])
    if form == 'A1':
        return a[:, 0].copy()
    return a.copy()

def canon_cell(v):
    v = float(v)
    if math.isnan(v):
        return 'NaN'
    if math.isinf(v):
        return 'inf' if v > 0 else '-inf'
    return int(2 * v) if 2 * v == int(2 * v) and abs(v) < 2 ** 51 else 'x' + v.hex()

def canon_label(l):
    if IDX == 'str':
        return int(l[1:])
    if IDX == 'ns':
        q, r = divmod(pd.Timestamp(l).value - NS0, 250)
        return q if r == 0 else 'offgrid:' + str(l)
    if IDX == 'hour':
        d = l - HOUR0
        q, r = divmod(d.days * 86400 * 10 ** 6 + d.seconds * 10 ** 6 + d.microseconds, 3600 * 10 ** 6)
        return q if r == 0 else 'offgrid:' + str(l)
    if hasattr(l, 'toordinal'):
        if (l.hour, l.minute, l.second, l.microsecond) != (0, 0, 0, 0):
            return 'intraday:' + str(l)
        return l.toordinal()
    return int(l)

def ncols(x):
    return int(x.shape[1]) if getattr(x, 'ndim', 1) == 2 else 1

def observe(x):
    """(kind, labels or None, rows) of a Series / DataFrame / ndarray"""
    if isinstance(x, pd.Series):
        return ['S', [canon_label(l) for l in x.index], [[canon_cell(v)] for v in x.values]]
    if isinstance(x, pd.DataFrame):
        return ['D', [canon_label(l) for l in x.index], [[canon_cell(v) for v in r] for r in x.values]]
    if isinstance(x, np.ndarray) and x.ndim == 1:
        return ['A1', None, [[canon_cell(v)] for v in x]]
    if isinstance(x, np.ndarray) and x.ndim == 2:
        return ['A2', None, [[canon_cell(v) for v in r] for r in x]]
    return ['?' + type(x).__name__, None, []]

CFORM = 'int'
def py_method(m):
    if not isinstance(m, list):
        return m
    c = m[1]
    if CFORM == 'float': return float(c)
    if CFORM == 'np': return np.float64(c)
    if CFORM in ('f16', 'f32'): return {'f16': np.float16, 'f32': np.float32}[CFORM](c)      # 0, 7, -3, 0.5, -1.5 are exact in every width
    if CFORM in ('i8', 'i16', 'i32', 'i64') and c == int(c):
        return {'i8': np.int8, 'i16': np.int16, 'i32': np.int32, 'i64': np.int64}[CFORM](int(c))
    return int(c) if c == int(c) else float(c)
def py_methods(case):
    ms = [py_method(m) for m in case['methods']]
    if case.get('mlist') == 'tuple':
        return tuple(ms)
    return ms[0] if (len(ms) == 1 and not case.get('mlist')) else ms

POSITIONAL = False
def call_fill(x, method, limit):
    if POSITIONAL:
        return df_fillna(x, method, 0, limit)
    return df_fillna(x, method, limit=limit)

# ---- the property clauses, as plain loops over python lists (cells: int or 'NaN')
def o_ffill(col, limit):
    out = []
    for i, v in enumerate(col):
        if v != 'NaN':
            out.append(v); continue
        j = i - 1
        while j >= 0 and col[j] == 'NaN':
            j -= 1
        out.append(col[j] if j >= 0 and (limit is None or i - j <= limit) else 'NaN')
    return out
def o_bfill(col, limit):
    out = []
    for i, v in enumerate(col):
        if v != 'NaN':
            out.append(v); continue
        j = i + 1
        while j < len(col) and col[j] == 'NaN':
            j += 1
        out.append(col[j] if j < len(col) and (limit is None or j - i <= limit) else 'NaN')
    return out
def o_tail(col, limit, inv):
    valid = [i for i, v in enumerate(col) if v != 'NaN']
    if not valid:
        return list(col)
    f = o_ffill(col, limit)
    return [f[i] if i <= valid[-1] else inv for i in range(len(col))]
def cols_of(rows, k):
    return [[r[j] for r in rows] for j in range(k)]
def rows_of(cols, n):
    return [[c[i] for c in cols] for i in range(n)]

def expected_single(m, limit, labels, rows, k):
    """(labels, rows) the property text prescribes for one method; None where the text leaves it open (constant with limit)"""
    n = len(rows)
    allnan = [all(c == 'NaN' for c in r) for r in rows]
    if m == 'nona':
        keep = [i for i in range(n) if not allnan[i]]
        return [labels[i] for i in keep], [rows[i] for i in keep]
    if m == 'fnna':
        first = next((i for i in range(n) if not allnan[i]), n)
        return labels[first:], rows[first:]
    cols = cols_of(rows, k)
    if m == 'ffill': new = [o_ffill(c, limit) for c in cols]
    elif m in ('bfill', 'backfill'): new = [o_bfill(c, limit) for c in cols]
    elif m == 'ffill_na': new = [o_tail(c, limit, 'NaN') for c in cols]
    elif m == 'ffill_0': new = [o_tail(c, limit, 0) for c in cols]
    elif isinstance(m, list):
        if limit is not None:
            return None
        new = [[enc(m[1]) if v == 'NaN' else v for v in c] for c in cols]
    else:
        raise ValueError(m)
    return list(labels), rows_of(new, n)

def check_const_limit(c, limit, rows_in, rows_out, k):
    if len(rows_in) != len(rows_out):
        return 'constant fill changed the number of rows'
    for j in range(k):
        filled = 0
        for a, b in zip(rows_in, rows_out):
            if a[j] != 'NaN':
                if b[j] != a[j]:
                    return 'constant fill changed non-NaN cell %r -> %r' % (a[j], b[j])
            elif b[j] != 'NaN':
                if b[j] != c:
                    return 'NaN replaced by %r, not by the constant %r' % (b[j], c)
                filled += 1
        nn = sum(1 for a in rows_in if a[j] == 'NaN')
        if filled != min(limit, nn):
            return 'constant fill with limit=%d filled %d of %d NaN in column %d' % (limit, filled, nn, j)
    return None

def non_nan_kept(lab_in, rows_in, lab_out, rows_out):
    """every surviving row (matched by position for arrays given as labels 0..n-1, else by label) keeps its non-NaN cells"""
    pos = {l: i for i, l in enumerate(lab_in)}
    if len(pos) != len(lab_in):
        return None
    last = -1
    for l, r in zip(lab_out, rows_out):
        if l not in pos:
            return 'result has a row labelled %r that the input does not have' % (l,)
        if pos[l] <= last:
            return 'row order changed at label %r' % (l,)
        last = pos[l]
        src = rows_in[pos[l]]
        if len(src) != len(r):
            return 'row %r changed width' % (l,)
        for a, b in zip(src, r):
            if a != 'NaN' and a != b:
                return 'non-NaN cell %r of row %r became %r' % (a, l, b)
    return None

def seq_items(case):
    """a 'seq' case = ONE method list object (and limit) applied to several inputs in a row"""
    keys = {k: v for k, v in case.items() if k in ('methods', 'limit', 'mlist', 'cform', 'positional')}
    return [dict(it, kind='fill', **keys) for it in case['items']]

def impl(case, shared=None):
    global IDX, CFORM, POSITIONAL
    if case['kind'] == 'seq':
        CFORM = case.get('cform', 'int')
        mobj = [py_methods(case)]              # the caller's own object, reused by every call of the sequence
        obs = []; viol = None; status = 'ok'
        for q, it in enumerate(seq_items(case)):
            r = impl(it, shared=mobj)
            obs.append(r['obs'])
            if r['status'] != 'ok': status = r['status']
            if r['viol'] and viol is None:
                viol = 'call group %d of a sequence that reuses one method object %r: %s' % (q + 1, py_methods(case), r['viol'])
        return {'status': status, 'obs': obs, 'viol': viol}
    IDX = case['idx']; CFORM = case.get('cform', 'int'); POSITIONAL = bool(case.get('positional'))
    if shared is None and case['kind'] == 'fill':
        shared = [py_methods(case)]            # one method object for all the calls (forms) of the case
    forms = forms_of(case)
    k = case['k']
    obs = []; viol = None; status = 'ok'
    per_form = {}
    def fail(msg):
        nonlocal viol
        if viol is None:
            viol = msg
    for form in forms:
        x = build(case, form)
        before = observe(x)
        try:
            if case['kind'] == 'nona':
                kw = {}
                if case['edge'] is not None: kw['edge'] = case['edge']
                if case['value'] is not None: kw['value'] = case['value']
                r = nona(x, **kw)
            else:
                snap = repr(shared[0])
                try:
                    r = call_fill(x, shared[0], case['limit'])
                finally:
                    if repr(shared[0]) != snap:      # every argument is the caller's: a mutated method list breaks the caller's next call
                        fail('df_fillna(%s) modified its method argument: %s -> %r' % (form, snap, shared[0]))
        except Exception as e:
            status = type(e).__name__
            obs.append(['ERR', status])
            fail('%s form: raised %s: %s' % (form, status, str(e)[:120]))
            continue
        o = observe(r)
        after = observe(x)
        obs.append([o[0], ncols(r), o[1], o[2], after[1], after[2]])
        if ncols(r) != k:
            fail('%s form: result has %d columns, the input has %d' % (form, ncols(r), k))
        per_form[form] = (before, o, r, x)
        what = 'nona' if case['kind'] == 'nona' else 'df_fillna'
        if after != before:
            fail('%s(%s) modified its argument: %r -> %r' % (what, form, before[1:], after[1:]))
        if o[0] != form:
            fail('%s(%s) returned a %s' % (what, form, o[0]))
        # names are part of "rows and values otherwise untouched": Series name, column labels, index name
        if form == 'S' and isinstance(r, pd.Series) and r.name != x.name:
            fail('%s(Series named %r) returned a Series named %r' % (what, x.name, r.name))
        if form == 'D' and isinstance(r, pd.DataFrame) and ncols(r) == k and list(r.columns) != list(x.columns):
            fail('%s(DataFrame with columns %r) returned columns %r' % (what, list(x.columns), list(r.columns)))
        if form in 'SD' and hasattr(r, 'index') and r.index.name != x.index.name:
            fail('%s: index name %r became %r' % (what, x.index.name, r.index.name))
        if form in 'SD' and len(o[2]) and not case.get('dtype') and str(getattr(r, 'dtype', None) or r.dtypes.iloc[0]) != 'float64':
            fail('%s: float64 data came back as %s' % (what, getattr(r, 'dtype', None) or r.dtypes.iloc[0]))
        lab_in = before[1] if before[1] is not None else list(range(len(before[2])))
        # ---- clause-by-clause expectations on the real output
        if case['kind'] == 'fill':
            ms = case['methods']
            if len(ms) == 0:
                if o[1:] != before[1:]:
                    fail('no method given but the data changed')
            elif len(ms) == 1:
                m = ms[0]
                exp = expected_single(m, case['limit'], lab_in, before[2], k)
                got_lab = o[1] if o[1] is not None else None
                if exp is None:
                    w = check_const_limit(enc(m[1]), case['limit'], before[2], o[2], k)
                    if w: fail('%s form: %s' % (form, w))
                else:
                    if o[2] != exp[1] or (got_lab is not None and got_lab != exp[0]):
                        fail('%s form, method %r limit %r on %r: got index %r values %r, the property prescribes index %r values %r'
                             % (form, py_method(m), case['limit'], before[2], o[1], o[2], exp[0] if got_lab is not None else None, exp[1]))
            else:
                # a list applies the single methods in sequence (the real single-method code is the reference)
                try:
                    y = build(case, form)
                    for m in ms:
                        y = call_fill(y, py_method(m), case['limit'])
                    oy = observe(y)
                    if oy != o:
                        fail('%s form: df_fillna(x, %r, limit=%r) = %r %r but applying the methods one after another gives %r %r (x = %r)'
                             % (form, py_methods(case), case['limit'], o[1], o[2], oy[1], oy[2], before[2]))
                except Exception as e:
                    fail('%s form: step-by-step application raised %s' % (form, type(e).__name__))
            # non-NaN cells never change (rows matched by label; for arrays only when no row can be dropped)
            drops = any(m in ('nona', 'fnna') for m in ms if not isinstance(m, list))
            if o[1] is not None or not drops:
                w = non_nan_kept(lab_in, before[2], o[1] if o[1] is not None else list(range(len(o[2]))), o[2])
                if w: fail('%s form: %s' % (form, w))
        else:
            v = 'NaN' if case['value'] is None else enc(case['value'])
            n = len(before[2])
            masked = [all(c == v for c in r) for r in before[2]]
            keep = [i for i in range(n) if not masked[i]]
            if case['edge'] is None or not keep:
                sel = keep
            elif case['edge'] == 1:
                sel = list(range(0, keep[-1] + 1))
            else:
                sel = list(range(keep[0], n))
            exp_rows = [before[2][i] for i in sel]; exp_lab = [lab_in[i] for i in sel]
            if o[2] != exp_rows or (o[1] is not None and o[1] != exp_lab):
                fail('%s form: nona(value=%r, edge=%r) on %r kept index %r values %r; the rows to keep are %r %r'
                     % (form, case['value'], case['edge'], before[2], o[1], o[2], exp_lab if o[1] is not None else None, exp_rows))
    # ---- a dict / list of timeseries is handled element by element
    scalar_method = case['kind'] == 'nona' or (len(case['methods']) == 1 and not case.get('mlist'))   # list arguments are zipped with the elements by @loop
    if case.get('loop') and scalar_method and viol is None and 'S' in per_form:
        try:
            xs = {'a': build(case, 'S'), 'b': build(case, 'D')}
            if case['kind'] == 'nona':
                rd = nona(xs); rl = nona(list(xs.values()))
            else:
                rd = call_fill(xs, py_methods(case), case['limit']); rl = call_fill(list(xs.values()), py_methods(case), case['limit'])
            if not isinstance(rd, dict) or list(rd) != ['a', 'b'] or not isinstance(rl, list) or len(rl) != 2:
                fail('dict / list of timeseries: result is %s / %s' % (type(rd).__name__, type(rl).__name__))
            elif case['kind'] != 'nona' or (case['edge'] is None and case['value'] is None):
                for got, f in ((rd['a'], 'S'), (rd['b'], 'D'), (rl[0], 'S'), (rl[1], 'D')):
                    if observe(got) != per_form[f][1]:
                        fail('dict / list of timeseries: element result %r differs from the single call %r' % (observe(got)[1:], per_form[f][1][1:]))
        except Exception as e:
            fail('dict / list of timeseries raised %s: %s' % (type(e).__name__, str(e)[:100]))
    # ---- ndarray result == values of the pandas result
    for af, pf in (('A1', 'S'), ('A2', 'D')):
        if af in per_form and pf in per_form:
            if per_form[af][1][2] != per_form[pf][1][2]:
                fail('ndarray result %r differs from the values %r of the %s result (data %r)'
                     % (per_form[af][1][2], per_form[pf][1][2], pf, per_form[pf][0][2]))
    return {'status': status, 'obs': obs, 'viol': viol}

def nontrivial(case, result):
    if case.get('kind') == 'seq':
        return any(nontrivial(it, None) for it in case['items'])
    cells = [c for r in case['rows'] for c in r]
    return any(c is None for c in cells) and any(c is not None for c in cells)

def shape(case):
    if case['kind'] == 'seq':
        return 'seq%d:%s' % (len(case['items']), 'nona-first' if case['methods'] and case['methods'][0] == 'nona' else 'other')
    if case['kind'] == 'nona':
        return 'nona:edge=%s:%s' % (case['edge'], 'nan' if case['value'] is None else 'value')
    ms = case['methods']
    name = lambda m: 'const' if isinstance(m, list) else m
    lim = 'L' if case['limit'] is not None else 'U'
    extra = (':long' if case.get('long') else '') + (':' + case['dtype'] if case.get('dtype') else '')
    if len(ms) == 1:
        return 'single:%s:%s:k%d%s' % (name(ms[0]), lim, min(case['k'], 2), extra)
    return 'list%d:%s:k%d%s' % (len(ms), lim, min(case['k'], 2), extra)

# ------------------------------------------------------------------ generation
def mk(rows, k, idx, rng=None, **kw):
    n = len(rows)
    if idx != 'range':
        # dates: also far past / far future (1698, 1970, 2248); 'hour': intraday stamps with a sub-second offset; 'str': text labels
        d = (DAY0 if rng is None else rng.choice([DAY0, DAY0, 719163, 620000, 821000])) if idx == 'date' else (0 if rng is None else rng.choice([0, -50, 100000] if idx in ('hour', 'ns') else [0, 100000]))
        labels = []
        for i in range(n):
            d += 1 if rng is None else rng.choice([1, 1, 1, 2, 3, 7])
            labels.append(d)
    else:
        labels = list(range(n))
    return dict(kw, k=k, rows=rows, labels=labels, idx=idx)

RLIMITS = [None, 1, 2, 3, 5, 10]
IDXS = ['range', 'date', 'date', 'hour', 'str', 'ns']
CFORMS = ['float', 'np', 'f32', 'f16', 'i8', 'i16', 'i32', 'i64']      # numeric method as a Python or numpy scalar of any width
def decorate(rng, c):
    """names, spellings and call forms that must not matter"""
    r = rng.random
    if r() < 0.4: c['name'] = rng.choice(['px', 'a b', 0, ('t', 1)])
    if r() < 0.5: c['cols'] = rng.choice([['a', 'b', 'c'], ['z', 'y', 'x'], [10, 5, 7], ['a', 'a', 'b'], [('p', 1), ('p', 2), ('q', 1)]])[:c['k']]
    if r() < 0.3 and c['idx'] != 'range': c['iname'] = rng.choice(['date', 't'])
    if c['kind'] == 'fill':
        if r() < 0.6: c['cform'] = rng.choice(CFORMS)
        if r() < 0.3: c['positional'] = True
        if r() < 0.15 and c['methods']: c['mlist'] = 'tuple'
    if r() < 0.15: c['loop'] = True
    if c['kind'] == 'fill': c['rot'] = rng.randrange(4)
    return c

def vec_rows(mask):
    return [[None if b else 10 + i] for i, b in enumerate(mask)]

INFS = ['inf', '-inf']
def tern_rows(pat):
    """one column from a pattern over N (NaN), V (finite value), P / M (+inf / -inf)"""
    return [[{'N': None, 'P': 'inf', 'M': '-inf'}.get(c, 10 + i)] for i, c in enumerate(pat)]

def rand_rows(rng, n, k):
    style = rng.random()
    p = rng.choice([0.2, 0.5, 0.8])
    q = rng.choice([0.0, 0.15, 0.4])             # share of +-inf among the non-NaN cells
    def val(i, j):
        if rng.random() < q: return rng.choice(INFS)
        if rng.random() < 0.15: return rng.choice([0, 0, -(5 + i), i + 0.5, -2.5, 2 ** 40 + i])     # zeros, negatives, half-integers, large
        return 10 + i * k + j
    rows = [[None if rng.random() < p else val(i, j) for j in range(k)] for i in range(n)]
    if q and n:
        for _ in range(rng.randrange(0, 3)):      # rows that are all inf, or inf mixed with NaN only
            i = rng.randrange(n)
            rows[i] = [rng.choice(INFS) if (rng.random() < 0.6 or j == 0) else None for j in range(k)]
    if style < 0.5 and n:
        for _ in range(rng.randrange(0, 3)):      # runs of all-NaN rows: leading, trailing, interior
            a = rng.choice([0, 0, rng.randrange(n), n - 1]); b = min(n, a + rng.randrange(1, 4))
            if rng.random() < 0.4: a, b = max(0, n - (b - a)), n
            for i in range(a, b): rows[i] = [None] * k
    if style > 0.8 and n and k > 1:
        j = rng.randrange(k)
        for r in rows: r[j] = None                 # an all-NaN column
    return rows

def rand_method(rng):
    m = rng.choice(SINGLES + ['backfill'])
    return ['c', rng.choice([0, 0, 7, -3, 0.5, -1.5])] if isinstance(m, list) else m

def gen_cases(rng, tier):
    cases = []
    quick = tier == 'quick'
    # A. every NaN pattern of length 0..6 x every single method x every limit
    t = 0
    for n in range(0, 7):
        for mask in itertools.product([False, True], repeat=n):
            for m in SINGLES:
                for lim in (LIMITS if (not quick or n <= 5) else [None, 1 + t % 3]):      # quick: length 6 with None and one rotating limit
                    t += 1
                    cases.append(mk(vec_rows(mask), 1, 'date' if t % 3 == 0 else 'range', kind='fill', methods=[m], limit=lim, mlist=(t % 5 == 0),
                                    **({'cform': (['int'] + CFORMS)[t % 9]} if isinstance(m, list) else {})))
    # A2. +-inf are non-NaN cells: every pattern over {NaN, finite, +inf, -inf} of length 0..4 (0..5 thorough)
    for n in range(0, 5 if quick else 6):
        for pat in itertools.product('NVPM', repeat=n):
            if 'P' not in pat and 'M' not in pat:
                continue
            if quick and n == 4 and (hash(pat) if False else sum(map(ord, pat)) + pat.count('N')) % 2:
                continue                                  # quick: every other length-4 pattern
            for m in SINGLES:
                for lim in (LIMITS if (not quick or n <= 2) else [None, 1 + t % 3] if n == 3 else [LIMITS[t % 4]]):
                    t += 1
                    cases.append(mk(tern_rows(pat), 1, 'date' if t % 3 == 0 else 'range', kind='fill', methods=[m], limit=lim, mlist=(t % 5 == 0)))
    # B. method lists
    if quick:
        for _ in range(1500):
            n = rng.choice([rng.randrange(0, 7), rng.randrange(0, 11)]); k = rng.choice([1, 1, 2, 3])
            ms = [rand_method(rng) for _ in range(rng.choice([2, 2, 2, 3, 0]))]
            cases.append(decorate(rng, mk(rand_rows(rng, n, k), k, rng.choice(IDXS), rng, kind='fill', methods=ms, limit=rng.choice(RLIMITS))))
    else:
        for n in range(0, 7):
            for mask in itertools.product([False, True], repeat=n):
                for m1 in SINGLES:
                    for m2 in SINGLES:
                        lims = LIMITS if n >= 3 else [None, 1]
                        for lim in lims:
                            t += 1
                            cases.append(mk(vec_rows(mask), 1, 'date' if t % 3 == 0 else 'range', kind='fill', methods=[m1, m2], limit=lim))
        for _ in range(12000):
            n = rng.randrange(0, 11); k = rng.choice([1, 2, 3])
            ms = [rand_method(rng) for _ in range(rng.choice([2, 2, 3, 4, 0]))]
            cases.append(decorate(rng, mk(rand_rows(rng, n, k), k, rng.choice(IDXS), rng, kind='fill', methods=ms, limit=rng.choice(RLIMITS))))
    # C. frames and longer vectors, single methods
    for _ in range(1300 if quick else 20000):
        k = rng.choice([1, 2, 2, 3]); n = rng.randrange(0, 11) if k > 1 else rng.randrange(7, 11)
        cases.append(decorate(rng, mk(rand_rows(rng, n, k), k, rng.choice(IDXS), rng, kind='fill', methods=[rand_method(rng)],
                        limit=rng.choice(RLIMITS), mlist=rng.random() < 0.2)))
    # C2. long vectors / frames (100-300 rows), long NaN runs, limits below, inside and beyond the run lengths
    for _ in range(30 if quick else 400):
        n = rng.choice([101, 150, 257] if quick else [101, 150, 257, 300]); k = rng.choice([1, 1, 2])
        rows = []; i = 0
        while len(rows) < n:
            run = rng.choice([1, 2, 7, 30, 60]); nan = rng.random() < 0.5
            for _ in range(run):
                rows.append([None if (nan or rng.random() < 0.1) else 10 + len(rows) * k + j for j in range(k)])
        rows = rows[:n]
        ms = [rand_method(rng) for _ in range(rng.choice([1, 1, 1, 2]))]
        cases.append(decorate(rng, mk(rows, k, rng.choice(IDXS), rng, kind='fill', methods=ms, limit=rng.choice([None, 1, 5, 29, 30, 50, 1000]), long=True)))
    # C3. other dtypes: int64 (no NaN possible: every method is the identity on values), float32
    for _ in range(150 if quick else 1500):
        k = rng.choice([1, 2]); n = rng.randrange(0, 8); dt_ = rng.choice(['int64', 'float32'])
        rows = [[(3 + i * k + j) if (dt_ == 'int64' or rng.random() < 0.6) else None for j in range(k)] for i in range(n)]
        if rng.random() < 0.5:
            cases.append(mk(rows, k, rng.choice(IDXS), rng, kind='fill', methods=[rand_method(rng) for _ in range(rng.choice([1, 1, 2]))], limit=rng.choice(RLIMITS), dtype=dt_))
        else:
            cases.append(mk(rows, k, rng.choice(IDXS), rng, kind='nona', value=rng.choice([None, None, 3]), edge=rng.choice([None, 1, -1]), dtype=dt_))
    # S. one method LIST object applied to 2-4 inputs in a row (arrays, Series, frames; the forms of each input in a rotated order):
    #    every result is judged on its own, and the list is re-read after every call
    for _ in range(500 if quick else 6000):
        ms = [rand_method(rng) for _ in range(rng.choice([1, 2, 2, 3]))]
        if rng.random() < 0.5: ms[0] = rng.choice(['nona', 'nona', 'fnna'])
        items = []
        for _ in range(rng.choice([2, 2, 3, 4])):
            k = rng.choice([1, 1, 2]); n = rng.randrange(0, 8)
            it = mk(rand_rows(rng, n, k), k, rng.choice(IDXS), rng)
            it['rot'] = rng.randrange(4)
            items.append(it)
        cases.append(dict(kind='seq', items=items, methods=ms, limit=rng.choice(RLIMITS), mlist=rng.choice([True, True, 'tuple']) if len(ms) == 1 else rng.choice([False, False, 'tuple']),
                          cform=rng.choice(['int'] + CFORMS), k=items[0]['k'], rows=[], labels=[], idx='range'))
    # D. nona(value, edge)
    for n in range(0, 6):
        for mask in itertools.product([False, True], repeat=n):
            for e in (None, 1, -1):
                t += 1
                cases.append(mk(vec_rows(mask), 1, 'date' if t % 2 else 'range', kind='nona', value=None, edge=e))
    for n in range(0, 5):                         # nona on every pattern with infinite cells
        for pat in itertools.product('NVPM', repeat=n):
            if 'P' in pat or 'M' in pat:
                for e in (None, 1, -1):
                    t += 1
                    cases.append(mk(tern_rows(pat), 1, 'date' if t % 2 else 'range', kind='nona', value=None, edge=e))
    for _ in range(300 if quick else 5000):       # frames whose rows are all-inf / inf+NaN / all-NaN / mixed
        k = rng.choice([1, 2, 3]); n = rng.randrange(0, 8)
        rows = []
        for i in range(n):
            r = rng.random()
            if r < 0.25: rows.append([None] * k)
            elif r < 0.45: rows.append([rng.choice(INFS) for _ in range(k)])
            elif r < 0.7: rows.append([rng.choice(INFS + [None]) for _ in range(k)])
            else: rows.append([rng.choice([None, 10 + i, 'inf', '-inf', 0]) for _ in range(k)])
        cases.append(decorate(rng, mk(rows, k, rng.choice(IDXS), rng, kind='nona', value=rng.choice([None, None, None, 0]), edge=rng.choice([None, 1, -1]))))
    for _ in range(500 if quick else 8000):
        k = rng.choice([1, 2, 3]); n = rng.randrange(0, 9)
        value = rng.choice([None, None, 0, 1])
        p = rng.choice([0.3, 0.6, 0.9])
        target = None if value is None else value
        rows = [[target if rng.random() < p else rng.choice([None, 0, 1, 2, 'inf', '-inf']) for _ in range(k)] for _ in range(n)]
        cases.append(decorate(rng, mk(rows, k, rng.choice(IDXS), rng, kind='nona', value=value, edge=rng.choice([None, 1, -1]))))
    return cases

def shrink(case):
    if case['kind'] == 'seq':
        its = case['items']
        if len(its) > 2:
            for i in range(len(its)):
                yield dict(case, items=its[:i] + its[i + 1:])
        for i, it in enumerate(its):
            for sm in shrink(dict(it, kind='nona', edge=None, value=None)):
                if 'rows' in sm and len(sm['rows']) < len(it['rows']):
                    yield dict(case, items=its[:i] + [{k: v for k, v in sm.items() if k in it}] + its[i + 1:])
        if len(case['methods']) > 2:
            for i in range(1, len(case['methods'])):
                yield dict(case, methods=case['methods'][:i] + case['methods'][i + 1:])
        return
    n = len(case['rows'])
    for i in range(n):
        rows = case['rows'][:i] + case['rows'][i + 1:]
        labels = case['labels'][:i] + case['labels'][i + 1:] if case['idx'] != 'range' else list(range(n - 1))
        yield dict(case, rows=rows, labels=labels)
    if case['k'] > 1:
        for j in range(case['k']):
            yield dict(case, k=case['k'] - 1, rows=[r[:j] + r[j + 1:] for r in case['rows']])
    if case['kind'] == 'fill':
        ms = case['methods']
        if len(ms) > 2:
            for i in range(len(ms)):
                yield dict(case, methods=ms[:i] + ms[i + 1:])
        if case['limit'] is not None:
            yield dict(case, limit=None)
            if case['limit'] > 1:
                yield dict(case, limit=case['limit'] - 1)
    if case['idx'] != 'range':
        yield dict(case, idx='range', labels=list(range(n)))
    for key in ('name', 'cols', 'iname', 'cform', 'positional', 'loop', 'dtype'):
        if case.get(key):
            yield {a: b for a, b in case.items() if a != key}

LEVEL_TEXT = ('machine-checked Coq theorems (C12_*, every vector / frame length, every NaN pattern, every limit and method list, by induction): '
              'ffill/bfill fill a NaN at distance k from the nearest earlier/later observation iff k <= limit, constants, method lists as a fold, '
              'nona / fnna / ffill_na / ffill_0 / nona(edge) characterised, frames act column by column, rows, labels and non-NaN cells preserved; '
              'the dispatcher model is compared in Coq with the real df_fillna / nona on thousands of generated cases in Series, DataFrame and '
              'ndarray form, and a property-text oracle re-derives every expected cell from the real outputs')
LEVEL_NOTE = ('trusted: Coq kernel/vm_compute; modelled not verified: pandas ffill/bfill/fillna/concat semantics (compared on every run). '
              'The method-list loop is modelled as repaired by fixes/C12.patch (pinned tree: ffill_na/ffill_0 inside lists, fnna after nona on '
              'integer labels, nona(edge) on ndarrays)')
TECHNIQUE = 'Coq proof (structural induction over lists with generalised run counters) over a transcribed model + differential correspondence in vm_compute + property-text oracle'
