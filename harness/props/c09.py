"""C09 — dt_bump adds business days, calendar units and compound tenors exactly."""
import re, datetime, json
from implutil import dt2us, us2dt, DAYUS, call

ID = 'C09'
TRANSLATOR = ['dates']
COQ_EXEC = ['exec.X_dates']
COQ_IMPORTS = 'From PB Require Import model.M_cal model.M_dates.\n'
PER_FILE = 1500
RULE = ('cases: (start datetime in 1900-2300, tenor) for every unit letter, sign and count in [-60,60], two/three-part '
        'compound tenors, ints and timedeltas; plus law cases (monotone, same-sign composition, +x then -x). The '
        'implementation result is compared in Coq with the model M_dates.dt_bump AND with the Gallina text generated '
        'from _dates.py; the oracle re-derives the expected result by stepping one weekday / one day at a time. '
        'non-trivial = business-day bump that crosses or starts on a weekend, month bump whose day overflows, '
        'compound tenor, or a law case; distinct by (start, tenor)')
EXPLANATION = ('theorems C09_* (coq/props/C09.v) hold for every datetime and count; the arithmetic arms of dt_bump are '
               'regenerated from /repo by the translator and proved equal to the model; the correspondence samples the '
               'tokeniser / dispatcher glue that is outside the translated text')
TRUSTED = ['translator/py2coq.py + gen_dates.py (ym, _ymd, 9 arms of dt_bump)',
           'modelled, not verified: datetime\'s own calendar (M_cal, validated on every day 1900-2300 in C04); the period regex tokeniser is modelled in Coq (M_tenor) and tied by correspondence (the harness passes the tenor STRING)']
ASSUMPTIONS = ['all counts are Python ints', 'datetimes within years 1..9999']
EXHAUSTIVE = {'quick': False, 'thorough': False}
CASE_TIMEOUT = 5

UNITS = 'dwmqyhnsb'
PERIOD = re.compile(r'^[-+]?[0-9]+[dbwmqyhns]')
NAMED = {'spot': '0b', 'on': '1b', 'o/n': '1b', 'tn': '2b', 't/n': '2b', 'sn': '3b', 's/n': '3b'}

def tokens(s):
    s = s.lower(); s = NAMED.get(s, s)
    out = []
    while True:
        m = PERIOD.search(s)
        if not m:
            break
        tok = m.group(); s = s[len(tok):]
        out.append((int(tok[:-1]), tok[-1]))
    assert s == '', s
    return out

def bump_tokens(b):
    if 'str' in b:
        return tokens(b['str'])
    if 'int' in b:
        return [(b['int'], 'd')]
    if 'td_s' in b:
        return [(b['td_s'], 's')]
    raise ValueError(b)

def calls_of(case):
    """every case boils down to a list of (t, bump) dt_bump calls whose results are the observation"""
    k = case['kind']
    if k == 'bump':
        return [(case['t'], case['bump'])]
    if k == 'mono_b':
        b = {'str': '%db' % case['n']}
        return [(case['t1'], b), (case['t2'], b)]
    if k == 'compose_b':
        return [(case['t'], {'str': '%db' % case['a']}), (case['t'], {'str': '%db%db' % (case['a'], case['b'])}),
                (case['t'], {'str': '%db' % (case['a'] + case['b'])})]
    if k == 'inverse':
        n, u = case['n'], case['u']
        return [(case['t'], {'str': '%d%s%d%s' % (n, u, -n, u)})]
    if k == 'repeat':
        # the SAME tenor from several starts, one after the other in one process (state a call leaves behind
        # - a memo keyed by tenor / weekday - must not leak into the next call), the first start once more at the end
        return [(t, case['bump']) for t in case['ts']] + [(case['ts'][0], case['bump'])]
    raise ValueError(k)

# ---------------- Coq side
def coq_runner(case):
    return 'run_bumps'
COQ_PRELUDE = '''Definition run_bumps (l : list (Z * bspec)) : J :=
  let a := map run_bspec l in let b := map run_gen_bspec l in
  if J_eqb (JL a) (JL b) then JL a else JL [JS "GEN<>MODEL"; JL a; JL b].
'''
UNIT = dict(d='UD', w='UW', m='UM', q='UQ', y='UY', h='UH', n='UN', s='US', b='UB')
def coq_spec(b, api):
    """tenor strings go to the Coq model AS STRINGS (its tokeniser is part of the model); the spellings that
    pass the parts separately, and ints / timedeltas, go as token lists"""
    if 'str' in b and api in (None, 'dt_bump', 'dt', 'upper'):
        s = b['str'].upper() if api == 'upper' else b['str']
        return '(BS "%s")' % s
    return '(BT [' + '; '.join('((%d), %s)' % (n, UNIT[u]) for n, u in bump_tokens(b)) + '])'

def coq_case(case):
    items = []
    for t, b in calls_of(case):
        items.append('((%d), %s)' % (t, coq_spec(b, case.get('api') if case['kind'] == 'bump' else None)))
    return '[' + '; '.join(items) + ']'

# ---------------- implementation side + oracle
def impl_setup():
    global dt_bump, dt
    from pyg_base import dt_bump, dt

def do_call(t, b, api):
    """the spellings of the same bump: dt_bump(t, bump), dt(t, bump), the parts as separate arguments, upper case"""
    T = us2dt(t); B = py_bump(b)
    if isinstance(api, str) and api.startswith('t:'):
        # the same start / the same integer count in another type a caller may hold (numpy scalars of every unit and width,
        # pandas Timestamp, date): dt_bump must read them as the same instant / the same count
        import numpy as np, pandas as pd
        how = api[2:]
        if how == 'np_D': T = np.datetime64(T.date(), 'D')
        elif how == 'np_s': T = np.datetime64(T.replace(microsecond=0), 's')
        elif how == 'np_us': T = np.datetime64(T, 'us')
        elif how == 'pdts': T = pd.Timestamp(T)
        elif how == 'date': T = T.date()
        elif how.startswith('npint'):
            B = getattr(np, 'int' + how[5:])(B)
        return call(dt_bump, T, B)
    if api == 'dt':
        return call(dt, T, B)
    if api == 'upper' and isinstance(B, str):
        return call(dt_bump, T, B.upper())
    if api == 'split' and isinstance(B, str):
        parts = ['%d%s' % (n, u) for n, u in tokens(B)]
        return call(dt_bump, T, *parts) if parts else call(dt_bump, T, B)
    if api == 'dt_split' and isinstance(B, str):
        parts = ['%d%s' % (n, u) for n, u in tokens(B)]
        return call(dt, T, *parts) if parts else call(dt, T, B)
    return call(dt_bump, T, B)

def py_bump(b):
    if 'str' in b: return b['str']
    if 'int' in b: return b['int']
    return datetime.timedelta(seconds=b['td_s'])

def step_weekday(t, sign):
    t = t + datetime.timedelta(sign)
    while t.weekday() > 4:
        t = t + datetime.timedelta(sign)
    return t

def expected_single(t, n, u):
    """property-level oracle for one token, written from the property text (not from the code)"""
    D = datetime.timedelta
    if u == 'd': return t + D(days=n)
    if u == 'w': return t + D(days=7 * n)
    if u == 'h': return t + D(hours=n)
    if u == 'n': return t + D(minutes=n)
    if u == 's': return t + D(seconds=n)
    if u == 'b':
        while t.weekday() > 4:          # from a weekend day first roll forward to Monday
            t = t + D(1)
        for _ in range(abs(n)):
            t = step_weekday(t, 1 if n > 0 else -1)
        return t
    # month-based: claimed at midnight only
    y, m, d = t.year, t.month, t.day
    if u == 'm': m += n
    elif u == 'q': m += 3 * n
    else: y += n
    y += (m - 1) // 12; m = 1 + (m - 1) % 12
    import calendar
    dim = calendar.monthrange(y, m)[1]
    if d <= dim:
        return datetime.datetime(y, m, d)
    m2 = m + 1; y2 = y + (m2 - 1) // 12; m2 = 1 + (m2 - 1) % 12
    return datetime.datetime(y2, m2, d - dim)

def impl(case):
    obs = []; viol = None; status = 'ok'
    res = []
    for t, b in calls_of(case):
        st, r = do_call(t, b, case.get('api', 'dt_bump'))
        res.append(r)
        if st != 'ok':
            status = st
        obs.append(dt2us(r) if st == 'ok' else None)
    k = case['kind']
    if status != 'ok':
        return {'status': status, 'obs': obs, 'viol': 'dt_bump raised %s on a valid tenor' % status}
    if k == 'bump':
        t = us2dt(case['t']); exp = t
        midnight_ok = True
        for n, u in bump_tokens(case['bump']):
            if u in 'mqy' and (exp.hour or exp.minute or exp.second or exp.microsecond):
                midnight_ok = False     # month units are claimed at midnight only
                break
            exp = expected_single(exp, n, u)
        if midnight_ok and exp != res[0]:
            viol = 'dt_bump(%s, %r) = %s but the tenor applied part by part gives %s' % (t, py_bump(case['bump']), res[0], exp)
        toks = bump_tokens(case['bump'])
        if viol is None and toks and toks[-1][1] == 'b' and res[0].weekday() > 4:
            viol = 'business-day bump landed on a weekend: %s' % res[0]
    elif k == 'mono_b':
        r1, r2 = res
        if r1.date() > r2.date():
            viol = 'not monotone (days): %s <= %s but %s > %s' % (us2dt(case['t1']), us2dt(case['t2']), r1, r2)
        elif r1 > r2:
            viol = 'not monotone: %s <= %s but %s > %s' % (us2dt(case['t1']), us2dt(case['t2']), r1, r2)
    elif k == 'compose_b':
        if res[1] != res[2]:
            viol = "'%db' then '%db' from weekday %s gives %s, '%db' gives %s" % (case['a'], case['b'], us2dt(case['t']), res[1], case['a'] + case['b'], res[2])
    elif k == 'repeat':
        for (t0, b), r in zip(calls_of(case), res):
            exp = us2dt(t0)
            for n, u in bump_tokens(b):
                exp = expected_single(exp, n, u)
            if exp != r:
                viol = 'dt_bump(%s, %r) = %s after earlier calls with the same tenor in this process, but the tenor applied part by part gives %s' % (us2dt(t0), py_bump(b), r, exp)
                break
        if viol is None and res[0] != res[-1]:
            viol = 'dt_bump(%s, %r) gave %s first and %s when called again' % (us2dt(case['ts'][0]), py_bump(case['bump']), res[0], res[-1])
    elif k == 'inverse':
        if res[0] != us2dt(case['t']):
            viol = '+%d%s then -%d%s from %s returns %s' % (case['n'], case['u'], case['n'], case['u'], us2dt(case['t']), res[0])
    return {'status': status, 'obs': obs, 'viol': viol}

def nontrivial(case, result):
    k = case['kind']
    if k != 'bump':
        return True
    toks = bump_tokens(case['bump'])
    if len(toks) > 1:
        return True
    if not toks:
        return False
    n, u = toks[0]
    wd = (case['t'] // DAYUS + 6) % 7
    if u == 'b':
        return wd > 4 or wd + (n % 5) > 4 or n < 0
    if u in 'mqy':
        return us2dt(case['t']).day > 28
    return False

def shape(case):
    if case['kind'] != 'bump':
        return case['kind']
    if case.get('api'):
        return 'bump/' + case['api']
    b = case['bump']
    if 'str' not in b:
        return 'bump:' + list(b)[0]
    toks = bump_tokens(b)
    return 'bump:' + ''.join(u for _, u in toks) if len(toks) <= 1 else 'bump:compound%d' % len(toks)

# ---------------- generation
LO = 693596; HI = 839693     # ordinals of 1900-01-01 and 2299-12-31 (exclusive end)

def rand_day(rng):
    r = rng.random()
    if r < 0.15:   # month ends / leap days / century boundaries
        y = rng.choice([1900, 1904, 1999, 2000, 2001, 2096, 2100, 2200, 2299, rng.randrange(1900, 2300)])
        m = rng.choice([1, 2, 2, 3, 4, 12, rng.randrange(1, 13)])
        import calendar
        d = rng.choice([1, 28, calendar.monthrange(y, m)[1], calendar.monthrange(y, m)[1]])
        return datetime.date(y, m, d).toordinal()
    return rng.randrange(LO + 70 * 366, HI - 70 * 366) if r < 0.9 else rng.randrange(LO, HI)

def rand_tod(rng):
    return rng.choice([0, 0, 1, 36000000000, 86399999999, rng.randrange(DAYUS)])

def gen_cases(rng, tier):
    cases = []
    n_single = 2500 if tier == 'quick' else 60000
    for _ in range(n_single):
        u = rng.choice(UNITS)
        n = rng.choice([rng.randrange(-60, 61), rng.randrange(-7, 8)])
        day = rand_day(rng)
        tod = rand_tod(rng) if u not in 'mqy' or rng.random() < 0.1 else 0
        sign = rng.choice(['', '', '+']) if n >= 0 else ''
        cases.append({'kind': 'bump', 't': day * DAYUS + tod, 'bump': {'str': '%s%d%s' % (sign, n, u)}})
    # leap days and month ends x month-based units (day-of-month overflow / non-leap targets)
    import calendar as _cal
    for y in (1900, 1904, 1996, 2000, 2096, 2100, 2104, 2200, 2296):      # century years 1900/2100/2200 are NOT leap
        for (m, d) in ((2, 29), (1, 31), (3, 31), (8, 31), (12, 31), (1, 30), (1, 29), (3, 30), (3, 29)):
            if d > _cal.monthrange(y, m)[1]:
                continue
            t = datetime.date(y, m, d).toordinal() * DAYUS
            for u in 'mqy':
                for n in (-4, -1, 1, 2, 3, 4, 11, 13):
                    cases.append({'kind': 'bump', 't': t, 'bump': {'str': '%d%s' % (n, u)}})
    # all 7 weekdays x n in [-12, 12] for the closed form (its full case table), from one fixed week
    for wd in range(7):
        for n in range(-12, 13):
            cases.append({'kind': 'bump', 't': (730119 + wd) * DAYUS, 'bump': {'str': '%db' % n}})
    for _ in range(300 if tier == 'quick' else 6000):     # ints, timedeltas, named tenors
        day = rand_day(rng); tod = rand_tod(rng)
        r = rng.random()
        if r < 0.4: b = {'int': rng.randrange(-400, 400)}
        elif r < 0.8: b = {'td_s': rng.randrange(-10**7, 10**7)}
        else: b = {'str': rng.choice(list(NAMED))}
        cases.append({'kind': 'bump', 't': day * DAYUS + tod, 'bump': b})
    for _ in range(800 if tier == 'quick' else 20000):    # compound tenors, 2 and 3 parts
        k = rng.choice([2, 3])
        parts = [(rng.choice([rng.randrange(-60, 61), rng.randrange(-3, 4)]), rng.choice(UNITS)) for _ in range(k)]
        monthy = any(u in 'mqy' for _, u in parts)
        # month parts are claimed at midnight: keep sub-day units out of tenors that contain them
        if monthy:
            parts = [(n, u if u not in 'hns' else 'd') for n, u in parts]
        tod = 0 if monthy else rand_tod(rng)
        s = ''.join('%s%d%s' % ('+' if (n >= 0 and i > 0 and rng.random() < 0.5) else '', n, u) for i, (n, u) in enumerate(parts))
        cases.append({'kind': 'bump', 't': rand_day(rng) * DAYUS + tod, 'bump': {'str': s}})
    for _ in range(400 if tier == 'quick' else 8000):     # laws
        day = rand_day(rng); n = rng.randrange(-60, 61)
        r = rng.random()
        if r < 0.3:
            d2 = day + rng.randrange(0, 9)
            tod = rand_tod(rng)
            same = rng.random() < 0.6
            t1 = day * DAYUS + tod; t2 = d2 * DAYUS + (tod if same else rand_tod(rng))
            if t1 > t2: t1, t2 = t2, t1
            cases.append({'kind': 'mono_b', 't1': t1, 't2': t2, 'n': n})
        elif r < 0.6:
            while (day + 6) % 7 > 4: day += 1
            a = rng.randrange(0, 40); b = rng.randrange(0, 40)
            if rng.random() < 0.5: a, b = -a, -b
            cases.append({'kind': 'compose_b', 't': day * DAYUS + rand_tod(rng), 'a': a, 'b': b})
        else:
            u = rng.choice(UNITS)
            t = day * DAYUS
            if u == 'b':
                while (t // DAYUS + 6) % 7 > 4: t += DAYUS
                t += rand_tod(rng)
            elif u in 'mqy':
                while us2dt(t).day > 28: t -= DAYUS
            else:
                t += rand_tod(rng)
            cases.append({'kind': 'inverse', 't': t, 'n': abs(n), 'u': u})
    for _ in range(150 if tier == 'quick' else 3000):     # one tenor, many starts, same process (no m/q/y parts: any time of day)
        k = rng.choice([1, 2, 2, 3])
        units = 'dwhnsb'
        parts = [(rng.choice([rng.randrange(-30, 31), rng.randrange(-3, 4)]), rng.choice(units)) for _ in range(k)]
        if rng.random() < 0.5:      # an intraday part BEFORE a business-day part: the time of day decides the weekday the b part starts from
            parts = [(rng.choice([-30, -12, -6, 6, 12, 18, 30]), 'h')] + [(rng.randrange(-5, 6), 'b')] + parts[:1]
        s = ''.join('%d%s' % (n, u) for n, u in parts)
        day = rand_day(rng)
        ts = []
        for j in range(rng.randrange(3, 7)):
            d = day + rng.choice([0, 0, 7, 14, rng.randrange(0, 7)])       # mostly the same weekday
            ts.append(d * DAYUS + rng.choice([0, 6 * 3600 * 10**6, 18 * 3600 * 10**6, 86399999999, rng.randrange(DAYUS)]))
        cases.append({'kind': 'repeat', 'ts': ts, 'bump': {'str': s}})
    apis = ['dt', 'upper', 'split', 'dt_split']
    extra = []
    for c in cases:
        if c['kind'] != 'bump' or rng.random() > 0.12:
            continue
        tt = c['t']; b = c['bump']
        if 'int' in b:
            n = b['int']
            w = rng.choice([w for w in (8, 16, 32, 64) if -2 ** (w - 1) <= n < 2 ** (w - 1)])
            extra.append(dict(c, api='t:npint%d' % w))
        else:
            opts = ['np_us']
            if tt % DAYUS == 0: opts += ['np_D', 'date', 'np_D']
            if tt % 1000000 == 0: opts += ['np_s']
            if 1678 < us2dt(tt).year < 2262: opts += ['pdts']
            extra.append(dict(c, api='t:' + rng.choice(opts)))
    for y in (2262, 2263, 2280, 2299):       # numpy starts beyond the datetime64[ns] range, inside the claimed cycle
        for how in ('np_D', 'np_s', 'np_us'):
            extra.append({'kind': 'bump', 't': datetime.date(y, 4, 12).toordinal() * DAYUS, 'bump': {'str': rng.choice(['3b', '1m', '-2w', '10d'])}, 'api': 't:' + how})
    for c in cases:
        if c['kind'] == 'bump' and 'str' in c['bump'] and c['bump']['str'] not in NAMED and rng.random() < 0.3:
            c['api'] = rng.choice(apis)
        elif c['kind'] == 'bump' and 'str' not in c['bump'] and rng.random() < 0.3:
            c['api'] = 'dt'
    return cases + extra

def shrink(case):
    if case['kind'] == 'bump' and 'str' in case['bump']:
        toks = bump_tokens(case['bump'])
        for i in range(len(toks)):
            rest = toks[:i] + toks[i + 1:]
            if rest:
                yield dict(case, bump={'str': ''.join('%d%s' % (n, u) for n, u in rest)})
        for i, (n, u) in enumerate(toks):
            for n2 in {n // 2, n - 1 if n > 0 else n + 1} - {n}:
                t2 = toks[:i] + [(n2, u)] + toks[i + 1:]
                yield dict(case, bump={'str': ''.join('%d%s' % (a, b) for a, b in t2)})
        if case['t'] % DAYUS:
            yield dict(case, t=case['t'] - case['t'] % DAYUS)

LEVEL_TEXT = ('machine-checked Coq theorems (C09_*, for every datetime and every count, no bound) about the business-day closed form, '
              'fixed units, month/quarter/year overflow and compound tenors; the arithmetic of dt_bump is regenerated from /repo into Gallina '
              'on every run and proved equal to the model (a semantic edit breaks a Qed), and the whole dt_bump call path is compared with the '
              'model evaluated in Coq on thousands of generated tenors')
LEVEL_NOTE = ('trusted: Coq kernel/vm_compute, translator py2coq.py (ints only), the harness tokeniser mirroring the period regex; modelled not '
              'verified: CPython datetime calendar (validated per day in C04). Known finding: intraday weekend monotonicity (KNOWN_FINDINGS.json)')
TECHNIQUE = 'Coq proof (induction + lia, kernel-computed 400-year sweep lifted by periodicity) over a model regenerated from source + differential correspondence in vm_compute'
