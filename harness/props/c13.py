"""C13 — df_slice keeps exactly the rows in the interval; stitching switches at the bounds; df_unslice inverse."""
import datetime, itertools, math

ID = 'C13'
TRANSLATOR = []
COQ_EXEC = ['exec.X_slice']
COQ_IMPORTS = 'From PB Require Import model.M_slice.\n'
COQ_PRELUDE = 'Definition run_stitch_seq (l : list (Z * string * nat * list ts * bounds_arg)) : J := JL (map run_stitch l).\n'
PER_FILE = 500
CASE_TIMEOUT = 10
RULE = ('timestamps are whole hours from 2020-01-01 (index points on a 6-hour grid with gaps, bounds on a 3-hour grid so that they fall '
        'before / on / between / after index points, half-day offsets included); a second stream works in microseconds (day = 86400e6): '
        'time-of-day bounds with and without a microsecond part, rows 300 ms / 1 us before, at, and 1 us / 250 ms / 999999 us / 1 s after each '
        'bound on several days, single and wrap-around windows, all four brackets, Series and DataFrame. slice cases: one Series or 1-2 column DataFrame, lb and ub '
        'each missing, a datetime or a time of day; values finite, NaN or +-inf (carried through) (all combinations, windows with start later than end included), every bracket string '
        '"[]" "[)" "(]" "()" plus the o/c spellings, the default and malformed strings; one fixed 7-point series is swept over all 21 x 21 '
        'bound positions x 4 brackets. stitch cases: 1-4 series, increasing / non-strict / decreasing bound lists given as ub, lb or both, '
        'n in 1..number of series. unslice cases: stitch, df_unslice, stitch again. Every result is compared cell by cell (index and values) '
        'in Coq with M_slice; the oracle recomputes from the property text which timestamps belong to the window / to which interval, and '
        'from which series each column must come, by plain loops over the real output. Stream G (1 500): index shuffled / newest-first / with 2-3 rows per timestamp, all brackets, dates and times of day, wrap-around (rows sharing a timestamp are compared as a multiset after sort_index). The series list and the bound lists of a stitch call are objects owned by the caller: they are re-read after every call, and stream C2 (500) reuses the same objects for 2-3 calls in a row (n = 1 then another n; decreasing and increasing lists; ub / lb / both modes), each call judged on its own. Stitched series carry names in 50 % of the list cases (distinct codes, all the same name, some unnamed, ints) and are one-column frames in 15 %. Stream N (700): nanosecond stamps a few ns apart with bounds as np.datetime64[ns] taken from the index values or pd.Timestamp; 15 % of the hourly slices use an object-dtype index of datetimes. Varied in the random streams: bounds as datetime / date / Timestamp / np.datetime64 / YYYY-MM-DD / yyyymmdd, eras 1700 / 1970 / 2020 / 2250, keyword and tuple call forms, Series name / column labels / index name, DatetimeIndex input, 150-400 row series, up to 8 series, one series with several windows. '
        'non-trivial = a bound coincides with an index point, '
        'a time-of-day bound, or more than one series; distinct by full case')
EXPLANATION = ('theorems C13_* (coq/props/C13.v) hold for series of any length and any bounds: a single slice is exactly the filter of the rows '
               'inside the bracketed window (fast path = mask path on a sorted index), time-of-day bounds compare t mod day, a window with start '
               'later than end is the union of the two half windows; stitching with ub lists, lb lists and lb+ub lists takes the rows of interval i '
               'from the join of series i..i+n-1, each timestamp at most once for "(]" brackets; df_unslice recovers for bound m exactly the part '
               'of series m with u(m-n) < t <= u(m) (column j of interval i goes to bound i+j) and stitching the recovered series again gives the '
               'frame back (general theorem: any k series without NaN values, strictly increasing bounds, any n in 1..k); pandas label slicing, '
               'masks, concat and sort_index are modelled and compared with the model on every generated case')
TRUSTED = ['modelled, not verified: pandas 3.0 df[lb:ub] on a sorted DatetimeIndex, boolean-mask selection, DatetimeIndex.time, '
           'pd.concat (rows, and axis=1 outer join), sort_index, dictable.listby grouping in df_unslice (compared with the model on every run)',
           'harness/props/c13.py rendering of inputs and observations']
ASSUMPTIONS = ['stitched lists hold Series (named or not) or one-column frames; one-column frames with DIFFERENT column labels and n = 1 are not generated (pd.concat keeps one column per label); single slices: the index may be in any stored order and repeat timestamps; stitching / df_unslice: strictly increasing timestamps', 'elements of a stitched list are Series; bound lists are monotone and as long as the list of series',
               'df_unslice: values are not NaN (NaN marks "no data" in the stitched frame) and bounds strictly increasing']
EXHAUSTIVE = {'quick': False, 'thorough': False}

E0 = datetime.datetime(2020, 1, 1)
DAY = 24
DAY_NS = 86400 * 10 ** 9     # cases with unit='ns': nanosecond timestamps (pd.Timestamp / np.datetime64[ns]); no time-of-day bounds there
DAY_US = 86400 * 10 ** 6     # cases with unit='us': timestamps and times of day in microseconds
UNIT = 'h'                   # unit of the case being run (set by impl)
EPOCHS = {'2020': datetime.datetime(2020, 1, 1), '1700': datetime.datetime(1700, 3, 1), '1970': datetime.datetime(1970, 1, 1), '2250': datetime.datetime(2250, 6, 1)}
def day_of(case):
    return DAY_US if case.get('unit') == 'us' else DAY_NS if case.get('unit') == 'ns' else DAY
BRACKETS = ['[]', '[)', '(]', '()']
PINF, NINF = 10 ** 9, -10 ** 9      # +inf / -inf cells: values are carried, never computed, so the model sees two reserved integers

# ------------------------------------------------------------------ Coq side
def coq_runner(case):
    if case['kind'] == 'stitch' and case.get('n_seq'):
        return 'run_stitch_seq'
    return {'slice': 'run_slice', 'stitch': 'run_stitch', 'unslice': 'run_unslice'}[case['kind']]

def _cell(c):
    return 'None' if c is None else 'Some (%d)' % c
def _bound(b):
    if b is None: return 'BNone'
    return '(%s (%d))' % ('BAt' if b[0] == 'at' else 'BTod', b[1])
def _frame(ts, rows):
    return '[' + '; '.join('((%d), [%s])' % (t, '; '.join(_cell(c) for c in r)) for t, r in zip(ts, rows)) + ']'
def _series(s):
    return '[' + '; '.join('((%d), %s)' % (t, _cell(v)) for t, v in s) + ']'
def _zl(l):
    return '[' + '; '.join('(%d)' % x for x in l) + ']'
def _oc(case):
    return '"%s"' % ('(]' if case.get('oc') is None else case['oc'])

def coq_case(case):
    k = case['kind']
    if k == 'slice':
        return '(%d, %s, %s, %s, (%s : frame), "%s")' % (day_of(case), _oc(case), _bound(case['lb']), _bound(case['ub']), _frame(case['ts'], case['rows']), case['form'])
    ss = '([' + '; '.join(_series(s) for s in case['ss']) + '] : list ts)'
    if k == 'stitch':
        b = {'ub': lambda: 'UbList ' + _zl(case['ubs']), 'lb': lambda: 'LbList ' + _zl(case['lbs']),
             'both': lambda: 'BothLists %s %s' % (_zl(case['lbs']), _zl(case['ubs']))}[case['mode']]()
        one = lambda n: '(%d, %s, %d%%nat, %s, (%s))' % (DAY, _oc(case), n, ss, b)
        return '[' + '; '.join(one(n) for n in case['n_seq']) + ']' if case.get('n_seq') else one(case['n'])
    return '(%d, %d%%nat, %s, %s)' % (DAY, case['n'], ss, _zl(case['ubs']))

# ------------------------------------------------------------------ implementation side
def impl_setup():
    global np, pd, df_slice, df_unslice
    import numpy as np, pandas as pd
    from pyg_base import df_slice, df_unslice

def T(h):
    if UNIT == 'ns':
        return pd.Timestamp(pd.Timestamp(E0).value + h)
    return E0 + (datetime.timedelta(microseconds=h) if UNIT == 'us' else datetime.timedelta(hours=h))
def H(x):
    if UNIT == 'ns':
        return int(pd.Timestamp(x).value - pd.Timestamp(E0).value)
    d = x - E0
    if UNIT == 'us':
        return (d.days * 86400 + d.seconds) * 10 ** 6 + d.microseconds
    s = d.total_seconds()
    return int(s // 3600) if s % 3600 == 0 else 'frac:%r' % s

BFORM = 'datetime'
def py_bound(b):
    if b is None: return None
    if b[0] == 'at':
        t = T(b[1])
        if UNIT == 'ns':      # only spellings that can carry nanoseconds: np.datetime64[ns] (what ts.index.values holds) or pd.Timestamp
            return t if BFORM == 'Timestamp' else np.datetime64(t.value, 'ns')
        midnight = (t.hour, t.minute, t.second, t.microsecond) == (0, 0, 0, 0)
        if BFORM == 'Timestamp': return pd.Timestamp(t)
        if BFORM == 'np': return np.datetime64(t)
        if BFORM == 'date' and midnight: return t.date()
        if BFORM == 'str' and midnight: return t.strftime('%Y-%m-%d')
        if BFORM == 'int' and midnight and t.year >= 1000: return t.year * 10000 + t.month * 100 + t.day
        return t
    if UNIT == 'us':
        q, us = divmod(b[1], 10 ** 6)
        return datetime.time(q // 3600, q // 60 % 60, q % 60, us)
    return datetime.time(hour=b[1])

def py_bound_list(xs, all_xs):
    """one spelling for the whole list: date / str / int spellings only when every bound of the call is at midnight"""
    global BFORM
    keep = BFORM
    if BFORM in ('date', 'str', 'int') and any(x % 24 for x in all_xs):
        BFORM = 'datetime'
    try:
        return [py_bound(['at', x]) for x in xs]
    finally:
        BFORM = keep

def fl(v):
    return np.nan if v is None else np.inf if v == PINF else -np.inf if v == NINF else float(v)

def mk_series(s, name=None, elem='S'):
    x = pd.Series([fl(v) for _, v in s], pd.DatetimeIndex([T(t) for t, _ in s]), dtype=float, name=_nm(name))
    return x.to_frame(name=0 if name is None else _nm(name)) if elem == 'D1' else x      # 'D1': a one-column DataFrame

def mk_list(case):
    names = case.get('names') or [None] * len(case['ss'])
    return [mk_series(s, nm, case.get('elem', 'S')) for s, nm in zip(case['ss'], names)]

def _nm(x):
    return tuple(x) if isinstance(x, list) else x
def build_slice_arg(case):
    if case.get('objidx'):      # a timeseries whose index is an object-dtype Index of datetimes (the library's is_ts accepts it)
        idx = pd.Index([T(t) for t in case['ts']], dtype=object, name=case.get('iname'))
    else:
        idx = pd.DatetimeIndex([T(t) for t in case['ts']], name=case.get('iname'))
    if case['form'] == 'I':
        return idx
    a = np.array([[fl(c) for c in r] for r in case['rows']], dtype=float).reshape(len(case['rows']), case['k'])
    if case['form'] == 'S':
        return pd.Series(a[:, 0], idx, name=_nm(case.get('name')))
    return pd.DataFrame(a, idx, columns=None if case.get('cols') is None else [_nm(c) for c in case['cols']])

def canon_cell(v):
    v = float(v)
    if math.isnan(v): return 'NaN'
    if math.isinf(v): return PINF if v > 0 else NINF
    return int(v) if v == int(v) else 'x' + v.hex()

def observe(x):
    if x is None:
        return None
    if isinstance(x, pd.Series):
        return ['S', [H(i) for i in x.index], [[canon_cell(v)] for v in x.values]]
    if isinstance(x, pd.DataFrame):
        return ['D', [H(i) for i in x.index], [[canon_cell(v) for v in r] for r in x.values]]
    if isinstance(x, pd.DatetimeIndex):
        return ['I', [H(i) for i in x], [[] for _ in x]]
    return ['?' + type(x).__name__, [], []]

def canon_ties(o, before):
    """sort_index leaves the order of rows that share a timestamp unspecified: put each such group in the order in which the
    rows are stored in the input (rows are matched by timestamp and cells; the comparison is a multiset comparison per timestamp)"""
    pool = {}
    for i, (t, r) in enumerate(zip(before[1], before[2])):
        pool.setdefault((t, repr(r)), []).append(i)
    keyed = []
    for pos, (t, r) in enumerate(zip(o[1], o[2])):
        idxs = pool.get((t, repr(r)))
        keyed.append(((t, idxs.pop(0)) if idxs else (t, 10 ** 9 + pos), t, r))
    out_t, out_r = [], []
    j = 0
    while j < len(keyed):
        e = j
        while e < len(keyed) and keyed[e][1] == keyed[j][1]:
            e += 1
        for _, t, r in sorted(keyed[j:e], key=lambda q: q[0]):
            out_t.append(t); out_r.append(r)
        j = e
    return [o[0], out_t, out_r]

# ---- property text as plain loops
def closed(ch):
    return ch in '[]cC'
def in_window(t, lb, ub, oc):
    """lb < or <= t and t < or <= ub as the two bracket characters prescribe; times of day compare the row's time of day;
    a window of times whose start is later than its end wraps past midnight"""
    l, u = closed(oc[0]), closed(oc[1])
    def lo(b):
        if b is None: return True
        x = t if b[0] == 'at' else t % (DAY_US if UNIT == 'us' else DAY)
        return b[1] <= x if l else b[1] < x
    def hi(b):
        if b is None: return True
        x = t if b[0] == 'at' else t % (DAY_US if UNIT == 'us' else DAY)
        return x <= b[1] if u else x < b[1]
    if lb is not None and ub is not None and lb[0] == 'tod' and ub[0] == 'tod' and lb[1] > ub[1]:
        return lo(lb) or hi(ub)
    return lo(lb) and hi(ub)

def expected_stitch(ss, lbs, ubs, oc, n):
    """(timestamps, rows): interval i takes its rows from series i (column j from series i+j); bounds in ascending order"""
    out_t, out_r = [], []
    width = min(max(n, 1), len(ss))
    for i in range(len(ss)):
        window = ss[i:i + max(n, 1)]
        keys = sorted(set(t for s in window for t, _ in s))
        for t in keys:
            if in_window(t, lbs[i], ubs[i], oc):
                row = []
                for s in window:
                    d = dict(s)
                    v = d.get(t)
                    row.append('NaN' if v is None else v)
                row += ['NaN'] * (width - len(row))
                out_t.append(t); out_r.append(row)
    return out_t, out_r

def stitch_bounds(case):
    """ascending (series, lb, ub) triples as the property reads a bound list"""
    ss = [list(map(tuple, s)) for s in case['ss']]
    at = lambda x: None if x is None else ('at', x)
    if case['mode'] == 'ub':
        ubs = list(case['ubs'])
        if any(a > b for a, b in zip(ubs, ubs[1:])): ubs, ss = ubs[::-1], ss[::-1]
        lbs = [None] + ubs[:-1]
    elif case['mode'] == 'lb':
        lbs = list(case['lbs'])
        if any(a > b for a, b in zip(lbs, lbs[1:])): lbs, ss = lbs[::-1], ss[::-1]
        ubs = lbs[1:] + [None]
    else:
        lbs, ubs = list(case['lbs']), list(case['ubs'])
        if any(a > b for a, b in zip(lbs, lbs[1:])): lbs, ubs, ss = lbs[::-1], ubs[::-1], ss[::-1]
    return ss, [at(x) for x in lbs], [at(x) for x in ubs]

def stitch_once(case, first, ss_objs, args):
    """one df_slice(list, lb / ub lists, openclose, n) call judged on its own: (observation, violation, status)"""
    viol = None
    before = [observe(s) for s in ss_objs]
    try:
        # the first stitching clause is about the DEFAULT n: leave the argument out when the case says so
        r = df_slice(first, **args) if (case['n'] == 1 and case.get('n_omit')) else df_slice(first, n=case['n'], **args)
    except Exception as e:
        name = type(e).__name__
        expected_err = case['mode'] == 'both' and _dir(case['lbs']) != _dir(case['ubs'])
        return ['ERR', name], (None if expected_err else 'df_slice raised %s: %s' % (name, str(e)[:100])), name
    o = observe(r)
    want_kind = 'D' if (case['n'] > 1 or case.get('elem') == 'D1') else 'S'
    kind_ok = r is None or o[0] == want_kind
    if o is not None and case.get('elem') == 'D1' and case['n'] <= 1 and o[0] == 'D' and all(len(row) == 1 for row in o[2]):
        o = ['S'] + o[1:]        # one-column frames stitched with n = 1 give a one-column frame: same cells as the Series the model returns
    if [observe(s) for s in ss_objs] != before:
        viol = 'df_slice modified one of the series'
    elif not kind_ok:
        viol = 'stitching %d %s with n=%d returned a %s' % (len(ss_objs), 'one-column frames' if case.get('elem') == 'D1' else 'series', case['n'], o[0])
    elif not case['ss']:
        if r is not None: viol = 'empty list of series gave %r' % (o,)
    else:
        ss, lbs, ubs = stitch_bounds(case)
        oc = '(]' if case.get('oc') is None else case['oc']
        et, er = expected_stitch(ss, lbs, ubs, oc, case['n'])
        if o[1] != et or o[2] != er:
            viol = ('df_slice(series %r, lb=%r, ub=%r, %r, n=%d) = index %r values %r; taking interval i from series i (column j from series i+j) gives %r %r'
                    % (case['ss'], case.get('lbs'), case.get('ubs'), oc, case['n'], o[1], o[2], et, er))
        elif case['n'] > 1 and list(r.columns) != list(range(r.shape[1])):
            viol = 'n=%d: the columns are labelled %r, not by position 0..%d (series names %r)' % (case['n'], list(r.columns), r.shape[1] - 1, case.get('names'))
        elif len(set(o[1])) != len(o[1]) and _strict(case) and closed(oc[0]) != closed(oc[1]):
            viol = 'a timestamp occurs twice in the stitched result: %r' % (o[1],)
    return o, viol, 'ok'

def impl(case):
    global UNIT, E0
    UNIT = case.get('unit', 'h')
    E0 = EPOCHS[case.get('epoch', '2020')]       # far past / far future series use the same relative timestamps
    k = case['kind']
    viol = None
    global BFORM
    BFORM = case.get('bform', 'datetime')
    if k == 'slice':
        x = build_slice_arg(case)
        before = observe(x)
        lb, ub = py_bound(case['lb']), py_bound(case['ub'])
        oc = case.get('oc')
        oc_eff = '(]' if oc is None else ('[)' if oc == '' else oc)       # default of df_slice; '' falls back to '[)'
        valid = len(oc_eff) == 2 and all(c in '()[]oOcC' for c in oc_eff)
        parsed = bool(case['ts']) and not (case['lb'] is None and case['ub'] is None)   # brackets only matter then
        try:
            if case.get('kw'):
                kw = {key: val for key, val in (('lb', lb), ('ub', ub), ('openclose', oc)) if val is not None or key == 'openclose' and oc is not None}
                if oc is None: kw.pop('openclose', None)
                r = df_slice(x, **kw)
            elif case.get('tuple'):
                r = df_slice(x, (lb, ub)) if oc is None else df_slice(x, (lb, ub), None, oc)
            elif oc is None:
                r = df_slice(x, lb, ub)
            else:
                r = df_slice(x, lb, ub, oc)
        except Exception as e:
            name = type(e).__name__
            ok = (not valid) and parsed and name == 'ValueError'
            return {'status': name, 'obs': ['ERR', name], 'viol': None if ok else 'df_slice raised %s: %s' % (name, str(e)[:100])}
        o = observe(r)
        wrap = bool(case['lb'] and case['ub'] and case['lb'][0] == 'tod' and case['ub'][0] == 'tod' and case['lb'][1] > case['ub'][1])
        if wrap and parsed:
            o = canon_ties(o, before)
        if observe(x) != before:
            viol = 'df_slice modified its argument'
        elif o[0] != case['form']:
            viol = 'df_slice(%s) returned %s' % (case['form'], o[0])
        elif case['form'] == 'S' and r.name != x.name:
            viol = 'df_slice(Series named %r) returned a Series named %r' % (x.name, r.name)
        elif case['form'] == 'D' and list(r.columns) != list(x.columns):
            viol = 'df_slice(DataFrame with columns %r) returned columns %r' % (list(x.columns), list(r.columns))
        elif (r.name if case['form'] == 'I' else r.index.name) != (x.name if case['form'] == 'I' else x.index.name):
            viol = 'df_slice changed the index name %r' % (case.get('iname'),)
        elif parsed and not valid:
            viol = 'malformed bracket string %r accepted' % (oc,)
        else:
            keep = [i for i, t in enumerate(case['ts']) if not parsed or in_window(t, case['lb'], case['ub'], oc_eff)]
            if wrap and parsed:      # the two half windows are concatenated and put in time order; rows sharing a timestamp: any order
                keep = sorted(keep, key=lambda i: (case['ts'][i], i))
            exp = [[case['ts'][i] for i in keep], [before[2][i] for i in keep]]
            if o[1:] != exp:
                viol = ('df_slice(index %r, lb=%r, ub=%r, %r) kept index %r values %r; the rows inside the window are %r %r'
                        % (case['ts'], case['lb'], case['ub'], 'default' if oc is None else oc, o[1], o[2], exp[0], exp[1]))
        return {'status': 'ok', 'obs': o, 'viol': viol}
    if k == 'stitch':
        # the caller's own argument objects: built once, re-read after every call, and REUSED by the calls of a sequence (n_seq)
        ss_objs = mk_list(case)
        lbs = case.get('lbs') if (case['mode'] != 'ub' or case.get('single')) else None
        ubs = case.get('ubs') if (case['mode'] != 'lb' or case.get('single')) else None
        both = (lbs or []) + (ubs or [])
        args = {}
        if lbs is not None: args['lb'] = py_bound_list(lbs, both)
        if ubs is not None: args['ub'] = py_bound_list(ubs, both)
        if case.get('oc') is not None: args['openclose'] = case['oc']
        first = ss_objs[0] if case.get('single') else ss_objs
        ns = case.get('n_seq') or [case['n']]
        out = []; viol = None; status = 'ok'
        for q, n in enumerate(ns):
            snap = (repr(args.get('lb')), repr(args.get('ub')), [id(x) for x in ss_objs])
            o, v, st = stitch_once(dict(case, n=n), first, ss_objs, args)
            now = (repr(args.get('lb')), repr(args.get('ub')), [id(x) for x in ss_objs])
            if now != snap and v is None:
                what = 'lower-bound list' if now[0] != snap[0] else 'upper-bound list' if now[1] != snap[1] else 'list of series'
                v = 'df_slice modified the caller\'s %s: %s -> %s' % (what, snap[0] if now[0] != snap[0] else snap[1] if now[1] != snap[1] else 'order', now[0] if now[0] != snap[0] else now[1] if now[1] != snap[1] else 'changed')
            out.append(o)
            if st != 'ok': status = st
            if v and viol is None:
                viol = v if len(ns) == 1 else 'call %d (n=%d) of a sequence reusing the same series / bound list objects: %s' % (q + 1, n, v)
        return {'status': status, 'obs': out[0] if not case.get('n_seq') else out, 'viol': viol}
    # unslice round trip
    ss_objs = mk_list(case)
    ubs = [T(u) for u in case['ubs']]
    try:
        f = df_slice(ss_objs, ub=py_bound_list(case['ubs'], case['ubs'])) if (case['n'] == 1 and case.get('n_omit')) else df_slice(ss_objs, ub=py_bound_list(case['ubs'], case['ubs']), n=case['n'])
        r = df_unslice(f, ubs)
        keys = list(r.keys())
        f2 = df_slice(list(r.values()), ub=keys, n=case['n'])
    except Exception as e:
        name = type(e).__name__
        return {'status': name, 'obs': ['ERR', name], 'viol': 'df_slice / df_unslice round trip raised %s: %s' % (name, str(e)[:100])}
    of, of2 = observe(f), observe(f2)
    rs = [[H(u), [[H(i), canon_cell(v)] for i, v in zip(s.index, s.values)]] for u, s in r.items()]
    ubs_b = [('at', u) for u in case['ubs']]
    et, er = expected_stitch([list(map(tuple, s)) for s in case['ss']], [None] + ubs_b[:-1], ubs_b, '(]', case['n'])
    if of[1] != et or of[2] != er:
        viol = ('df_slice(series %r, ub=%r, n=%d) = index %r values %r; taking interval i from series i (column j from series i+j) gives %r %r'
                % (case['ss'], case['ubs'], case['n'], of[1], of[2], et, er))
    elif [u for u, _ in rs] != list(case['ubs']):
        viol = 'df_unslice returned keys %r for bounds %r' % ([u for u, _ in rs], case['ubs'])
    elif of2 != of:
        viol = ('stitching the series recovered by df_unslice gives index %r values %r, the stitched frame was %r %r (series %r, ub %r, n=%d)'
                % (of2[1], of2[2], of[1], of[2], case['ss'], case['ubs'], case['n']))
    else:
        for m, (u, s) in enumerate(rs):        # each recovered series is part of the series that belongs to that bound
            src = dict(map(tuple, case['ss'][m]))
            for t, v in s:
                if src.get(t) != v:
                    viol = 'series recovered for bound %r has %r at %r, the original series has %r' % (u, v, t, src.get(t)); break
            if viol: break
    return {'status': 'ok', 'obs': [of, rs, of2], 'viol': viol}

def _dir(l):
    return all(a <= b for a, b in zip(l, l[1:]))
def _strict(case):
    for key in ('lbs', 'ubs'):
        l = case.get(key)
        if l and not (all(a < b for a, b in zip(l, l[1:])) or all(a > b for a, b in zip(l, l[1:]))):
            return False
    if case['mode'] == 'both':
        lbs, ubs = case['lbs'], case['ubs']
        if not _dir(lbs): lbs, ubs = lbs[::-1], ubs[::-1]
        return all(ubs[i] <= lbs[i + 1] for i in range(len(lbs) - 1))
    return True

def nontrivial(case, result):
    if case['kind'] != 'slice':
        return len(case['ss']) > 1
    for b in (case['lb'], case['ub']):
        if b is not None and (b[0] == 'tod' or b[1] in case['ts']):
            return True
    return False

def shape(case):
    if case['kind'] == 'slice':
        f = lambda b: 'none' if b is None else b[0]
        oc = case.get('oc')
        ocs = 'default' if oc is None else (oc if oc in BRACKETS else ('alias' if len(oc) == 2 and all(c in 'oOcC()[]' for c in oc) else 'malformed'))
        wrap = ':wrap' if (case['lb'] and case['ub'] and case['lb'][0] == 'tod' and case['ub'][0] == 'tod' and case['lb'][1] > case['ub'][1]) else ''
        return 'slice:%s:%s:%s%s%s%s%s' % (f(case['lb']), f(case['ub']), ocs, wrap, ':' + case['unit'] if case.get('unit') else '', ':long' if case.get('long') else '', ':index' if case['form'] == 'I' else '') + (':objidx' if case.get('objidx') else '') + (':' + case['order'] if case.get('order') else '')
    if case['kind'] == 'stitch':
        l = case['lbs'] if case['mode'] == 'lb' else case['ubs']
        return 'stitch:%s:%s:n%d%s%s%s' % (case['mode'], 'inc' if _dir(l) else 'dec', min(case['n'], 3), ':single' if case.get('single') else '',
                                        ':named' if case.get('names') and any(x is not None for x in case['names']) else '', ':frames' if case.get('elem') == 'D1' else '') + (':seq%d' % len(case['n_seq']) if case.get('n_seq') else '')
    return 'unslice:n%d' % min(case['n'], 3)

# ------------------------------------------------------------------ generation
def rand_index(rng, n):
    ts = []; t = rng.choice([0, 0, 6, -12, 18])
    for _ in range(n):
        ts.append(t)
        t += rng.choice([6, 6, 6, 12, 12, 18, 24, 30, 48])
    return ts

def rand_bound(rng, ts):
    r = rng.random()
    if r < 0.2: return None
    if not ts:
        return ['at', rng.choice([0, 12, 15])] if r < 0.6 else ['tod', rng.choice([6, 18])]
    if r < 0.55:
        lo, hi = min(ts), max(ts)
        return ['at', rng.choice([lo - 9, lo - 3, lo, hi, hi + 3, hi + 12] + ([rng.choice(ts)] * 4) + [rng.choice(ts) + rng.choice([-3, 3, 9])] * 3)]
    return ['tod', rng.choice([0, 3, 6, 9, 12, 15, 18, 21, 6, 18])]

def name_series(rng, c, m):
    """the listed series may carry names (contract codes, all the same name, some unnamed, ints) or be one-column frames"""
    q = rng.random()
    if q < 0.15: c['names'] = ['%s%d' % ('HMUZ'[i % 4], i // 4) for i in range(m)]
    elif q < 0.3: c['names'] = ['close'] * m
    elif q < 0.42: c['names'] = [rng.choice([None, 'close', 'H0', 'px']) for _ in range(m)]
    elif q < 0.5: c['names'] = [rng.choice([0, 1, m - 1 - i]) for i in range(m)]
    if rng.random() < 0.15:
        c['elem'] = 'D1'
        if c['n'] <= 1:                      # with n = 1 the frames are concatenated as they are: same column label (see report)
            lab = rng.choice([None, 'close', 0])
            c['names'] = [lab] * m
    return c

def obj_index(rng, c, p=0.15):
    """object-dtype index of datetimes; date bounds only (index.time does not exist on an object Index: reported, not generated)"""
    tod = any(b is not None and b[0] == 'tod' for b in (c['lb'], c['ub']))
    if c['form'] in 'SD' and c['ts'] and not tod and rng.random() < p:
        c['objidx'] = True
    return c

BFORMS = ['datetime', 'datetime', 'Timestamp', 'np', 'date', 'str', 'int']
def decorate(rng, c):
    """names, spellings, call forms and eras that must not matter"""
    r = rng.random
    if c['kind'] == 'slice':
        if r() < 0.4: c['name'] = rng.choice(['px', 'a b', 0, ('t', 1)])
        if r() < 0.5: c['cols'] = rng.choice([['a', 'b'], ['z', 'y'], [10, 5], ['a', 'a'], [('p', 1), ('p', 2)]])[:c['k']]
        if r() < 0.3: c['iname'] = rng.choice(['date', 't'])
        if r() < 0.25 and not c.get('tuple'): c['kw'] = True
    if c['kind'] != 'slice' and r() < 0.6: c['n_omit'] = True       # n = 1 given by default rather than explicitly
    if r() < 0.5: c['bform'] = rng.choice(BFORMS)
    if r() < 0.3 and c.get('unit') != 'us': c['epoch'] = rng.choice(['1700', '1970', '2250'])
    return c

def slice_case(ts, k, form, lb, ub, oc, vals=None, **kw):
    if form == 'S': k = 1
    if form == 'I': k = 0
    rows = [[100 * (j + 1) + i for j in range(k)] for i in range(len(ts))] if vals is None else vals
    return dict(kw, kind='slice', ts=list(ts), k=k, form=form, rows=rows, lb=lb, ub=ub, oc=oc)

def rand_series(rng, base):
    n = rng.choice([0, 1, 2, 3, 4, 5, 6])
    ts = rand_index(rng, n)
    return [[t, None if rng.random() < 0.1 else rng.choice([PINF, NINF]) if rng.random() < 0.1 else base + i] for i, t in enumerate(ts)]

def rand_ubs(rng, m, strict=False):
    u = rng.choice([-6, 0, 6, 12, 15]); out = []
    for _ in range(m):
        out.append(u)
        u += rng.choice([6, 12, 12, 18, 24, 36, 9] + ([] if strict else [0]))
    return out

def gen_cases(rng, tier):
    quick = tier == 'quick'
    cases = []
    # A. one fixed series, every pair of bound positions (before / on / between / after, times of day) x four brackets
    fixed = [0, 6, 12, 18, 24, 36, 48]
    pos = [None] + [['at', h] for h in (-6, 0, 3, 6, 12, 18, 21, 24, 30, 36, 48, 54)] + [['tod', h] for h in (0, 3, 6, 9, 12, 15, 18, 21)]
    t = 0
    for lb in pos:
        for ub in pos:
            for oc in BRACKETS:
                t += 1
                cases.append(slice_case(fixed, 1 + t % 2, 'S' if t % 3 else 'D', lb, ub, oc))
    # B. random single slices incl. default / alias / malformed bracket strings, empty series, NaN values
    for _ in range(2500 if quick else 40000):
        n = rng.choice([0, 1, 2, 3, 5, 8]); ts = rand_index(rng, n)
        form = rng.choice(['S', 'S', 'S', 'D', 'D', 'D', 'I']); k = 1 if form == 'S' else rng.choice([1, 2])
        r = rng.random()
        oc = rng.choice(BRACKETS) if r < 0.6 else None if r < 0.7 else rng.choice(['oc', 'co', 'cc', 'oo', 'OC', 'c)', '[o', '']) if r < 0.9 else rng.choice(['x]', '[', '[]]', '<>', '[ '])
        vals = [[None if rng.random() < 0.15 else rng.choice([PINF, NINF]) if rng.random() < 0.1 else 100 * (j + 1) + i for j in range(k)] for i in range(n)]
        lb, ub = rand_bound(rng, ts), rand_bound(rng, ts)
        tup = rng.random() < 0.05 and ub is not None
        if form == 'I' and lb and ub and lb[0] == 'tod' and ub[0] == 'tod' and lb[1] > ub[1]:
            form = 'S'; k = 1; vals = [r[:1] for r in vals]      # pd.concat in the wrap-around arm does not take an Index (left open)
        c = decorate(rng, slice_case(ts, k, form, lb, ub, oc, vals if form != 'I' else [[] for _ in ts], tuple=tup))
        if form == 'I' and c.get('bform') in ('date', 'str', 'int'): c['bform'] = 'Timestamp'   # bounds are not passed through dt() for an Index
        obj_index(rng, c)
        cases.append(c)
    # B2. long series (150-400 points, hourly grid with gaps), bounds inside / on points / outside, dates and times of day
    for _ in range(40 if quick else 600):
        n = rng.choice([150, 257, 400]); ts = []; t0 = rng.choice([0, -240])
        for _ in range(n):
            ts.append(t0); t0 += rng.choice([1, 1, 2, 5, 24, 49])
        form = rng.choice(['S', 'D']); k = 1 if form == 'S' else 2
        def bnd():
            q = rng.random()
            if q < 0.15: return None
            if q < 0.7: return ['at', rng.choice(ts) + rng.choice([0, 0, 1, -1, 12])]
            return ['tod', rng.randrange(0, 24)]
        cases.append(decorate(rng, slice_case(ts, k, form, bnd(), bnd(), rng.choice(BRACKETS + [None]), long=True)))
    # E. sub-second times of day (unit = microseconds): rows 300 ms / 1 us before, at, and 1 us / 250 ms / just under 1 s after
    #    each bound's time of day, bounds with and without microseconds, single and wrap-around windows, all four brackets
    S = 10 ** 6
    tods = [10 * 3600 * S, 10 * 3600 * S + 250000, 0, 1, DAY_US - 1, 18 * 3600 * S + 999999, 6 * 3600 * S + 500000, 12 * 3600 * S]
    deltas = [-300000, -1, 0, 1, 250000, 999999, S]
    def us_rows(bounds, days, ds):
        ts = sorted(set(d * DAY_US + b + x for d in days for b in bounds for x in ds))
        return ts
    pairs = [(tods[0], tods[5]), (tods[1], tods[7]), (tods[2], tods[0]), (tods[3], tods[4]), (tods[6], tods[1]), (tods[0], tods[1])]
    t = 0
    for a, b in pairs:
        a, b = min(a, b), max(a, b)
        ts = us_rows([a, b], [0, 1, 3], deltas)
        for lb, ub in ((a, b), (b, a), (None, b), (None, a), (a, None), (b, None), (a, a)):
            for oc in BRACKETS:
                t += 1
                cases.append(slice_case(ts, 1 + t % 2, 'S' if t % 2 else 'D', None if lb is None else ['tod', lb], None if ub is None else ['tod', ub], oc, unit='us'))
    for _ in range(600 if quick else 10000):
        a, b = rng.choice(tods), rng.choice(tods)
        if rng.random() < 0.3: a = rng.randrange(DAY_US)
        if rng.random() < 0.3: b = a + rng.choice([-1, 1, 250000, -250000, 0]) if 250000 < a < DAY_US - 250000 else b
        ts = us_rows([a, b], rng.sample([0, 1, 2, 5], rng.choice([1, 2])), rng.sample(deltas, rng.choice([2, 3, 5])) + [0])
        form = rng.choice(['S', 'D']); k = 1 if form == 'S' else rng.choice([1, 2])
        lb = rng.choice([None, ['tod', a], ['tod', a], ['at', rng.choice(ts) + rng.choice([0, 1, -1])]])
        ub = rng.choice([None, ['tod', b], ['tod', b], ['at', rng.choice(ts) + rng.choice([0, 1, -1])]])
        cases.append(slice_case(ts, k, form, lb, ub, rng.choice(BRACKETS + [None]), unit='us'))
    # G. index stored out of time order (shuffled, newest first) and / or with repeated timestamps (2-3 rows per stamp,
    #    distinct values): dates and times of day, bounds on / between points, all four brackets, single and wrap-around windows
    for _ in range(1500 if quick else 25000):
        base = rand_index(rng, rng.choice([2, 3, 4, 6, 8]))
        mode = rng.choice(['shuffle', 'desc', 'dup', 'dup', 'dup+shuffle', 'dup+desc'])
        ts = list(base)
        if 'dup' in mode:
            for t0 in rng.sample(base, rng.randrange(1, min(3, len(base)) + 1)):
                ts += [t0] * rng.choice([1, 1, 2])
            ts.sort()
        if 'shuffle' in mode: rng.shuffle(ts)
        if 'desc' in mode: ts = ts[::-1]
        form = rng.choice(['S', 'D']); k = 1 if form == 'S' else 2
        vals = [[100 * (j + 1) + i if (j == 0 or rng.random() < 0.8) else None for j in range(k)] for i in range(len(ts))]
        def bnd():
            q = rng.random()
            if q < 0.15: return None
            if q < 0.6: return ['at', rng.choice(ts) + rng.choice([0, 0, 0, 3, -3])]
            return ['tod', rng.choice([0, 6, 12, 18, rng.choice(ts) % 24, 3, 21])]
        lb, ub = bnd(), bnd()
        if rng.random() < 0.25:
            a, b = sorted(rng.sample([0, 3, 6, 12, 18, 21], 2)); lb, ub = ['tod', b], ['tod', a]      # wrap-around
        cases.append(obj_index(rng, decorate(rng, slice_case(ts, k, form, lb, ub, rng.choice(BRACKETS + BRACKETS + [None]), vals, order=mode))))
    # N. nanosecond stamps: rows 1 / 250 / 999 / 1000 / 1001 / 1500 ns around a few anchors, bounds taken from the index values
    #    (np.datetime64[ns]) or 1 / 250 ns beside them, or pd.Timestamp; all four brackets; dates only (datetime.time has no nanoseconds)
    for _ in range(700 if quick else 10000):
        anchors = rng.sample([0, 3600 * 10 ** 9, DAY_NS + 10 ** 6, 2 * DAY_NS + 123456789], rng.choice([1, 2, 3]))
        ts = sorted(set(a + x for a in anchors for x in rng.sample([0, 1, 250, 500, 999, 1000, 1001, 1500, 2250], rng.choice([2, 3, 5]))))
        form = rng.choice(['S', 'D']); k = 1 if form == 'S' else 2
        def bnd():
            q = rng.random()
            if q < 0.15: return None
            return ['at', rng.choice(ts) + rng.choice([0, 0, 0, 1, -1, 250, -250, 999])]
        c = slice_case(ts, k, form, bnd(), bnd(), rng.choice(BRACKETS + BRACKETS + [None]), unit='ns', bform=rng.choice(['np', 'np', 'Timestamp']))
        if rng.random() < 0.3: c['kw'] = True
        if rng.random() < 0.3: c['name'] = 'px'
        cases.append(c)
    # C. stitching
    for _ in range(1500 if quick else 25000):
        m = rng.choice([1, 2, 2, 3, 3, 4, 4, 6, 8])
        ss = [rand_series(rng, 1000 * (i + 1)) for i in range(m)]
        n = rng.randrange(1, m + 1)
        mode = rng.choice(['ub', 'ub', 'ub', 'lb', 'both'])
        ubs = rand_ubs(rng, m)
        c = decorate(rng, dict(kind='stitch', ss=ss, n=n, mode=mode, oc=rng.choice([None, None, None, '(]', '[)', '[]', '()'])))
        dec = rng.random() < 0.3
        name_series(rng, c, m)
        if rng.random() < 0.1:               # one series, several windows: df_slice(ts, [lb...], [ub...])
            delta = rng.choice([6, 12, 3])
            c.update(mode='both', single=True, n=1, ss=[ss[0]] * m, lbs=[x - delta for x in ubs], ubs=ubs)
            cases.append(c); continue
        if mode == 'ub': c['ubs'] = ubs[::-1] if dec else ubs
        elif mode == 'lb': c['lbs'] = ubs[::-1] if dec else ubs
        else:
            delta = rng.choice([6, 12, 3]); lbs = [u - delta for u in ubs]
            if rng.random() < 0.5:           # consecutive intervals
                lbs = [ubs[0] - 24] + ubs[:-1]
            mism = rng.random() < 0.05 and m > 1 and len(set(ubs)) > 1 and len(set(lbs)) > 1
            c['lbs'] = lbs[::-1] if (dec != mism) else lbs
            c['ubs'] = ubs[::-1] if dec else ubs
        cases.append(c)
    # C2. call sequences that REUSE the same series / bound list objects: stitch with n = 1, then again with another n (re-stitching);
    #     decreasing and increasing lists, ub / lb / both modes; every call judged on its own
    for _ in range(500 if quick else 8000):
        m = rng.choice([2, 3, 3, 4, 6])
        ss = [rand_series(rng, 1000 * (i + 1)) for i in range(m)]
        ubs = rand_ubs(rng, m, strict=True)
        mode = rng.choice(['ub', 'ub', 'lb', 'both'])
        c = dict(kind='stitch', ss=ss, mode=mode, oc=rng.choice([None, None, '(]', '[)']))
        dec = rng.random() < 0.6
        seq = [rng.randrange(1, m + 1) for _ in range(rng.choice([2, 2, 3]))]
        if rng.random() < 0.5: seq[0], seq[1] = 1, rng.randrange(2, m + 1)
        c['n_seq'] = seq; c['n'] = seq[0]
        if mode == 'ub': c['ubs'] = ubs[::-1] if dec else ubs
        elif mode == 'lb': c['lbs'] = ubs[::-1] if dec else ubs
        else:
            lbs = [ubs[0] - 24] + ubs[:-1]
            c['lbs'] = lbs[::-1] if dec else lbs; c['ubs'] = ubs[::-1] if dec else ubs
        name_series(rng, c, m)
        if c.get('elem') == 'D1': c.pop('elem'); 
        cases.append(decorate(rng, c))
    cases.append(dict(kind='stitch', ss=[], n=1, mode='ub', ubs=[], oc=None))
    # D. df_unslice round trip
    for _ in range(800 if quick else 12000):
        m = rng.choice([1, 2, 3, 3, 4, 6])
        ss = []
        for i in range(m):
            ts = rand_index(rng, rng.choice([0, 2, 3, 4, 6]))
            ss.append([[t, rng.choice([PINF, NINF]) if rng.random() < 0.1 else 1000 * (i + 1) + q] for q, t in enumerate(ts)])
        c = decorate(rng, dict(kind='unslice', ss=ss, n=rng.randrange(1, m + 1), ubs=rand_ubs(rng, m, strict=True)))
        q = rng.random()
        if q < 0.15: c['names'] = ['%s%d' % ('HMUZ'[i % 4], i // 4) for i in range(m)]
        elif q < 0.3: c['names'] = ['close'] * m
        elif q < 0.4: c['names'] = [rng.choice([None, 'close', 'H0']) for _ in range(m)]
        cases.append(c)
    return cases

def shrink(case):
    if case['kind'] == 'slice':
        n = len(case['ts'])
        for i in range(n):
            yield dict(case, ts=case['ts'][:i] + case['ts'][i + 1:], rows=case['rows'][:i] + case['rows'][i + 1:])
        if case['k'] > 1:
            yield dict(case, k=1, rows=[r[:1] for r in case['rows']])
        if case['form'] == 'D' and case['k'] == 1:
            yield dict(case, form='S')
        for key in ('lb', 'ub'):
            if case[key] is not None:
                yield dict(case, **{key: None})
    else:
        for i, s in enumerate(case['ss']):
            for q in range(len(s) if len(s) > 1 else 0):      # keep one row per series so that the shrunk input still shows data
                yield dict(case, ss=case['ss'][:i] + [s[:q] + s[q + 1:]] + case['ss'][i + 1:])
        if case.get('n_seq') and len(case['n_seq']) > 2:
            for i in range(len(case['n_seq'])):
                q = case['n_seq'][:i] + case['n_seq'][i + 1:]
                yield dict(case, n_seq=q, n=q[0])
        if case['n'] > 1 and not case.get('n_seq'):
            yield dict(case, n=case['n'] - 1)

LEVEL_TEXT = ('machine-checked Coq theorems (C13_*, series of any length, any bounds, any day length): single slice = filter of the rows inside the '
              'bracketed window for all four brackets (pandas fast path proved equal to the mask path on a sorted index), time-of-day bounds on '
              't mod day, wrap-around window = union of the two half windows, stitching (ub lists, lb lists, lb+ub lists, decreasing lists) takes '
              'interval i from the join of series i..i+n-1 with every timestamp at most once, df_unslice returns for each bound exactly the visible '
              'part of its series and df_unslice then stitch is the identity (general theorem C13_unslice_roundtrip, no bound on k, n or lengths); '
              'the model is compared in Coq with the real df_slice / df_unslice on thousands of generated cases and a property-text oracle '
              're-derives every expected row from the real outputs; single slices are proved and exercised for indexes in any stored order '
              '(shuffled, newest first) and with repeated timestamps (rows kept in stored order; wrap-around = same multiset, in time order)')
LEVEL_NOTE = ('trusted: Coq kernel/vm_compute; modelled not verified: pandas label slicing / masks / concat / sort_index (compared on every run). '
              'Hypotheses of the df_unslice theorems (shown satisfiable by C13_unslice_example): strictly increasing timestamps and bounds, '
              'non-NaN values (df_unslice drops NaN rows), as many bounds as series, 1 <= n <= k. The wrap-around window, the n-column join and '
              'df_unslice of a stitched Series are modelled as repaired (fix commits a7d160b, acd8f1e); the label-slice fast path is modelled as '
              'taken only on an index in time order (fixes/C13.patch: the current tree answers df[lb:ub] by POSITION on an unsorted index)')
TECHNIQUE = 'Coq proof (induction over sorted lists) over a transcribed model + differential correspondence in vm_compute + property-text oracle'
