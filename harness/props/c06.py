"""C06 - inc and exc partition a table; both keep the columns and the row order; find_<col>, one_or_none."""
import itertools, json, re
from implutil import err_name
from props.c01 import (cell_py, cell_obs, cell_coq, cval_coq, qs, clist, rowfn_coq, mk_rowfn, rowfn_args, ref_rowfn,
                       dump_table, snapshot, snap_equal, same, clauses)

ID = 'C06'
TRANSLATOR = []
COQ_EXEC = ['exec.X_filter']
COQ_IMPORTS = 'From PB Require Import model.M_table model.M_filter.\n'
PER_FILE = 400
CASE_TIMEOUT = 10
RULE = ('also SEQUENCES of 2-5 inc/exc calls in one process on shared tables (same code object, different captured data), every call made twice, table re-checked after every call; tables of 7-40 rows with few far-apart survivors. column names (tables, conditions, callable arguments, find_<col>) are drawn from a pool that includes id, name, date, f, n1, _x, find_me, dd '
        '(names built from / starting with the letters of "find_") besides a, b, c. '
        'cases: (table of 0-6 rows x 1-3 columns over {None, 0, 1, 1.0, 2, 2.5, shared NaN objects, "a", "ab", "b", ""}, condition, column for find_) '
        'where the condition is: nothing; 1-3 column conditions spelled as keyword filters, one positional dict, dict + keywords, two dicts, two dicts + keywords (incl. an empty dict, and a key occurring in two groups: the later group wins, as filters.update does) each a value / None / a NaN (the shared object or a fresh one) / '
        'a list of values (incl. lists holding NaN objects, empty lists) / a compiled literal regex, also compiled with re.I or as ^literal with re.M (mixed-case and multi-line cells); or one callable from the named set (coalesce, is_none, '
        'identity, eq). Conditions matching nothing and everything are forced. For each case d.inc(c), d.exc(c), d.inc(c).inc(c), d.find_<col>(c), '
        'd.one_or_none(c) and d itself afterwards are compared inside Coq with the model (and the model with the filter spec); the oracle recomputes '
        'the selected rows with a plain python predicate written from the property text and checks inc/exc rows and order, columns kept, identity, '
        'idempotence, the find_ clause, operands unchanged. plus every table <= 3 rows over {None, 1, NaN} x every single-filter condition over the same values. '
        'non-trivial = condition selecting a proper non-empty subset; distinct by (table, condition)')
EXPLANATION = ('theorems C06_* (coq/props/C06.v) hold for every rectangular table and every condition of the modelled language: the concrete algorithm '
               '(sequential masks / negated conjunction / rebuild through dict_concat / columns re-attached) equals filter / filter-negation on the records; '
               'partition, order, columns, identity, idempotence and find_ follow on the spec; the correspondence ties the concrete model to /repo')
TRUSTED = ['modelled, not verified: coq/model/M_filter.v + M_table.v (tied by the correspondence only)',
           'regexes restricted to literal patterns (re.escape): pattern.search = substring test; with re.I = substring test on ASCII-lowercased strings; "^" + literal with re.M = some line starts with it',
           'callables are also spelled with keyword-only parameters named after columns ((a, *, b), (*, a, b), (a, *, b=default): the column wins over the default); kwargs_support / callables restricted to the named set of M_table.rowfn (incl. data-capturing predicates `x in <list>` built as closures of one factory, bound methods, lambdas re-created in a loop)']
ASSUMPTIONS = ['cells are None, ints, half-integer floats, NaN objects, ASCII strings; +-inf cells and conditions are generated and modelled as the code does (pyg_base.is_nan counts inf as missing: inc(x=nan) also selects inf rows, inc(x=inf) NaN rows); the text does not decide the MEMBERSHIP of such rows, so the oracle claims for them only that inc/exc partition the rows in order and keep the columns',
               'a conjunction spelled across keyword filters and positional dicts is the flattened list kw ++ dict1 ++ dict2 (model: QFilters + dict_of); when one column gets two '
               'different conditions in one call the model follows the code (the later group wins) but the oracle only claims that inc/exc still partition the rows in order',
               'a call has either ONE callable or keyword/dict filters, as in the property text ("any single predicate ..., or any conjunction of column conditions"): '
               'mixed calls inc(f, col=v) / exc(f, col=v) are outside it - exc(f, col=v) drops the rows matching f OR the filters, so it is by design not the complement '
               'of inc(f, col=v); observed on the pinned tree and not claimed: inc(<callable matching nothing>, col=v) raises KeyError because the intermediate empty result has lost its columns',
               'only the SET of columns of inc/exc results is claimed (exc and keyword inc rebuild through dict_concat, which may reorder the keys); observations sort columns',
               'column names are ASCII identifiers other than data, columns, key, exc, find (parameter names of the API)']
EXHAUSTIVE = {'quick': False, 'thorough': False}
LEVEL_TEXT = ('machine-checked Coq theorems C06_* for all rectangular tables and all conditions (values, lists, None, NaN objects, literal regexes, dict filters, '
              'named callables) about a model of inc/exc/find_; model compared with the real dictable on thousands of generated (table, condition) pairs')
LEVEL_NOTE = 'model tied to the source by the differential run only; regexes literal only; NaN identity modelled by object ids'
TECHNIQUE = 'Coq refinement proof (sequential masks = filter by the conjunction) + differential correspondence in vm_compute + predicate oracle'

# column names: plain ones and names made only of the letters of 'find_' / starting with them (find_<col> must cut the PREFIX 'find_', not a character set)
NAMES = ['a', 'b', 'c', 'id', 'name', 'date', 'f', 'n1', '_x', 'find_me', 'dd', 'key', 'columns', 'data']
NAME_PAIRS = [('a', 'b'), ('id', 'name'), ('f', 'date'), ('_x', 'n1'), ('find_me', 'dd'), ('name', 'id'), ('dd', 'f'), ('columns', 'data'), ('data', 'a')]

def cond_coq(c):
    if 'v' in c: return '(CVal %s)' % cell_coq(c['v'])
    if 'l' in c: return '(CList %s)' % clist(cell_coq(x) for x in c['l'])
    return '(%s %s)' % ({'I': 'CRegexI', 'M': 'CRegexM'}.get(c.get('fl'), 'CRegex'), qs(c['re']))
def query_coq(q):
    if 'none' in q: return 'QNone'
    if 'f' in q: return '(QFun %s)' % ('(RIn %s %s)' % (qs(q['f'][1]), clist(cell_coq(x) for x in q['f'][2])) if q['f'][0] == 'in' else rowfn_coq(q['f']))
    return '(QFilters %s)' % clist('(%s, %s)' % (qs(k), cond_coq(c)) for k, c in q['filters'])
def coq_runner(case): return 'run_c06_steps' if 'steps' in case else 'run_c06'
def coq_case(case):
    if 'steps' in case:
        return clist('(%s, %s)' % (clist('(%s, %s)' % (qs(n), cval_coq(v)) for n, v in case['tables'][ti]), query_coq(q)) for ti, q in case['steps'])
    return '%s %s %s' % (clist('(%s, %s)' % (qs(n), cval_coq(v)) for n, v in case['kvs']), query_coq(case['q']), qs(case['fkey']))

def impl_setup():
    global dictable
    from pyg_base import dictable

def cond_py(c, conv):
    if 'v' in c: return conv(c['v'])
    if 'l' in c: return tuple(conv(x) for x in c['l']) if c.get('as') == 'tuple' else [conv(x) for x in c['l']]     # as_list(tuple) = list
    if c.get('fl') == 'I': return re.compile(re.escape(c['re']), re.I)
    if c.get('fl') == 'M': return re.compile('^' + re.escape(c['re']), re.M)
    return re.compile(re.escape(c['re']))

def call_with(method, q, conv):
    if 'none' in q: return method()
    if 'f' in q: return method(mk_pred(q['f'], conv, q.get('sig', 'pos')))
    kw, d1, d2 = groups_of(q)
    conv_ = lambda g: {k: cond_py(c, conv) for k, c in g}
    pos = ([conv_(d1)] if d1 is not None else []) + ([conv_(d2)] if d2 is not None else [])
    return method(*pos, **conv_(kw))

def groups_of(q):
    """the spelling of a conjunction of column conditions: keyword filters, then up to two positional dicts.
    q['filters'] is the flattened list kw ++ dict1 ++ dict2 (what filters.update(dict) builds: later entries win);
    q['groups'] = [n_kw, n_dict1, n_dict2] with n = None for 'no such argument'"""
    fs = q['filters']
    g = q.get('groups')
    if g is None: g = [0, len(fs), None] if q.get('form') == 'dict' else [len(fs), None, None]
    nk = g[0] or 0; n1 = g[1]; n2 = g[2]
    kw = fs[:nk]; d1 = None if n1 is None else fs[nk:nk + n1]; d2 = None if n2 is None else fs[nk + (n1 or 0):nk + (n1 or 0) + n2]
    return kw, d1, d2

def overlapping(q):
    seen = {}
    for k, c in q['filters']:
        if k in seen and seen[k] != json.dumps(c, sort_keys=True): return True
        seen[k] = json.dumps(c, sort_keys=True)
    return False

def is_subseq(a, b):
    i = 0
    for y in b:
        if i < len(a) and set(a[i]) == set(y) and all(same(a[i][k], y[k]) for k in y): i += 1
    return i == len(a)

def sat_cond(c, v, conv):
    """the property text: a value, a list of admissible values, None, NaN, or a compiled regex"""
    if 'v' in c:
        x = conv(c['v'])
        if x is None: return v is None
        inf_ = lambda z: isinstance(z, float) and z in (float('inf'), float('-inf'))
        nan_ = lambda z: isinstance(z, float) and z != z
        # a NaN condition against a +-inf cell (pyg's is_nan counts inf as missing), or an inf condition against a NaN / other-inf cell:
        # the text does not decide membership -> None; the partition / order / column laws are still claimed for such rows
        if (nan_(x) and inf_(v)) or (inf_(x) and (nan_(v) or (inf_(v) and v != x))): return None
        if nan_(x): return nan_(v)
        return v is x or v == x
    if 'l' in c: return any(v is x or v == x for x in (conv(y) for y in c['l']))
    if not isinstance(v, str): return False
    if c.get('fl') == 'I': return c['re'].lower() in v.lower()                    # compiled with re.I: the flags belong to the condition
    if c.get('fl') == 'M': return any(line.startswith(c['re']) for line in v.split('\n'))   # '^' + literal with re.M
    return c['re'] in v

def rows_of_snapshot(snap):
    ks = list(snap); n = len(snap[ks[0]]) if ks else 0
    return ks, [{k: snap[k][i] for k in ks} for i in range(n)]

def table_rows(t):
    ks = list(dict.keys(t)); vs = [dict.__getitem__(t, k) for k in ks]
    n = len(vs[0]) if vs else 0
    return ks, [{k: v[i] for k, v in zip(ks, vs)} for i in range(n)]

def rows_equal(a, b):
    return len(a) == len(b) and all(set(x) == set(y) and all(same(x[k], y[k]) for k in x) for x, y in zip(a, b))

# predicates that CAPTURE their data: several closures from one factory, bound methods of different objects and a lambda re-created
# in a loop share one code object per column name for the whole life of the worker process (module level cache below)
_FACT = {}
def factories(col):
    if col not in _FACT:
        ns = {}
        exec(('def above(vals):\n    return lambda %s: %s in vals\n'
              'class Band:\n    def __init__(self, vals): self.vals = vals\n    def holds(self, %s): return %s in self.vals\n'
              'def looped(all_vals):\n    out = []\n    for vals in all_vals:\n        out.append(lambda %s, vals=vals: %s in vals)\n    return out\n') % ((col,) * 6), ns)
        _FACT[col] = ns
    return _FACT[col]

SENTINEL = 12345      # default of a keyword-only parameter that is named after a column: the column's cell must win
def signature(args, sig):
    """'pos': (a, b)   'kwonly': (a, *, b) / (*, a)   'kwall': (*, a, b)   'kwdefault': (a, *, b=SENTINEL) / (*, a=SENTINEL)"""
    if sig == 'kwall': return '*, ' + ', '.join(args)
    if sig in ('kwonly', 'kwdefault'):
        d = '=%d' % SENTINEL if sig == 'kwdefault' else ''
        return ('*, %s%s' % (args[0], d)) if len(args) == 1 else '%s, *, %s' % (args[0], ', '.join(a + d for a in args[1:]))
    return ', '.join(args)
def mk_pred(f, conv, sig='pos'):
    if f[0] != 'in':
        if sig == 'pos': return mk_rowfn(f)
        body = {'coalesce': '{1} if {0} is None else {0}', 'isnone': '1 if {0} is None else 0', 'ident': '{0}', 'eq': '1 if {0} == {1} else 0'}[f[0]].format(*f[1:])
        return eval('lambda %s: %s' % (signature(f[1:], sig), body))
    vals = [conv(x) for x in f[2]]; sp = f[3] if len(f) > 3 else 'closure'
    if sig != 'pos': return eval('lambda vals: (lambda %s: %s in vals)' % (signature([f[1]], sig), f[1]))(vals)
    ns = factories(f[1])
    if sp == 'method': return ns['Band'](vals).holds
    if sp == 'loop': return ns['looped']([[], vals])[1]
    return ns['above'](vals)
def pred_args(f): return [f[1]] if f[0] == 'in' else rowfn_args(f)
def ref_pred(f, row, conv):
    if f[0] == 'in': return any(row[f[1]] is x or row[f[1]] == x for x in (conv(y) for y in f[2]))
    return ref_rowfn(f, row)

def attempt(f):
    try: return ('ok', f())
    except Exception as e: return (err_name(e), None)

def same_table(a, b):
    return a[0] == b[0] and (a[0] != 'ok' or (isinstance(a[1], dict) and isinstance(b[1], dict) and snap_equal(snapshot(a[1]), snapshot(b[1]))))

def judge(q, snap, r_inc, r_exc, r_inc2, conv):
    """the property's clauses for one condition on one table: returns (violation or None, expected inc rows or None when no row claim)"""
    viol = None
    cols, rows = rows_of_snapshot(snap)
    what = json.dumps(q, sort_keys=True)
    claim = True
    if 'f' in q and any(a not in cols for a in pred_args(q['f'])): claim = False
    if 'filters' in q and any(k not in cols for k, _ in q['filters']): claim = False
    if not claim: return None, None
    if 'none' in q: sel = [True] * len(rows)
    elif 'f' in q: sel = [bool(ref_pred(q['f'], r, conv)) for r in rows]
    else:
        conds = {}
        for k, c in q['filters']: conds[k] = c          # kw, dict1, dict2 in this order: the conjunction of all the column conditions
        def conj(r):
            vs = [sat_cond(c, r[k], conv) for k, c in conds.items()]
            return False if any(x is False for x in vs) else None if any(x is None for x in vs) else True
        sel = [conj(r) for r in rows]
        if overlapping(q) or any(x is None for x in sel):
            # two different conditions on ONE column in one call, or a NaN condition against an inf cell: no claim on which rows,
            # only that inc/exc still split the rows, in order, keeping columns
            for name, res in (('inc', r_inc), ('exc', r_exc)):
                if res[0] != 'ok': return '%s(%s) raised %s on table %s' % (name, what, res[0], snap), None
            ki, gi = table_rows(r_inc[1]); ke, ge = table_rows(r_exc[1])
            if set(ki) != set(cols) or set(ke) != set(cols): return 'inc/exc(%s) on %s lost columns: %s / %s' % (what, snap, ki, ke), None
            if len(gi) + len(ge) != len(rows) or not is_subseq(gi, rows) or not is_subseq(ge, rows):
                return 'inc/exc(%s) on %s do not partition the rows in order (every row must be in exactly one of them): inc %s, exc %s' % (what, snap, gi, ge), None
            if not overlapping(q) and (not is_subseq(gi, [r for r, x in zip(rows, sel) if x is not False]) or not is_subseq(ge, [r for r, x in zip(rows, sel) if x is not True])):
                return 'inc/exc(%s) on %s put a row whose membership IS decided on the wrong side: inc %s, exc %s' % (what, snap, gi, ge), None
            return None, None
    exp_inc = [r for r, s_ in zip(rows, sel) if s_]
    exp_exc = [r for r, s_ in zip(rows, sel) if not s_] if 'none' not in q else list(rows)     # no condition: nothing to exclude
    for name, res, exp in (('inc', r_inc, exp_inc), ('exc', r_exc, exp_exc), ('inc.inc', r_inc2, exp_inc)):
        if res is None: continue
        if res[0] != 'ok': return '%s(%s) raised %s on table %s' % (name, what, res[0], snap), exp_inc
        w = clauses(res[1], '%s(%s)' % (name, what))
        if w: return w, exp_inc
        ks, got = table_rows(res[1])
        if set(ks) != set(cols) or len(ks) != len(cols):
            return '%s(%s) on %s has columns %s, the table has %s' % (name, what, snap, sorted(ks), sorted(cols)), exp_inc
        if not rows_equal(got, exp):
            return '%s(%s) on %s returned rows %s, expected %s (exactly the rows %s the condition, in their original order)' % (name, what, snap, got, exp, 'failing' if name == 'exc' else 'satisfying'), exp_inc
    return None, exp_inc

def build(kvs, conv):
    kv = {}
    for n, v in kvs: kv[n] = conv(v['S']) if 'S' in v else [conv(x) for x in v['L']]
    return dictable(kv) if {'columns', 'data'} & set(kv) else dictable(**kv)      # columns called like the constructor's parameters: from a dict

def impl_seq(case):
    """several inc/exc calls one after the other in this process, on shared table objects: every call is judged on its own,
    every call is made twice (same answer required) and the table must be unchanged after each"""
    _FACT.clear()           # code objects are shared inside one case only: a failing case reproduces on its own
    nans = {}
    conv = lambda c: cell_py(c, nans)
    for ti, q in case['steps']:
        if 'filters' in q:
            for k, c in q['filters']: cond_py(c, conv)
        if 'f' in q and q['f'][0] == 'in': [conv(x) for x in q['f'][2]]
    tables = [build(kvs, conv) for kvs in case['tables']]
    snaps = [snapshot(t) for t in tables]
    obs = []; viol = None
    for no, (ti, q) in enumerate(case['steps']):
        d = tables[ti]
        r_inc = attempt(lambda: call_with(d.inc, q, conv)); r_exc = attempt(lambda: call_with(d.exc, q, conv))
        r_inc_b = attempt(lambda: call_with(d.inc, q, conv)); r_exc_b = attempt(lambda: call_with(d.exc, q, conv))
        nanid = {id(v): n for n, v in nans.items()}
        obs.append([dump_table(r[1], nanid) if r[0] == 'ok' else ['ERR', r[0]] for r in (r_inc, r_exc)])
        if viol: continue
        here = 'step %d on table %d: ' % (no, ti)
        if not snap_equal(snaps[ti], snapshot(d)): viol = here + 'inc/exc altered the table they were called on: %s -> %s' % (snaps[ti], snapshot(d)); continue
        if not same_table(r_inc, r_inc_b) or not same_table(r_exc, r_exc_b):
            viol = here + 'the same inc/exc(%s) call made twice gave two different answers' % json.dumps(q, sort_keys=True); continue
        w, _ = judge(q, snaps[ti], r_inc, r_exc, None, conv)
        if w: viol = here + w
    return {'status': 'ok', 'obs': obs, 'viol': viol}

def impl(case):
    if 'steps' in case: return impl_seq(case)
    _FACT.clear()
    nans = {}
    conv = lambda c: cell_py(c, nans)
    q = case['q']
    if 'filters' in q:
        for k, c in q['filters']: cond_py(c, conv)       # create the NaN objects of the condition
    if 'f' in q and q['f'][0] == 'in': [conv(x) for x in q['f'][2]]
    try:
        d = build(case['kvs'], conv)
    except Exception as e:
        return {'status': err_name(e), 'obs': ['ERR', err_name(e)], 'viol': None}
    snap = snapshot(d)
    viol = None
    def unchanged(after):
        nonlocal viol
        if viol is None and not snap_equal(snap, snapshot(d)): viol = '%s altered the table it was called on: %s -> %s' % (after, snap, snapshot(d))
    r_inc = attempt(lambda: call_with(d.inc, q, conv)); unchanged('inc')
    r_exc = attempt(lambda: call_with(d.exc, q, conv)); unchanged('exc')
    r_inc2 = attempt(lambda: call_with(call_with(d.inc, q, conv).inc, q, conv)); unchanged('inc.inc')
    r_find = attempt(lambda: call_with(getattr(d, 'find_' + case['fkey']), q, conv)); unchanged('find_')
    r_one = attempt(lambda: call_with(d.one_or_none, q, conv)); unchanged('one_or_none')
    r_inc_b = attempt(lambda: call_with(d.inc, q, conv)); r_exc_b = attempt(lambda: call_with(d.exc, q, conv)); unchanged('the second inc/exc')
    nanid = {id(v): n for n, v in nans.items()}
    co = lambda x: cell_obs(x, nanid)
    def tj(r): return dump_table(r[1], nanid) if r[0] == 'ok' else ['ERR', r[0]]
    obs = [tj(r_inc), tj(r_exc), tj(r_inc2),
           co(r_find[1]) if r_find[0] == 'ok' else ['ERR', r_find[0]],
           (None if r_one[1] is None else sorted([k, co(x)] for k, x in dict.items(r_one[1]))) if r_one[0] == 'ok' else ['ERR', r_one[0]],
           dump_table(d, nanid)]
    # ------------------------------------------------ oracle
    cols, rows = rows_of_snapshot(snap)
    what = json.dumps(q, sort_keys=True)
    if viol is None and (not same_table(r_inc, r_inc_b) or not same_table(r_exc, r_exc_b)):
        viol = 'the same inc/exc(%s) call made twice on %s gave two different answers' % (what, snap)
    if viol is None:
        viol, exp_inc = judge(q, snap, r_inc, r_exc, r_inc2, conv)
        if viol is None and exp_inc is not None and case['fkey'] in cols:
            vals = [r[case['fkey']] for r in exp_inc]
            unique = len(vals) > 0 and all(v is vals[0] or v == vals[0] for v in vals)
            if unique:
                if r_find[0] != 'ok' or not (r_find[1] is vals[0] or r_find[1] == vals[0]):
                    viol = 'find_%s(%s) on %s: selected rows have the single value %r but the call gave %s' % (case['fkey'], what, snap, vals[0], r_find)
            elif r_find[0] == 'ok':
                viol = 'find_%s(%s) on %s returned %r although the selected rows hold %s' % (case['fkey'], what, snap, r_find[1], vals)
    status = 'ok' if all(r[0] == 'ok' for r in (r_inc, r_exc)) else (r_inc[0] if r_inc[0] != 'ok' else r_exc[0])
    return {'status': status, 'obs': obs, 'viol': viol}

# ------------------------------------------------------------------ generation
CELLS = [None, None, 0, 1, {'f': 2}, 2, {'f': 5}, {'nan': 0}, {'nan': 1}, {'s': 'a'}, {'s': 'ab'}, {'s': 'b'}, {'s': ''},
         -1, {'f': -2}, {'f': 0}, 10 ** 12, {'s': 'a b'}, {'s': 'None'}, {'s': 'nan'}, {'s': '1'}, {'inf': 1}, {'inf': -1},
         {'s': 'Ab'}, {'s': 'AB'}, {'s': 'B'}, {'s': 'a\nb'}, {'s': 'x\nB'}, {'s': 'b\n'}]
FRESH_NAN = {'nan': 9}

def gen_table(rng):
    nrows = rng.choice([0, 1, 2, 3, 4, 5, 6]); ncols = rng.choice([1, 2, 2, 3])
    pool = rng.sample(CELLS, rng.choice([2, 3, 4, 6]))
    names = rng.sample(NAMES, ncols) if rng.random() < 0.8 else NAMES[:ncols]
    return [[n, {'L': [rng.choice(pool) for _ in range(nrows)]}] for n in names], pool

def gen_cond(rng, pool, colvals):
    r = rng.random()
    src = colvals if colvals and rng.random() < 0.7 else (pool or CELLS)
    if r < 0.35: return {'v': rng.choice(src)}
    if r < 0.42: return {'v': None}
    if r < 0.5: return {'v': rng.choice([{'nan': 0}, FRESH_NAN, FRESH_NAN, {'inf': 1}, {'inf': -1}])}
    if r < 0.85:
        l = [rng.choice(src + [FRESH_NAN]) for _ in range(rng.choice([0, 1, 2, 2, 3]))]
        if rng.random() < 0.15: l = list({json.dumps(x): x for x in colvals}.values())      # match everything
        return {'l': l, 'as': 'tuple'} if rng.random() < 0.3 else {'l': l}
    q = rng.random()
    if q < 0.35: return {'re': rng.choice(['a', 'B', 'AB', 'ab', 'Ab', 'bA', '']), 'fl': 'I'}
    if q < 0.55: return {'re': rng.choice(['b', 'B', 'a', 'x', '']), 'fl': 'M'}
    return {'re': rng.choice(['a', 'b', 'ab', '', 'ba', 'x', 'B'])}

def gen_cases(rng, tier):
    cases = []
    n = 2500 if tier == 'quick' else 40000
    for _ in range(n):
        kvs, pool = gen_table(rng)
        names = [k for k, _ in kvs]
        r = rng.random()
        if r < 0.06: q = {'none': 1}
        elif r < 0.3:
            k = rng.choice(['coalesce', 'isnone', 'ident', 'eq'])
            args = [rng.choice(names + (['zz'] if rng.random() < 0.05 else []))]
            if k in ('coalesce', 'eq'):
                others = [x for x in NAMES if x != args[0]]
                args.append(rng.choice([x for x in others if x in names] or others))
            q = {'f': [k] + args}
            if rng.random() < 0.3:
                col = rng.choice(names); colvals = dict(kvs)[col]['L']
                q = {'f': ['in', col, [rng.choice(colvals + [FRESH_NAN, 7]) for _ in range(rng.choice([0, 1, 2, 3]))], rng.choice(['closure', 'method', 'loop'])]}
        else:
            ks = rng.sample(names, rng.choice([1, 1, 1, 2, min(3, len(names))][:]) if len(names) > 1 else 1)
            ks = ks[:len(names)]
            if rng.random() < 0.04: ks.append('z')
            fs = []
            for k in ks:
                colvals = dict(kvs).get(k, {'L': []})['L']
                fs.append([k, gen_cond(rng, pool, colvals)])
            q = {'filters': fs, 'form': rng.choice(['kw', 'dict'])}
            if rng.random() < 0.55:
                # the same conjunction spelled across keyword filters and one or two positional dicts
                if rng.random() < 0.25 and names:            # a second, different condition on a column already used, in a later group
                    k = rng.choice([f[0] for f in fs]); fs.append([k, gen_cond(rng, pool, dict(kvs).get(k, {'L': []})['L'])])
                n = len(fs); shp = rng.choice(['d+kw', 'd+kw', 'd+d', 'd+d', 'd+d+kw', 'empty+kw'])
                cut = sorted(rng.randrange(0, n + 1) for _ in range(2))
                if shp == 'd+kw': g = [cut[1], n - cut[1], None]
                elif shp == 'd+d': g = [0, cut[1], n - cut[1]]
                elif shp == 'd+d+kw': g = [cut[0], cut[1] - cut[0], n - cut[1]]
                else: g = [n, 0, None]
                # inside one group (a python dict / the keyword arguments) a key occurs once
                ok = True; pos = 0
                for size in (g[0], g[1] or 0, g[2] or 0):
                    ks_ = [f[0] for f in fs[pos:pos + size]]; ok = ok and len(set(ks_)) == len(ks_); pos += size
                if ok: q = {'filters': fs, 'form': 'split', 'groups': g}
                else: q = {'filters': fs[:len(ks)], 'form': q['form']}
        if 'f' in q and rng.random() < 0.45:
            fa = [q['f'][1]] if q['f'][0] == 'in' else q['f'][1:]
            sig = rng.choice(['kwonly', 'kwall', 'kwdefault'])
            defaulted = fa if len(fa) == 1 else fa[1:]
            if sig == 'kwdefault' and any(a_ not in names for a_ in defaulted): sig = 'kwonly'
            q['sig'] = sig
        cases.append({'kvs': kvs, 'q': q, 'fkey': rng.choice(names + (['z'] if rng.random() < 0.03 else [])), 'kind': 'random'})
    # sizes far beyond 0-6 rows: 101-200 rows, one or two conditions selecting a proper subset / nothing / everything
    # +-inf cells against NaN / inf conditions (value and list spellings): membership undecided, the partition laws are not
    for _ in range(160 if tier == 'quick' else 3000):
        n = rng.choice([1, 2, 3, 4, 5, 6]); ka, kb = rng.choice(NAME_PAIRS)
        pool = rng.sample([{'inf': 1}, {'inf': -1}, {'nan': 0}, {'nan': 1}, None, 1, {'f': 2}, {'s': 'a'}], rng.choice([2, 3, 4]))
        if not any(isinstance(x, dict) and 'inf' in x for x in pool): pool[0] = {'inf': rng.choice([1, -1])}
        kvs = [[ka, {'L': [rng.choice(pool) for _ in range(n)]}], [kb, {'L': [rng.choice([0, 1]) for _ in range(n)]}]]
        c1 = rng.choice([{'v': {'nan': 0}}, {'v': FRESH_NAN}, {'v': FRESH_NAN}, {'v': {'inf': 1}}, {'v': {'inf': -1}}, {'l': [{'nan': 0}, {'inf': 1}]}, {'l': [{'inf': -1}]}, {'l': [FRESH_NAN]}, {'l': [{'inf': 1}, 1], 'as': 'tuple'}])
        fs = [[ka, c1]] + ([[kb, {'v': rng.choice([0, 1])}]] if rng.random() < 0.4 else [])
        g = rng.choice([None, None, [0, len(fs), None], [len(fs) - 1, 1, None]])
        q = {'filters': fs, 'form': 'kw'} if g is None else {'filters': fs, 'form': 'split', 'groups': g}
        cases.append({'kvs': kvs, 'q': q, 'fkey': rng.choice([ka, kb]), 'kind': 'inf'})
    # patterns compiled WITH flags (re.I on mixed-case cells, '^..' with re.M on multi-line cells), alone and inside conjunctions / dict spellings
    for _ in range(200 if tier == 'quick' else 3000):
        n = rng.choice([1, 2, 3, 4, 5, 6]); ka, kb = rng.choice(NAME_PAIRS)
        pool = rng.sample([{'s': 'Ab'}, {'s': 'AB'}, {'s': 'ab'}, {'s': 'b'}, {'s': 'B'}, {'s': 'a\nb'}, {'s': 'x\nB'}, {'s': 'b\nA'}, {'s': ''}, 1, None], rng.choice([2, 3, 4, 5]))
        kvs = [[ka, {'L': [rng.choice(pool) for _ in range(n)]}], [kb, {'L': [rng.choice([0, 1]) for _ in range(n)]}]]
        c1 = rng.choice([{'re': rng.choice(['ab', 'AB', 'aB', 'b', 'A', '']), 'fl': 'I'}, {'re': rng.choice(['b', 'B', 'A', 'x', '']), 'fl': 'M'}])
        fs = [[ka, c1]] + ([[kb, {'v': rng.choice([0, 1])}]] if rng.random() < 0.4 else [])
        if rng.random() < 0.3: fs.reverse()
        g = rng.choice([None, None, [0, len(fs), None], [len(fs) - 1, 1, None], [0, len(fs) - 1, 1]])
        q = {'filters': fs, 'form': 'kw'} if g is None else {'filters': fs, 'form': 'split', 'groups': g}
        cases.append({'kvs': kvs, 'q': q, 'fkey': rng.choice([ka, kb]), 'kind': 'reflags'})
    # SEQUENCES of calls in one process on shared tables: closures of one factory / bound methods of different objects / a lambda re-created
    # in a loop (one code object, different captured lists), interleaved with keyword filters and the other callables; every call judged alone
    for _ in range(160 if tier == 'quick' else 3000):
        tabs = []
        for _t in range(rng.choice([1, 2, 2])):
            n = rng.choice([2, 3, 4, 5, 6]); ka, kb = ('a', 'i') if _t == 0 or rng.random() < 0.7 else rng.choice(NAME_PAIRS)
            tabs.append([[ka, {'L': [rng.choice([1, 2, 3, 4, 5, None, {'s': 'a'}]) for _ in range(n)]}], [kb, {'L': list(range(n))}]])
        steps = []
        for _s in range(rng.choice([2, 3, 4, 5])):
            ti = rng.randrange(len(tabs)); col = tabs[ti][0][0]; colvals = tabs[ti][0][1]['L']
            r = rng.random()
            if r < 0.7: q = {'f': ['in', col, rng.sample(colvals + [9], rng.choice([0, 1, 2])) if rng.random() < 0.8 else list(colvals), rng.choice(['closure', 'closure', 'method', 'loop'])]}
            elif r < 0.85: q = {'filters': [[col, gen_cond(rng, colvals, colvals)]], 'form': rng.choice(['kw', 'dict'])}
            else: q = {'f': rng.choice([['isnone', col], ['ident', col], ['eq', col, tabs[ti][1][0]]])}
            steps.append([ti, q])
        cases.append({'tables': tabs, 'steps': steps, 'kind': 'seq'})
    # 7-40 rows with a unique index column: conditions whose survivors (for inc and for exc) are FEW and FAR APART, or nearly all:
    # any reordering of the surviving rows shows in the index column
    for _ in range(120 if tier == 'quick' else 2500):
        n = rng.randrange(7, 41); ka, kb = rng.choice(NAME_PAIRS)
        kvs = [[ka, {'L': list(range(n))}], [kb, {'L': [j % 10 for j in range(n)]}], ['s', {'L': [{'s': 'row%d' % j} for j in range(n)]}]]
        keep = sorted(rng.sample(range(n), rng.choice([1, 2, 2, 3])))
        if rng.random() < 0.4: keep = sorted({rng.choice([0, 1, 2, 3]), n - 1 - rng.choice([0, 1, 2])})
        r = rng.random()
        if r < 0.45: fs = [[ka, {'l': [j for j in range(n) if j not in keep]}]]                   # exc keeps few, far apart
        elif r < 0.7: fs = [[ka, {'l': keep}]]                                                     # inc keeps few
        elif r < 0.85: fs = [[kb, {'l': rng.sample(range(10), rng.choice([1, 8, 9]))}]]
        else: fs = [[kb, {'l': [0, 2, 4, 6, 8]}], [ka, {'l': [j for j in range(n) if j not in keep]}]]
        q = rng.choice([{'filters': fs, 'form': 'kw'}, {'filters': fs, 'form': 'dict'}, {'filters': fs, 'form': 'split', 'groups': [len(fs) - 1, 1, None]},
                        {'f': ['in', ka, [j for j in range(n) if j not in keep], rng.choice(['closure', 'method'])]}])
        cases.append({'kvs': kvs, 'q': q, 'fkey': 's', 'kind': 'mid'})
    big = []
    for _ in range(10 if tier == 'quick' else 200):
        n = rng.randrange(101, 201); ka, kb = rng.choice(NAME_PAIRS)
        kvs = [[ka, {'L': [rng.choice([i % 7, None, {'nan': 0}, {'f': 2 * (i % 5)}, {'s': 'ab' if i % 3 else 'b'}]) for i in range(n)]}], [kb, {'L': [i % 3 for i in range(n)]}]]
        c1 = rng.choice([{'v': 3}, {'v': None}, {'v': {'nan': 9}}, {'l': [0, 1, 2]}, {'l': [], 'as': 'tuple'}, {'re': 'a'}, {'l': [0, 1, 2, 3, 4, 5, 6, None, {'nan': 0}, {'s': 'ab'}, {'s': 'b'}]}])
        fs = [[ka, c1]] + ([[kb, {'v': rng.choice([0, 1, 5])}]] if rng.random() < 0.5 else [])
        q = rng.choice([{'filters': fs, 'form': 'kw'}, {'filters': fs, 'form': 'split', 'groups': [len(fs) - 1, 1, None]}, {'f': ['eq', ka, kb]}, {'f': ['isnone', ka]}])
        big.append({'kvs': kvs, 'q': q, 'fkey': kb, 'kind': 'big'})
    step_ = max(1, len(cases) // (len(big) + 1))            # spread over the cases files (slow inside Coq)
    for j, b in enumerate(big): cases.insert(min(len(cases), (j + 1) * step_ + j), b)
    # small scope: every table of <= 3 rows over {None, 1, NaN0} (one filtered column + an index column) x every single condition
    vals = [None, 1, {'nan': 0}]
    conds = [{'v': v} for v in vals + [{'f': 2}, FRESH_NAN, 2]] + [{'l': list(l)} for k in range(3) for l in itertools.product(vals + [FRESH_NAN], repeat=k)] + [{'re': ''}]
    frac = 0.25 if tier == 'quick' else 1.0
    for nrows in range(4):
        for cells in itertools.product(vals, repeat=nrows):
            for c in conds:
                if rng.random() > frac: continue
                ka, kb = rng.choice(NAME_PAIRS)
                cases.append({'kvs': [[ka, {'L': list(cells)}], [kb, {'L': list(range(nrows))}]], 'q': {'filters': [[ka, c]], 'form': 'kw'}, 'fkey': rng.choice([kb, kb, ka]), 'kind': 'small'})
    # small scope for conjunctions: every table of <= 3 rows over two columns in {None, 1} x {a: 1 | None} x {b: 1 | None | [None, 1]} x every spelling,
    # plus an overlapping pair (keyword a=1, dict a=None)
    for nrows in range(4):
        for cells in itertools.product([None, 1], repeat=2 * nrows):
            for ca in ({'v': 1}, {'v': None}):
                for cb in ({'v': 1}, {'v': None}, {'l': [None, 1]}):
                    for g in ([2, None, None], [0, 2, None], [1, 1, None], [0, 1, 1], [1, 0, 1], [0, 2, 0]):
                        if rng.random() > frac: continue
                        ka, kb = rng.choice(NAME_PAIRS)
                        fs = [[ka, ca], [kb, cb]] if rng.random() < 0.5 else [[kb, cb], [ka, ca]]
                        cases.append({'kvs': [[ka, {'L': list(cells[:nrows])}], [kb, {'L': list(cells[nrows:])}]], 'q': {'filters': fs, 'form': 'split', 'groups': g},
                                      'fkey': rng.choice([ka, kb]), 'kind': 'small2'})
            if rng.random() <= frac:
                cases.append({'kvs': [['a', {'L': list(cells[:nrows])}], ['b', {'L': list(cells[nrows:])}]],
                              'q': {'filters': [['a', {'v': 1}], ['b', {'v': 1}], ['a', {'v': None}]], 'form': 'split', 'groups': [2, 1, None]}, 'fkey': 'b', 'kind': 'small2'})
    return cases

def nontrivial(case, result):
    try:
        o = result['obs']
        if 'steps' in case: return any(isinstance(x[0][1], int) and isinstance(x[1][1], int) and x[0][1] > 0 and x[1][1] > 0 for x in o)
        return isinstance(o[0][1], int) and isinstance(o[1][1], int) and o[0][1] > 0 and o[1][1] > 0
    except Exception:
        return False

def shape(case):
    if 'steps' in case: return '%s:%d steps' % (case.get('kind', 'seq'), len(case['steps']))
    q = case['q']
    k = 'none' if 'none' in q else 'callable' if 'f' in q else 'filters%d%s' % (len(q['filters']), ':' + '/'.join('-' if x is None else str(x) for x in q['groups']) if q.get('groups') else '')
    return '%s:%s' % (case.get('kind', 'corpus'), k)

def shrink(case):
    if 'steps' in case:
        st = case['steps']
        for i in range(len(st) - 1, -1, -1):
            if len(st) > 1: yield dict(case, steps=st[:i] + st[i + 1:])
        for j, kvs in enumerate(case['tables']):
            n = max([len(v['L']) for _, v in kvs if 'L' in v] or [0])
            for i in range(n):
                yield dict(case, tables=case['tables'][:j] + [[[k, {'L': v['L'][:i] + v['L'][i + 1:]} if 'L' in v else v] for k, v in kvs]] + case['tables'][j + 1:])
        return
    kvs = case['kvs']
    n = len(kvs[0][1]['L']) if kvs and 'L' in kvs[0][1] else 0
    for i in range(n):
        yield dict(case, kvs=[[k, {'L': v['L'][:i] + v['L'][i + 1:]}] for k, v in kvs])
    q = case['q']
    if 'filters' in q and len(q['filters']) > 1:
        for i in range(len(q['filters'])):
            q2 = dict(q, filters=q['filters'][:i] + q['filters'][i + 1:])
            if q.get('groups'):
                g = list(q['groups']); pos = 0
                for j in range(3):
                    size = g[j] or 0
                    if pos <= i < pos + size: g[j] = size - 1
                    pos += size
                q2['groups'] = g
            yield dict(case, q=q2)
    if 'filters' in q:
        for i, (k, c) in enumerate(q['filters']):
            if q.get('groups'): break
            if 'l' in c and len(c['l']) > 1:
                for j in range(len(c['l'])):
                    yield dict(case, q=dict(q, filters=q['filters'][:i] + [[k, {'l': c['l'][:j] + c['l'][j + 1:]}]] + q['filters'][i + 1:]))
