"""C08 — timeseries operators equal the pointwise operation on aligned operands."""
import json, math
from fractions import Fraction
from props import c03
from props.c03 import (colcode, cq_leaf, cq_how, cq_method, leaves, is_pdj, idx_of, asof, index_family, rand_val, GRID, first_diff)

ID = 'C08'
TRANSLATOR = []
COQ_EXEC = ['exec.X_tsops']
COQ_IMPORTS = 'From PB Require Import model.M_align model.M_tsops exec.X_align.\n'
PER_FILE = 500
CASE_TIMEOUT = 10
RULE = ('cases: add_/sub_/mul_/div_/pow_/gt_/ge_/lt_/le_ on 2 operands, each a float Series, a DataFrame (1-3 columns), a scalar '
        '(incl. 0 and NaN) or - for add_/sub_/mul_/div_ - a list of up to 3 of them (2..4 timeseries in all), plus a stream of list operands / denominators whose frames have different column sets under columns=oj; min_/max_ and '
        'df_sum/df_mean/df_count on lists of 1-4 Series or multi-column DataFrames plus scalars; indices drawn as a family on a '
        '14-day grid (random, nested, disjoint, blocks, empty), NaN and 0 anywhere; every index policy in {ij, oj} (also lj, rj), '
        'method in {None, ffill, bfill}, column policy in {ij, oj} (also lj, rj). Values are small integers chosen so that every '
        'result is an exact integer in floating point (dividends are multiples of 64, divisors 0 or +-1, 2, 4; exponents 0..3; '
        'df_mean operands multiples of 12), so float and exact integer arithmetic agree; +-inf cells and scalars (carried as +-10^9) in 30% of the add/sub/mul/div/comparison/min/max and df_sum/df_mean/df_count/df_std cases, where the IEEE result needs no rounding (an infinite operand is data: counted, it decides sum and mean); 150 cases of a one-column frame x Series (either order, inside lists, with scalars) whose joint index has exactly 0, 1 or 2 rows, for min_/max_ and the operators; a non-integer result is observed as its '
        'float.hex() and can never match the model. Observed: kind, index, columns, every cell; compared in Coq with the model '
        'M_tsops on the alignment model M_align; the oracle recomputes the result from the statement (Python sets + Fractions). '
        'Varied in kind: b omitted, f(a, b) call form, scalar types int / float / np.float64 / np.int64, int-dtype operands, spellings, long / integer column names, 1 us .. 1 day ticks and 1900 / 2250 origins, 120-250-row series; df_std is checked by the oracle only (1e-9); timezone-aware indices in 25% of the cases. Operands are built once per case: the operator is called twice on the same objects (identical result required), add_/sub_/mul_/div_ cases then apply a SECOND operator (add_/sub_/mul_) to the very same objects (oracle-checked; 120 cases with zero-holding denominators already on the joint index), and a deep snapshot of every operand (cells, index, dtype, name) must be unchanged. non-trivial = at least two timeseries operands with different, overlapping indices, or a zero divisor; distinct by input')
EXPLANATION = ('theorems C08_* (coq/props/C08.v) hold for every cell operation opc (a Section parameter), every pair/list of series, every '
               'pair of multi-column DataFrames and every index / column policy: result index = intersection/union (first/last), result '
               'columns = intersection/union (first/last) of the column sets, result[t, x] = opc a[t, x] b[t, x] with NaN where an operand '
               'lacks t and the kernel default (0 for add_/sub_, 1 for mul_/div_) where a frame lacks column x - proved through the model of '
               "presync's per-column dispatch and _convert's frame assembly (C08_frame_index, C08_frame_pointwise, C08_oj_neutral_column, "
               'C08_frame_comm) - scalar broadcast, left-to-right reduction, zero divisor -> NaN, commutativity given opc commutative, '
               'df_sum/df_mean/df_count = NaN-skipping aggregates; C08_operator_instances instantiates the pointwise law with the concrete '
               'cell operations of pow_, the comparisons and min_/max_; the correspondence ties the model (exact integer instances of opc) '
               'to pandas arithmetic and the presync column dispatch of the current tree')
TRUSTED = ['modelled, not verified: pandas/numpy elementwise float arithmetic and comparisons on aligned Series (exact on the generated '
           'integer-valued operands), np.minimum/np.maximum NaN propagation, numpy nan**0 = 1**nan = 1, DataFrame assembly from a dict of '
           'Series, boolean masks; everything listed for C03 (alignment model)',
           'IEEE addition/multiplication commutativity is an assumption of C08_comm (checked concretely on every add_/mul_ case by '
           'evaluating both operand orders)']
ASSUMPTIONS = ['multi-column frames with an empty common column set give an empty result (documented in the presync docstring); its index is not claimed',
               'operands are float Series / DataFrames with sorted unique datetime indices, unique column names, or numeric scalars',
               'for non-integer results (general floats) the pointwise law is the same theorem with opc := the IEEE operation; only '
               'integer-valued results are compared exactly',
               'df_sum/df_mean/df_count/min_/max_ operands are all Series or all multi-column DataFrames (plus scalars); pandas itself '
               'aligns a Series against DataFrame columns otherwise']
EXHAUSTIVE = {'quick': False, 'thorough': False}

BIN = ['add', 'sub', 'mul', 'div', 'pow', 'gt', 'ge', 'lt', 'le']
OPNAME = dict(add='OpAdd', sub='OpSub', mul='OpMul', div='OpDiv', pow='OpPow', gt='OpGt', ge='OpGe', lt='OpLt', le='OpLe', min='OpMin', max='OpMax')
DEFAULT = dict(add=0, sub=0, mul=1, div=1)

# ------------------------------------------------------------------ Coq side
def cq_obj(l): return '(%s)' % cq_leaf(l)
def cq_operand(x):
    if x is None:
        return 'Absent'
    if 'many' in x:
        return '(Many [%s])' % '; '.join(cq_obj(l) for l in x['many'])
    return '(One %s)' % cq_obj(x)
def coq_runner(case):
    return {'op': 'run_op', 'minmax': 'run_minmax', 'agg': 'run_agg'}[case['kind']]
def coq_case(case):
    pol = '%s, %s, %s' % (cq_how(case['how']), cq_method(case['method']), cq_how(case['columns']))
    if case['kind'] == 'op':
        return '(%s, %s, %s, %s)' % (OPNAME[case['op']], pol, cq_operand(case['a']), cq_operand(case['b']))
    if case['kind'] == 'minmax':
        return '(%s, %s, [%s])' % (OPNAME[case['op']], pol, '; '.join(cq_obj(l) for l in case['xs']))
    return '(%s, %s, [%s])' % ({'sum': 'ASum', 'mean': 'AMean', 'count': 'ACount'}[case['agg']], pol, '; '.join(cq_obj(l) for l in case['xs']))

# ------------------------------------------------------------------ implementation side
def impl_setup():
    global pd, np, P
    import pandas as pd, numpy as np
    import pyg_base._pandas as P
    c03.impl_setup()

def build_operand(x):
    if x is None:
        return None
    if 'many' in x:
        return [c03.build(l, []) for l in x['many']]
    return c03.build(x, [])

def operand_leaves(case):
    if case['kind'] == 'op':
        out = []
        for x in (case['a'], case['b']):
            if x is not None:
                out += x['many'] if 'many' in x else [x]
        return out
    return list(case['xs'])

def canon_result(r, any_multi):
    if isinstance(r, (bool, np.bool_)):
        return ['N', int(r)]
    if isinstance(r, pd.DataFrame) and r.shape[1] == 1:
        r = r.copy(); r.columns = ['`']          # colcode('`') == 0: the name of a pseudo-series is not part of the claim
    def cell(v):
        if isinstance(v, (bool, np.bool_)):
            return int(v)
        return c03.ccell(v)
    o = c03.canon(r, [], cell)
    return o

_EXTRA = [None]
def run_case(case):
    """-> (status, observation of the first call); _EXTRA[0] = violation found when the SAME operand objects are used again"""
    c03.set_axis(case)
    _EXTRA[0] = None
    try:
        any_multi = any('F' in l and len(l['F']['cols']) > 1 for l in operand_leaves(case))
        kw = dict(join=c03.spelled(case, 'how', case['how']), method=c03.spelled(case, 'method', case['method']),
                  columns=c03.spelled(case, 'columns', case['columns']))
        std = case.get('agg') == 'std'
        see = (lambda r: c03.canon(r, [], lambda v: 'NaN' if float(v) != float(v) else float(v).hex())) if std else (lambda r: canon_result(r, any_multi))
        if case['kind'] == 'op':
            A, B = build_operand(case['a']), build_operand(case['b'])       # built once: every call below uses these very objects
            operands = [A, B]
            f = getattr(P, case['op'] + '_')
            call = lambda: f(A, B, **kw)
        else:
            objs = [c03.build(l, []) for l in case['xs']]
            operands = objs
            k = case.get('split')           # min_(a, b) / df_sum(a, b): the operands given as two arguments instead of one list
            one = lambda l: l[0] if len(l) == 1 else l
            argv = (objs,) if (not k or k >= len(objs)) else (one(objs[:k]), one(objs[k:]))
            f = getattr(P, (case['op'] + '_') if case['kind'] == 'minmax' else 'df_' + case['agg'])
            call = lambda: f(*argv, **kw)
        before = c03.snap(operands)
        obs = see(call())
        if case['kind'] == 'op' and case.get('swap_check'):
            r2 = see(f(B, A, **kw))
            if r2 != obs:
                return 'ok', ['NOT-COMMUTATIVE', obs, r2]
        _EXTRA[0] = followups(case, call, see, obs, before, operands, kw)
        return 'ok', obs
    except Exception as e:
        n = type(e).__name__
        n = n if n in ('ValueError', 'KeyError', 'TypeError', 'IndexError', 'AttributeError', 'ZeroDivisionError') else 'Other'
        return n, ['ERR', n]

def followups(case, call, see, obs, before, operands, kw):
    """operands untouched (cells, index, dtype, name); the same call again gives the same result; another operator applied
    to the very same objects afterwards is still the pointwise operation (a / b, then a + b, as users write it)"""
    try:
        if c03.snap(operands) != before:
            return 'the operator changed the caller\'s operands: ' + c03.snap_diff(before, c03.snap(operands))
        again = see(call())
        if again != obs:
            return 'the same operator call on the same objects a second time gives another result: ' + str(first_diff(obs, again))
        then = case.get('then')
        if then and case['kind'] == 'op':
            got = see(getattr(P, then + '_')(operands[0], operands[1], **kw))
            exp = jc(expect_op(dict(case, op=then)))
            if got != exp:
                return '%s_ on the same objects after %s_: %s' % (then, case['op'], first_diff(exp, got))
        if c03.snap(operands) != before:
            return 'repeated operator calls changed the caller\'s operands: ' + c03.snap_diff(before, c03.snap(operands))
    except Exception as e:
        return 'a second operator call on the same objects raised %s: %s' % (type(e).__name__, str(e)[:100])
    return None

# ------------------------------------------------------------------ oracle: the statement, computed with sets and Fractions
NAN = None
def cell_op(op, x, y):
    """the plain pointwise operation on two cells (None = NaN)"""
    if op == 'pow':
        if y == 0: return 1
        if x == 1: return 1
        if x is None or y is None: return None
        return Fraction(x) ** y
    if op in ('gt', 'ge', 'lt', 'le'):
        if x is None or y is None: return 0
        return int({'gt': x > y, 'ge': x >= y, 'lt': x < y, 'le': x <= y}[op])
    if x is None or y is None:
        return None
    if op in ('add', 'sub', 'mul', 'div') and (abs(x) == c03.INF or abs(y) == c03.INF):
        # +-inf operand: the IEEE result, which needs no rounding here (inf+finite, inf-inf = NaN, inf*0 = NaN, finite/inf = 0,
        # inf/finite = +-inf); ONLY a zero denominator is turned into NaN
        if op == 'div' and y == 0:
            return None
        fx, fy = c03.fl(x), c03.fl(y)
        try:
            r = fx + fy if op == 'add' else fx - fy if op == 'sub' else fx * fy if op == 'mul' else fx / fy
        except ZeroDivisionError:
            return None
        return None if r != r else c03.INF if r == math.inf else -c03.INF if r == -math.inf else Fraction(r)
    if op == 'add': return x + y
    if op == 'sub': return x - y
    if op == 'mul': return x * y
    if op == 'div': return None if y == 0 else Fraction(x) / Fraction(y)      # division by zero yields NaN, never inf
    if op == 'min': return min(x, y)
    if op == 'max': return max(x, y)
    raise ValueError(op)

def join_idx(ts, how):
    sets = [idx_of(l) for l in ts]
    h = how[0]
    if h == 'i':
        s = set(sets[0])
        for x in sets[1:]: s &= set(x)
        return sorted(s)
    if h == 'o':
        s = set()
        for x in sets: s |= set(x)
        return sorted(s)
    return list(sets[0] if h == 'l' else sets[-1])

def align(l, P, method):
    """an operand on the index P"""
    if 'S' in l:
        obs = [(t, v) for t, v in l['S']]
        return {'S': [[t, asof(obs, t, method, lambda v: v is None, None)] for t in P]}
    if 'F' in l:
        f = l['F']; n = len(f['cols'])
        obs = list(zip(f['idx'], f['rows']))
        return {'F': {'cols': f['cols'], 'idx': list(P), 'rows': [list(asof(obs, t, method, lambda r: all(v is None for v in r), [None] * n)) for t in P]}}
    return l

def series_op(op, a, b):
    """a, b: {'S':..} on the same index, or {'N':..}"""
    if 'S' in a and 'S' in b:
        return {'S': [[t, cell_op(op, x, y)] for (t, x), (_, y) in zip(a['S'], b['S'])]}
    if 'S' in a:
        return {'S': [[t, cell_op(op, x, b['N'])] for t, x in a['S']]}
    if 'S' in b:
        return {'S': [[t, cell_op(op, a['N'], y)] for t, y in b['S']]}
    return {'N': cell_op(op, a['N'], b['N'])}

def col_of(l, c):
    f = l['F']; i = f['cols'].index(c)
    return {'S': [[t, r[i]] for t, r in zip(f['idx'], f['rows'])]}

def common_cols(frames, pol):
    h = pol[0]
    sets = [set(f['F']['cols']) for f in frames]
    if h == 'i':
        s = set(sets[0])
        for x in sets[1:]: s &= x
    elif h == 'o':
        s = set()
        for x in sets: s |= x
    else:
        s = sets[0] if h == 'l' else sets[-1]
    return sorted(s)

def binop(op, a, b, how, method, cpol, default):
    ts = [l for l in (a, b) if is_pdj(l)]
    if ts:
        P = join_idx(ts, how)
        a, b = align(a, P, method), align(b, P, method)
    multi = [l for l in (a, b) if 'F' in l and len(l['F']['cols']) > 1]
    single = [l for l in (a, b) if 'F' in l and len(l['F']['cols']) == 1]
    def operand(l, c):
        if 'F' in l:
            if len(l['F']['cols']) == 1:
                return col_of(l, l['F']['cols'][0])          # a single-column frame is a series
            return col_of(l, c) if c in l['F']['cols'] else {'N': default}      # missing column = the neutral element
        return l
    if not multi:
        r = series_op(op, operand(a, None), operand(b, None))
        if single and 'S' in r:
            return {'F': {'cols': ['`'], 'idx': [t for t, _ in r['S']], 'rows': [[v] for _, v in r['S']]}}
        return r
    C = common_cols(multi, cpol)
    if not C:
        return {'S': []}           # no common column: documented (presync example 4) to give an empty result
    res = [series_op(op, operand(a, c), operand(b, c)) for c in C]
    idx = [t for t, _ in res[0]['S']] if res else []
    return {'F': {'cols': C, 'idx': idx, 'rows': [[r['S'][i][1] for r in res] for i in range(len(idx))]}}

def reduce_list(op, xs, how, method, cpol):
    acc = xs[0]
    for x in xs[1:]:                                   # lists of operands reduce left to right
        acc = binop(op, acc, x, how, method, cpol, DEFAULT.get(op))
    return acc

def as_list(x): return [] if x is None else x['many'] if 'many' in x else [x]

def expect_op(case):
    op, how, m, cp = case['op'], case['how'], case['method'], case['columns']
    a, b = case['a'], case['b']
    if op in ('add', 'mul'):
        return reduce_list(op, as_list(a) + as_list(b), how, m, cp)
    if op in ('sub', 'div'):
        pre = 'add' if op == 'sub' else 'mul'
        a = reduce_list(pre, a['many'], how, m, cp) if 'many' in a else a
        b = reduce_list(pre, b['many'], how, m, cp) if 'many' in b else b
    return binop(op, a, b, how, m, cp, DEFAULT.get(op))

def synced(xs, how, method, cpol):
    ts = [l for l in xs if is_pdj(l)]
    if ts:
        P = join_idx(ts, how)
        xs = [align(l, P, method) for l in xs]
    multi = [l for l in xs if 'F' in l and len(l['F']['cols']) > 1]
    C = common_cols(multi, cpol) if multi else None
    return xs, C

def cell_at(l, i, c):
    if 'S' in l: return l['S'][i][1]
    if 'F' in l: return l['F']['rows'][i][l['F']['cols'].index(c)] if c in l['F']['cols'] else None
    return l['N']

def expect_cellwise(xs, C, f):
    """apply f to the list of operand cells at every (t, column)"""
    fr = [l for l in xs if 'F' in l]; se = [l for l in xs if 'S' in l]
    if fr:
        idx = fr[0]['F']['idx']
        return {'F': {'cols': C, 'idx': idx, 'rows': [[f([cell_at(l, i, c) for l in xs]) for c in C] for i in range(len(idx))]}}
    if se:
        return {'S': [[t, f([cell_at(l, i, None) for l in xs])] for i, (t, _) in enumerate(se[0]['S'])]}
    return {'N': f([l['N'] for l in xs])}

def expect_minmax(case):
    xs, C = synced(case['xs'], case['how'], case['method'], case['columns'])
    if C is None and any('F' in l for l in xs):
        # a one-column frame: next to a Series it is squeezed to its column (the result is a Series), next to a scalar it stays a frame
        acc = xs[0]
        for x in xs[1:]:
            if 'F' in acc and 'S' in x: acc = col_of(acc, acc['F']['cols'][0])
            if 'S' in acc and 'F' in x: x = col_of(x, x['F']['cols'][0])
            if 'F' in acc or 'F' in x:
                f, other, left = (acc, x, True) if 'F' in acc else (x, acc, False)
                assert 'N' in other
                acc = {'F': dict(f['F'], rows=[[cell_op(case['op'], v, other['N']) if left else cell_op(case['op'], other['N'], v) for v in r] for r in f['F']['rows']])}
            else:
                acc = series_op(case['op'], acc, x)
        return acc
    def f(cells):
        acc = cells[0]
        for c in cells[1:]:
            acc = cell_op(case['op'], acc, c)
        return acc
    return expect_cellwise(xs, C, f)

def expect_agg(case):
    xs, C = synced(case['xs'], case['how'], case['method'], case['columns'])
    def f(cells):
        vals = [c for c in cells if c is not None]      # NaN operands are skipped; +-inf operands are DATA (counted, IEEE sum)
        if case['agg'] == 'count': return len(vals)
        if any(abs(v) == c03.INF for v in vals):
            if case['agg'] == 'std':
                return None                                  # fewer than two operands, or inf - inf inside the variance: NaN
            r = sum(c03.fl(v) for v in vals)                 # inf + finite = inf, inf + -inf = nan; the mean divides by a positive count
            return None if r != r else c03.INF if r > 0 else -c03.INF
        if case['agg'] == 'std':                         # biased std of the non-NaN operands, NaN when fewer than two
            if len(vals) < 2: return None
            mean = Fraction(sum(vals), len(vals))
            return Fraction(sum(v * v for v in vals), len(vals)) - mean * mean      # the variance; compared after sqrt
        if not vals: return None                         # NaN where no operand has data
        return sum(vals) if case['agg'] == 'sum' else Fraction(sum(vals), len(vals))
    return expect_cellwise(xs, C, f)

def jc(l):
    """canonical observation of an expected result (Fractions -> int or float.hex)"""
    def c(v):
        if v is None: return 'NaN'
        v = Fraction(v)
        return int(v) if v.denominator == 1 else 'f:' + (v.numerator / v.denominator).hex()
    if 'S' in l:
        return ['S', [t for t, _ in l['S']], [c(v) for _, v in l['S']]]
    if 'F' in l:
        f = l['F']; order = sorted(range(len(f['cols'])), key=lambda i: colcode(f['cols'][i]))
        codes = [colcode(f['cols'][i]) for i in order] if len(order) != 1 else [0]
        return ['F', list(f['idx']), codes, [[c(r[i]) for r in f['rows']] for i in order]]
    return ['N', c(l['N'])]

def std_diff(exp, obs):
    """exp carries exact variances, obs float.hex cells: same shape, NaN in the same cells, sqrt(variance) within 1e-9"""
    if not isinstance(obs, list) or exp[:-1] != obs[:-1]:
        return 'df_std: index / columns differ: expected %s got %s' % (json.dumps(exp[:-1])[:150], json.dumps(obs[:-1])[:150])
    flat = lambda x: [v for r in x for v in (flat(r) if isinstance(r, list) else [r])] if isinstance(x, list) else [x]
    e, o = flat(exp[-1]), flat(obs[-1])
    if len(e) != len(o):
        return 'df_std: %d cells expected, %d found' % (len(e), len(o))
    for a, b in zip(e, o):
        if (a == 'NaN') != (b == 'NaN'):
            return 'df_std: NaN expected exactly where fewer than two operands have data: expected %s got %s' % (a, b)
        if a != 'NaN':
            var = float.fromhex(a[2:]) if isinstance(a, str) else float(a)
            got = float.fromhex(b)
            if abs(got - math.sqrt(max(var, 0.0))) > 1e-9 * (1 + abs(got)):
                return 'df_std: expected sqrt(%s) got %s' % (var, got)
    return None

def impl(case):
    status, obs = run_case(case)
    try:
        exp = jc(expect_op(case) if case['kind'] == 'op' else expect_minmax(case) if case['kind'] == 'minmax' else expect_agg(case))
    except Exception as e:
        return {'status': status, 'obs': obs, 'viol': None, 'harness_error': 'oracle: %s %s' % (type(e).__name__, e)}
    viol = None
    name = (case.get('op') or 'df_' + case['agg'])
    if case.get('agg') == 'std' and status == 'ok':
        return {'status': status, 'obs': obs, 'viol': std_diff(exp, obs) or _EXTRA[0]}
    if status != 'ok':
        viol = '%s raised %s on valid operands' % (name, status)
    elif obs and obs[0] == 'NOT-COMMUTATIVE':
        viol = '%s(a, b) != %s(b, a): %s vs %s' % (name, name, json.dumps(obs[1])[:150], json.dumps(obs[2])[:150])
    elif obs != exp:
        viol = '%s(join=%s, method=%s, columns=%s) is not the pointwise operation on the aligned operands: %s' % (
            name, case['how'], case['method'], case['columns'], first_diff(exp, obs))
    return {'status': status, 'obs': obs, 'viol': viol or _EXTRA[0]}

# ------------------------------------------------------------------ classification
def nontrivial(case, result):
    lvs = operand_leaves(case)
    idx = [set(idx_of(l)) for l in lvs if is_pdj(l)]
    for i in range(len(idx)):
        for j in range(i + 1, len(idx)):
            if idx[i] != idx[j] and idx[i] & idx[j]:
                return True
    return case.get('op') == 'div' and any(('N' in l and l['N'] == 0) for l in lvs)

def shape(case):
    kinds = ''.join(sorted({'S' if 'S' in l else 'F' if 'F' in l else 'N' for l in operand_leaves(case)}))
    return '%s:%s:%s:%s:%s' % (case.get('op') or case.get('agg'), kinds, case['how'], case['method'], case['columns'])

# ------------------------------------------------------------------ generation
def gen_val(rng, role, pnan=0.25):
    """role: 'int' | 'num64' (dividend) | 'den' (divisor: 0, +-1, 2, 4) | 'unit' (0, +-1) | 'exp' | 'twelve'"""
    if rng.random() < pnan:
        return None
    if role == 'num64': return 64 * rng.randrange(-9, 10)
    if role == 'den': return rng.choice([0, 0, 1, -1, 2, -2, 4, -4])
    if role == 'unit': return rng.choice([0, 1, -1, 1])
    if role == 'exp': return rng.choice([0, 1, 2, 3])
    if role == 'twelve': return 12 * rng.randrange(-9, 10)
    return rng.choice([0, rng.randrange(-9, 10)]) if rng.random() < 0.2 else rng.randrange(-9, 10)

def gen_ts(rng, idx, kind, role, cols=None):
    pn = rng.choice([0.1, 0.3])
    if kind == 'S':
        return {'S': [[t, gen_val(rng, role, pn)] for t in idx]}
    return {'F': {'cols': cols, 'idx': list(idx), 'rows': [[gen_val(rng, role, pn) for _ in cols] for _ in idx]}}

def gen_cols(rng, n=None):
    n = n or rng.choice([1, 2, 2, 3])
    return rng.sample('abcd', n)

def gen_operands(rng, n, roles, frames='mixed', scalars=True):
    """n timeseries (Series / frames) + possibly scalars; roles[i] for the i-th"""
    fam = index_family(rng, n)
    out = []
    for i, idx in enumerate(fam):
        k = 'S' if frames == 'none' else 'F' if frames == 'all' else rng.choice(['S', 'S', 'F'])
        cols = gen_cols(rng, None if frames != 'all' else rng.choice([2, 3])) if k == 'F' else None
        out.append(gen_ts(rng, idx, k, roles[i], cols))
    return out

def gen_binop_case(rng, op):
    how = rng.choice(['ij', 'oj', 'ij', 'oj', 'lj', 'rj'])
    method = rng.choice([None, None, 'ffill', 'bfill'])
    cpol = rng.choice(['ij', 'oj', 'ij', 'oj', 'lj', 'rj'])
    lists = op in ('add', 'sub', 'mul', 'div') and rng.random() < 0.35
    na = rng.choice([1, 2]) if lists else 1
    nb = rng.choice([1, 2]) if lists else 1
    r = rng.random()
    scal_a = r < 0.12; scal_b = 0.12 <= r < 0.3
    if op == 'div':
        ra, rb = 'num64', 'den'
    elif op == 'pow':
        ra, rb = 'int', 'exp'
    else:
        ra = rb = 'int'
    n_ts = (0 if scal_a else na) + (0 if scal_b else nb)
    frames = rng.choice(['none', 'none', 'mixed', 'all'])
    ts = gen_operands(rng, max(n_ts, 1), [ra] * (0 if scal_a else na) + [rb] * (nb + 1), frames)
    A = ts[:0 if scal_a else na]; B = ts[len(A):len(A) + (0 if scal_b else nb)]
    def scalar(role):
        return {'N': gen_val(rng, role, 0.15) if rng.random() < 0.7 else 0}
    if scal_a: A = [scalar(ra)]
    if scal_b: B = [scalar(rb)]
    if lists and rng.random() < 0.3:
        (A if rng.random() < 0.5 else B).append(scalar(ra if op != 'div' else 'unit'))
    if len(A) + len(B) > 2:
        # a list is reduced pairwise: keep one column common to all proper frames, otherwise an intermediate result is the
        # degenerate empty Series of the no-common-column case (outside the claim) and the next step cannot use it
        for l in A + B:
            if 'F' in l and len(l['F']['cols']) > 1 and 'a' not in l['F']['cols']:
                l['F']['cols'] = ['a'] + l['F']['cols'][1:]
    if op == 'div':
        # a column the numerator lacks is filled with 1: keep 1/b an integer then (divisors 0, +-1)
        a_cols = [set(l['F']['cols']) for l in A if 'F' in l and len(l['F']['cols']) > 1]
        b_multi = [l for l in B if 'F' in l and len(l['F']['cols']) > 1]
        risky = b_multi and (cpol[0] in 'or') and (not a_cols or any(not set(l['F']['cols']) <= set.intersection(*a_cols) for l in b_multi))
        if risky:
            unit = lambda v: None if v is None else max(-1, min(1, v))
            for l in B:
                if 'F' in l:
                    l['F']['rows'] = [[unit(v) for v in row] for row in l['F']['rows']]
                elif 'S' in l:
                    l['S'] = [[t, unit(v)] for t, v in l['S']]
                else:
                    l['N'] = unit(l['N'])
    a = {'many': A} if (len(A) > 1 or (lists and rng.random() < 0.3)) else A[0]
    b = {'many': B} if (len(B) > 1 or (lists and rng.random() < 0.3)) else B[0]
    case = {'kind': 'op', 'op': op, 'a': a, 'b': b, 'how': how, 'method': method, 'columns': cpol}
    if op in ('add', 'mul') and how in ('ij', 'oj') and cpol in ('ij', 'oj') and 'many' not in a and 'many' not in b:
        case['swap_check'] = True
    return case

def gen_cases(rng, tier):
    q = tier == 'quick'
    cases = []
    for op in BIN:
        for _ in range((260 if op in ('add', 'sub', 'mul', 'div') else 110) if q else (4000 if op in ('add', 'sub', 'mul', 'div') else 1500)):
            cases.append(gen_binop_case(rng, op))
    # scalar zero divisor and other scalar broadcasts, every policy
    for _ in range(40 if q else 400):
        s = gen_operands(rng, 1, ['num64'], rng.choice(['none', 'none', 'all', 'mixed']))[0]
        for z in (0, None, 2):
            cases.append({'kind': 'op', 'op': 'div', 'a': s, 'b': {'N': z}, 'how': rng.choice(['ij', 'oj']), 'method': rng.choice([None, 'ffill']), 'columns': rng.choice(['ij', 'oj'])})
    for _ in range(120 if q else 1500):                   # denominators with zeros that are ALREADY on the joint index (no fill): div_, then reuse
        kind = rng.choice(['S', 'S', 'F'])
        cols = gen_cols(rng, rng.choice([2, 3])) if kind == 'F' else None
        full = sorted(rng.sample(range(GRID), rng.randrange(2, 9)))
        sub = full if rng.random() < 0.5 else sorted(rng.sample(full, rng.randrange(1, len(full) + 1)))
        a = gen_ts(rng, full, kind, 'num64', cols)
        b = gen_ts(rng, sub, kind, 'den', cols)
        if rng.random() < 0.3:
            a = {'N': 64 * rng.randrange(-3, 4)}
        how = rng.choice(['ij', 'rj', 'oj']) if sub != full else rng.choice(['ij', 'oj', 'lj', 'rj'])
        if how == 'oj' and sub != full:
            how = 'ij'
        cases.append({'kind': 'op', 'op': 'div', 'a': a, 'b': b if rng.random() < 0.8 else {'many': [b, {'N': 2}]}, 'how': how, 'method': None, 'columns': rng.choice(['ij', 'oj'])})
    for _ in range(200 if q else 3000):                   # list operands / denominators with DIFFERENT column sets under columns='oj'
        op = rng.choice(['div', 'div', 'sub', 'sub', 'add', 'mul'])
        fam = index_family(rng, 3)
        ra, rb = ('num64', 'den') if op == 'div' else ('int', 'int')
        a_cols = list('abcd') if rng.random() < 0.6 else rng.sample('abcd', rng.choice([2, 3]))
        b1 = rng.sample('abcd', rng.choice([2, 3]))
        b2 = rng.sample('abcd', rng.choice([2, 3]))
        while set(b2) == set(b1):
            b2 = rng.sample('abcd', rng.choice([2, 3]))
        A = gen_ts(rng, fam[0], 'F', ra, a_cols)
        B = [gen_ts(rng, fam[1], 'F', rb, b1), gen_ts(rng, fam[2], 'F', rb, b2)]
        if op == 'div' and not (set(b1) | set(b2)) <= set(a_cols):      # 1/b must stay an integer where the numerator lacks a column
            for l in B:
                l['F']['rows'] = [[(None if v is None else max(-1, min(1, v))) for v in row] for row in l['F']['rows']]
        swap = op in ('sub', 'add', 'mul') and rng.random() < 0.3
        cases.append({'kind': 'op', 'op': op, 'a': {'many': B} if swap else A, 'b': A if swap else {'many': B},
                      'how': rng.choice(['ij', 'oj']), 'method': rng.choice([None, None, 'ffill']), 'columns': 'oj'})
    for _ in range(150 if q else 2500):                   # min_ / max_
        frames = rng.choice(['none', 'none', 'all'])
        n = rng.choice([1, 2, 2, 3, 4])
        xs = gen_operands(rng, n, ['int'] * n, frames)
        if rng.random() < 0.3:
            xs.insert(rng.randrange(len(xs) + 1), {'N': gen_val(rng, 'int', 0.2)})
        cases.append({'kind': 'minmax', 'op': rng.choice(['min', 'max']), 'xs': xs, 'how': rng.choice(['ij', 'oj', 'lj', 'rj']),
                      'method': rng.choice([None, None, 'ffill', 'bfill']), 'columns': rng.choice(['ij', 'oj'])})
    for _ in range(300 if q else 5000):                   # df_sum / df_mean / df_count
        frames = rng.choice(['none', 'none', 'all'])
        n = rng.choice([1, 2, 2, 3, 4])
        g = rng.choice(['sum', 'mean', 'count'])
        role = 'twelve' if g == 'mean' else 'int'
        xs = gen_operands(rng, n, [role] * n, frames)
        if rng.random() < 0.3 and len(xs) < 4:
            xs.insert(rng.randrange(len(xs) + 1), {'N': gen_val(rng, role, 0.3)})
        cases.append({'kind': 'agg', 'agg': g, 'xs': xs, 'how': rng.choice(['oj', 'oj', 'oj', 'ij']),
                      'method': rng.choice([None, None, None, 'ffill']), 'columns': rng.choice(['oj', 'oj', 'ij'])})
    for _ in range(100 if q else 1500):                   # add_ / mul_ of ONE list (b omitted)
        n = rng.choice([1, 2, 3, 4])
        xs = gen_operands(rng, n, ['int'] * n, rng.choice(['none', 'none', 'mixed', 'all']))
        for l in xs:                                      # keep a common column so that no intermediate result is the empty Series
            if 'F' in l and len(l['F']['cols']) > 1 and 'a' not in l['F']['cols']:
                l['F']['cols'] = ['a'] + l['F']['cols'][1:]
        if rng.random() < 0.3:
            xs.insert(rng.randrange(len(xs) + 1), {'N': gen_val(rng, 'int', 0.1)})
        cases.append({'kind': 'op', 'op': rng.choice(['add', 'mul']), 'a': {'many': xs}, 'b': None, 'how': rng.choice(['ij', 'oj', 'lj', 'rj']),
                      'method': rng.choice([None, None, 'ffill', 'bfill']), 'columns': rng.choice(['ij', 'oj'])})
    for _ in range(8 if q else 80):                       # long series (120-250 rows)
        pool = list(range(300))
        op = rng.choice(['add', 'sub', 'mul', 'div', 'gt'])
        ra, rb = ('num64', 'den') if op == 'div' else ('int', 'int')
        a = {'S': [[t, gen_val(rng, ra, 0.2)] for t in sorted(rng.sample(pool, rng.randrange(120, 251)))]}
        b = {'S': [[t, gen_val(rng, rb, 0.2)] for t in sorted(rng.sample(pool, rng.randrange(120, 251)))]}
        cases.append({'kind': 'op', 'op': op, 'a': a, 'b': b, 'how': rng.choice(['ij', 'oj']), 'method': rng.choice([None, 'ffill']), 'columns': 'ij'})
        xs = [a, {'S': [[t, gen_val(rng, 'twelve', 0.3)] for t, _ in b['S']]}]
        cases.append({'kind': 'agg', 'agg': rng.choice(['sum', 'count']), 'xs': [xs[0] if op != 'div' else xs[1], xs[1]], 'how': 'oj', 'method': None, 'columns': 'oj'})
    for _ in range(150 if q else 2000):                   # one-column frames x Series whose joint index has exactly 0, 1 or 2 rows
        k = rng.choice([0, 1, 1, 2])
        common = sorted(rng.sample(range(GRID), k))
        rest = [d for d in range(GRID) if d not in common]
        extra = lambda: sorted(common + rng.sample(rest, rng.choice([0, 0, 1, 3])))
        how = rng.choice(['ij', 'ij', 'lj', 'rj', 'oj'])
        ia, ib = (common, common) if how == 'oj' else (extra(), extra())
        if how == 'lj': ia = common
        if how == 'rj': ib = common
        if how == 'ij' and set(ia) & set(ib) != set(common): ib = common
        op = rng.choice(['min', 'max', 'min', 'max', 'add', 'sub', 'mul', 'div', 'gt', 'le'])
        ra, rb = ('num64', 'den') if op == 'div' else ('int', 'int')
        f1 = gen_ts(rng, ia, 'F', ra, [rng.choice('abcd')])
        s2 = gen_ts(rng, ib, 'S', rb)
        swap = rng.random() < 0.5 and op != 'div'
        if how in ('lj', 'rj') and swap:
            how = {'lj': 'rj', 'rj': 'lj'}[how]
        pair = [s2, f1] if swap else [f1, s2]
        if op in ('min', 'max'):
            xs = list(pair)
            r = rng.random()
            if r < 0.25: xs.append({'N': gen_val(rng, 'int', 0.1)})
            elif r < 0.4: xs.append({'S': [[t, gen_val(rng, 'int')] for t in common]})
            cases.append({'kind': 'minmax', 'op': op, 'xs': xs, 'how': how if len(xs) == 2 or how in ('ij', 'oj') else 'ij', 'method': rng.choice([None, None, 'ffill']), 'columns': rng.choice(['ij', 'oj'])})
        else:
            a, b = pair
            if op in ('add', 'sub', 'mul') and rng.random() < 0.3:
                a = {'many': [a, {'N': gen_val(rng, 'int', 0)}]}
            cases.append({'kind': 'op', 'op': op, 'a': a, 'b': b, 'how': how, 'method': rng.choice([None, None, 'ffill']), 'columns': rng.choice(['ij', 'oj'])})
    for _ in range(30 if q else 300):                     # df_sum / df_mean / df_count of scalars only (docstring example df_sum(a = 5, b = nan))
        g = rng.choice(['sum', 'mean', 'count'])
        xs = [{'N': gen_val(rng, 'twelve' if g == 'mean' else 'int', 0.4)} for _ in range(rng.choice([1, 2, 3, 4]))]
        cases.append({'kind': 'agg', 'agg': g, 'xs': xs, 'how': 'oj', 'method': None, 'columns': 'oj'})
    for _ in range(60 if q else 800):                     # df_std (in observe_at; not an integer quantity: oracle only, 1e-9)
        n = rng.choice([1, 2, 3, 4])
        xs = gen_operands(rng, n, ['int'] * n, rng.choice(['none', 'none', 'all']))
        cases.append({'kind': 'agg', 'agg': 'std', 'xs': xs, 'how': rng.choice(['oj', 'oj', 'ij']), 'method': None, 'columns': 'oj', 'nomodel': True})
    return [decorate(rng, add_inf(rng, c)) for c in cases]

def add_inf(rng, case):
    """+-inf cells and scalars for the operations whose IEEE result is determined without rounding"""
    ok = (case['kind'] == 'op' and case['op'] in ('add', 'sub', 'mul', 'div', 'gt', 'ge', 'lt', 'le')) or case['kind'] in ('minmax', 'agg')
    if not ok or rng.random() > 0.3:
        return case
    c = json.loads(json.dumps(case))
    pick = lambda v: (rng.choice([c03.INF, -c03.INF]) if (v is not None and rng.random() < 0.12) else v)
    for l in operand_leaves(c):
        if 'S' in l:
            l['S'] = [[t, pick(v)] for t, v in l['S']]
        elif 'F' in l:
            l['F']['rows'] = [[pick(v) for v in r] for r in l['F']['rows']]
        elif 'N' in l and rng.random() < 0.3:
            l['N'] = rng.choice([c03.INF, -c03.INF])
    return c

def decorate(rng, case):
    """kinds of input the plain streams do not reach: tick length / origin, spellings, scalar types, int dtype, names, a/b split"""
    c = json.loads(json.dumps(case))
    if rng.random() < 0.35:
        c['unit'] = rng.choice([3600 * 10**6, 1, 37000001, 10**6, c03.DAYUS])
        c['d0'] = rng.choice(['1900-01-01', '2020-02-29T13:45:10.000123', '2250-12-31', '2020-01-01'])
    if rng.random() < 0.3:
        sp = {'how': rng.choice(c03.HOW_SPELL[c['how'][0]]), 'columns': rng.choice(c03.HOW_SPELL[c['columns'][0]])}
        if c.get('method'):
            sp['method'] = rng.choice(c03.METHOD_SPELL[c['method']])
        c['spell'] = sp
    lvs = operand_leaves(c)
    ren = rng.choice([c03.LONGCOLS, c03.INTCOLS]) if rng.random() < 0.2 else None
    for l in lvs:
        if 'N' in l:
            l['nk'] = rng.choice(['float', 'float', 'int', 'np.float64', 'np.int64'])
        elif rng.random() < 0.15:
            l['dt'] = 'int'                               # takes effect only when the operand has no NaN
        if ren and 'F' in l:
            l['F']['cols'] = [ren.get(x, x) for x in l['F']['cols']]
    if c['kind'] in ('minmax', 'agg') and len(c['xs']) > 1 and rng.random() < 0.3:
        c['split'] = rng.randrange(1, len(c['xs']))
    if rng.random() < 0.25:                               # timezone-aware indices (all operands in the same zone)
        c['tz'] = rng.choice(['UTC', 'Europe/London', 'US/Eastern', 'Asia/Tokyo'])
    if c['kind'] == 'op' and c['op'] in ('add', 'sub', 'mul', 'div') and c['b'] is not None and (c['op'] == 'div' or rng.random() < 0.5):
        c['then'] = rng.choice([o for o in ('add', 'sub', 'mul') if o != c['op']])     # a second operator on the very same objects
    return c

# ------------------------------------------------------------------ shrinking
def shrink(case):
    def leaf_variants(l):
        for v in c03._variants(l):
            yield v
    if case['kind'] == 'op':
        for side in ('a', 'b'):
            x = case[side]
            if x is None:
                continue
            if 'many' in x:
                for i in range(len(x['many'])):
                    if len(x['many']) > 1:
                        yield dict(case, **{side: {'many': x['many'][:i] + x['many'][i + 1:]}})
                    for v in leaf_variants(x['many'][i]):
                        new = list(x['many']); new[i] = v
                        yield dict(case, **{side: {'many': new}})
            else:
                for v in leaf_variants(x):
                    yield dict(case, **{side: v})
    else:
        xs = case['xs']
        for i in range(len(xs)):
            if len(xs) > 1:
                yield dict(case, xs=xs[:i] + xs[i + 1:])
            for v in leaf_variants(xs[i]):
                new = list(xs); new[i] = v
                yield dict(case, xs=new)

LEVEL_TEXT = ('machine-checked Coq theorems (C08_*, for every cell operation, every series / pair of multi-column DataFrames and every index '
              'and column policy, no bound): index = intersection/union, columns = intersection/union, pointwise law with NaN for absent '
              'timestamps and the neutral default for absent columns (frame assembly included), scalar broadcast, left-to-right reduction, '
              'zero divisor -> NaN, commutativity, NaN-skipping sum/mean/count, concrete instances for pow_/comparisons/min_/max_; the model '
              '(exact-integer instances) is compared inside Coq with add_/sub_/mul_/div_/pow_/comparisons/min_/max_/df_sum/df_mean/df_count of '
              'the current tree on thousands of generated operand tuples, and a property-level oracle recomputes every cell with Fractions')
LEVEL_NOTE = ('trusted: Coq kernel/vm_compute; modelled not verified: pandas/numpy float arithmetic on aligned operands (compared exactly on '
              'integer-valued data), DataFrame construction from a dict of Series; builds on the C03 alignment model. every operator of the statement has a whole-object '
              'theorem instance for Series and for DataFrames (C08_arith_instances, C08_operator_instances, C08_min_max_frames, C08_mixed_operands, '
              'C08_single_column_branch, C08_sum_mean_count_frames); the Series x DataFrame tiling of min_/max_ is correspondence only. div_(x, 0) with a scalar '
              'zero divisor was repaired (fixes/C08.patch; C08_div_scalar_zero_pinned_refuted records the old behaviour)')
TECHNIQUE = 'Coq proof (induction over association lists, generic in the cell operation) + differential correspondence in vm_compute + exact Fraction oracle'
