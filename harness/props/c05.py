"""C05 — Calendar business-day arithmetic agrees with day-by-day counting."""
import datetime, signal, time, os
from implutil import call

ID = 'C05'
TRANSLATOR = ['drange']
COQ_EXEC = ['exec.X_bdays']
COQ_IMPORTS = 'From PB Require Import model.M_cal model.M_bdays.\n'
PER_FILE = 6
CASE_TIMEOUT = 20
NLO, NHI = -40, 40
RULE = ('cases: (a) one Calendar(key=None, holidays, weekend, t0, t1, adj) on a 1-3 year range starting 1950-2100 for every combination of holiday density '
        '{0, 5%, 20%, 50%} x weekend {Sat-Sun, Fri-Sat, Sun, none} x adj {f,p,m}, holidays = random days plus multi-day runs across month ends, around weekends and at '
        'both range ends (some just outside [t0,t1]); each case carries a batch of queries on days biased to holidays/run borders/month ends/range ends: is_bday, '
        'is_holiday, adjust (all spellings of adj), add for n in [-40,40], bdays, drange(.,.,"1b") and "sweeps" (is_bday, adjust, add for EVERY n in [-40,40] of one day; '
        'thorough tier: every day of the range for ranges <= 400 days); (b) registry histories over 1-3 keys: calendar(key, holidays, weekend, t0, t1) calls with reads, overwrites, empty holiday lists, default ranges; and histories that '
        'interleave table-path queries (add +-2..+-5, bdays, drange 1b: they force _populate on the registered object) between the registrations of a key and after the last one, '
        're-registering by key or through the fetched object calendar(calendar(key), holidays=...), queries placed on the days whose holiday status changed; every answer is checked '
        'day by day against the holidays LAST registered for that key. Observations (ordinals / error class) are compared in Coq with M_bdays; the oracle recomputes every answer by walking '
        'day by day from the property text and additionally checks on the real code bdays(t, add(t,n)) == n, add(add(t,n),-n) == t for business days, '
        'add(t,2) == add(add(t,1),1). Indexed-path (|n|>1) results that leave [t0,t1] (KeyError) are outside the property (model reproduces them, oracle ignores them); a returned date must always be the n-th business day and the single-step path (|n|<=1, no table) must return it even beyond t1/t0. '
        'Query dates are spelt as midnight datetime, datetime with a time of day (down to 1 us), pandas.Timestamp, datetime.date or numpy.datetime64[D/s/us/ns] '
        '(day-level semantics: same answers, results must be midnight datetimes; an exception, a wrong day or a non-midnight / non-datetime result is a violation; numpy.datetime64 is not used '
        'for is_bday / is_holiday nor with convention m, where the pinned code raises AttributeError). Further spellings (wave 6): the numbers dt() accepts -- unix timestamps (int / float seconds, UTC), yyyymmdd ints, proleptic ordinals, excel serials -- for adjust / add / bdays / drange / clock / dt_bump (same restriction as numpy: not for is_bday / is_holiday / convention m), pandas.Timestamp and numpy.datetime64[ns] with non-zero NANOSECONDS, and about a third of the cases run under a non-UTC process time zone (TZ + time.tzset(), restored afterwards; unix stamps early in the day west of Greenwich / late in the day east of it). drange with a business-day bump string as one endpoint (drange("-5b", t1, "1b"), drange(t0, "10b", "1b"), also "+3b" / "5B"): the oracle resolves it as add(other endpoint, n) by day-by-day counting and lists the business days between; the model composes dt_bump_b with drange_1b. add(t, 0) is not executed when the code\'s own adjust(t) is a holiday (unbounded loop; model: OutOfFuel). non-trivial = calendar with holidays or '
        'a weekend / registry sequence with an overwrite; distinct by full case')
EXPLANATION = ('theorems C05_* hold for EVERY holiday predicate, weekend predicate, month function and range: is_bday characterisation; adjust f/p = least/greatest business day '
               'with termination bound; m = f unless the month changes; dt2int = day-by-day count, int2dt its inverse, table successor = next business day; add (both paths) '
               '= the unique n-th business day, found whenever it lies in the calendar; exact termination condition of the |n|<=1 loop; paths agree; bdays(t, add(t,n)) = n; '
               'add inverse; drange 1b = the business days between the adjusted endpoints, strictly increasing; registry last write wins for any history of registrations, fetches and table-path uses, cached tables included (a table-path answer after re-registration is computed from the table of the LAST registered arguments). '
               'The f/p loops of adjust, is_holiday/is_bday, and the loop path and path selector of add are regenerated from /repo by the translator and proved equal to '
               'the model (P_bdays_gen.v); the correspondence ties the rest (table construction with dateutil.rrule, dict lookups, dispatch on adj strings, drange, registry)')
TRUSTED = ['translator/py2coq.py + gen_drange.py (Calendar.is_holiday, is_bday, adjust f/p loops, add loop path and |days|>1 selector)',
           'modelled, not verified: dateutil.rrule daily enumeration in _populate, dict/zip table construction, datetime.weekday/month (M_cal, validated for every day 1900-2300 in C04)']
ASSUMPTIONS = ['dates at midnight (day granularity)', 't0 <= t1 given explicitly', 'weekend is not all seven days (the second adjust loop would not terminate)']
EXHAUSTIVE = {'quick': False, 'thorough': False}
LEVEL_TEXT = ('machine-checked Coq theorems for all holiday sets, weekend definitions, month maps and ranges (no bound): adjust f/p/m characterisation and termination, '
              'table index = day-by-day count, add = n-th business day on both code paths with completeness and uniqueness, paths agree, bdays/add and inverse laws, '
              'drange 1b, registry last-write-wins; model tied to the code by translated loops (bridging lemmas) and by differential runs on whole-range sweeps')
LEVEL_NOTE = ('trusted: Coq kernel/vm_compute, the translator for the translated units; modelled not verified: rrule enumeration, dict plumbing, adj string dispatch '
              '(all exercised by the correspondence)')
TECHNIQUE = 'Coq proof (filter/range list lemmas, induction over fuel) over a hand-written model + py2coq translation of the loops with bridging lemmas + differential correspondence in vm_compute'

WEEKENDS = {'satsun': [5, 6], 'frisat': [4, 5], 'sun': [6], 'none': []}
TMIN_ORD = 693596; TMAX_ORD = 839693
D = datetime.datetime.fromordinal

def eff_adj(a, default):
    return (a or default)[0].lower()

# ------------------------------------------------------------------ oracle (from the property text only)
class Oracle:
    def __init__(self, case):
        self.a, self.b = case['t0'], case['t1']
        self.H = set(case['hol']); self.W = set(case['wk'])
    def isb(self, d):
        return datetime.date.fromordinal(d).weekday() not in self.W and d not in self.H
    def nxt(self, t):
        d = t
        while d <= self.b:
            if self.isb(d): return d
            d += 1
        return None
    def prv(self, t):
        d = t
        while d >= self.a:
            if self.isb(d): return d
            d -= 1
        return None
    def adjust(self, t, adj):
        """nearest business day per convention; None = no such day inside the calendar / t outside (outside the property)"""
        if not (self.a <= t <= self.b):
            return None
        if adj == 'f': return self.nxt(t)
        if adj == 'p': return self.prv(t)
        f = self.nxt(t)
        if f is None: return None
        if datetime.date.fromordinal(f).month == datetime.date.fromordinal(t).month:
            return f
        return self.prv(t)
    def nth(self, s, n):
        """n-th business day counted from s, walking one day at a time (also beyond [t0, t1]: the holiday list is known there too)"""
        d = s; step = 1 if n > 0 else -1; k = abs(n)
        while k > 0:
            d += step
            if self.isb(d): k -= 1
        return d
    def inside(self, d):
        return self.a <= d <= self.b
    def count(self, x, y):
        """signed number of business days in (x, y]"""
        if y >= x: return sum(1 for d in range(x + 1, y + 1) if self.isb(d))
        return -sum(1 for d in range(y + 1, x + 1) if self.isb(d))

class QueryTimeout(BaseException):
    pass
QUERY_TIMEOUT = 5.0
def guarded(f, *a):
    """call(f, *a) under a per-call watchdog (add / dt_bump contain unbounded loops): ('Timeout', None) when it does not return.
    The worker's own per-case alarm is suspended and restored with the time that is left."""
    old = signal.getsignal(signal.SIGALRM); left = signal.getitimer(signal.ITIMER_REAL)[0]; t0 = time.time()
    def h(sig, frm): raise QueryTimeout()
    signal.signal(signal.SIGALRM, h); signal.setitimer(signal.ITIMER_REAL, QUERY_TIMEOUT)
    try:
        return call(f, *a)
    except QueryTimeout:
        return 'Timeout', None
    finally:
        signal.setitimer(signal.ITIMER_REAL, 0); signal.signal(signal.SIGALRM, old)
        if left > 0: signal.setitimer(signal.ITIMER_REAL, max(0.05, left - (time.time() - t0)))

def impl_setup():
    global Calendar, calendar, calendars
    from pyg_base._drange import Calendar, calendar, calendars

NUMERIC = ('unix', 'unixf', 'ymdint', 'ord', 'xl')
class NotADay(Exception):
    pass
def _ord(x):
    if isinstance(x, datetime.datetime) and x == datetime.datetime(x.year, x.month, x.day):
        return x.toordinal()
    raise NotADay('a Calendar method returned %r, which is not a day (datetime at midnight): business days are whole days' % (x,))

class Runner:
    """runs the queries of one case on the real Calendar; collects observations and oracle violations"""
    def __init__(self, case, cal=None):
        self.case = case
        f = case.get('forms') or {}
        self.tod = datetime.timedelta(microseconds=f.get('tod', 0))
        # spelling of the query dates: 'dt' midnight datetime | 'tod' datetime with a time of day | 'ts' pandas Timestamp |
        # 'date' datetime.date | 'np' numpy datetime64 (unit D / us / ns).  Day-level semantics: the answer must not depend on it
        self.dform = f.get('dform') or ('ts' if f.get('ts') else 'tod' if f.get('tod') else 'dt')
        self.npunit = f.get('npunit', 'us')
        self.ns = f.get('ns', 0)         # extra nanoseconds on pandas.Timestamp / numpy.datetime64[ns] spellings (tick stamps)
        if cal is None:
            wk = list(case['wk']); wf = f.get('wkform', 'list')
            wk_py = None if wf == 'none' else wk[0] if wf == 'int' else tuple(wk) if wf == 'tuple' else wk
            hol_py = f.get('hol_py', case['hol'])
            kw = dict(holidays=None if (f.get('holnone') and not hol_py) else [D(h) for h in hol_py], weekend=wk_py, adj=f.get('adjsp', case['adj']))
            if not case.get('default_range'):
                kw.update(t0=D(case['t0']), t1=D(case['t1']))
            cal = Calendar(key=None, **kw)
        self.cal = cal
        if case.get('default_range'):
            call(cal.clock, D(case['t0']))      # _populate of 146098 days, outside the per-call watchdog
        self.o = Oracle(case)
        self.viol = None
    def DT(self, d, a='f'):
        """the query date in the case's spelling.  numpy datetime64 is used only where the pinned code accepts it: not for
        is_bday / is_holiday (`date.weekday()`) nor with the effective convention 'm' (`date.month`): AttributeError there (see coverage/C05.md)"""
        if self.dform == 'date':
            return datetime.date.fromordinal(d)
        t = D(d) + self.tod
        if self.dform == 'ts':
            import pandas as pd
            return pd.Timestamp(t) + pd.Timedelta(nanoseconds=self.ns)
        restricted_ok = a is not None and eff_adj(a if a != 'dflt' else None, self.case['adj']) != 'm'
        if self.dform == 'np' and restricted_ok:
            import numpy as np
            if self.npunit == 'ns' and self.ns:
                return np.datetime64(t, 'ns') + np.timedelta64(self.ns, 'ns')
            return np.datetime64(t, self.npunit)
        if self.dform in NUMERIC and restricted_ok:
            # the numeric spellings dt() accepts (same restriction as numpy: ints have no .weekday() / .month)
            secs = self.tod.days * 86400 + self.tod.seconds
            if self.dform == 'ord': return d
            if self.dform == 'xl': return d - 693594
            if self.dform == 'ymdint': return int(D(d).strftime('%Y%m%d'))
            stamp = (d - 719163) * 86400 + secs          # unix timestamp (UTC) of that day [+ time of day]
            if stamp > 30001231 + 86400:                 # below that dt() reads the number as yyyymmdd / ordinal / day offset
                return stamp if self.dform == 'unix' else stamp + self.tod.microseconds / 1e6
        return t
    def what(self):
        if self.dform == 'dt' and not (self.case.get('forms') or {}).get('tz'): return ''
        names = {'dt': 'midnight datetime', 'tod': 'datetime with time of day', 'ts': 'pandas.Timestamp', 'date': 'datetime.date', 'np': 'numpy.datetime64[%s]' % self.npunit,
                 'unix': 'unix timestamp (int seconds, UTC)', 'unixf': 'unix timestamp (float seconds, UTC)', 'ymdint': 'yyyymmdd int', 'ord': 'proleptic ordinal int', 'xl': 'excel serial int'}
        tz = (self.case.get('forms') or {}).get('tz')
        return ' (query dates spelt as %s%s%s%s)' % (names[self.dform], ' +%s' % self.tod if self.tod and self.dform not in ('date', 'ord', 'xl', 'ymdint') else '',
                                                  ' +%dns' % self.ns if self.ns and self.dform in ('ts', 'np') else '', '; process time zone TZ=%s' % tz if tz else '')
    def bad(self, msg):
        if self.viol is None:
            c = self.case
            self.viol = '%s%s  [Calendar t0=%s t1=%s weekend=%s adj=%s, %d holidays]' % (msg, self.what(), D(c['t0']).date(), D(c['t1']).date(), c['wk'], c['adj'], len(c['hol']))
    def q_isb(self, d):
        st, r = call(self.cal.is_bday, self.DT(d, None))
        if st != 'ok':
            if self.o.inside(d): self.bad('is_bday(%s) raised %s' % (D(d).date(), st))
            return ['ERR', st]
        r = bool(r)
        if self.o.a <= d <= self.o.b and r != self.o.isb(d):
            self.bad('is_bday(%s) = %s but the day is%s a weekend day or holiday' % (D(d).date(), r, '' if not self.o.isb(d) else ' not'))
        return r
    def q_ish(self, d):
        st, r = call(self.cal.is_holiday, self.DT(d, None))
        if st != 'ok':
            if self.o.inside(d): self.bad('is_holiday(%s) raised %s' % (D(d).date(), st))
            return ['ERR', st]
        r = bool(r)
        if self.o.a <= d <= self.o.b and r == self.o.isb(d):
            self.bad('is_holiday(%s) = %s contradicts weekend/holiday membership' % (D(d).date(), r))
        return r
    def q_adj(self, a, d):
        st, r = call(self.cal.adjust, self.DT(d, a or 'dflt'), a)
        e = self.o.adjust(d, eff_adj(a, self.case['adj']))
        if st != 'ok':
            if e is not None: self.bad('adjust(%s, %r) raised %s, the nearest business day by that convention is %s' % (D(d).date(), a, st, D(e).date()))
            return ['ERR', st]
        r = _ord(r)
        if e is not None and r != e:
            self.bad('adjust(%s, %r) = %s, the nearest business day by that convention is %s' % (D(d).date(), a, D(r).date(), D(e).date()))
        elif e is None and self.o.inside(d) and self.o.inside(r) and (not self.o.isb(r) or eff_adj(a, self.case['adj']) != 'm'):
            # no business day exists in that direction inside the calendar: a result inside [t0, t1] cannot be "the nearest business day"
            self.bad('adjust(%s, %r) = %s lies inside the calendar but %s' % (D(d).date(), a, D(r).date(),
                     'is not a business day' if not self.o.isb(r) else 'no business day exists on that side of %s up to the end of the calendar' % D(d).date()))
        return r
    def add_raw(self, a, d, n):
        """('ok', ordinal) | (errname, None) | ('OutOfFuel', None) when the call would not return"""
        if n == 0:
            st, s = call(self.cal.adjust, self.DT(d, a or 'dflt'), a)
            if st == 'ok' and self.cal.is_holiday(s):
                return 'OutOfFuel', None
        st, r = guarded(self.cal.add, self.DT(d, a or 'dflt'), n, a)
        return (st, _ord(r)) if st == 'ok' else (st, None)
    def q_add(self, a, d, n, laws=True):
        st, r = self.add_raw(a, d, n)
        ea = eff_adj(a, self.case['adj'])
        s = self.o.adjust(d, ea)
        if s is not None:
            e = self.o.nth(s, n)
            # a KeyError is outside the property only on the indexed path (|n| > 1) when the n-th business day leaves [t0, t1];
            # the single-step path (|n| <= 1) does not use the table and a returned date must always be the right one
            if st == 'ok' or self.o.inside(e) or abs(n) <= 1:
                if st != 'ok':
                    self.bad('add(%s, %d, %r) raised %s; counting %d business days from %s gives %s' % (D(d).date(), n, a, st, n, D(s).date(), D(e).date()))
                elif r != e:
                    self.bad('add(%s, %d, %r) = %s; counting %d business days from %s gives %s' % (D(d).date(), n, a, D(r).date(), n, D(s).date(), D(e).date()))
                elif laws and self.viol is None and self.o.inside(e):
                    s2, b = call(self.cal.bdays, self.DT(d, a or 'dflt'), self.DT(r, a or 'dflt'), a)
                    if s2 != 'ok' or b != n:
                        self.bad('bdays(%s, add(%s, %d)) = %s, expected %d' % (D(d).date(), D(d).date(), n, b if s2 == 'ok' else s2, n))
                    if self.o.isb(d):
                        s3, back = self.add_raw(a, r, -n)
                        if s3 != 'ok' or back != d:
                            self.bad('add(add(%s, %d), %d) = %s, expected the business day %s back' % (D(d).date(), n, -n, D(back).date() if s3 == 'ok' else s3, D(d).date()))
                    if n == 2:
                        s4, r1 = self.add_raw(a, d, 1)
                        s5, r2 = self.add_raw(a, r1, 1) if s4 == 'ok' else (s4, None)
                        if s5 != 'ok' or r2 != r:
                            self.bad('add(%s, 2) = %s but add(add(%s, 1), 1) = %s' % (D(d).date(), D(r).date(), D(d).date(), D(r2).date() if s5 == 'ok' else s5))
        return r if st == 'ok' else ['ERR', st]
    def q_bd(self, a, x, y):
        st, r = call(self.cal.bdays, self.DT(x, a or 'dflt'), self.DT(y, a or 'dflt'), a)
        ea = eff_adj(a, self.case['adj'])
        sx, sy = self.o.adjust(x, ea), self.o.adjust(y, ea)
        if sx is not None and sy is not None:
            e = self.o.count(sx, sy)
            if st != 'ok' or r != e:
                self.bad('bdays(%s, %s, %r) = %s; counting day by day between the adjusted dates %s and %s gives %d' % (D(x).date(), D(y).date(), a, r if st == 'ok' else st, D(sx).date(), D(sy).date(), e))
        return int(r) if st == 'ok' else ['ERR', st]
    def q_dr(self, x, y):
        st, r = call(self.cal.drange, self.DT(x), self.DT(y), '1b')
        obs = [_ord(t) for t in r] if st == 'ok' else ['ERR', st]
        sx, sy = self.o.adjust(x, self.case['adj']), self.o.adjust(y, self.case['adj'])
        if sx is not None and sy is not None:
            e = [d for d in range(sx, sy + 1) if self.o.isb(d)]
            if st != 'ok' or obs != e:
                self.bad("drange(%s, %s, '1b') = %s; the business days between the adjusted endpoints %s and %s are %d days %s..%s" % (
                    D(x).date(), D(y).date(), ('%d days %s' % (len(obs), [str(D(t).date()) for t in obs[:4]])) if st == 'ok' else st,
                    D(sx).date(), D(sy).date(), len(e), [str(D(t).date()) for t in e[:3]], [str(D(t).date()) for t in e[-2:]]))
        return obs
    def q_drb(self, mode, x, n):
        """drange with one endpoint given as a business-day bump string relative to the other: drange('-5b', x, '1b') starts at add(x, -5),
        drange(x, '10b', '1b') ends at add(x, 10) -- the calendar's own business days, default convention"""
        text = ('%+db' if x % 2 == 0 and n > 0 else '%db') % n
        if x % 3 == 0: text = text.upper()
        args = (text, self.DT(x)) if mode == 's' else (self.DT(x), text)
        st, r = guarded(self.cal.drange, args[0], args[1], '1b')
        obs = [_ord(t) for t in r] if st == 'ok' else ['ERR', st]
        sx = self.o.adjust(x, self.case['adj'])
        if sx is not None:
            e = self.o.nth(sx, n)
            if self.o.inside(e):
                lo, hi = (e, sx) if mode == 's' else (sx, e)
                exp = [d for d in range(lo, hi + 1) if self.o.isb(d)]
                if st != 'ok' or obs != exp:
                    self.bad("drange(%s, %s, '1b') = %s; the bump endpoint is add(%s, %d) = %s (counting business days one at a time from the adjusted date %s) and the business days between are %d days %s..%s" % (
                        repr(text) if mode == 's' else D(x).date(), D(x).date() if mode == 's' else repr(text),
                        ('%d days %s..%s' % (len(obs), [str(D(t).date()) for t in obs[:2]], [str(D(t).date()) for t in obs[-1:]])) if st == 'ok' else st,
                        D(x).date(), n, D(e).date(), D(sx).date(), len(exp), [str(D(t).date()) for t in exp[:2]], [str(D(t).date()) for t in exp[-1:]]))
        return obs
    def q_clk(self, d):
        st, r = call(self.cal.clock, self.DT(d, 'dflt'))
        s = self.o.adjust(d, self.case['adj'])
        if s is not None:
            e = sum(1 for x in range(self.o.a, s) if self.o.isb(x))
            if st != 'ok' or r != e:
                self.bad('clock(%s) = %s; there are %d business days from the start of the calendar up to the adjusted date %s' % (D(d).date(), r if st == 'ok' else st, e, D(s).date()))
        return int(r) if st == 'ok' else ['ERR', st]
    def q_bump(self, a, d, toks):
        """dt_bump(d, '<n>b<n>b...', adj): each token is add(., n, adj); the literal '+0b' / '-0b' first adjusts following / previous"""
        text = ''.join(('+0b' if z == 1 else '-0b' if z == -1 else '%db' % n) for n, z in toks)
        hang = False
        t = d; ea = eff_adj(a, self.case['adj']); exp = d
        for n, z in toks:        # expected chain by day-by-day counting; None as soon as a stage leaves the calendar
            if exp is None: break
            if z: exp = self.o.adjust(exp, 'f' if z == 1 else 'p')
            s = self.o.adjust(exp, ea) if exp is not None else None
            exp = self.o.nth(s, n) if s is not None else None
            if exp is not None and not self.o.inside(exp): exp = None
        # the code's own unbounded loop (n = 0 from a holiday outside the calendar) is not executed
        cur = self.DT(d, a or 'dflt')
        for n, z in toks:
            st0, c1 = call(self.cal.adjust, cur, 'f' if z == 1 else 'p') if z else ('ok', cur)
            if st0 != 'ok': break
            if n == 0:
                st0, s0 = call(self.cal.adjust, c1, a)
                if st0 == 'ok' and self.cal.is_holiday(s0): hang = True; break
            st0, cur = guarded(self.cal.add, c1, n, a)
            if st0 != 'ok': break
        if hang:
            return ['ERR', 'OutOfFuel']
        st, r = guarded(self.cal.dt_bump, self.DT(d, a or 'dflt'), text, a)
        if st == 'ok': r = _ord(r)
        if exp is not None and (st != 'ok' or r != exp):
            self.bad('dt_bump(%s, %r, %r) = %s; counting business days token by token gives %s' % (D(d).date(), text, a, D(r).date() if st == 'ok' else st, D(exp).date()))
        return r if st == 'ok' else ['ERR', st]
    def run(self, q):
        k = q[0]
        if k == 'clk': return self.q_clk(q[1])
        if k == 'drb': return self.q_drb(q[1], q[2], q[3])
        if k == 'bump': return self.q_bump(q[1], q[2], q[3])
        if k == 'isb': return self.q_isb(q[1])
        if k == 'ish': return self.q_ish(q[1])
        if k == 'adj': return self.q_adj(q[1], q[2])
        if k == 'add': return self.q_add(q[1], q[2], q[3])
        if k == 'bd': return self.q_bd(q[1], q[2], q[3])
        if k == 'dr': return self.q_dr(q[1], q[2])
        if k == 'sw':
            a, d = q[1], q[2]
            return [self.q_isb(d), self.q_adj(a, d)] + [self.q_add(a, d, n) for n in range(NLO, NHI + 1)]
        raise ValueError(k)

def cal_obs(c):
    return [sorted(_ord(h) for h in c.holidays), [int(w) for w in c.weekend], _ord(c.t0), _ord(c.t1)]

KEYFORMS = {'str': lambda k: 'c05key%d' % k, 'int': lambda k: 1000 + k, 'tuple': lambda k: ('C05', k), 'none': lambda k: None if k == 0 else 'c05key%d' % k,
            'upper': lambda k: ['US', 'us', 'Us'][k % 3]}
def reg_key(case, k):
    """the Python key object for key index k: strings, ints, tuples, None, strings differing only by case"""
    return KEYFORMS[case.get('keyform', 'str')](k)

def norm_ops(ops):
    """registry ops: ['call', k, h, w, a, b] | ['obj', k, h, w, a, b] | ['q', k, query]; old corpus form [k, h, w, a, b] = call"""
    return [(['call'] + list(o)) if isinstance(o[0], int) else list(o) for o in ops]

def impl_registry(case):
    calendars.clear()
    last = {}            # key -> [holidays, weekend, t0, t1] LAST registered (plain bookkeeping from the property text)
    obs = []; viol = None
    DEFAULT = [[], [5, 6], TMIN_ORD, TMAX_ORD]
    for i, op in enumerate(norm_ops(case['ops'])):
        kind, k = op[0], op[1]
        key = reg_key(case, k)
        if kind == 'q':
            c = calendar(key)
            if k not in last: last[k] = list(DEFAULT)
            reg = last[k]
            r = Runner({'t0': reg[2], 't1': reg[3], 'hol': reg[0], 'wk': reg[1], 'adj': 'm', 'forms': case.get('forms')}, cal=c)
            try:
                obs.append(r.run(op[2]))
            except NotADay as e:
                return {'status': 'ok', 'obs': ['ERR', 'NotADay'], 'viol': viol or '%s%s' % (e, r.what())}
            if viol is None and r.viol:
                viol = 'op #%d on calendar(%r) (last registered with holidays=%s): %s' % (i, key, reg[0] if len(reg[0]) <= 12 else '%d days' % len(reg[0]), r.viol)
            continue
        h, w, a, b = op[2:6]
        kw = {}
        if h is not None: kw['holidays'] = [D(x) for x in h]
        if w is not None: kw['weekend'] = list(w)
        if a is not None: kw['t0'] = D(a)
        if b is not None: kw['t1'] = D(b)
        if kind == 'obj':
            if k not in last: last[k] = list(DEFAULT)
            c = calendar(calendar(key), **kw)
            if kw:   # registered through the object: arguments left out (or empty lists) are taken from the object
                cur = last[k]
                last[k] = [sorted(h) if h else cur[0], list(w) if w else cur[1], a if a is not None else cur[2], b if b is not None else cur[3]]
        else:
            c = calendar(key, **kw)
            if kw:
                last[k] = [sorted(h or []), list(w) if w is not None else [5, 6], a if a is not None else TMIN_ORD, b if b is not None else TMAX_ORD]
            elif k not in last:
                last[k] = list(DEFAULT)
        o = cal_obs(c)
        obs.append(o)
        if viol is None and o != last[k]:
            viol = 'op #%d calendar(%s%s) returned a calendar with holidays=%s weekend=%s t0=%s t1=%s but key %r was last registered with holidays=%s weekend=%s t0=%s t1=%s' % (
                i, repr(key) if kind == 'call' else 'calendar(%r)' % key, ''.join(', %s=...' % x for x in kw), o[0], o[1], o[2], o[3], key, last[k][0], last[k][1], last[k][2], last[k][3])
        if viol is None and o[0] and c.is_bday(D(o[0][0])):
            viol = 'calendar(%r) says its registered holiday %s is a business day' % (key, D(o[0][0]).date())
    return {'status': 'ok', 'obs': obs, 'viol': viol}

def impl(case):
    """some cases run under a non-UTC process time zone (TZ + time.tzset()): day arithmetic must not depend on where the machine sits"""
    tz = (case.get('forms') or {}).get('tz')
    if not tz:
        return impl_tz(case)
    old = os.environ.get('TZ')
    os.environ['TZ'] = tz; time.tzset()
    try:
        return impl_tz(case)
    finally:
        if old is None: os.environ.pop('TZ', None)
        else: os.environ['TZ'] = old
        time.tzset()

def impl_tz(case):
    if case['kind'] == 'reg':
        return impl_registry(case)
    r = Runner(case)
    try:
        obs = [r.run(q) for q in case['q']]
    except NotADay as e:
        return {'status': 'ok', 'obs': ['ERR', 'NotADay'], 'viol': r.viol or '%s%s' % (e, r.what())}
    return {'status': 'ok', 'obs': obs, 'viol': r.viol}

# ------------------------------------------------------------------ Coq side
def coq_runner(case):
    return 'run_registry' if case['kind'] == 'reg' else 'run_cal'
ADJ = {'f': 'AdjF', 'p': 'AdjP', 'm': 'AdjM'}
def coq_a(a):
    return 'None' if a is None else '(Some %s)' % ADJ[a[0].lower()]
def zl(l):
    return '[' + '; '.join('(%d)' % x for x in l) + ']'
def coq_q(q):
    k = q[0]
    if k == 'isb': return 'QIsB (%d)' % q[1]
    if k == 'ish': return 'QIsH (%d)' % q[1]
    if k == 'adj': return 'QAdjust %s (%d)' % (coq_a(q[1]), q[2])
    if k == 'add': return 'QAdd %s (%d) (%d)' % (coq_a(q[1]), q[2], q[3])
    if k == 'bd': return 'QBdays %s (%d) (%d)' % (coq_a(q[1]), q[2], q[3])
    if k == 'dr': return 'QDrange (%d) (%d)' % (q[1], q[2])
    if k == 'sw': return 'QSweep %s (%d)' % (coq_a(q[1]), q[2])
    if k == 'clk': return 'QClock (%d)' % q[1]
    if k == 'drb': return 'QDrangeB %s (%d) [((%d), 0)]' % ('true' if q[1] == 's' else 'false', q[2], q[3])
    if k == 'bump': return 'QBump %s (%d) [%s]' % (coq_a(q[1]), q[2], '; '.join('((%d), (%d))' % (n, z) for n, z in q[3]))
    raise ValueError(k)
def opt(x, f):
    return 'None' if x is None else '(Some %s)' % f(x)
def coq_case(case):
    if case['kind'] == 'reg':
        items = []
        for op in norm_ops(case['ops']):
            if op[0] == 'q':
                items.append('RQ (%d) (%s)' % (op[1], coq_q(op[2])))
            else:
                k, h, w, a, b = op[1:6]
                items.append('%s (%d) %s %s %s %s' % ('RCall' if op[0] == 'call' else 'RObj', k, opt(h, zl), opt(w, zl), opt(a, lambda x: '(%d)' % x), opt(b, lambda x: '(%d)' % x)))
        return '[' + '; '.join(items) + ']'
    return '((%d), (%d), %s, %s, %s, [%s])' % (case['t0'], case['t1'], zl(case['hol']), zl(case['wk']), ADJ[case['adj']],
                                             '; '.join(coq_q(q) for q in case['q']))

def nontrivial(case, result):
    if case['kind'] == 'reg':
        ops = norm_ops(case['ops'])
        keys = [o[1] for o in ops if o[0] != 'q' and any(x is not None for x in o[2:6])]
        return len(keys) != len(set(keys))
    return bool(case['hol'] or case['wk'])
def shape(case):
    if case['kind'] == 'reg':
        ops = norm_ops(case['ops'])
        return 'registry/%s' % ('interleaved-table-queries' if any(o[0] == 'q' for o in ops) else 'calls-only')
    return 'cal/%s/%s/%s' % (case.get('dens', '?'), case.get('wkname', '?'), case['adj'])

# ------------------------------------------------------------------ generation
SPELL = {'f': ['f', 'F', 'following', 'fol'], 'p': ['p', 'P', 'prev', 'previous'], 'm': ['m', 'M', 'modified', 'mf']}

def month_ends(t0, t1):
    out = []
    d = datetime.date.fromordinal(t0).replace(day=1)
    while d.toordinal() <= t1:
        nm = (d.replace(day=28) + datetime.timedelta(days=4)).replace(day=1)
        e = nm.toordinal() - 1
        if t0 <= e <= t1: out.append(e)
        d = nm
    return out

def gen_calendar(rng, dens, wkname, adj, tier, span=None):
    t0 = datetime.date(rng.randrange(1950, 2100), rng.randrange(1, 13), rng.randrange(1, 29)).toordinal()
    span = span or rng.choice([365, 366, 400, 730, rng.randrange(365, 1100), 1096])
    t1 = t0 + span
    H = set()
    for d in range(t0 - 7, t1 + 8):
        if rng.random() < dens: H.add(d)
    borders = []
    if dens > 0:
        mes = month_ends(t0, t1)
        for _ in range(max(2, span // 120)):        # multi-day runs across month ends and weekends
            e = rng.choice(mes) if mes and rng.random() < 0.7 else rng.randrange(t0, t1 + 1)
            lo = e - rng.randrange(0, 5); hi = e + rng.randrange(0, 6)
            H.update(range(lo, hi + 1)); borders += [lo - 1, lo, hi, hi + 1]
        for _ in range(2):                            # runs touching / crossing the range ends
            k = rng.randrange(1, 7)
            if rng.random() < 0.5:
                lo = t0 - rng.randrange(0, 3); H.update(range(lo, lo + k)); borders += [lo + k - 1, lo + k]
            else:
                hi = t1 + rng.randrange(0, 3); H.update(range(hi - k + 1, hi + 1)); borders += [hi - k, hi - k + 1]
    hol = sorted(H)
    case = {'kind': 'cal', 't0': t0, 't1': t1, 'hol': hol, 'wk': WEEKENDS[wkname], 'adj': adj, 'dens': dens, 'wkname': wkname, 'q': []}
    inr = [d for d in hol if t0 <= d <= t1]
    def day():
        r = rng.random()
        if r < 0.25 and inr: return rng.choice(inr)
        if r < 0.40 and borders: return min(max(rng.choice(borders), t0 - 2), t1 + 2)
        if r < 0.55:
            mes = month_ends(t0, t1)
            if mes: return min(max(rng.choice(mes) + rng.randrange(-3, 4), t0), t1)
        if r < 0.70: return rng.choice([t0, t0 + 1, t0 + 2, t1, t1 - 1, t1 - 2, t0 + rng.randrange(0, 12), t1 - rng.randrange(0, 12)])
        if r < 0.73: return rng.choice([t0 - 1, t0 - 2, t1 + 1, t1 + 2])
        return rng.randrange(t0, t1 + 1)
    def spell():
        r = rng.random()
        if r < 0.5: return None
        return rng.choice(SPELL[rng.choice('fpm')]) if r < 0.8 else rng.choice(SPELL[adj])
    # input forms (Python side only; the model sees the canonical calendar): time of day / sub-second part on query dates,
    # pandas Timestamps, weekend as None / int / tuple, holidays unsorted with duplicates or None, spelled constructor adj
    forms = {}
    forms['dform'] = rng.choice(['dt', 'tod', 'tod', 'ts', 'ts', 'date', 'np', 'np', 'unix', 'unix', 'unixf', 'ymdint', 'ord', 'xl'])
    if forms['dform'] in ('tod', 'ts', 'np', 'unix', 'unixf'):
        forms['tod'] = rng.choice([0, 1, 999999, 10800000000, 43200000000, 75600000000, 86399999999, rng.randrange(1, 86400000000)] if forms['dform'] != 'tod' else [1, 999999, 43200000000, 86399999999, rng.randrange(1, 86400000000)])
    if forms['dform'] == 'np': forms['npunit'] = rng.choice(['D', 'us', 'ns', 'ns', 's'])
    if forms['dform'] in ('ts', 'np') and rng.random() < 0.7: forms['ns'] = rng.choice([1, 999, rng.randrange(1, 1000)])     # nanosecond-resolution tick stamps
    if forms['dform'] in ('unix', 'unixf') or rng.random() < 0.25:       # process time zone west / east of Greenwich
        forms['tz'] = rng.choice(['America/New_York', 'Asia/Tokyo', 'EST5EDT', 'XXX-14', 'YYY11', 'Europe/London'])
        if forms['dform'] in ('unix', 'unixf') and rng.random() < 0.75:
            # a stamp early in the (UTC) day read west of Greenwich, or late in the day read east of it, lands on the neighbouring local day
            west = forms['tz'] in ('America/New_York', 'EST5EDT', 'YYY11')
            forms['tz'] = forms['tz'] if forms['tz'] != 'Europe/London' else 'America/New_York'; west = west or forms['tz'] == 'America/New_York'
            forms['tod'] = rng.choice([0, 0, 1000000, 10800000000] if west else [75600000000, 86399000000, 82800000000])
    wk = WEEKENDS[wkname]
    forms['wkform'] = rng.choice(['list', 'tuple'] + (['none'] if wk == [5, 6] else []) + (['int'] if len(wk) == 1 else []))
    if hol and rng.random() < 0.5:
        hp = hol + [rng.choice(hol) for _ in range(rng.randrange(0, 4))]; rng.shuffle(hp); forms['hol_py'] = hp
    if not hol and rng.random() < 0.5: forms['holnone'] = True
    if rng.random() < 0.3: forms['adjsp'] = rng.choice(SPELL[adj])
    case['forms'] = forms
    q = case['q']
    nsweep, nday = (8, 24) if tier == 'quick' else (0, 40)
    if tier != 'quick':
        days = list(range(t0, t1 + 1)) if span <= 400 else sorted(rng.sample(range(t0, t1 + 1), 250))
        for d in days:
            q.append(['sw', None, d])
    for _ in range(nsweep):
        q.append(['sw', spell(), day()])
    for _ in range(nday):
        d = day(); a = spell()
        q.append(['isb', d]); q.append(['ish', d]); q.append(['adj', a, d])
        for n in [-2, -1, 0, 1, 2] + [rng.randrange(NLO, NHI + 1) for _ in range(3)]:
            q.append(['add', a, d, n])
    for _ in range(12):
        x = day(); y = rng.choice([day(), x + rng.randrange(-30, 31), x])
        q.append(['bd', spell(), x, y])
    for _ in range(8):
        q.append(['clk', day()])
    for _ in range(10):          # Calendar.dt_bump with strings of b-periods (incl. the literals '+0b' / '-0b' and compound strings)
        r = rng.random()
        tok = lambda: rng.choice([(0, 1), (0, -1), (0, 0), (rng.randrange(NLO, NHI + 1), 0), (rng.choice([1, -1, 2, -2, 3, -5]), 0)])
        toks = [tok()] if r < 0.6 else [tok(), tok()] if r < 0.9 else [tok(), tok(), tok()]
        q.append(['bump', spell(), day(), [list(t) for t in toks]])
    for _ in range(8):            # drange with a business-day bump string as the start (relative to an explicit end) or as the end (relative to an explicit start)
        n = rng.choice([1, 2, 3, 5, 8, 10, rng.randrange(1, 21)])
        if rng.random() < 0.6: q.append(['drb', 's', day(), -n if rng.random() < 0.9 else n])
        else: q.append(['drb', 'e', day(), n if rng.random() < 0.9 else -n])
    for _ in range(3):
        x = day(); y = rng.choice([x + rng.randrange(0, 45), x - rng.randrange(0, 10), day() if span <= 400 or tier != 'quick' else x + rng.randrange(0, 200)])
        q.append(['dr', x, y])
    return case

def gen_default_range(rng):
    """Calendar(key=None, holidays, weekend) with t0 = t1 = None: TMIN 1900-01-01 .. TMAX 2300-01-01 (146098 days). Checked by the oracle
    only ('nomodel': the Coq table of 146098 days is not evaluated); queries in the past, the future and at both ends of the range"""
    wkname = rng.choice(list(WEEKENDS)); adj = rng.choice('fpm')
    centres = [TMIN_ORD + rng.randrange(0, 30), TMAX_ORD - rng.randrange(0, 30), datetime.date(rng.randrange(1901, 2299), rng.randrange(1, 13), 15).toordinal(),
               datetime.date(rng.randrange(2027, 2299), 12, 28).toordinal()]
    H = set()
    for c in centres:
        for _ in range(6): H.add(c + rng.randrange(-25, 26))
        H.update(range(c, c + rng.randrange(1, 5)))
    H = sorted(h for h in H if TMIN_ORD - 3 <= h <= TMAX_ORD + 3)
    q = []
    for c in centres:
        for _ in range(3):
            d = min(max(c + rng.randrange(-12, 13), TMIN_ORD), TMAX_ORD)
            q += [['sw', rng.choice([None, 'f', 'p', 'm']), d], ['clk', d], ['bd', None, d, min(TMAX_ORD, d + rng.randrange(0, 40))], ['dr', d, min(TMAX_ORD, d + rng.randrange(0, 20))]]
    return {'kind': 'cal', 't0': TMIN_ORD, 't1': TMAX_ORD, 'hol': H, 'wk': WEEKENDS[wkname], 'adj': adj, 'dens': 'default-range', 'wkname': wkname,
            'default_range': True, 'nomodel': True, 'forms': {}, 'q': q}

def gen_registry(rng):
    """calls only (reads, overwrites, default ranges): the registered arguments"""
    nkeys = rng.choice([1, 2, 3])
    ops = []
    base = datetime.date(rng.randrange(1950, 2100), 1, 1).toordinal()
    for _ in range(rng.randrange(2, 10)):
        k = rng.randrange(nkeys)
        if rng.random() < 0.4:
            ops.append(['call', k, None, None, None, None]); continue
        h = sorted(set(base + rng.randrange(0, 400) for _ in range(rng.randrange(0, 5)))) if rng.random() < 0.8 else None
        w = rng.choice(list(WEEKENDS.values())) if rng.random() < 0.4 else None
        a = base - rng.randrange(0, 50) if rng.random() < 0.4 else None
        b = base + 400 + rng.randrange(0, 50) if rng.random() < 0.4 else None
        ops.append(['call', k, h, w, a, b])
    return {'kind': 'reg', 'ops': ops, 'keyform': rng.choice(list(KEYFORMS))}

def gen_registry_tables(rng):
    """every history interleaves table-path queries (add +-2..+-5, bdays, drange '1b': they force _populate on the registered object)
    between the registrations of a key and after the last one; re-registrations change the holidays (by key, or through the fetched
    object), and the queries sit on the days whose status changed"""
    nkeys = rng.choice([1, 1, 2])
    t0 = datetime.date(rng.randrange(1950, 2100), rng.randrange(1, 13), rng.randrange(1, 29)).toordinal()
    t1 = t0 + rng.randrange(120, 420)
    ops = []; cur = {}
    def holidays(old=None):
        H = set(old or [])
        for d in list(H):
            if rng.random() < 0.5: H.discard(d)
        for _ in range(rng.randrange(3, 14)):
            d = rng.randrange(t0, t1 + 1); H.update(range(d, d + rng.choice([1, 1, 1, 2, 4])))
        return sorted(H)
    def burst(k, hot):
        wk = cur[k][1]
        for _ in range(rng.randrange(2, 5)):
            d = min(max((rng.choice(hot) if hot and rng.random() < 0.8 else rng.randrange(t0, t1 + 1)) + rng.randrange(-3, 4), t0), t1)
            r = rng.random()
            if r < 0.55: q = ['add', rng.choice([None, None, 'f', 'p']), d, rng.choice([2, 3, 4, 5, -2, -3, -4, -5])]
            elif r < 0.8: q = ['bd', rng.choice([None, 'f', 'p']), d, min(t1, d + rng.randrange(1, 25))]
            else: q = ['dr', max(t0, d - rng.randrange(0, 8)), min(t1, d + rng.randrange(1, 15))]
            ops.append(['q', k, q])
    for k in range(nkeys):
        cur[k] = [holidays(), rng.choice(list(WEEKENDS.values())), t0, t1]
        ops.append(['call', k, cur[k][0], cur[k][1], t0, t1])
    for k in range(nkeys):
        if rng.random() < 0.8: burst(k, cur[k][0])
    for _ in range(rng.randrange(2, 6)):
        k = rng.randrange(nkeys)
        old = cur[k]
        r = rng.random()
        if r < 0.15:
            ops.append([rng.choice(['call', 'obj']), k, None, None, None, None]); hot = old[0]     # plain fetch / calendar(calendar(key)) re-registers the same object
        else:
            H = holidays(old[0])
            hot = sorted(set(H) ^ set(old[0])) or H
            if r < 0.6:
                w = rng.choice([old[1], old[1], rng.choice(list(WEEKENDS.values()))])
                cur[k] = [H, w, t0, t1]; ops.append(['call', k, H, w, t0, t1])
            else:       # through the fetched object: arguments left out are inherited (never an empty list: `x or old` keeps the old one)
                w = rng.choice([None, None, rng.choice([[5, 6], [4, 5], [6]])])
                cur[k] = [H, w or old[1], t0, t1]; ops.append(['obj', k, H, w, None, None])
        if rng.random() < 0.85: burst(k, hot)
        if rng.random() < 0.3: ops.append(['call', k, None, None, None, None])
    for k in range(nkeys):      # after the last registration
        burst(k, cur[k][0])
    dform = rng.choice(['dt', 'tod', 'ts', 'date', 'np', 'unix', 'ord'])
    return {'kind': 'reg', 'ops': ops, 'keyform': rng.choice(list(KEYFORMS)),
            'forms': {'dform': dform, 'tod': 0 if dform in ('dt', 'date') else rng.choice([1, 43200000000, 86399999999]), 'npunit': rng.choice(['D', 'us', 'ns']), 'ns': rng.choice([0, 1, 999]),
                      'tz': rng.choice([None, None, 'America/New_York', 'Asia/Tokyo'])}}

def gen_cases(rng, tier):
    cases = []
    reps = 1 if tier == 'quick' else 2
    for _ in range(reps):
        for dens in (0, 0.05, 0.2, 0.5):
            for wkname in WEEKENDS:
                for adj in 'fpm':
                    span = None
                    if tier != 'quick' and rng.random() < 0.6:
                        span = rng.choice([365, 366, 380, 400])
                    cases.append(gen_calendar(rng, dens, wkname, adj, tier, span))
    for _ in range(2 if tier == 'quick' else 12):
        cases.append(gen_default_range(rng))
    for _ in range(30 if tier == 'quick' else 150):
        cases.append(gen_registry(rng))
    for _ in range(60 if tier == 'quick' else 400):
        cases.append(gen_registry_tables(rng))
    return cases

def shrink(case):
    if case['kind'] == 'reg':
        ops = norm_ops(case['ops'])
        def bounded(ops2):
            # keep every query on a key that was registered with an explicit range (a query on the default 1900-2300
            # calendar populates 146097 days: slow in Python and in the model)
            ranged = set()
            for o in ops2:
                if o[0] == 'q':
                    if o[1] not in ranged: return False
                elif o[0] == 'call' and any(x is not None for x in o[2:6]):
                    if o[4] is not None and o[5] is not None: ranged.add(o[1])
                    else: ranged.discard(o[1])
            return True
        for i in range(len(ops)):
            if len(ops) > 1 and bounded(ops[:i] + ops[i + 1:]):
                yield dict(case, ops=ops[:i] + ops[i + 1:])
        for i, o in enumerate(ops):
            if o[0] != 'q' and o[2] and len(o[2]) > 1:
                for j in range(len(o[2])):
                    yield dict(case, ops=ops[:i] + [o[:2] + [o[2][:j] + o[2][j + 1:]] + o[3:]] + ops[i + 1:])
        return
    q = case['q']
    if len(q) > 1:
        h = len(q) // 2
        yield dict(case, q=q[:h]); yield dict(case, q=q[h:])
        for x in q[:150]:
            yield dict(case, q=[x])
    elif q and q[0][0] == 'sw':
        a, d = q[0][1], q[0][2]
        yield dict(case, q=[['isb', d]]); yield dict(case, q=[['adj', a, d]])
        for n in range(NLO, NHI + 1):
            yield dict(case, q=[['add', a, d, n]])
    elif q:
        days = [x for x in q[0][1:] if isinstance(x, int) and abs(x) > 1000]
        if days and len(case['hol']) > 4:
            lo, hi = min(days) - 70, max(days) + 70
            near = [h for h in case['hol'] if lo <= h <= hi]
            if len(near) < len(case['hol']):
                yield dict(case, hol=near, forms={k: v for k, v in (case.get('forms') or {}).items() if k != 'hol_py'})
