"""C14 — eq is a NaN-aware, type-strict equivalence on values, containers, numpy arrays and pandas objects."""
import json, itertools, copy

ID = 'C14'
TRANSLATOR = []
COQ_EXEC = ['exec.X_eq']
COQ_IMPORTS = 'From Coq Require Import NArith.\nFrom PB Require Import model.M_eq.\n'
COQ_PRELUDE = ''
PER_FILE = 450
CASE_TIMEOUT = 5
RULE = ('a universe of ~110 hand-enumerated values (None, bools, ints, floats, numpy scalars, NaN/inf, str, datetime/Timestamp/datetime64, '
        'empty and non-empty list/tuple/dict/Dict/dict-subclass/OrderedDict, namedtuples and tuple / list subclass instances with the content of plain tuples / lists, floats differing in the last bits (0.1+0.2 vs 0.3, nextafter, x*(1+1e-9), 1e10 vs 1e10+1) as scalars and as list / array / Series / DataFrame cells, arrays of dtype int/float/bool/str/object and shapes 0-d, 1-d, 2-d, '
        'with zero-length axes, Series and DataFrames with int/str/date index) is paired with itself: EVERY unordered pair gives one case '
        'evaluating eq(x,y) and eq(y,x) (the diagonal twice: same object, and an independently built copy holding fresh NaN objects); '
        'random nestings to depth 3 plus representation-changing variants (1 / 1.0 / np.int64(1), dict insertion order, dtype, NaN object) '
        'and single-point mutants (one cell, container kind at depth, shape, index label, dict class), plus same-size dicts with different key sets whose non-shared keys map to None (also nested / subclassed / with shared keys), give further pairs, triples '
        '(x,y,z: eq(x,y), eq(y,z), eq(x,z)), in_(x, seq) cases (seq a list / tuple / object array; half of them with ALL members hashable - NaN objects of different identity alone and inside tuples, 1 / 1.0 / True, datetime / Timestamp / datetime64 - against the model exists y in seq, eq(x, y)) and veq(x, y) on same-shape arrays; 7 values of size 120..300; np.int32 / np.float32 scalars, sub-second, pre-1970 and year-2200 timestamps; positional and keyword spelling. edit cases: eq on two live objects (Series / DataFrame / ndarray, top level or inside list / tuple / dict), an in-place edit of one (cell, index label, column label), eq again, an edit of the other, eq again - every verdict compared on the current values, both argument orders; datetime64[ns] / timedelta64[ns] Series and frames (with NaT) against int / object / float columns. Compared inside Coq with M_eq.eq_model / in_model (outcome Raised is a value). '
        'Oracle on the real outputs: never raises, returns bool, symmetric, transitive on the triple, in_ = any(eq), and equal to the '
        'structural rule read off the property text wherever that rule is determined (undetermined only for dtype-only differences). '
        'non-trivial = at least one operand is a container, or a triple / in_ case; distinct by the JSON of the operands')
EXPLANATION = ('theorems C14_* (coq/props/C14.v) hold for every value of the inductive type val (arbitrary nesting, by structural induction): '
               'eq_model is reflexive, symmetric, transitive, equates a value with any copy whose NaN objects differ, is False across container '
               'kinds, equates arrays iff shape and cells agree, pandas objects iff index, columns and cells agree, and coincides with Python == '
               'on NaN-free plain values; the correspondence ties eq_model to the real eq on every pair of the universe and on thousands of random nestings')
TRUSTED = ['modelled, not verified: numpy/pandas element access (np.vectorize over object-converted cells, Index == Index), Python == on scalars '
           '(mirrored by M_eq.scalar_eqb), the harness builder that turns a JSON value description into the Python object and into the Coq literal']
ASSUMPTIONS = ['dict keys are ASCII strings (values may be any str)', 'finite numbers are exact: half-integers below 2^50 (VNum) or any other double carried as m*2^e (VFlt)',
               'pandas extension arrays, datetime64 arrays, sets and functools.partial are outside the universe']
EXHAUSTIVE = {'quick': False, 'thorough': False}

SCALARS = ('none', 'bool', 'int', 'float', 'npint', 'npint32', 'npfloat', 'npf32', 'npbool', 'nan', 'npnan', 'npf32nan', 'inf', 'flt', 'npflt', 'nat', 'td', 'pytd', 'nptd', 'tsz', 'str', 'npstr', 'dt', 'ts', 'dt64')
NANS = ('nan', 'npnan', 'npf32nan')
SEQCLS = {'Point': 1, 'P3': 2, 'MyTuple': 3, 'MyList': 4}    # namedtuples (2 / 3 fields), a tuple subclass, a list subclass
CLS = {'dict': 0, 'Dict': 1, 'FunnyDict': 2, 'OrderedDict': 3}
D1 = 737425 * 86400000000      # 2020-01-01 00:00 on the model axis (microseconds from ordinal 0)
D2 = D1 + 86400000000 + 3600000000
D3 = D1 + 45296123456                  # 12:34:56.123456 (sub-second)
DOLD = 715647 * 86400000000 + 1       # 1960-05-17 00:00:00.000001 (before the epoch)
DFUT = 803169 * 86400000000           # 2200-01-01 (future)

# ------------------------------------------------------------------ value descriptions
TZOFF = {'UTC': 0, 'Asia/Tokyo': 9 * 3600 * 1000000}      # fixed offsets (no DST): wall clock - offset = UTC instant
TDUNIT = {'us': 1, 'ms': 1000, 's': 1000000, 'm': 60000000, 'h': 3600000000, 'D': 86400000000}
def N_(*a): return list(a)
def PT(fid, args=(), kw=()): return ['partial', fid, list(args), [[k, v] for k, v in kw]]
def X(f): return ['flt', float(f).hex()]      # any finite float that is not a half-integer, exactly (float.hex)
def Q(cls, *v): return ['seq', cls, list(v)]
def I(n): return ['int', n]
def F(tw): return ['float', tw]          # twice the value
NAN = ['nan']
def S(s): return ['str', s]
def L(*v): return ['list', list(v)]
def T(*v): return ['tuple', list(v)]
def D(items, cls='dict'): return ['dict', cls, [[k, v] for k, v in items]]
def A(dtype, shape, cells): return ['arr', dtype, list(shape), list(cells)]
def SR(dtype, index, cells): return ['series', dtype, list(index), list(cells)]
def FR(dtype, index, columns, cells): return ['frame', dtype, list(index), list(columns), list(cells)]

def is_scalar(s): return s[0] in SCALARS
def kind(s):
    t = s[0]
    if t in SCALARS: return 'scalar'
    if t == 'dict': return 'dict:' + s[1]
    if t == 'seq': return 'seq:' + s[1]
    if t == 'partial': return 'partial:%d' % s[1]
    return t

def children(s):
    t = s[0]
    if t in ('list', 'tuple'): return s[1]
    if t == 'seq': return s[2]
    if t == 'partial': return s[2] + [v for _, v in s[3]]
    if t == 'dict': return [v for _, v in s[2]]
    if t == 'arr': return s[3]
    if t == 'series': return s[3]
    if t == 'frame': return s[4]
    return []

# ------------------------------------------------------------------ python expression (for messages)
def pyrepr(s):
    t = s[0]
    if t == 'none': return 'None'
    if t == 'bool': return repr(bool(s[1]))
    if t == 'int': return repr(s[1])
    if t == 'float': return repr(s[1] / 2)
    if t == 'npint': return 'np.int64(%d)' % s[1]
    if t == 'npint32': return 'np.int32(%d)' % s[1]
    if t == 'npf32': return 'np.float32(%r)' % (s[1] / 2)
    if t == 'npf32nan': return "np.float32('nan')"
    if t == 'npfloat': return 'np.float64(%r)' % (s[1] / 2)
    if t == 'npbool': return 'np.bool_(%r)' % bool(s[1])
    if t == 'nan': return "float('nan')"
    if t == 'npnan': return 'np.float64(np.nan)'
    if t == 'inf': return "float('-inf')" if s[1] else "float('inf')"
    if t == 'flt': return repr(float.fromhex(s[1]))
    if t == 'npflt': return 'np.float64(%r)' % float.fromhex(s[1])
    if t == 'seq': return '%s(%s)' % (s[1], ', '.join(map(pyrepr, s[2])) if s[1] in ('Point', 'P3') else '[' + ', '.join(map(pyrepr, s[2])) + ']')
    if t == 'nptd': return 'np.timedelta64(%d, %r)' % (s[2], s[1])
    if t == 'partial': return 'functools.partial(f%d%s)' % (s[1], ''.join(', ' + pyrepr(a) for a in s[2]) + ''.join(', %s=%s' % (k, pyrepr(v)) for k, v in s[3]))
    if t == 'tsz':
        from implutil import us2dt
        return 'pd.Timestamp(%r, tz=%r)' % (us2dt(s[1]).isoformat(), s[2])
    if t == 'nat': return 'pd.NaT'
    if t == 'td': return 'pd.Timedelta(microseconds=%d)' % s[1]
    if t == 'pytd': return 'datetime.timedelta(microseconds=%d)' % s[1]
    if t == 'str': return repr(s[1])
    if t == 'npstr': return 'np.str_(%r)' % s[1]
    if t in ('dt', 'ts', 'dt64'):
        from implutil import us2dt
        d = us2dt(s[1]).isoformat()
        return {'dt': 'datetime.datetime.fromisoformat(%r)', 'ts': 'pd.Timestamp(%r)', 'dt64': 'np.datetime64(%r)'}[t] % d
    if t == 'list': return '[' + ', '.join(map(pyrepr, s[1])) + ']'
    if t == 'tuple': return '(' + ', '.join(map(pyrepr, s[1])) + (',)' if len(s[1]) == 1 else ')')
    if t == 'dict':
        body = '{' + ', '.join('%r: %s' % (k, pyrepr(v)) for k, v in s[2]) + '}'
        return body if s[1] == 'dict' else '%s(%s)' % (s[1], body)
    if t == 'arr':
        return 'np.array([%s], dtype=%s).reshape(%s)' % (', '.join(map(pyrepr, s[3])), s[1], tuple(s[2]))
    if t == 'series':
        return 'pd.Series([%s], index=[%s], dtype=%s)' % (', '.join(map(pyrepr, s[3])), ', '.join(map(pyrepr, s[2])), s[1])
    if t == 'frame':
        return 'pd.DataFrame(np.array([%s], dtype=%s).reshape(%d,%d), index=[%s], columns=[%s])' % (
            ', '.join(map(pyrepr, s[4])), s[1], len(s[2]), len(s[3]), ', '.join(map(pyrepr, s[2])), ', '.join(map(pyrepr, s[3])))
    raise ValueError(s)

# ------------------------------------------------------------------ Coq literal
def coq_str(x): return '"' + x.replace('"', '""') + '"'
class Ids:
    def __init__(self): self.n = 0
    def next(self):
        self.n += 1; return self.n

def coq_val(s, ids):
    t = s[0]
    if t == 'none': return 'VNone'
    if t in ('bool', 'npbool'): return '(VBool %s)' % ('true' if s[1] else 'false')
    if t in ('int', 'npint', 'npint32'): return '(VNum false (%d))' % (2 * s[1])
    if t in ('float', 'npfloat', 'npf32'): return '(VNum true (%d))' % s[1]
    if t in NANS: return '(VNaN %d%%N)' % ids.next()
    if t in ('flt', 'npflt'):
        n, d = float.fromhex(s[1]).as_integer_ratio()
        assert d >= 4 and n % 2, s        # not a half-integer: those are VNum
        return '(VFlt (%d) (%d))' % (n, -(d.bit_length() - 1))
    if t == 'inf': return '(VInf %s)' % ('true' if s[1] else 'false')
    if t in ('str', 'npstr'): return '(VStr %s)' % coq_str(s[1])
    if t in ('dt', 'ts', 'dt64'): return '(VDate (%d))' % s[1]
    if t == 'tsz': return '(VFlt (%d) (2000000))' % (s[1] - TZOFF[s[2]])     # a tz-aware timestamp: its UTC instant under a reserved exponent (never equal to a naive one)
    if t == 'nat': return '(VDate (-1))'                      # the NaT singleton: a reserved date, equal only to itself
    if t == 'nptd': return '(VFlt (%d) (1000000))' % (s[2] * TDUNIT[s[1]])
    if t == 'partial':     # eq compares type, func, keywords (a dict) and args (a tuple): a container kind of its own per function
        return '(VSeq %d%%N [%s; %s])' % (10 + s[1], coq_val(['tuple', s[2]], ids), coq_val(['dict', 'dict', s[3]], ids))
    if t in ('td', 'pytd'): return '(VFlt (%d) (1000000))' % s[1]   # a timedelta of n microseconds: a reserved exponent, equal only to the same timedelta
    cl = lambda xs: '[' + '; '.join(coq_val(x, ids) for x in xs) + ']'
    if t == 'list': return '(VList %s)' % cl(s[1])
    if t == 'tuple': return '(VTuple %s)' % cl(s[1])
    if t == 'seq': return '(VSeq %d%%N %s)' % (SEQCLS[s[1]], cl(s[2]))
    if t == 'dict':
        return '(VDict %d%%N [%s])' % (CLS[s[1]], '; '.join('(%s, %s)' % (coq_str(k), coq_val(v, ids)) for k, v in s[2]))
    if t == 'arr': return '(VArr [%s] %s)' % ('; '.join('(%d)' % d for d in s[2]), cl(s[3]))
    if t == 'series': return '(VSeries %s %s)' % (cl(s[2]), cl(s[3]))
    if t == 'frame': return '(VFrame %s %s %s)' % (cl(s[2]), cl(s[3]), cl(s[4]))
    raise ValueError(s)

def coq_runner(case):
    return {'pair': 'run_eq_pair', 'triple': 'run_eq_triple', 'in': 'run_in', 'veq': 'run_veq', 'edit': 'run_eq_seq'}[case['kind']]

def coq_case(case):
    ids = Ids(); k = case['kind']
    if k == 'pair': return '(%s, %s)' % (coq_val(case['x'], ids), coq_val(case['y'], ids))
    if k == 'triple': return '(%s, %s, %s)' % (coq_val(case['x'], ids), coq_val(case['y'], ids), coq_val(case['z'], ids))
    if k == 'in': return '(%s, [%s])' % (coq_val(case['x'], ids), '; '.join(coq_val(v, ids) for v in case['seq']))
    if k == 'edit': return '[' + '; '.join('(%s, %s)' % (coq_val(a, ids), coq_val(b, ids)) for a, b in edit_states(case)) + ']'
    if k == 'veq': return '([%s], [%s])' % ('; '.join(coq_val(v, ids) for v in case['x'][3]), '; '.join(coq_val(v, ids) for v in case['y'][3]))
    raise ValueError(k)

# ------------------------------------------------------------------ the structural rule of the property text (three-valued)
def scalar_key(s):
    """value-level identity of a NaN-free scalar under Python ==: 1 == 1.0 == True == np.int64(1); same instant; same text"""
    t = s[0]
    if t == 'none': return ('none',)
    if t in ('bool', 'npbool'): return ('num', 2 * int(bool(s[1])))
    if t in ('int', 'npint', 'npint32'): return ('num', 2 * s[1])
    if t in ('float', 'npfloat', 'npf32'): return ('num', s[1])
    if t == 'inf': return ('inf', bool(s[1]))
    if t in ('flt', 'npflt'): return ('flt', s[1])
    if t in ('str', 'npstr'): return ('str', s[1])
    if t in ('dt', 'ts', 'dt64'): return ('date', s[1])
    if t == 'nat': return ('nat',)
    if t == 'tsz': return ('tsz', s[1] - TZOFF[s[2]])
    if t in ('td', 'pytd'): return ('td', s[1])
    if t == 'nptd': return ('td', s[2] * TDUNIT[s[1]])
    raise ValueError(s)

def all3(rs):
    rs = list(rs)
    if any(r[0] is False for r in rs): return next(r for r in rs if r[0] is False)
    if any(r[0] is None for r in rs): return next(r for r in rs if r[0] is None)
    return (True, '')

def spec3(x, y, path='value'):
    """(True|False|None, reason): what the property text says eq(x, y) must be; None = not determined by the text"""
    kx, ky = kind(x), kind(y)
    if kx != ky:
        return (False, '%s: container types differ (%s vs %s)' % (path, kx, ky))
    if kx == 'scalar':
        nx, ny = x[0] in NANS, y[0] in NANS
        if nx or ny:
            return (True, '') if nx and ny else (False, '%s: NaN vs non-NaN' % path)
        return (True, '') if scalar_key(x) == scalar_key(y) else (False, '%s: %s != %s' % (path, pyrepr(x), pyrepr(y)))
    cells = lambda a, b, p: [(False, '%s: lengths differ' % p)] if len(a) != len(b) else [spec3(i, j, '%s[%d]' % (p, n)) for n, (i, j) in enumerate(zip(a, b))]
    if kx in ('list', 'tuple'):
        return all3(cells(x[1], y[1], path))
    if kx.startswith('seq'):
        return all3(cells(x[2], y[2], path))
    if kx.startswith('partial'):
        return (None, 'functools.partial is outside the universe')
    if kx.startswith('dict'):
        dx, dy = dict(map(tuple, x[2])), dict(map(tuple, y[2]))
        if set(dx) != set(dy):
            return (False, '%s: key sets differ' % path)
        return all3(spec3(dx[k], dy[k], '%s[%r]' % (path, k)) for k in sorted(dx))
    if kx == 'arr':
        if x[2] != y[2]:
            return (False, '%s: array shapes differ %s vs %s' % (path, x[2], y[2]))
        r = all3(cells(x[3], y[3], path + '.cells'))
    elif kx == 'series':
        r = all3(cells(x[2], y[2], path + '.index') + cells(x[3], y[3], path + '.cells'))
    else:
        r = all3(cells(x[2], y[2], path + '.index') + cells(x[3], y[3], path + '.columns') + cells(x[4], y[4], path + '.cells'))
    if r[0] is True and x[1] != y[1]:
        return (None, '%s: only the dtype differs' % path)
    return r

# ------------------------------------------------------------------ implementation side
def impl_setup():
    global np, pd, datetime, collections, functools, eq, in_, veq, Dict, FunnyDict, us2dt, SEQTYPES, PFUNCS
    import numpy as np, pandas as pd, datetime, collections, functools
    PFUNCS = [lambda *a, **k: 0, lambda *a, **k: 1]
    from pyg_base import eq, in_, Dict
    from pyg_base._eq import veq
    from implutil import us2dt
    class FunnyDict(dict):
        pass
    class MyTuple(tuple):
        pass
    class MyList(list):
        pass
    SEQTYPES = {'Point': collections.namedtuple('Point', ['x', 'y']), 'P3': collections.namedtuple('P3', ['a', 'b', 'c']), 'MyTuple': MyTuple, 'MyList': MyList}

def build(s):
    """the Python object described by s; every call builds new objects (fresh NaNs)"""
    t = s[0]
    if t == 'none': return None
    if t == 'bool': return bool(s[1])
    if t == 'int': return int(s[1])
    if t == 'float': return s[1] / 2
    if t == 'npint': return np.int64(s[1])
    if t == 'npint32': return np.int32(s[1])
    if t == 'npf32': return np.float32(s[1] / 2)
    if t == 'npf32nan': return np.float32('nan')
    if t == 'npfloat': return np.float64(s[1] / 2)
    if t == 'npbool': return np.bool_(bool(s[1]))
    if t == 'nan': return float('nan')
    if t == 'npnan': return np.float64('nan')
    if t == 'inf': return float('-inf') if s[1] else float('inf')
    if t == 'flt': return float.fromhex(s[1])
    if t == 'npflt': return np.float64(float.fromhex(s[1]))
    if t == 'seq':
        vals = [build(v) for v in s[2]]
        return SEQTYPES[s[1]](*vals) if s[1] in ('Point', 'P3') else SEQTYPES[s[1]](vals)
    if t == 'nptd': return np.timedelta64(s[2], s[1])
    if t == 'partial': return functools.partial(PFUNCS[s[1]], *[build(a) for a in s[2]], **{k: build(v) for k, v in s[3]})
    if t == 'tsz': return pd.Timestamp(us2dt(s[1]), tz=s[2])
    if t == 'nat': return pd.NaT
    if t == 'td': return pd.Timedelta(microseconds=s[1])
    if t == 'pytd': return datetime.timedelta(microseconds=s[1])
    if t == 'str': return str(s[1])
    if t == 'npstr': return np.str_(s[1])
    if t == 'dt': return us2dt(s[1])
    if t == 'ts': return pd.Timestamp(us2dt(s[1]))
    if t == 'dt64': return np.datetime64(us2dt(s[1]))
    if t == 'list': return [build(v) for v in s[1]]
    if t == 'tuple': return tuple(build(v) for v in s[1])
    if t == 'dict':
        c = {'dict': dict, 'Dict': Dict, 'FunnyDict': FunnyDict, 'OrderedDict': collections.OrderedDict}[s[1]]
        d = c()
        for k, v in s[2]:
            d[k] = build(v)
        return d
    if t == 'arr':
        dtype, shape, cells = s[1], tuple(s[2]), [build(c) for c in s[3]]
        if dtype == 'object':
            a = np.empty(len(cells), dtype=object)
            for i, c in enumerate(cells):
                a[i] = c
            return a.reshape(shape)
        return np.array(cells, dtype={'int': np.int64, 'float': np.float64, 'bool': np.bool_, 'str': str}[dtype]).reshape(shape)
    if t in ('series', 'frame'):
        dtype = {'int': np.int64, 'float': np.float64, 'object': object, 'dt64ns': 'datetime64[ns]', 'td64ns': 'timedelta64[ns]'}[s[1]]
        def labels(specs):
            """the Index holding exactly these labels: Timestamps / NaT -> DatetimeIndex; a None label or strings mixed with other kinds -> object
            Index (so that None stays None and NaN stays NaN); otherwise what pandas infers (int64 / float64 with NaN / str)"""
            vals = [build(c) for c in specs]
            kinds = {c[0] for c in specs}
            if vals and kinds <= {'ts', 'tsz', 'nat'} and kinds != {'nat'} and len({c[2] for c in specs if c[0] == 'tsz'}) <= 1 and not ({'ts', 'tsz'} <= kinds):
                return pd.DatetimeIndex(vals)
            if 'none' in kinds or ('str' in kinds and len(kinds) > 1) or 'nat' in kinds or ({'ts', 'tsz'} <= kinds):
                return pd.Index(vals, dtype=object)
            return pd.Index(vals)
        extra = (s[4] if t == 'series' else s[5]) if len(s) > (4 if t == 'series' else 5) else {}
        index = [build(c) for c in s[2]]
        idx = None if index == list(range(len(index))) and all(type(i) is int for i in index) and index else labels(s[2])
        if extra.get('range'):       # the same labels held by a RangeIndex(start, stop, step), e.g. what s[::2] leaves behind
            idx = pd.RangeIndex(*extra['range'])
            assert list(idx) == index, (list(idx), index)
        if t == 'series':
            return pd.Series([build(c) for c in s[3]], index=idx, dtype=dtype)
        cols = [build(c) for c in s[3]]
        a = np.empty(len(s[4]), dtype=object)
        for i, c in enumerate(s[4]):
            a[i] = build(c)
        return pd.DataFrame(a.reshape(len(index), len(cols)), index=pd.Index(index) if idx is None and not index else idx, columns=labels(s[3]), dtype=object).astype(dtype)   # dtype=object first: no inference (None must not become NaT)
    raise ValueError(s)

def observe(f, *a):
    """('ok', bool) | ('nonbool', typename) | ('raise', ExcName)"""
    try:
        r = f(*a)
    except Exception as e:
        return ('raise', type(e).__name__)
    if isinstance(r, (bool, np.bool_)):
        return ('ok', bool(r))
    return ('nonbool', type(r).__name__)

def canon(o):
    if o[0] == 'ok': return o[1]
    if o[0] == 'raise': return ['ERR', o[1]]
    return ['NONBOOL', o[1]]

def bad(o, call):
    if o[0] == 'raise': return '%s raised %s (eq must never raise)' % (call, o[1])
    if o[0] == 'nonbool': return '%s returned a %s, not a boolean' % (call, o[1])
    return None

def impl(case):
    r = impl_(case)
    if '"partial"' in json.dumps(case):
        r['viol'] = None      # functools.partial is outside the property's universe: compared with the model only (correspondence)
    return r

def impl_(case):
    k = case['kind']
    if k == 'pair':
        x = build(case['x']); y = x if case.get('same') else build(case['y'])
        px, py = pyrepr(case['x']), pyrepr(case['y'])
        if case.get('kw'):
            o1 = observe(lambda: eq(x=x, y=y)); o2 = observe(lambda: eq(y=x, x=y))
        else:
            o1 = observe(eq, x, y); o2 = observe(eq, y, x)
        obs = [canon(o1), canon(o2)]
        viol = bad(o1, 'eq(%s, %s)' % (px, py)) or bad(o2, 'eq(%s, %s)' % (py, px))
        if viol is None and o1[1] != o2[1]:
            viol = 'not symmetric: eq(%s, %s) = %s but eq(%s, %s) = %s' % (px, py, o1[1], py, px, o2[1])
        if viol is None:
            exp, why = spec3(case['x'], case['y'])
            if exp is not None and exp != o1[1]:
                viol = 'eq(%s, %s) = %s but must be %s%s' % (px, py, o1[1], exp, (' - ' + why) if why else ' (a structural copy: same kinds, geometry, cells; NaN matches NaN)')
        st = 'ok' if o1[0] != 'raise' and o2[0] != 'raise' else (o1[1] if o1[0] == 'raise' else o2[1])
        return {'status': st, 'obs': obs, 'viol': viol}
    if k == 'triple':
        x, y, z = build(case['x']), build(case['y']), build(case['z'])
        px, py, pz = pyrepr(case['x']), pyrepr(case['y']), pyrepr(case['z'])
        o = [observe(eq, x, y), observe(eq, y, z), observe(eq, x, z)]
        viol = bad(o[0], 'eq(%s, %s)' % (px, py)) or bad(o[1], 'eq(%s, %s)' % (py, pz)) or bad(o[2], 'eq(%s, %s)' % (px, pz))
        if viol is None and o[0][1] and o[1][1] and not o[2][1]:
            viol = 'not transitive: eq(x,y) and eq(y,z) but not eq(x,z) for x=%s, y=%s, z=%s' % (px, py, pz)
        st = 'ok' if all(i[0] != 'raise' for i in o) else next(i[1] for i in o if i[0] == 'raise')
        return {'status': st, 'obs': [canon(i) for i in o], 'viol': viol}
    if k == 'in':
        x = build(case['x']); seq = [build(v) for v in case['seq']]
        if case.get('seq_as') == 'tuple': seq = tuple(seq)
        elif case.get('seq_as') == 'array' and seq:
            a = np.empty(len(seq), dtype=object)
            for i, v in enumerate(seq): a[i] = v
            seq = a
        o = observe(in_, x, seq)
        viol = bad(o, 'in_(%s, [...])' % pyrepr(case['x']))
        if viol is None:
            each = [observe(eq, x, s) for s in seq]
            if all(e[0] == 'ok' for e in each) and o[1] != any(e[1] for e in each):
                viol = 'in_(%s, [%s]) = %s but eq against the members gives %s' % (pyrepr(case['x']), ', '.join(map(pyrepr, case['seq'])), o[1], [e[1] for e in each])
            exp = [spec3(case['x'], s)[0] for s in case['seq']]
            if viol is None and None not in exp and o[1] != any(exp):
                viol = 'in_(%s, [%s]) = %s but membership up to eq is %s' % (pyrepr(case['x']), ', '.join(map(pyrepr, case['seq'])), o[1], any(exp))
        return {'status': 'ok' if o[0] != 'raise' else o[1], 'obs': canon(o), 'viol': viol}
    if k == 'edit':
        # eq(x, y) / eq(y, x) on two live objects, an in-place edit of one of them, eq again ... every verdict is about the CURRENT values
        states = edit_states(case)
        x, y = build(case['x']), build(case['y'])
        obs, viol = [], None
        for n, (sx, sy) in enumerate(states):
            if n > 0:
                e = case['edits'][n - 1]
                edit_object(x if e['on'] == 'x' else y, states[n - 1][0] if e['on'] == 'x' else states[n - 1][1], e)
                check_edited(x, sx); check_edited(y, sy)
            o1 = observe(eq, x, y); o2 = observe(eq, y, x)
            obs.append([canon(o1), canon(o2)])
            where = ('after %d in-place edit(s) %s, ' % (n, json.dumps(case['edits'][:n]))) if n else ''
            px, py = pyrepr(sx), pyrepr(sy)
            v = bad(o1, 'eq(x, y)') or bad(o2, 'eq(y, x)')
            if v is None and o1[1] != o2[1]:
                v = 'not symmetric: eq(x, y) = %s but eq(y, x) = %s' % (o1[1], o2[1])
            if v is None:
                exp, why = spec3(sx, sy)
                if exp is not None and exp != o1[1]:
                    v = 'eq(x, y) = %s but must be %s%s' % (o1[1], exp, (' - ' + why) if why else ' (the current values are structural copies)')
            if v and viol is None:
                viol = '%s%s for the current values x = %s, y = %s' % (where, v, px, py)
        return {'status': 'ok', 'obs': obs, 'viol': viol}
    if k == 'veq':
        x, y = build(case['x']), build(case['y'])
        try:
            r = veq(x, y)
            cells = [bool(b) for b in np.asarray(r).ravel()]
            okshape = list(np.shape(r)) == case['x'][2]
        except Exception as e:
            return {'status': type(e).__name__, 'obs': ['ERR', type(e).__name__], 'viol': 'veq(%s, %s) raised %s' % (pyrepr(case['x']), pyrepr(case['y']), type(e).__name__)}
        viol = None
        exp = [spec3(a, b)[0] for a, b in zip(case['x'][3], case['y'][3])]
        if not okshape:
            viol = 'veq(%s, %s) has shape %s' % (pyrepr(case['x']), pyrepr(case['y']), np.shape(r))
        elif any(e is not None and e != c for e, c in zip(exp, cells)):
            viol = 'veq(%s, %s) = %s but cell by cell eq must give %s' % (pyrepr(case['x']), pyrepr(case['y']), cells, exp)
        return {'status': 'ok', 'obs': cells, 'viol': viol}
    raise ValueError(k)

def locate(spec, path):
    for p in path:
        if spec[0] in ('list', 'tuple'): spec = spec[1][p]
        elif spec[0] == 'seq': spec = spec[2][p]
        elif spec[0] == 'dict': spec = next(v for k, v in spec[2] if k == p)
        else: raise ValueError(spec[0])
    return spec

def edit_spec(spec, e):
    """the description after the in-place edit e = {on, path, op: cell | index | col, i, v}"""
    s = copy.deepcopy(spec); t = locate(s, e['path'])
    slot = {'arr': {'cell': 3}, 'series': {'cell': 3, 'index': 2}, 'frame': {'cell': 4, 'index': 2, 'col': 3}}[t[0]][e['op']]
    t[slot][e['i']] = e['v']
    return s

def edit_states(case):
    states = [(case['x'], case['y'])]
    for e in case['edits']:
        x, y = states[-1]
        states.append((edit_spec(x, e), y) if e['on'] == 'x' else (x, edit_spec(y, e)))
    return states

def edit_object(obj, spec, e):
    for p in e['path']:
        obj = obj[p]
    t = locate(spec, e['path']); v = build(e['v']); i = e['i']
    if e['op'] == 'cell':
        if t[0] == 'arr':
            if obj.ndim == 0: obj[()] = v
            else: obj.flat[i] = v
        elif t[0] == 'series': obj.iloc[i] = v
        else: obj.iloc[i // len(t[3]), i % len(t[3])] = v
    elif e['op'] == 'index':
        labels = list(obj.index); labels[i] = v; obj.index = labels
    else:
        labels = list(obj.columns); labels[i] = v; obj.columns = labels

def check_edited(obj, spec):
    """harness self-check: the edited live object is what the description says (raises -> harness error, never silent)"""
    fresh = build(spec)
    def same(a, b):
        if isinstance(a, (pd.Series, pd.DataFrame)):
            ok = type(a) == type(b) and list(a.index) == list(b.index) and a.shape == b.shape and a.astype(object).equals(b.astype(object))
            return ok and (not isinstance(a, pd.DataFrame) or list(a.columns) == list(b.columns))
        if isinstance(a, np.ndarray):
            return a.shape == b.shape and (a.dtype == object or np.array_equal(a, b, equal_nan=a.dtype.kind == 'f'))
        if isinstance(a, (list, tuple)): return len(a) == len(b) and all(same(i, j) for i, j in zip(a, b))
        if isinstance(a, dict): return list(a) == list(b) and all(same(a[k], b[k]) for k in a)
        return True
    if not same(obj, fresh):
        raise RuntimeError('edited object differs from its description %s' % pyrepr(spec))

def nontrivial(case, result):
    if case['kind'] != 'pair':
        return True
    return not (is_scalar(case['x']) and is_scalar(case['y']))

def shape(case):
    if case['kind'] == 'pair':
        a, b = sorted([kind(case['x']).split(':')[0], kind(case['y']).split(':')[0]])
        return 'pair:%s/%s' % (a, b)
    if case['kind'] == 'edit':
        return 'edit:' + '+'.join(e['op'] for e in case['edits'])
    return case['kind']

def shrink(case):
    if case['kind'] != 'pair':
        return
    x, y = case['x'], case['y']
    cx, cy = children(x), children(y)
    for a in cx:
        for b in cy:
            yield {'kind': 'pair', 'x': a, 'y': b}
    for a in cx:
        yield {'kind': 'pair', 'x': a, 'y': y}
    for b in cy:
        yield {'kind': 'pair', 'x': x, 'y': b}
    for v, other, first in ((x, y, True), (y, x, False)):
        if v[0] in ('list', 'tuple') and len(v[1]) > 1:
            for i in range(len(v[1])):
                w = [v[0], v[1][:i] + v[1][i + 1:]]
                yield {'kind': 'pair', 'x': w if first else other, 'y': other if first else w}
        if v[0] == 'dict' and len(v[2]) > 1:
            for i in range(len(v[2])):
                w = ['dict', v[1], v[2][:i] + v[2][i + 1:]]
                yield {'kind': 'pair', 'x': w if first else other, 'y': other if first else w}

# ------------------------------------------------------------------ generation
def universe():
    U = []
    U += [['none'], ['bool', True], ['bool', False], I(0), I(1), I(2), I(-1), F(2), F(3), F(0), ['npint', 1], ['npfloat', 2], ['npfloat', 3],
          ['npbool', True], NAN, ['npnan'], ['inf', False], ['inf', True], S('a'), S('b'), S(''), S('1'), ['npstr', 'a'],
          ['dt', D1], ['dt', D2], ['ts', D1], ['dt64', D1], ['dt', D3], ['ts', D3], ['dt64', D3], ['dt', DOLD], ['dt64', DOLD], ['ts', DFUT], ['dt', DFUT],
          ['npint32', 1], ['npf32', 3], ['npf32', 2], ['npf32nan'], I(2 ** 40 + 1), F(2 ** 41 + 2), S('\u00e9'), S('x' * 120), ['inf', False]]
    U += [L(), T(), D([]), D([], 'Dict'), D([], 'FunnyDict'), L(I(1)), T(I(1)), L(I(1), I(2)), T(I(1), I(2)), L(F(2)), L(NAN), T(NAN), L(S('a')),
          L(L(I(1))), L(T(I(1))), L(L(I(1), I(2)), L(I(3))), L(['none']), L(I(1), I(1), I(1)), T(['dt', D1]), L(['ts', D1])]
    U += [D([('a', I(1))]), D([('a', F(2))]), D([('a', I(1))], 'Dict'), D([('a', I(1))], 'FunnyDict'), D([('a', I(1))], 'OrderedDict'),
          D([('a', I(1)), ('b', I(2))]), D([('b', I(2)), ('a', I(1))]), D([('a', I(1)), ('c', I(2))]), D([('a', L(I(1), I(2)))]), D([('a', T(I(1), I(2)))]),
          D([('a', NAN)]), D([('a', D([('b', I(1))]))]), D([('a', D([('b', I(1))], 'Dict'))]), D([('a', A('int', [2], [I(1), I(2)]))]),
          D([('a', L(I(1), I(2))), ('b', L(I(3), I(4)))]), D([('a', T(I(1), I(2))), ('b', T(I(3), I(4)))]),
          D([('a', A('float', [2, 3], [F(0)] * 6)), ('b', A('float', [2, 4], [F(0)] * 8))]),
          D([('a', SR('int', [I(0), I(1)], [I(1), I(2)]))]), D([('a', SR('int', [I(5), I(6)], [I(1), I(2)]))])]
    NONE = ['none']
    U += [D([('a', NONE)]), D([('b', NONE)]), D([('a', NONE), ('c', I(1))]), D([('b', NONE), ('c', I(1))]), D([('c', I(1)), ('b', NONE)]),
          D([('a', NONE), ('b', I(1))]), D([('a', NONE)], 'Dict'), D([('b', NONE)], 'Dict'), D([('a', NONE)], 'FunnyDict'), D([('b', NONE)], 'FunnyDict'),
          D([('x', D([('a', NONE)]))]), D([('x', D([('b', NONE)]))]), L(D([('a', NONE)])), L(D([('b', NONE)])),
          D([('a', NONE), ('b', NONE)]), D([('c', NONE), ('d', NONE)]), D([('a', NONE), ('d', NONE)])]
    import math
    f3, g3, h3 = 0.3, 0.1 + 0.2, math.nextafter(0.3, 0.0)
    U += [Q('Point', I(1), I(2)), Q('MyTuple', I(1), I(2)), Q('MyList', I(1), I(2)), Q('P3', I(1), I(1), I(1)), Q('MyTuple'), Q('MyList'), Q('Point', F(2), NAN),
          L(Q('Point', I(1), I(2))), L(T(I(1), I(2))), D([('a', Q('MyList', I(1), I(2)))]), T(Q('MyList', I(1))), T(L(I(1))),
          A('object', [1], [Q('Point', I(1), I(2))]), A('object', [1], [T(I(1), I(2))])]
    U += [X(f3), X(g3), X(h3), ['npflt', float(g3).hex()], X(1e-9), X(0.3 * (1 + 1e-9)), F(2 * 10 ** 10), F(2 * 10 ** 10 + 2),
          L(X(f3)), L(X(g3)), T(X(f3), F(3)), T(X(g3), F(3)), D([('a', X(f3))]), D([('a', X(g3))]),
          A('float', [2], [X(f3), F(3)]), A('float', [2], [X(g3), F(3)]), A('float', [2], [X(h3), F(3)]), A('float', [1], [X(1e-9)]), A('float', [1], [F(0)]),
          A('float', [2], [F(2 * 10 ** 10), NAN]), A('float', [2], [F(2 * 10 ** 10 + 2), NAN]), A('object', [2], [X(f3), F(3)]), A('float', [2, 1], [X(f3), F(3)]),
          SR('float', [I(0), I(1)], [X(f3), F(3)]), SR('float', [I(0), I(1)], [X(g3), F(3)]), SR('float', [I(0), I(1)], [X(f3), NAN]), SR('float', [I(0), I(1)], [X(g3), NAN]),
          FR('float', [I(0)], [S('a'), S('b')], [X(f3), F(3)]), FR('float', [I(0)], [S('a'), S('b')], [X(g3), F(3)]), FR('float', [I(0)], [S('a'), S('b')], [X(h3), NAN])]
    ns = lambda us: (us - 719163 * 86400000000) * 1000          # epoch nanoseconds of a model timestamp
    ix = [I(0), I(1)]
    Z1, Z2 = ['tsz', D1, 'UTC'], ['tsz', D2, 'UTC']
    K1, K2 = ['tsz', D1 + TZOFF['Asia/Tokyo'], 'Asia/Tokyo'], ['tsz', D2 + TZOFF['Asia/Tokyo'], 'Asia/Tokyo']     # the same instants as Z1, Z2
    c2 = [I(1), I(2)]
    U += [Z1, K1, ['tsz', D1, 'Asia/Tokyo'], L(Z1), SR('object', [I(0), I(1)], [Z1, ['ts', D1]]),
          # labels: NaN / None / NaT in index and columns; float, object and datetime Index
          SR('int', [NAN, F(2)], c2), SR('int', [F(2), NAN], c2), SR('int', [NAN, NAN], c2), SR('int', [F(0), F(2)], c2), SR('float', [NAN], [NAN]),
          SR('int', [['none'], S('a')], c2), SR('int', [NAN, S('a')], c2), SR('int', [['nat'], S('a')], c2), SR('int', [S('a'), S('b')], c2), SR('int', [['none'], ['none']], c2),
          SR('int', [['none'], F(2)], c2), SR('int', [['ts', D1], ['nat']], c2), SR('int', [['nat'], ['ts', D1]], c2), SR('int', [['ts', D1], ['ts', D2]], c2), SR('int', [['nat'], ['nat']], c2),
          FR('int', [I(0)], [NAN, S('a')], c2), FR('int', [I(0)], [['none'], S('a')], c2), FR('int', [I(0)], [NAN, F(2)], c2), FR('int', [NAN, I(1)], [S('a')], c2), FR('int', [['none'], I(1)], [S('a')], c2),
          FR('float', [['ts', D1], ['nat']], [S('a')], [F(2), NAN]), D([('a', SR('int', [NAN, F(2)], c2))]), L(SR('int', [['none'], S('a')], c2)),
          # the same labels held by different RangeIndex objects (slices) and by an explicit Index
          ['series', 'int', [I(0), I(2)], [I(1), I(3)], {'range': [0, 3, 2]}], ['series', 'int', [I(0), I(2)], [I(1), I(3)], {'range': [0, 4, 2]}], SR('int', [I(0), I(2)], [I(1), I(3)]),
          ['series', 'int', [I(0), I(2)], [I(1), I(4)], {'range': [0, 4, 2]}], ['series', 'int', [I(0), I(2), I(4)], [I(1), I(3), I(5)], {'range': [0, 5, 2]}], ['series', 'int', [I(1), I(3)], [I(1), I(3)], {'range': [1, 5, 2]}],
          ['series', 'float', [], [], {'range': [3, 3, 1]}], ['series', 'float', [], [], {'range': [5, 3, 1]}], ['series', 'float', [], [], {'range': [0, 0, 2]}],
          ['frame', 'int', [I(0), I(2)], [S('a')], [I(1), I(3)], {'range': [0, 3, 2]}], ['frame', 'int', [I(0), I(2)], [S('a')], [I(1), I(3)], {'range': [0, 4, 2]}], FR('int', [I(0), I(2)], [S('a')], [I(1), I(3)]),
          # tz-aware vs naive DatetimeIndex with the same wall clock; two zones, same instants
          SR('int', [Z1, Z2], c2), SR('int', [K1, K2], c2), SR('int', [['ts', D1], ['ts', D2]], [I(1), I(2)]), SR('int', [['tsz', D1, 'Asia/Tokyo'], ['tsz', D2, 'Asia/Tokyo']], c2),
          FR('int', [Z1, Z2], [S('a')], c2), FR('int', [['ts', D1], ['ts', D2]], [S('a')], c2), SR('dt64ns', [I(0), I(1)], [['ts', D1], ['ts', D2]])]
    U += [['nptd', 's', 1], ['nptd', 'D', 1], ['nptd', 'us', 1000000], ['nptd', 's', 2], ['nptd', 'ms', 1000], I(86400), I(1000000), F(2000000), L(['nptd', 's', 1]), L(I(1)),
          A('object', [1], [['nptd', 's', 1]]), D([('a', ['nptd', 'D', 1])]), D([('a', I(1))]),
          PT(0, [I(1)]), PT(1, [I(1)]), PT(0, [I(1)], [('a', I(2))]), PT(0, [I(1)], [('a', F(4))]), PT(0), PT(0, [NAN]), L(PT(0, [I(1)]))]
    U += [['nat'], ['td', 1000000], ['pytd', 1000000], ['td', 2000000], L(['nat']), L(['td', 1000000]),
          SR('dt64ns', ix, [['ts', D1], ['ts', D2]]), SR('dt64ns', ix, [['ts', D1], ['nat']]), SR('dt64ns', ix, [['ts', D1], ['ts', D3]]), SR('int', ix, [I(ns(D1)), I(ns(D2))]),
          SR('object', ix, [['ts', D1], ['ts', D2]]), SR('object', ix, [['ts', D1], ['none']]), SR('object', ix, [['ts', D1], NAN]), SR('object', ix, [['ts', D1], ['nat']]),
          SR('object', ix, [I(ns(D1)), I(ns(D2))]), SR('float', ix, [F(2 * ns(D1)), NAN]), SR('dt64ns', [I(0)], [['nat']]), SR('object', [I(0)], [['none']]), SR('td64ns', [I(0)], [['nat']]),
          SR('td64ns', ix, [['td', 1000000], ['td', 2000000]]), SR('td64ns', ix, [['td', 1000000], ['nat']]), SR('int', ix, [I(10 ** 9), I(2 * 10 ** 9)]),
          SR('object', ix, [['td', 1000000], ['td', 2000000]]), SR('object', ix, [['td', 1000000], ['none']]), SR('object', ix, [['pytd', 1000000], ['pytd', 2000000]]),
          FR('dt64ns', ix, [S('a')], [['ts', D1], ['nat']]), FR('object', ix, [S('a')], [['ts', D1], ['none']]), FR('object', ix, [S('a')], [['ts', D1], ['nat']]), FR('int', ix, [S('a')], [I(ns(D1)), I(0)]),
          FR('dt64ns', ix, [S('a'), S('b')], [['ts', D1], ['ts', D2], ['ts', D3], ['nat']]), FR('int', ix, [S('a'), S('b')], [I(ns(D1)), I(ns(D2)), I(ns(D3)), I(0)]),
          FR('td64ns', ix, [S('a')], [['td', 1000000], ['nat']]), FR('int', ix, [S('a')], [I(10 ** 9), I(0)])]
    U += [A('int', [2, 1, 2], [I(1), I(2), I(3), I(4)]), A('int', [1, 2, 2], [I(1), I(2), I(3), I(4)]), A('float', [2, 2, 1], [F(2), F(4), F(6), NAN]),
          L(['npf32nan']), D([('a', ['npf32nan'])]), A('object', [1], [['npf32nan']])]
    U += [A('int', [1], [I(1)]), A('int', [1, 1], [I(1)]), A('int', [], [I(1)]), A('int', [2], [I(1), I(2)]), A('int', [1, 2], [I(1), I(2)]),
          A('int', [2, 1], [I(1), I(2)]), A('int', [3], [I(1), I(1), I(1)]), A('float', [1], [F(2)]), A('float', [2], [F(2), NAN]), A('float', [2], [F(2), F(4)]),
          A('float', [2], [F(3), F(4)]), A('float', [], [NAN]), A('float', [], [F(2)]), A('bool', [1], [['bool', True]]), A('str', [1], [S('a')]), A('str', [2], [S('a'), S('b')]),
          A('object', [2], [I(1), S('a')]), A('object', [1], [['none']]), A('object', [1], [I(1)]), A('object', [2], [F(2), NAN]),
          A('float', [0], []), A('int', [0], []), A('float', [0, 2], []), A('float', [2, 0], []), A('float', [2, 2], [F(2), F(4), F(6), F(8)]),
          A('float', [2, 2], [F(2), F(4), F(6), NAN]), A('float', [2, 3], [F(0)] * 6), A('float', [2, 1], [F(0)] * 2), A('float', [2], [F(0)] * 2),
          A('object', [2], [A('int', [2], [I(1), I(2)]), I(2)]), A('object', [2], [A('int', [2], [I(1), I(2)]), D([('a', A('float', [2], [F(2), NAN]))])]),
          A('object', [2], [L(I(1), I(2)), I(2)]), A('object', [], [L(I(1))])]
    U += [SR('int', [I(0), I(1)], [I(1), I(2)]), SR('float', [I(0), I(1)], [F(2), F(4)]), SR('float', [I(0), I(1)], [F(2), NAN]), SR('int', [S('a'), S('b')], [I(1), I(2)]),
          SR('int', [I(5), I(6)], [I(1), I(2)]), SR('float', [], []), SR('object', [], []), SR('int', [['ts', D1], ['ts', D2]], [I(1), I(2)]),
          SR('object', [I(0), I(1)], [S('a'), ['none']]), SR('int', [I(0), I(1)], [I(1), I(1)]), SR('int', [I(0)], [I(1)]), SR('float', [['ts', D1]], [NAN]),
          SR('object', [I(0), I(1)], [I(1), I(2)])]
    U += [FR('int', [I(0)], [S('a'), S('b')], [I(1), I(2)]), FR('int', [I(0)], [S('a')], [I(1)]), FR('int', [I(0)], [S('b')], [I(1)]), FR('float', [I(0)], [S('a')], [F(2)]),
          FR('float', [I(0), I(1)], [S('a')], [F(2), NAN]), FR('float', [I(0), I(1)], [S('b')], [F(2), NAN]), FR('float', [I(0), I(1)], [S('a'), S('b')], [F(2), F(4), F(6), F(8)]),
          FR('float', [I(0), I(1)], [S('a'), S('b')], [F(2), F(4), F(6), NAN]), FR('float', [], [S('a')], []), FR('float', [I(0), I(1)], [], []), FR('int', [I(0), I(1)], [I(0)], [I(1), I(2)]),
          FR('int', [['ts', D1], ['ts', D2]], [S('a')], [I(1), I(2)]), FR('object', [I(0)], [S('a'), S('b')], [I(1), S('x')])]
    return U

SC_POOL = [['none'], ['bool', True], I(0), I(1), I(2), I(-3), F(2), F(3), F(5), ['npint', 1], ['npint', 2], ['npfloat', 2], NAN, ['npnan'], ['inf', False], ['inf', True],
           ['npint32', 2], ['npf32', 3], ['npf32nan'], ['nptd', 's', 1], ['nptd', 'D', 1], ['td', 1000000], X(0.3), X(0.1 + 0.2), ['npflt', float(0.3).hex()], X(1e-9), ['dt', D3], ['ts', DFUT], ['dt64', DOLD], I(2 ** 40 + 1),
           S('a'), S('b'), S('ab'), ['npstr', 'a'], ['dt', D1], ['ts', D1], ['dt64', D2], ['dt', D2]]
KEYS = ['a', 'b', 'c', 'ab', 'B', 'a1', 'z']

def rand_scalar(rng):
    return copy.deepcopy(rng.choice(SC_POOL))

def rand_cells(rng, dtype, n):
    if dtype == 'int': return [I(rng.choice([0, 1, 2, 3, -1])) for _ in range(n)]
    if dtype == 'float': return [rng.choice([F(2), F(3), F(4), F(0), NAN, NAN, ['inf', False], X(0.3), X(0.1 + 0.2), X(1e-9), F(2 * 10 ** 10)]) for _ in range(n)]
    if dtype == 'bool': return [['bool', rng.random() < 0.5] for _ in range(n)]
    if dtype == 'str': return [S(rng.choice(['a', 'b', 'ab'])) for _ in range(n)]
    if dtype == 'dt64ns': return [rng.choice([['ts', D1], ['ts', D2], ['ts', D3], ['nat']]) for _ in range(n)]
    if dtype == 'td64ns': return [rng.choice([['td', 1000000], ['td', 2000000], ['td', 1], ['nat']]) for _ in range(n)]
    return [rand_scalar(rng) for _ in range(n)]

def rand_index(rng, n):
    r = rng.random()
    if r < 0.12 and n:      # a missing label: NaN in a float index, None / NaN in an object index, NaT in a datetime index
        kind = rng.choice(['float', 'obj', 'dt', 'tz'])
        lab = {'float': [F(2 * i) for i in range(n)], 'obj': [S(KEYS[i]) for i in range(n)], 'dt': [['ts', D1 + i * 86400000000] for i in range(n)], 'tz': [['tsz', D1 + i * 86400000000, 'UTC'] for i in range(n)]}[kind]
        if kind != 'tz': lab[rng.randrange(n)] = {'float': NAN, 'obj': rng.choice([NAN, ['none']]), 'dt': ['nat']}[kind]
        return lab
    if r < 0.5: return [I(i) for i in range(n)]
    if r < 0.7: return [I(i + 5) for i in range(n)]
    if r < 0.9: return [S(KEYS[i]) for i in range(n)]
    return [['ts', D1 + i * 86400000000] for i in range(n)]

def rand_val(rng, depth):
    r = rng.random()
    if depth <= 0 or r < 0.25:
        return rand_scalar(rng)
    n = rng.choice([0, 1, 1, 2, 2, 3])
    if r < 0.30: return ['list', [rand_val(rng, depth - 1) for _ in range(n)]]
    if r < 0.34: return Q('MyList', *[rand_val(rng, depth - 1) for _ in range(n)])
    if r < 0.40: return Q(*([rng.choice(['Point', 'MyTuple'])] + [rand_val(rng, depth - 1) for _ in range(2)])) if rng.random() < 0.6 else Q('MyTuple', *[rand_val(rng, depth - 1) for _ in range(n)])
    if r < 0.52: return ['tuple', [rand_val(rng, depth - 1) for _ in range(n)]]
    if r < 0.72:
        ks = rng.sample(KEYS, n)
        return ['dict', rng.choice(['dict', 'dict', 'dict', 'Dict', 'FunnyDict', 'OrderedDict']), [[k, rand_val(rng, depth - 1)] for k in ks]]
    if r < 0.88:
        shape = rng.choice([[n], [n], [1, n], [n, 1], [2, n], [n, 2], [], [2, 2]])
        size = 1
        for d in shape: size *= d
        dtype = rng.choice(['int', 'float', 'float', 'bool', 'str', 'object', 'object'])
        if dtype == 'object' and depth > 1 and rng.random() < 0.6:
            return A(dtype, shape, [rand_val(rng, depth - 1) for _ in range(size)])
        return A(dtype, shape, rand_cells(rng, dtype, size))
    if r < 0.95:
        dtype = rng.choice(['int', 'float', 'float', 'object', 'dt64ns', 'td64ns'])
        return SR(dtype, rand_index(rng, n), rand_cells(rng, dtype, n))
    m = rng.choice([1, 2])
    dtype = rng.choice(['int', 'float', 'float', 'object', 'dt64ns'])
    return FR(dtype, rand_index(rng, n), [S(KEYS[j]) for j in range(m)] if rng.random() < 0.8 else [I(j) for j in range(m)], rand_cells(rng, dtype, n * m))

def conv_cell(c, dtype):
    """the same number as a cell of another dtype"""
    if dtype == 'float' and c[0] in ('int', 'npint', 'npint32'): return F(2 * c[1])
    if dtype == 'float' and c[0] in ('bool',): return F(2 * int(c[1]))
    return c

def variant(rng, s):
    """a value that must still be eq to s: representation changes only"""
    t = s[0]
    if t in ('int', 'npint', 'npint32'):
        small = [['npint32', s[1]], ['npf32', 2 * s[1]]] if abs(s[1]) < 2 ** 20 else []
        return rng.choice([I(s[1]), ['npint', s[1]], F(2 * s[1]), ['npfloat', 2 * s[1]]] + small + ([['bool', bool(s[1])]] if s[1] in (0, 1) else []))
    if t in ('float', 'npfloat', 'npf32'):
        return rng.choice([F(s[1]), ['npfloat', s[1]]] + ([['npf32', s[1]]] if abs(s[1]) < 2 ** 20 else []) + ([I(s[1] // 2)] if s[1] % 2 == 0 else []))
    if t in NANS: return rng.choice([NAN, ['npnan'], ['npf32nan']])
    if t in ('str', 'npstr'): return rng.choice([S(s[1]), ['npstr', s[1]]])
    if t in ('dt', 'ts', 'dt64'): return [rng.choice(['dt', 'ts', 'dt64']), s[1]]
    if t in ('flt', 'npflt'): return [rng.choice(['flt', 'npflt']), s[1]]
    if t == 'seq': return ['seq', s[1], [variant(rng, v) for v in s[2]]]
    if t == 'tsz': return rng.choice([s, ['tsz', s[1] - TZOFF[s[2]] + TZOFF['Asia/Tokyo'], 'Asia/Tokyo'], ['tsz', s[1] - TZOFF[s[2]], 'UTC']])
    if t in ('td', 'pytd'): return rng.choice([['td', s[1]], ['pytd', s[1]], ['nptd', 'us', s[1]]])
    if t == 'nptd': return rng.choice([['nptd', 'us', s[2] * TDUNIT[s[1]]], ['td', s[2] * TDUNIT[s[1]]], ['nptd', s[1], s[2]]])
    if t == 'partial': return ['partial', s[1], [variant(rng, a) for a in s[2]], [[k, variant(rng, v)] for k, v in s[3]]]
    if t in ('list', 'tuple'): return [t, [variant(rng, v) for v in s[1]]]
    if t == 'dict':
        items = [[k, variant(rng, v)] for k, v in s[2]]
        rng.shuffle(items)
        return ['dict', s[1], items]
    if t == 'arr':
        if s[1] == 'object': return A('object', s[2], [variant(rng, c) for c in s[3]])
        nd = rng.choice({'int': ['int', 'float', 'object'], 'float': ['float', 'object'], 'bool': ['bool', 'object'], 'str': ['str', 'object']}[s[1]])
        return A(nd, s[2], [conv_cell(c, nd) for c in s[3]])
    if t == 'series':
        nd = rng.choice({'int': ['int', 'float', 'object'], 'float': ['float', 'object'], 'object': ['object'], 'dt64ns': ['dt64ns', 'object'], 'td64ns': ['td64ns', 'object']}[s[1]])
        return SR(nd, s[2], [conv_cell(c, nd) for c in s[3]])
    if t == 'frame':
        nd = rng.choice({'int': ['int', 'float', 'object'], 'float': ['float', 'object'], 'object': ['object'], 'dt64ns': ['dt64ns', 'object'], 'td64ns': ['td64ns', 'object']}[s[1]])
        return FR(nd, s[2], s[3], [conv_cell(c, nd) for c in s[4]])
    return copy.deepcopy(s)

def as_float_spec(f):
    """the exact description of a finite Python float: half-integers are ['float', 2f], anything else ['flt', hex]"""
    return F(int(2 * f)) if 2 * f == int(2 * f) and abs(f) < 2 ** 50 else X(f)

def near(rng, f):
    """a float within numpy.allclose tolerance of f but different from it"""
    import math
    g = rng.choice([math.nextafter(f, math.inf), math.nextafter(f, -math.inf), f * (1 + 1e-9), f + 1e-9, f * (1 - 3e-7)])
    if g == f: g = math.nextafter(f, math.inf)
    return as_float_spec(g)

def mutate_scalar(rng, s):
    t = s[0]
    if t in ('int', 'npint', 'npint32'): return [t, s[1] + rng.choice([1, -1])]
    if t in ('float', 'npfloat') and rng.random() < 0.4: return near(rng, s[1] / 2)
    if t in ('float', 'npfloat', 'npf32'): return [t, s[1] + rng.choice([1, 2, -1])]
    if t in ('flt', 'npflt'): return near(rng, float.fromhex(s[1]))
    if t in NANS: return rng.choice([F(2), ['none'], ['inf', False]])
    if t in ('str', 'npstr'): return [t, s[1] + 'x']
    if t in ('dt', 'ts', 'dt64'): return [t, s[1] + 1000000]
    if t == 'none': return rng.choice([I(0), NAN, S('None')])
    if t == 'nat': return ['ts', D1]
    if t == 'tsz': return rng.choice([['tsz', s[1] + 1000000, s[2]], ['ts', s[1]], ['tsz', s[1], 'UTC' if s[2] != 'UTC' else 'Asia/Tokyo']])
    if t in ('td', 'pytd'): return [t, s[1] + 1000000]
    if t == 'nptd': return rng.choice([['nptd', s[1], s[2] + 1], ['nptd', 'D' if s[1] != 'D' else 's', s[2]], I(s[2])])
    if t in ('bool', 'npbool'): return [t, not s[1]]
    if t == 'inf': return ['inf', not s[1]]
    return s

def mutant(rng, s):
    """a value differing from s in exactly one place (so eq must be False)"""
    s = copy.deepcopy(s); t = s[0]
    if is_scalar(s):
        return mutate_scalar(rng, s) if rng.random() < 0.7 else rng.choice([L(s), T(s), A('object', [1], [s]), A('object', [], [s])])
    r = rng.random()
    kids = children(s)
    if kids and r < 0.5:                      # go deeper
        i = rng.randrange(len(kids))
        if s[0] in ('arr', 'series', 'frame') and s[1] != 'object':
            new = mutate_scalar(rng, kids[i])
            if s[1] == 'float' and new[0] not in ('float', 'flt', 'nan', 'inf'): new = F(7)
            if s[1] == 'dt64ns' and new[0] not in ('ts', 'nat'): new = ['ts', D2 + 7000000]
            if s[1] == 'td64ns' and new[0] not in ('td', 'nat'): new = ['td', 7000000]
        else:
            new = mutant(rng, kids[i])
        if t == 'dict': s[2][i][1] = new
        else: kids[i] = new
        return s
    if t == 'partial':
        return rng.choice([['partial', 1 - s[1], s[2], s[3]], ['partial', s[1], s[2] + [I(9)], s[3]], ['partial', s[1], s[2], s[3] + [['zz', I(1)]]], T(*s[2])])
    if t == 'seq':
        plainkind = 'list' if s[1] == 'MyList' else 'tuple'
        return rng.choice([[plainkind, s[2]], [plainkind, s[2]], ['seq', 'MyTuple' if s[1] != 'MyTuple' else 'MyList', s[2]]])
    if t in ('list', 'tuple'):
        c = rng.random()
        if c < 0.3:      # the same content in a subclass / namedtuple
            return Q('MyList', *s[1]) if t == 'list' else Q('Point', *s[1]) if len(s[1]) == 2 and rng.random() < 0.6 else Q('P3', *s[1]) if len(s[1]) == 3 and rng.random() < 0.6 else Q('MyTuple', *s[1])
        if c < 0.4: return ['tuple' if t == 'list' else 'list', s[1]]
        if c < 0.6: return [t, s[1] + [I(1)]]
        if c < 0.8 and s[1]: return [t, s[1][:-1]]
        return A('object', [len(s[1])], s[1])
    if t == 'dict':
        c = rng.random()
        if c < 0.4: return ['dict', rng.choice([x for x in CLS if x != s[1]]), s[2]]
        if c < 0.7 and s[2]:
            s[2][rng.randrange(len(s[2]))][0] += '_'
            return s
        return ['dict', s[1], s[2] + [['zz', I(1)]]]
    if t == 'arr':
        sh = s[2]
        if len(sh) == 1: return A(s[1], rng.choice([[1, sh[0]], [sh[0], 1]]), s[3])
        if len(sh) == 2: return A(s[1], rng.choice([[sh[0] * sh[1]], [sh[1], sh[0]]] if sh[0] != sh[1] else [[sh[0] * sh[1]]]), s[3])
        return A(s[1], [1], s[3])
    if t == 'series':
        if s[2] and rng.random() < 0.7:
            ix = copy.deepcopy(s[2]); ix[-1] = mutate_scalar(rng, ix[-1])
            return SR(s[1], ix, s[3])
        return A(s[1] if s[1] in ('int', 'float') else 'object', [len(s[3])], s[3])
    if t == 'frame':
        if s[3] and rng.random() < 0.5:
            col = copy.deepcopy(s[3]); col[-1] = mutate_scalar(rng, col[-1])
            return FR(s[1], s[2], col, s[4])
        if s[2]:
            ix = copy.deepcopy(s[2]); ix[-1] = mutate_scalar(rng, ix[-1])
            return FR(s[1], ix, s[3], s[4])
        return FR(s[1], s[2], s[3] + [S('zz')], s[4])
    return s

def none_key_pair(rng, depth=2):
    """two dicts of equal size with different key sets whose non-shared keys all map to None (y.get(k) would default
    to None), optionally sharing further keys, optionally wrapped in containers; eq must be False"""
    cls = rng.choice(['dict', 'dict', 'Dict', 'FunnyDict', 'OrderedDict'])
    ks = rng.sample(KEYS, rng.choice([2, 3, 4, 5]))
    j = rng.randrange(1, len(ks) // 2 + 1)
    own_x, own_y, shared = ks[:j], ks[j:2 * j], ks[2 * j:]
    common = [[k, rand_val(rng, depth - 1)] for k in shared]
    x = [[k, ['none']] for k in own_x] + copy.deepcopy(common)
    y = [[k, ['none']] for k in own_y] + [[k, variant(rng, v)] for k, v in common]
    rng.shuffle(x); rng.shuffle(y)
    x, y = ['dict', cls, x], ['dict', cls, y]
    for _ in range(rng.choice([0, 0, 1, 2])):
        w = rng.random()
        if w < 0.3: x, y = L(x), L(y)
        elif w < 0.5: x, y = T(I(1), x), T(I(1), y)
        elif w < 0.8:
            k = rng.choice(KEYS); x, y = D([(k, x)]), D([(k, y)])
        else: x, y = A('object', [1], [x]), A('object', [1], [y])
    return x, y

def big_values():
    """sizes > 100: long list / tuple, wide dict (keys k0..k119: 'k10' < 'k2' in sort order), long and 2-d arrays, long Series, tall frame"""
    n = 150
    return [L(*[I(i) for i in range(n)]), T(*[I(i) for i in range(n)]), D([('k%d' % i, I(i)) for i in range(120)]),
            A('int', [300], [I(i % 7) for i in range(300)]), A('float', [12, 12], [F(i) if i % 11 else NAN for i in range(144)]),
            SR('float', [I(i) for i in range(200)], [F(i) if i % 13 else NAN for i in range(200)]),
            FR('float', [I(i) for i in range(60)], [S('a'), S('b'), S('c')], [F(i) if i % 17 else NAN for i in range(180)])]

def gen_cases(rng, tier):
    U = universe()
    cases = []
    for i in range(len(U)):
        cases.append({'kind': 'pair', 'x': U[i], 'y': U[i], 'same': True})
        for j in range(i, len(U)):
            cases.append({'kind': 'pair', 'x': U[i], 'y': U[j]})
    B = big_values()
    for i, b in enumerate(B):
        cases.append({'kind': 'pair', 'x': b, 'y': b, 'same': True})
        cases.append({'kind': 'pair', 'x': b, 'y': b, 'kw': True})
        cases.append({'kind': 'pair', 'x': b, 'y': variant(rng, b)})
        for _ in range(3):
            cases.append({'kind': 'pair', 'x': b, 'y': mutant(rng, b)})
        cases.append({'kind': 'pair', 'x': b, 'y': B[(i + 1) % len(B)]})
        cases.append({'kind': 'triple', 'x': b, 'y': variant(rng, b), 'z': variant(rng, b)})
        cases.append({'kind': 'in', 'x': b, 'seq': [U[3], mutant(rng, b), variant(rng, b)], 'seq_as': 'tuple'})
    n = 500 if tier == 'quick' else 8000
    for _ in range(n):
        x = rand_val(rng, rng.choice([1, 2, 2, 3, 3]))
        r = rng.random()
        y = variant(rng, x) if r < 0.35 else mutant(rng, x) if r < 0.8 else mutant(rng, variant(rng, x))
        cases.append({'kind': 'pair', 'x': x, 'y': y, 'kw': rng.random() < 0.2})
    for _ in range(n // 4):
        cases.append({'kind': 'pair', 'x': rand_val(rng, 2), 'y': rand_val(rng, 2)})
    for _ in range(n // 3):
        x, y = none_key_pair(rng)
        cases.append({'kind': 'pair', 'x': x, 'y': y})
        if rng.random() < 0.3:
            cases.append({'kind': 'triple', 'x': x, 'y': y, 'z': variant(rng, x)})
    for _ in range(n):
        x = rand_val(rng, rng.choice([0, 1, 2, 2, 3]))
        y = variant(rng, x); z = variant(rng, y)
        r = rng.random()
        if r < 0.25: z = mutant(rng, z)
        elif r < 0.4: y = mutant(rng, y)
        elif r < 0.5: x, y, z = rng.choice(U), rng.choice(U), rng.choice(U)
        cases.append({'kind': 'triple', 'x': x, 'y': y, 'z': z})
    for _ in range(n // 3):
        x = rand_val(rng, rng.choice([0, 1, 2]))
        seq = [rng.choice(U) if rng.random() < 0.5 else rand_val(rng, 1) for _ in range(rng.randrange(0, 5))]
        r = rng.random()
        if r < 0.4: seq.insert(rng.randrange(len(seq) + 1), variant(rng, x))
        elif r < 0.7: seq.insert(rng.randrange(len(seq) + 1), mutant(rng, x))
        cases.append({'kind': 'in', 'x': x, 'seq': seq, 'seq_as': rng.choice(['list', 'list', 'tuple', 'array'])})
    # in_ over sequences whose members are ALL hashable (scalars, tuples of scalars): a set / dict lookup shortcut would answer these, and it is
    # wrong whenever eq is not identity-or-== with equal hashes: NaN objects of different identity (alone or inside a tuple), np.datetime64 vs datetime
    HASHABLE = [NAN, ['npnan'], ['npf32nan'], ['none'], I(0), I(1), F(2), F(3), ['npint', 1], ['bool', True], S('a'), S('1'), ['npstr', 'a'], ['inf', False], ['dt', D1], ['ts', D1], ['dt64', D1], ['nat'],
                ['td', 1000000], ['pytd', 1000000], ['nptd', 's', 1], X(0.3), T(NAN), T(I(1), NAN), T(I(1), I(2)), T(), T(S('a'), ['none']), T(T(NAN)), Q('Point', I(1), NAN)]
    for _ in range(n // 2):
        seq = [copy.deepcopy(rng.choice(HASHABLE)) for _ in range(rng.randrange(1, 6))]
        r = rng.random()
        if r < 0.55: x = variant(rng, rng.choice(seq))          # eq to a member, never the same object
        elif r < 0.8: x = mutant(rng, rng.choice(seq))
        else: x = copy.deepcopy(rng.choice(HASHABLE))
        cases.append({'kind': 'in', 'x': x, 'seq': seq, 'seq_as': rng.choice(['list', 'tuple'])})
    import math
    for _ in range(n // 5):      # last-bit neighbours: the same float context holding f, nextafter(f), f*(1+1e-9)
        f = rng.choice([0.3, 0.1 + 0.2, 1.5, 1e-9, 1e10, -2.75, 123456.789])
        cells = [as_float_spec(f), as_float_spec(math.nextafter(f, math.inf)), as_float_spec(f * (1 + 1e-9))]
        ctx = rng.choice(['scalar', 'list', 'tuple', 'arr', 'arr2', 'objarr', 'series', 'frame', 'dict'])
        wrap = {'scalar': lambda c: c, 'list': lambda c: L(c, F(3)), 'tuple': lambda c: T(F(3), c), 'arr': lambda c: A('float', [2], [c, NAN]),
                'arr2': lambda c: A('float', [2, 2], [F(2), c, F(4), NAN]), 'objarr': lambda c: A('object', [2], [c, S('a')]),
                'series': lambda c: SR('float', [I(0), I(1)], [c, F(3)]), 'frame': lambda c: FR('float', [I(0), I(1)], [S('a')], [NAN, c]), 'dict': lambda c: D([('a', c)])}[ctx]
        x, y, z = map(wrap, cells)
        cases.append({'kind': 'triple', 'x': x, 'y': y, 'z': z})
        cases.append({'kind': 'pair', 'x': y, 'y': x})
        cases.append({'kind': 'triple', 'x': x, 'y': variant(rng, x), 'z': z})
    for _ in range(n // 5):
        x = rand_val(rng, 2)
        while x[0] != 'arr' or not x[3]:
            x = rand_val(rng, 2)
        y = variant(rng, x) if rng.random() < 0.4 else mutant(rng, x)
        if y[0] != 'arr' or y[2] != x[2]:
            cells = [mutate_scalar(rng, c) if is_scalar(c) and rng.random() < 0.3 else c for c in x[3]]
            if x[1] == 'float': cells = [c if c[0] in ('float', 'flt', 'nan', 'inf') else F(7) for c in cells]
            y = A(x[1], x[2], cells)
        cases.append({'kind': 'veq', 'x': x, 'y': y})
    cases += edit_cases(rng, n // 2)
    return [keep32_apart(c) for c in cases]

EDITABLE = [SR('float', [I(0), I(1), I(2)], [F(2), F(4), NAN]), SR('int', [S('a'), S('b')], [I(1), I(2)]), SR('object', [I(5), I(6)], [S('a'), I(1)]),
            SR('dt64ns', [I(0), I(1)], [['ts', D1], ['nat']]), SR('float', [['ts', D1], ['ts', D2]], [F(2), F(3)]),
            FR('float', [I(0), I(1)], [S('a'), S('b')], [F(2), F(4), F(6), NAN]), FR('int', [I(0)], [S('a'), S('b')], [I(1), I(2)]), FR('object', [I(0), I(1)], [S('a')], [S('x'), I(1)]),
            A('float', [3], [F(2), NAN, F(6)]), A('int', [2, 2], [I(1), I(2), I(3), I(4)]), A('object', [2], [I(1), S('a')]), A('float', [], [F(2)])]

def edit_value(rng, t, op, i):
    if op == 'col': return S(rng.choice(['zz', 'a', 'b', 'c']))
    if op == 'index':
        old = t[2][i]
        return ['ts', old[1] + 3600000000] if old[0] == 'ts' else S(old[1] + 'x') if old[0] == 'str' else I(old[1] + rng.choice([10, 20]))
    d = t[1]
    if d == 'int': return I(rng.choice([7, 8, 9]))
    if d == 'float': return rng.choice([F(14), F(15), NAN, X(0.3)])
    if d == 'dt64ns': return rng.choice([['ts', D2], ['ts', D3], ['nat']])
    return rng.choice([I(7), S('q'), F(5)])

def edit_cases(rng, n):
    """two live objects compared, one edited in place (a cell, an index label, a column label), compared again, the other edited, compared again:
    equal -> unequal -> equal (mode A) and unequal -> equal -> unequal (mode B); top level and nested in list / tuple / dict"""
    out = []
    for _ in range(n):
        b = copy.deepcopy(rng.choice(EDITABLE))
        wrap, path = rng.choice([(lambda v: v, []), (lambda v: L(v), [0]), (lambda v: T(I(1), v), [1]), (lambda v: D([('a', v), ('b', I(1))]), ['a']),
                                 (lambda v: L(D([('k', v)])), [0, 'k']), (lambda v: D([('p', L(I(0), v))], 'Dict'), ['p', 1])])
        ops = {'arr': ['cell'], 'series': ['cell', 'cell', 'index'], 'frame': ['cell', 'cell', 'index', 'col']}[b[0]]
        def an_edit(on, t):
            op = rng.choice(ops)
            size = len(t[{'arr': 3, 'series': 3, 'frame': 4}[t[0]]]) if op == 'cell' else len(t[2]) if op == 'index' else len(t[3])
            i = rng.randrange(size)
            return {'on': on, 'path': path, 'op': op, 'i': i, 'v': edit_value(rng, t, op, i)}
        if rng.random() < 0.5:      # A: equal, edit x, the same edit on y
            e = an_edit('x', b)
            out.append({'kind': 'edit', 'x': wrap(b), 'y': wrap(copy.deepcopy(b)), 'edits': [e, dict(e, on='y')]})
        else:                       # B: y is x with one edit already applied; apply it to x in place, then edit y again
            e = an_edit('x', b)
            y_b = locate(edit_spec(wrap(b), e), path)
            if json.dumps(y_b) == json.dumps(b):
                continue
            e3 = an_edit('y', y_b)
            out.append({'kind': 'edit', 'x': wrap(b), 'y': wrap(y_b), 'edits': [e, e3]})
    return out

def keep32_apart(case):
    """numpy compares np.float32(v) == <python float> after rounding the double to float32 (weak-scalar promotion), so a float32
    scalar equals every double near v: == itself is not transitive there.  A case never holds a float32 scalar together with a
    last-bit neighbour (documented in coverage/C14.md as outside the claim); the float32 becomes a float64 in such cases."""
    txt = json.dumps(case)
    if '"npf32"' in txt and ('"flt"' in txt or '"npflt"' in txt):
        return json.loads(txt.replace('"npf32"', '"npfloat"'))
    return case

LEVEL_TEXT = ('machine-checked Coq theorems (C14_*, by structural induction over every value of the nested value type: any depth, any size) that the '
              'model of eq is a NaN-aware, container-type-strict equivalence that agrees with Python == on NaN-free plain values; the model is tied to '
              '/repo on every run by evaluating eq on every pair of a 110-value universe and on thousands of random nestings, variants and mutants and '
              'comparing with the model inside Coq, with an independent oracle (laws + the structural rule of the property text) on the real outputs')
LEVEL_NOTE = ('trusted: Coq kernel/vm_compute; modelled not verified: numpy/pandas element access and Python scalar ==; the model is of the repaired eq '
              '(fixes/C14.patch): the pinned tree compares no shapes, broadcasts scalar == container and rebuilds dict values as numpy arrays')
TECHNIQUE = 'Coq proof (custom nested induction principle, Forall2-style lemmas) over an executable model + differential correspondence in vm_compute'
