"""C19 — container lifting maps leaf-wise, preserves shape, matches/broadcasts companions; zipper; as_list/as_tuple; waiter."""
import itertools, json, math

ID = 'C19'
TRANSLATOR = []
COQ_EXEC = ['exec.X_loop']
COQ_IMPORTS = 'From PB Require Import model.M_loop.\nFrom Coq Require Import Arith.\n'
COQ_PRELUDE = ''
PER_FILE = 300
CASE_TIMEOUT = 20
RULE = ('kinds: loop = loop(list,tuple,dict)(f) on random nestings of lists / tuples / dict, OrderedDict, Dict, dictattr to depth 4 (empty containers included; dict keys are strings, ints, floats, tuples, None, '
        'and in the lifted argument also mixes of those families; a shared stream places ONE sub-container object at 2-4 positions of a list / tuple / dict ([row] * n) with companions that differ per position; leaves are ints, None, strings of length 0-4, floats, +-inf, class objects (str, list, dict, tuple, set, bytes) and functions; dict keys also frozensets (Dict / dictattr included) and look-alike mixes (10 and the string 10, None and the string None, True and the string True, ...) with companions keyed in another order; a few containers of 100-160 elements; also loop(list), loop(tuple), loop(dict), '
        'loop(list,tuple), ... where containers of the other types are leaves) '
        'with 0-3 companions that are scalars, same-shape, same-shape-at-the-top, different-shape or "deep" (a sub-container of the matching length / keys), passed '
        'positionally, by keyword or mixed (also the lifted argument itself by keyword), f recording exactly what it receives (lambda a,*args,**kw) or binding named '
        'parameters (lambda a,b=None,c=None); lib = lower upper strip proper capitalize replace split f12 as_float on nested structures of strings / numbers / None; '
        'zip = zipper over scalars (strings included), lists, tuples, ranges and zip objects of lengths 0-4 (a few of 100-140), plus lens on the same values; as = as_list / as_tuple (none=True included, ranges) applied once and twice; wait = waiter on a nested structure holding up to 5 '
        '(thorough: 6) futures / coroutines / tasks under a real asyncio event loop, the futures resolved by a driver in EVERY permutation, (also all results set within one loop iteration, and one future / task placed twice; plus a chain stream: 2-5 lazy coroutines placed in dicts, lists, dicts of lists, lists of dicts and deeper mixes whose completion order is forced by events - awaitable k can only finish after awaitable k-1 - under every permutation, a waiter that does not return within 0.5 s being the outcome Timeout = violation; in both waiter streams a third of the cases carry exception OBJECTS (a ValueError, a KeyError, a custom subclass, a bare Exception) as awaitable RESULTS (bare or inside a container) and as plain leaves - values, not errors - and a tenth have one awaitable that genuinely raises (contrast: waiter must raise exactly that exception under every order); every quick run has one structure with 6 awaitables = 720 orders), recording the final value and '
        'whether waiter had returned before each completion. Each observation is compared in Coq with M_loop (wrapped / zipper / as_list / as_tuple / collect). The oracle '
        're-derives the expected result from the property text: a plain recursive map where a companion of the same length (dicts: same keys) is indexed, anything else '
        'is passed whole (no exemption: a different-shape companion holding a sub-container of the matching length / keys is searched recursively by _item_by_i / _item_by_key instead of being broadcast - '
        'reported as KNOWN-FINDING c19_companion_deep_match; such companions are generated on purpose and one is a corpus seed), positional == keyword, '
        'zipper rows / ValueError from the lengths, idempotence, awaitables substituted by their results. non-trivial = nesting depth >= 2 with a companion, a lib call on a '
        'container, >= 2 zipper arguments, or >= 2 awaitables; distinct by the whole case')
EXPLANATION = ('theorems C19_* (coq/props/C19.v) hold for every nesting, companion list and schedule by structural induction / induction over the schedule; the correspondence ties '
               'the model to _loop.py, _zip.py, _as_list.py and (sampled over all enumerated completion orders) _waiter.py under a real event loop')
TRUSTED = ['modelled, not verified: the asyncio scheduler (event loop, gather, Future/Task callbacks) - the theorem covers the bookkeeping of waiter (gather collects by position, a future is '
           'resolved once), the real loop is only sampled by the enumerated completion orders',
           'modelled, not verified: Python argument binding (*args / **kwargs / defaults) as f_named; str methods behind the lifted text helpers (leaf values are carried, the oracle '
           'applies the helper to each bare leaf, and compares each leaf with the helper\'s documented behaviour written with plain str / float operations)']
ASSUMPTIONS = ['dict keys are hashable leaves (str, int, float, tuple, None); Dict / dictattr are not given tuple keys (they read a tuple key as a path)', 'no keyword named axis', 'containers are exactly list, tuple, dict, OrderedDict, Dict, dictattr',
               'known finding: a companion of different length / keys that contains a sub-container of the matching length / keys is not broadcast (C19_broadcast_refuted); broadcast is proved for companions without one']
EXHAUSTIVE = {'quick': False, 'thorough': False}
LEVEL_TEXT = ('machine-checked Coq theorems for all nestings / companions / schedules: shape and container types preserved, each leaf = f(leaf, companions at its path), element-wise matching vs broadcast, '
              'positional = keyword, zipper broadcast / ValueError iff, as_list idempotent, waiter bookkeeping schedule independent; model tied to the code by differential runs compared in vm_compute')
LEVEL_NOTE = ('partial for waiter: the asyncio scheduler is modelled, not verified - bookkeeping proved for every schedule, the real event loop sampled over all enumerated completion orders of <= 6 awaitables. '
              'as_tuple idempotence is proved only outside the class "result is a 1-tuple holding a list" (as_tuple([[1,2]]) -> ([1,2],) -> (1,2)): C19_as_tuple_idempotent_partial / _refuted. '
              'Broadcast of "everything else" is proved for scalars and for containers without a sub-container of the matching length / keys; for the others it is refuted (C19_broadcast_refuted, known finding c19_companion_deep_match: '
              'f([1,2], [[1,2],[3,4],[5,6]]) hands [1,3,5] to the first leaf). The theorems are about the repaired code (companions handed down as tuples, fixes/C19.patch)')
TECHNIQUE = 'Coq proof (structural induction on nested values, induction over the completion schedule) + differential correspondence in vm_compute + property-text oracle'

# ---------------------------------------------------------------- structures (JSON <-> python <-> Coq)
# JSON: int = leaf | {"L": [...]} | {"T": [...]} | {"D": [cls, [[key, S], ...]]} | {"A": i} (awaitable, waiter only)
def coq_val(s):
    if isinstance(s, int):
        return '(VLeaf (%d)%%Z)' % s
    if 'R' in s:            # range(n): iterated like the list [0, .., n-1]
        return '(VList [%s])' % '; '.join('(VLeaf (%d)%%Z)' % i for i in range(s['R']))
    if 'Z' in s:            # zip(a, b): iterated like the list of pairs
        return '(VList [%s])' % '; '.join('(VTuple [%s; %s])' % (coq_val(a), coq_val(b)) for a, b in zip(*s['Z']))
    if 'L' in s:
        return '(VList [%s])' % '; '.join(coq_val(x) for x in s['L'])
    if 'T' in s:
        return '(VTuple [%s])' % '; '.join(coq_val(x) for x in s['T'])
    cls, items = s['D']
    return '(VDict (%d)%%Z [%s])' % (cls, '; '.join('((%d)%%Z, %s)' % (k, coq_val(v)) for k, v in items))

def coq_wval(s):
    if isinstance(s, int):
        return '(WLeaf (%d)%%Z)' % s
    if 'A' in s:
        return '(WAwait %d%%nat)' % s['A']
    if 'L' in s:
        return '(WList [%s])' % '; '.join(coq_wval(x) for x in s['L'])
    if 'T' in s:
        return '(WTuple [%s])' % '; '.join(coq_wval(x) for x in s['T'])
    cls, items = s['D']
    return '(WDict (%d)%%Z [%s])' % (cls, '; '.join('((%d)%%Z, %s)' % (k, coq_wval(v)) for k, v in items))

def raiser(case):
    """index of the awaitable that RAISES its exception instead of returning it (at most one per case), else None"""
    ks = case.get('kinds', []) if case.get('kind') == 'wait' else []
    r = [i for i, k in enumerate(ks) if k.endswith('raise')]
    return r[0] if r else None
def exc_name(leaf_id):
    t = EXC[leaf_id][0].__name__
    return t if t in ('ValueError', 'KeyError', 'TypeError', 'IndexError', 'AttributeError') else 'Other:' + t

def coq_runner(case):
    return {'loop': 'run_loop' if case.get('mode') != 'named' else 'run_loop_named', 'lib': 'run_loop_id', 'zip': 'run_zipper',
            'as': 'run_as', 'wait': 'run_waiter_raise' if raiser(case) is not None else 'run_waiter_chain' if case.get('chain') else 'run_waiter'}[case['kind']]

def coq_case(case):
    k = case['kind']
    if k == 'loop':
        return '(%s, [%s], [%s])' % (coq_val(collapse(case['arg'], case.get('types', 'LTD'), [])), '; '.join(coq_val(x) for x in case['pos']),
                                     '; '.join('((%d)%%Z, %s)' % (n, coq_val(v)) for n, v in case['kw']))
    if k == 'lib':
        return coq_val(case['arg'])
    if k == 'zip':
        return '[%s]' % '; '.join(coq_val(x) for x in case['vals'])
    if k == 'as':
        return '(%s, %s, %s)' % ('true' if case['tuple'] else 'false', 'true' if case.get('none') else 'false', coq_val(case['v']))
    if k == 'wait':
        m = len(case['results'])
        scheds = '; '.join('[%s]' % '; '.join('%d%%nat' % i for i in p) for p in itertools.permutations(range(m)))
        if raiser(case) is not None:
            return '([%s], "%s")' % (scheds, exc_name(case['results'][raiser(case)]))
        return '(%s, [%s], [%s])' % (coq_wval(case['w']), '; '.join(coq_val(x) for x in case['results']), scheds)
    raise ValueError(k)

# ---------------------------------------------------------------- implementation side
def impl_setup():
    global loop, zipper, lens, as_list, as_tuple, waiter, Dict, dictattr, OrderedDict, asyncio, LIB, CLS, F_RECORD, F_NAMED
    import asyncio
    from collections import OrderedDict
    from pyg_base import loop, zipper, lens, as_list, as_tuple, waiter, Dict, dictattr
    from pyg_base import lower, upper, strip, proper, capitalize, replace, split, f12, as_float, relabel_lower, as_ascii
    from pyg_base._txt import bbgcase
    LIB = dict(lower=lower, upper=upper, strip=strip, proper=proper, capitalize=capitalize, replace=replace, split=split, f12=f12, as_float=as_float,
               relabel_lower=relabel_lower, bbgcase=bbgcase, as_ascii=as_ascii)
    CLS = [dict, OrderedDict, Dict, dictattr]
    F_RECORD = {}; F_NAMED = {}
    for tys in ('LTD', 'L', 'T', 'D', 'LT', 'LD', 'TD'):
        tt = tuple({'L': list, 'T': tuple, 'D': dict}[c] for c in tys)
        F_RECORD[tys] = loop(*tt)(lambda a, *args, **kw: (a, args, kw))
        F_NAMED[tys] = loop(*tt)(lambda a, b=None, c=None: (a, b, c))

# dict keys: id 0-9 -> 'k0'..'k9'; 10-19 -> the int; 20-29 -> id+0.5 (float); 30-39 -> a tuple (id,) / (id, 'x'); 40 -> None.
# The model only compares key SETS (sorted lists of ids), so the id order need not be Python's order.
# look-alikes of other keys (41-48): the text of an int / None / bool / float / tuple key; 50-53 frozenset keys
KEY_EXTRA = {41: '10', 42: 'None', 43: '11', 44: True, 45: 'True', 46: '20.5', 47: '(30,)', 48: '12',
             50: frozenset({1}), 51: frozenset({1, 2}), 52: frozenset({3}), 53: frozenset({2, 3})}
KEY_EXTRA_INV = {(type(v).__name__, v): k for k, v in KEY_EXTRA.items()}
LOOKALIKE = [(10, 41), (40, 42), (11, 43), (44, 45), (20, 46), (30, 47), (12, 48)]
def pykey(k):
    if k in KEY_EXTRA: return KEY_EXTRA[k]
    if k < 10: return 'k%d' % k
    if k < 20: return k
    if k < 30: return k + 0.5
    if k < 40: return (k,) if k % 2 == 0 else (k, 'x')
    return None
def keyid(key):
    if key is None: return 40
    if (type(key).__name__, key) in KEY_EXTRA_INV: return KEY_EXTRA_INV[(type(key).__name__, key)]
    if isinstance(key, str): return int(key[1:])
    if isinstance(key, tuple): return key[0]
    if isinstance(key, float): return int(key - 0.5)
    return key
def key_class(k):
    return 'str' if k < 10 else 'num' if k < 30 else 'tuple' if k < 40 else 'none'

# leaf ids: k >= 0 the int k; -1 None; -2 .. -10 strings (lengths 0-4, so that a string companion can have the lifted list's length),
# floats, +-inf; ids >= COLLAPSED stand for a whole container the lifter must treat as a leaf (loop(list) meeting a tuple, ...)
def _a_function(x): return x
SPECIAL = {-2: 'ab', -3: 'abc', -4: '', -5: 1.5, -6: float('inf'), -7: 'xy', -8: -0.5, -9: 'abcd', -10: float('-inf'),
           -15: str, -16: list, -17: dict, -18: tuple, -19: set, -20: bytes, -21: len, -22: _a_function}      # class objects and functions are scalars too
SPECIAL_INV = {v: k for k, v in SPECIAL.items()}
COLLAPSED = 100000
class CustomError(Exception):
    pass
# exception OBJECTS as ordinary values (returned, never raised): ids -11 .. -14; a fresh instance per build, compared by (type, args)
EXC = {-11: (ValueError, ('x',)), -12: (KeyError, ('k',)), -13: (CustomError, ('c', 3)), -14: (Exception, ())}
EXC_INV = {(t.__name__, a): k for k, (t, a) in EXC.items()}
def plain_leaf(k):
    if k in EXC:
        return EXC[k][0](*EXC[k][1])
    return None if k == -1 else SPECIAL[k] if k < -1 else k

def build(s, leaf=plain_leaf, share=None, path=(), memo=None):
    """share: {path: group}: the sub-containers at the paths of one group are built ONCE and the same object is placed at each of them
    (a row repeated by reference, [row] * n); paths are tuples of list positions / dict key ids"""
    if isinstance(s, int):
        return leaf(s)
    if share and path in share:
        memo = {} if memo is None else memo
        g = share[path]
        if g in memo:
            return memo[g]
    if 'R' in s:
        return range(s['R'])
    if 'Z' in s:
        return zip(*[[build(x, leaf) for x in side] for side in s['Z']])
    if share and memo is None:
        memo = {}
    if 'L' in s:
        r = [build(x, leaf, share, path + (i,), memo) for i, x in enumerate(s['L'])]
    elif 'T' in s:
        r = tuple(build(x, leaf, share, path + (i,), memo) for i, x in enumerate(s['T']))
    else:
        cls, items = s['D']
        r = CLS[cls]({pykey(k): build(v, leaf, share, path + (k,), memo) for k, v in items})
    if share and path in share:
        memo[share[path]] = r
    return r

def render(x, ident=None):
    """python value -> the nested-list observation X_loop.J_of produces"""
    if ident is not None and id(x) in ident:
        return ident[id(x)]
    if x is None:
        return -1
    if isinstance(x, BaseException):
        return EXC_INV[(type(x).__name__, x.args)]
    if isinstance(x, bool):
        raise TypeError('bool leaf')
    if isinstance(x, int):
        return x
    if isinstance(x, (str, float, type)) or x is len or x is _a_function:
        return SPECIAL_INV[x]
    if type(x) is list:
        return ['L'] + [render(v, ident) for v in x]
    if type(x) is tuple:
        return ['T'] + [render(v, ident) for v in x]
    if type(x) in CLS:
        return ['D', CLS.index(type(x))] + [[keyid(k), render(v, ident)] for k, v in x.items()]
    raise TypeError('cannot render %r' % type(x))

def collapse(s, tys, table):
    """the argument as the lifter sees it: containers of a type that is not lifted are leaves (ids >= COLLAPSED, originals in table)"""
    if isinstance(s, int):
        return s
    tag = 'L' if 'L' in s else 'T' if 'T' in s else 'D'
    if tag not in tys:
        table.append(s); return COLLAPSED + len(table) - 1
    if tag == 'D':
        return {'D': [s['D'][0], [[k, collapse(v, tys, table)] for k, v in s['D'][1]]]}
    return {tag: [collapse(x, tys, table) for x in s[tag]]}

def lift(g, arg, pos, kw, tys='LTD'):
    """the property text, literally: same container type and shape, leaves g(leaf, companions); a companion of the same
    length (dicts: same keys) is matched element by element / by key, EVERYTHING else is broadcast (passed whole)"""
    if (type(arg) is list and 'L' in tys) or (type(arg) is tuple and 'T' in tys):
        n = len(arg)
        def pick(c, i):
            return c[i] if isinstance(c, (list, tuple)) and len(c) == n else c
        return type(arg)([lift(g, arg[i], [pick(c, i) for c in pos], {k: pick(c, i) for k, c in kw.items()}, tys) for i in range(n)])
    if isinstance(arg, dict) and 'D' in tys:
        keys = set(arg.keys())
        def pickk(c, key):
            return dict.__getitem__(c, key) if isinstance(c, dict) and set(c.keys()) == keys else c
        return type(arg)({key: lift(g, dict.__getitem__(arg, key), [pickk(c, key) for c in pos], {k: pickk(c, key) for k, c in kw.items()}, tys) for key in arg.keys()})
    return g(arg, *pos, **kw)

def same(a, b):
    if type(a) is not type(b):
        return False
    if isinstance(a, (list, tuple)):
        return len(a) == len(b) and all(same(x, y) for x, y in zip(a, b))
    if isinstance(a, dict):
        return list(a.keys()) == list(b.keys()) and all(same(dict.__getitem__(a, k), dict.__getitem__(b, k)) for k in a)
    if isinstance(a, float):
        return a == b or (a != a and b != b)
    if isinstance(a, BaseException):
        return a.args == b.args
    return a == b

def err(e):
    n = type(e).__name__
    return n if n in ('ValueError', 'KeyError', 'TypeError', 'IndexError', 'AttributeError') else 'Other:' + n

def impl_loop(case):
    tys = case.get('types', 'LTD')
    table = []; carg = collapse(case['arg'], tys, table)
    objs = [build(t) for t in table]; ident = {id(o): COLLAPSED + i for i, o in enumerate(objs)}
    share = {tuple(p): g for g, paths in enumerate(case.get('share', [])) for p in paths}
    arg = build(carg, lambda k: objs[k - COLLAPSED] if k >= COLLAPSED else plain_leaf(k), share or None); pos = [build(x) for x in case['pos']]
    if share:       # the generator's promise: one object at every path of a group
        def at(x, p):
            for k in p: x = x[k] if isinstance(x, (list, tuple)) else dict.__getitem__(x, pykey(k))
            return x
        assert all(at(arg, ps[0]) is at(arg, q) for ps in case['share'] for q in ps), 'sharing not realised'
    named = case.get('mode') == 'named'
    names = (lambda n: 'bc'[n]) if named else (lambda n: 'p%d' % n)
    kw = {names(n): build(v) for n, v in case['kw']}
    F = (F_NAMED if named else F_RECORD)[tys]
    try:
        if case.get('first_kw') and not pos:
            res = F(a=arg, **kw)
        else:
            res = F(arg, *pos, **kw)
    except Exception as e:
        return {'status': err(e), 'obs': ['ERR', err(e)], 'viol': 'loop(list,tuple,dict)(f)(arg, *companions) raised %s: %s' % (type(e).__name__, str(e)[:150])}
    try:
        obs = render(res, ident)
    except Exception as e:
        return {'status': 'ok', 'obs': ['ERR', 'unrenderable'], 'viol': 'result is not a nesting of the argument\'s container types: %r' % (res,)}
    viol = None
    if named:
        exp = lift(lambda a, b=None, c=None: (a, b, c), arg, pos, kw, tys)
    else:
        exp = lift(lambda a, *args, **k: (a, args, k), arg, pos, kw, tys)
    if not same(res, exp):
        viol = 'loop(...)(f)(%r, *%r, **%r) = %r but leaf-wise mapping with matched / broadcast companions gives %r' % (arg, pos, kw, res, exp)
    if viol is None and named and pos:
        # positional == keyword
        allkw = dict(kw); allkw.update({'bc'[i]: c for i, c in enumerate(pos)})
        try:
            res2 = F(arg, **allkw)
            if not same(res, res2):
                viol = 'companions passed positionally give %r, the same companions by keyword give %r' % (res, res2)
        except Exception as e:
            viol = 'keyword passing raised %s' % type(e).__name__
    return {'status': 'ok', 'obs': obs, 'viol': viol}

def guided(node, res, exp, counter):
    """walk the argument structure: containers must be reproduced (type, length, keys); at leaf k the result must equal the expected leaf"""
    if isinstance(node, int):
        k = counter[0]; counter[0] += 1
        return k if same(res, exp) else -99
    if 'L' in node or 'T' in node:
        tp = list if 'L' in node else tuple
        xs = node['L'] if 'L' in node else node['T']
        if type(res) is not tp or len(res) != len(xs):
            return 'BADSHAPE'
        return ['L' if tp is list else 'T'] + [guided(x, r, e, counter) for x, r, e in zip(xs, res, exp)]
    cls, items = node['D']
    if type(res) is not CLS[cls] or list(res.keys()) != [pykey(k) for k, _ in items]:
        return 'BADSHAPE'
    return ['D', cls] + [[k, guided(v, dict.__getitem__(res, pykey(k)), dict.__getitem__(exp, pykey(k)), counter)] for k, v in items]

def _bad(o):
    return o in (-99, 'BADSHAPE') or (isinstance(o, list) and any(_bad(x) for x in o))

# what each helper does to ONE leaf, written from its docstring with plain str / float operations (independent of pyg_base); None = no
# independent statement for this leaf.  Every helper leaves a non-string (f12: a non-float) untouched.
AS_FLOAT_DOC = {'1.3k': 1300.0, '1.4m': 1400000.0, '1.4 mln': 1400000.0, '1.4bn': 1400000000.0, '1.4tln': 1400000000000.0, '100%': 1.0, '100 pct': 1.0,
                '100bp': 0.01, '1,234': 1234.0, '-1,234k': -1234000.0, '1.2 lakh': 120000.0, '1.2 crore': 12000000.0,
                '.5': 0.5, '.25k': 250.0, '-.75': -0.75, '0.125': 0.125, '7': 7.0, '1.25': 1.25, '1e3': 1000.0, 'abc': 'abc', 'n/a': 'n/a'}
def leaf_oracle(fn, leaf, kw):
    if fn == 'f12':
        return ('%1.2f' % leaf) if isinstance(leaf, float) else leaf
    if not isinstance(leaf, str):
        return leaf
    if fn == 'lower': return leaf.lower()
    if fn == 'upper': return leaf.upper()
    if fn == 'capitalize': return leaf.capitalize()
    if fn == 'strip': return leaf.strip()
    if fn == 'proper': return ' '.join(t.capitalize() for t in leaf.split(' '))
    if fn == 'as_ascii': return ''.join(c for c in leaf if 32 <= ord(c) < 127 and c != chr(92))      # printable ASCII, no backslash
    if fn == 'as_float': return AS_FLOAT_DOC.get(leaf)
    if fn == 'replace':
        old = kw['old'] if isinstance(kw['old'], list) else [kw['old']]; new = kw.get('new') or ''
        if any(o in new for o in old): return None           # documented ValueError
        for o in old:
            while o and o in leaf: leaf = leaf.replace(o, new)
        return leaf
    if fn == 'split':
        sep = kw.get('sep', ' ')
        if isinstance(sep, list):
            if len(sep) == 0: sep = ' '
            else:
                for o in sep[1:]:
                    if o in sep[0]: return None
                    while o in leaf: leaf = leaf.replace(o, sep[0])
                sep = sep[0]
        res = leaf.split(sep)
        return [w for w in res if w] if kw.get('dedup') else res
    return None

def impl_lib(case):
    leaves = case['leaves']
    arg = build(case['arg'], lambda k: leaves[k])
    fn = LIB[case['fn']]; kw = case.get('extra', {})
    try:
        res = fn(arg, **kw)
    except Exception as e:
        return {'status': err(e), 'obs': ['ERR', err(e)], 'viol': '%s on a nested structure raised %s: %s' % (case['fn'], type(e).__name__, str(e)[:150])}
    exp = lift(lambda leaf, **k: fn(leaf, **k), arg, [], kw)
    obs = guided(case['arg'], res, exp, [0])
    viol = None
    if _bad(obs):
        viol = '%s(%r, **%r) = %r but applying it leaf by leaf gives %r' % (case['fn'], arg, kw, res, exp)
    if viol is None and not any(isinstance(v, list) for v in kw.values()):      # list-valued old / sep may be matched element-wise: leaf-level companions differ
        for leaf in leaves:
            want = leaf_oracle(case['fn'], leaf, kw)
            if want is None and not (case['fn'] == 'as_float' and leaf in AS_FLOAT_DOC):
                continue
            try:
                got = fn(leaf, **kw)
            except Exception as e:
                viol = '%s(%r, **%r) raised %s' % (case['fn'], leaf, kw, type(e).__name__); break
            if not same(got, want):
                viol = '%s(%r, **%r) = %r, its documentation says %r' % (case['fn'], leaf, kw, got, want); break
    return {'status': 'ok', 'obs': obs, 'viol': viol}

def _listy(v):
    return list(v) if isinstance(v, (range, zip)) else v

def impl_zip(case):
    vals = [_listy(build(x)) for x in case['vals']]        # what each argument iterates as
    seq = [isinstance(v, (list, tuple)) for v in vals]
    lens_ = [len(v) if s else 1 for v, s in zip(vals, seq)]
    non1 = sorted(set(l for l in lens_ if l != 1))
    try:
        rows = list(zipper(*[build(x) for x in case['vals']])); status = 'ok'
        obs = [[render(x) for x in r] for r in rows]
    except Exception as e:
        status = err(e); obs = ['ERR', status]; rows = None
    viol = None
    if len(non1) > 1:
        if status != 'ValueError':
            viol = 'zipper(*%r): lengths %s differ and neither is 1, expected ValueError, got %s' % (vals, non1, status if rows is None else rows)
    elif status != 'ok':
        viol = 'zipper(*%r) raised %s although the lengths %s are compatible' % (vals, status, lens_)
    else:
        n = 0 if not vals else (non1[0] if non1 else 1)
        exp = [tuple((v[0] if len(v) == 1 else v[j]) if s else v for v, s in zip(vals, seq)) for j in range(n)]
        if not same(rows, exp):
            viol = 'zipper(*%r) = %r, expected %r' % (vals, rows, exp)
    # lens(*values) on the raw values (ranges kept, zips as lists): the common length, ValueError on two lengths other than 1
    try:
        ln = lens(*[build(x) if not (isinstance(x, dict) and 'Z' in x) else list(build(x)) for x in case['vals']]); lobs = ln
    except Exception as e:
        ln = err(e); lobs = ['ERR', ln]
    if viol is None and all(seq) and vals:
        want = 'ValueError' if len(non1) > 1 else (non1[0] if non1 else 1)
        if ln != want:
            viol = 'lens(*%r) = %r, the common length is %r' % (vals, ln, want)
    return {'status': status, 'obs': [obs, lobs], 'viol': viol}

def impl_as(case):
    v = build(case['v']); f = as_tuple if case['tuple'] else as_list; tp = tuple if case['tuple'] else list
    kw = {'none': True} if case.get('none') else {}
    r1 = f(v, **kw); r2 = f(r1, **kw)
    viol = None
    if type(r1) is not tp:
        viol = '%s(%r) = %r is not a %s' % (f.__name__, v, r1, tp.__name__)
    elif not same(r1, r2):
        viol = '%s is not idempotent: %s(%r) = %r but applying it again gives %r' % (f.__name__, f.__name__, v, r1, r2)
    else:       # normaliser (docstring): None -> empty (or [None] with none=True), a list / tuple / range keeps its elements, anything else is wrapped
        if v is None: want = tp([None]) if case.get('none') else tp()
        elif isinstance(v, tuple) and len(v) == 1 and isinstance(v[0], list): want = tp(v[0])      # the *args convenience
        elif isinstance(v, (list, tuple, range)): want = tp(v)
        else: want = tp([v])
        if not same(r1, want):
            viol = '%s(%r) = %r, expected %r' % (f.__name__, v, r1, want)
    return {'status': 'ok', 'obs': [render(r1), render(r2)], 'viol': viol}

WAIT_TIMEOUT = 0.5      # seconds granted to waiter once every awaitable is able to finish; exceeding it is the outcome 'Timeout'

def impl_wait_chain(case):
    """completion orders forced by events, not by a driver: awaitable order[k] can only finish after order[k-1] has finished, and a
    coroutine does nothing before it is awaited - so waiter must start every awaitable of a list AND of a dict concurrently"""
    m = len(case['results']); results = [build(x) for x in case['results']]; kinds = case['kinds']
    exp_struct = subst_py(case['w'], results); rz = raiser(case)
    out = []; viol = None
    async def one(order):
        events = {i: asyncio.Event() for i in range(m)}; finished = []
        async def job(i):
            pos = order.index(i)
            if pos > 0:
                await events[order[pos - 1]].wait()
            finished.append(i); events[i].set()
            if kinds[i] == 'chainraise':
                raise results[i]
            return results[i]
        def aw(i):
            return asyncio.ensure_future(job(i)) if kinds[i] == 'chaintask' else job(i)     # already scheduled task | lazy coroutine
        struct = build_w(case['w'], aw)
        try:
            return await asyncio.wait_for(waiter(struct), WAIT_TIMEOUT), finished
        except asyncio.TimeoutError:
            return 'Timeout', finished
    for order in itertools.permutations(range(m)):
        if viol is not None and 'never returned' in viol:       # one deadlock is enough: do not wait out every remaining order
            out.append(['ERR', 'Timeout']); continue
        try:
            res, finished = asyncio.run(one(order))
            if isinstance(res, str) and res == 'Timeout':
                o = ['ERR', 'Timeout']
                if viol is None or 'never returned' not in viol:
                    viol = 'waiter(%s) never returned (Timeout after %ss) when the awaitables can only complete in the order %s: only %s finished' % (
                        json.dumps(case['w']), WAIT_TIMEOUT, list(order), finished)
            elif rz is not None:
                o = ['ERR', 'returned']
                if viol is None:
                    viol = 'awaitable %d raises %r but waiter returned %r (order %s)' % (rz, results[rz], res, list(order))
            else:
                o = [render(res), list(finished)]
                if viol is None and not same(res, exp_struct):
                    viol = 'waiter(%s) with completion order %s returned %r, expected %r' % (json.dumps(case['w']), list(order), res, exp_struct)
                if viol is None and finished != list(order):
                    viol = 'awaitables finished in order %s, forced order %s' % (finished, list(order))
        except Exception as e:
            o = ['ERR', err(e)]
            if viol is None and not (rz is not None and type(e) is type(results[rz]) and e.args == results[rz].args):
                viol = 'waiter raised %s under completion order %s: %s%s' % (type(e).__name__, list(order), str(e)[:100],
                        ' (an exception OBJECT that is a result / a leaf is a value, not an error)' if rz is None else '')
        out.append(o)
    return {'status': 'Timeout' if viol and 'never returned' in viol else 'ok', 'obs': out, 'viol': viol}

def impl_wait(case):
    if case.get('chain'):
        return impl_wait_chain(case)
    m = len(case['results']); results = [build(x) for x in case['results']]; kinds = case['kinds']
    cache = {}; rz = raiser(case)
    exp_struct = subst_py(case['w'], results)
    out = []; viol = None
    async def one(order):
        loop_ = asyncio.get_running_loop()
        futs = [loop_.create_future() for _ in range(m)]
        async def co(f):
            return await f
        made = {}
        def aw(i):
            if kinds[i] in ('coro', 'raise'): return co(futs[i])
            if i not in made:          # a future / task may sit at several places of the structure
                made[i] = futs[i] if kinds[i] == 'fut' else asyncio.ensure_future(co(futs[i]))
            return made[i]
        struct = build_w(case['w'], aw)
        task = asyncio.ensure_future(waiter(struct))
        flags = []
        for i in order:
            if not case.get('burst'):      # burst: all results are set within one iteration of the event loop
                for _ in range(4): await asyncio.sleep(0)
            flags.append(task.done())
            if i == rz: futs[i].set_exception(results[i])
            else: futs[i].set_result(results[i])
        res = await asyncio.wait_for(task, 5)
        return res, flags
    for order in itertools.permutations(range(m)):
        try:
            res, flags = asyncio.run(one(order))
            o = [render(res), [bool(f) for f in flags]] if rz is None else ['ERR', 'returned']
            if viol is None and rz is not None:
                viol = 'awaitable %d raises %r but waiter returned %r (order %s)' % (rz, results[rz], res, list(order))
            if viol is None and not same(res, exp_struct):
                viol = 'waiter(%s) with completion order %s returned %r, expected %r' % (json.dumps(case['w']), list(order), res, exp_struct)
            if viol is None and any(flags):
                viol = 'waiter returned before all awaitables completed (order %s, done flags %s)' % (list(order), flags)
        except Exception as e:
            o = ['ERR', err(e)]
            if viol is None and not (rz is not None and type(e) is type(results[rz]) and e.args == results[rz].args):
                viol = 'waiter raised %s under completion order %s: %s%s' % (type(e).__name__, list(order), str(e)[:100],
                        ' (an exception OBJECT that is a result / a leaf is a value, not an error)' if rz is None else '')
        out.append(o)
    return {'status': 'ok', 'obs': out, 'viol': viol}

def build_w(s, aw):
    if isinstance(s, int):
        return plain_leaf(s)
    if 'A' in s:
        return aw(s['A'])
    if 'L' in s:
        return [build_w(x, aw) for x in s['L']]
    if 'T' in s:
        return tuple(build_w(x, aw) for x in s['T'])
    cls, items = s['D']
    return CLS[cls]({pykey(k): build_w(v, aw) for k, v in items})

def subst_py(s, results):
    return build_w(s, lambda i: results[i])

def impl(case):
    return {'loop': impl_loop, 'lib': impl_lib, 'zip': impl_zip, 'as': impl_as, 'wait': impl_wait}[case['kind']](case)

# ---------------------------------------------------------------- classification
def depth(s):
    if isinstance(s, int) or 'A' in s:
        return 0
    xs = s.get('L', s.get('T'))
    if xs is None:
        xs = [v for _, v in s['D'][1]]
    return 1 + max([depth(x) for x in xs], default=0)

def nontrivial(case, result):
    k = case['kind']
    if k == 'loop':
        return depth(case['arg']) >= 2 and bool(case['pos'] or case['kw'])
    if k == 'lib':
        return depth(case['arg']) >= 1
    if k == 'zip':
        return len(case['vals']) >= 2
    if k == 'as':
        return not isinstance(case['v'], int)
    return len(case['results']) >= 2

def shape(case):
    k = case['kind']
    if k == 'loop':
        return 'loop:%s:%s:d%d:pos%d:kw%d:%s' % (case.get('mode', 'record'), case.get('types', 'LTD'), min(depth(case['arg']), 4), len(case['pos']), len(case['kw']), case.get('tag', ''))
    if k == 'lib':
        return 'lib:%s:d%d' % (case['fn'], depth(case['arg']))
    if k == 'zip':
        kinds = ''.join(sorted({'s' if isinstance(v, int) else 'R' if 'R' in v else 'Z' if 'Z' in v else 'q' for v in case['vals']}))
        big = any(not isinstance(v, int) and len(v.get('L', v.get('T', []))) > 100 for v in case['vals'])
        return 'zip:%d:%s%s' % (len(case['vals']), kinds, ':>100' if big else '')
    if k == 'as':
        return ('as_tuple' if case['tuple'] else 'as_list') + (':none' if case.get('none') else '') + (':range' if isinstance(case['v'], dict) and 'R' in case['v'] else '')
    def has_exc(x):
        return (isinstance(x, int) and x in EXC) or (isinstance(x, dict) and any(has_exc(y) for y in (x.get('L') or x.get('T') or [v for _, v in x.get('D', [0, []])[1]])))
    ex = (':raises' if raiser(case) is not None else '') + (':excresult' if any(has_exc(r) for r in case['results']) else '') + (':excleaf' if has_exc(case['w']) else '')
    if case.get('chain'):
        return 'wait:chain:%s:%d%s' % (case.get('shape', '?'), len(case['results']), ex)
    return 'wait:%d%s%s' % (len(case['results']), ':burst' if case.get('burst') else '', ex)

# ---------------------------------------------------------------- generation
class Ctr:
    def __init__(self, start=0, rng=None, p_special=0.0): self.n = start; self.rng = rng; self.p = p_special
    def next(self):
        if self.rng is not None and self.rng.random() < self.p:
            return self.rng.choice([-1, -2, -3, -4, -5, -6, -7, -8, -9, -10, -15, -16, -17, -18, -19, -20, -21, -22])      # None, strings of length 0-4, floats, +-inf, class objects, functions
        self.n += 1; return self.n - 1

def rand_keys(rng, w, mixed):
    """w dict keys of one family (strings / ints / ints+floats / tuples / None), or - mixed - of several; returns (key ids, allowed classes)"""
    r = rng.random()
    if r < 0.55:
        return rng.sample(range(10), w), [0, 0, 0, 1, 2, 3]
    if r < 0.68:
        return rng.sample(range(10, 20), w), [0, 0, 1, 2, 3]
    if r < 0.76:
        return rng.sample(range(10, 30), w), [0, 0, 1, 2, 3]
    if r < 0.86:
        return rng.sample(range(30, 40), w), [0, 1]              # dictattr / Dict read a tuple key as a path
    if r < 0.90:
        return [40][:w], [0, 0, 1, 2, 3]
    if w >= 1 and r < 0.93:           # frozenset keys (Dict / dictattr included: a frozenset is one key, not a selection of keys)
        return rng.sample(range(50, 54), min(w, 4)), [0, 1, 2, 3]
    if mixed and w >= 2 and rng.random() < 0.5:      # look-alike keys: 10 and '10', None and 'None', True and 'True', 20.5 and '20.5', (30,) and '(30,)'
        pairs = rng.sample(LOOKALIKE, min(len(LOOKALIKE), (w + 1) // 2))
        ks = [k for pr in pairs for k in pr][:w]
        rng.shuffle(ks)
        return ks, ([0, 1] if 30 in ks else [0, 0, 1, 2, 3])
    if mixed and w >= 2:
        pools = rng.sample([range(10), range(10, 30), range(30, 40), [40]], 2)
        ks = [rng.choice(list(pools[0])), rng.choice(list(pools[1]))]
        while len(ks) < w:
            k = rng.choice(list(rng.choice(pools)))
            if k not in ks: ks.append(k)
        rng.shuffle(ks)
        return ks, ([0, 1] if any(30 <= k < 40 for k in ks) else [0, 0, 1, 2, 3])
    return rng.sample(range(10), w), [0, 0, 0, 1, 2, 3]

def rand_struct(rng, d, ctr, p_leaf=0.25, widths=(0, 1, 2, 2, 3, 3), leaf=None, mixed=False):
    leaf = leaf or (lambda: ctr.next())
    if d == 0 or rng.random() < p_leaf:
        return leaf()
    w = rng.choice(widths)
    r = rng.random()
    if r < 0.4:
        return {'L': [rand_struct(rng, d - 1, ctr, p_leaf, widths, leaf, mixed) for _ in range(w)]}
    if r < 0.65:
        return {'T': [rand_struct(rng, d - 1, ctr, p_leaf, widths, leaf, mixed) for _ in range(w)]}
    keys, classes = rand_keys(rng, w, mixed)
    return {'D': [rng.choice(classes), [[k, rand_struct(rng, d - 1, ctr, p_leaf, widths, leaf, mixed)] for k in keys]]}

def same_shape(rng, s, ctr, cut=99, swap=True):
    """a companion with the skeleton of s (lists/tuples possibly swapped, dict keys reordered), cut to leaves below depth cut"""
    if isinstance(s, int) or cut == 0:
        return ctr.next()
    if 'L' in s or 'T' in s:
        xs = s.get('L', s.get('T'))
        tag = ('L' if 'L' in s else 'T') if not (swap and rng.random() < 0.3) else ('T' if 'L' in s else 'L')
        return {tag: [same_shape(rng, x, ctr, cut - 1, swap) for x in xs]}
    cls, items = s['D']
    items2 = [[k, same_shape(rng, v, ctr, cut - 1, swap)] for k, v in items]
    if rng.random() < 0.5 and not any(50 <= k < 60 for k, _ in items2):
        rng.shuffle(items2)      # (frozenset keys keep the argument's order: sorted() on frozensets is a partial order, see KNOWN candidate in coverage/C19.md)
    return {'D': [rng.choice([cls, 0]), items2]}      # class 0 (dict) accepts every key

def companion(rng, arg, ctr):
    r = rng.random()
    if r < 0.25:
        return ctr.next(), 'scalar'
    if r < 0.5:
        return same_shape(rng, arg, ctr), 'same'
    if r < 0.65:
        return same_shape(rng, arg, ctr, cut=rng.choice([1, 2])), 'sametop'
    if r < 0.96:
        return rand_struct(rng, rng.choice([1, 2, 3]), ctr), 'diff'
    # deep: a container of another length holding copies of the argument's shape
    inner = [same_shape(rng, arg, ctr, cut=1, swap=False) for _ in range(rng.choice([1, 3, 4]))]
    return {'L': inner}, 'deep'

def gen_loop(rng):
    sp = rng.choice([0.0, 0.0, 0.15, 0.4])
    ctr = Ctr(0, rng, sp)
    wide = rng.random() < 0.015
    if wide:      # containers of more than 100 elements
        n = rng.randrange(101, 160)
        arg = {rng.choice('LT'): [ctr.next() for _ in range(n)]}
        if rng.random() < 0.5:
            arg = {'L': [arg, ctr.next()]}
    else:
        arg = rand_struct(rng, rng.choice([1, 2, 2, 3, 3, 4]), ctr, p_leaf=0.15, mixed=True)
    named = rng.random() < 0.4
    ncomp = rng.choice([0, 1, 1, 2, 2, 3]) if not named else rng.choice([1, 1, 2, 2])
    comps = [companion(rng, arg, Ctr(100 * (i + 1), rng, sp)) for i in range(ncomp)]
    npos = rng.randrange(0, ncomp + 1)
    tag = '+'.join(sorted(set(t for _, t in comps)))
    if named:
        kwn = list(range(npos, ncomp))
    else:
        kwn = rng.sample(range(6), ncomp - npos)
    case = {'kind': 'loop', 'mode': 'named' if named else 'record', 'arg': arg, 'pos': [c for c, _ in comps[:npos]],
            'kw': [[n, c] for n, (c, _) in zip(kwn, comps[npos:])], 'tag': tag + (':wide' if wide else '') + (':leafkinds' if sp else '')}
    if npos == 0 and rng.random() < 0.3:
        case['first_kw'] = True
    if rng.random() < 0.8:
        # frozenset-keyed dict companions built in ANOTHER key order: sorted() on frozensets is only a partial order, so the code does not
        # recognise the same key set and broadcasts the companion (KNOWN-FINDING c19_frozenset_key_order); only with all three types lifted
        def reorder(x):
            if isinstance(x, int): return x
            if 'D' in x:
                items = [[k, reorder(v)] for k, v in x['D'][1]]
                if len(items) >= 2 and all(50 <= k < 60 for k, _ in items) and all(isinstance(v, int) for _, v in items) and rng.random() < 0.8:      # leaf values only: a broadcast dict of containers would additionally be searched at depth (the other finding)
                    items = items[::-1] if rng.random() < 0.5 else rng.sample(items, len(items))
                return {'D': [x['D'][0], items]}
            tag = 'L' if 'L' in x else 'T'
            return {tag: [reorder(y) for y in x[tag]]}
        case['pos'] = [reorder(c) for c in case['pos']]; case['kw'] = [[n, reorder(c)] for n, c in case['kw']]
    else:      # loop(list), loop(dict), loop(list, tuple) ...: containers of the other types are leaves
        case['types'] = rng.choice(['L', 'T', 'D', 'LT', 'LD', 'TD'])
        if 'T' not in case['types']:      # () is one shared object in CPython: the harness could not tell a collapsed () from f's empty *args
            def fill(x):
                if isinstance(x, int): return x
                if 'T' in x: return {'T': [fill(y) for y in x['T']] or [0]}
                if 'L' in x: return {'L': [fill(y) for y in x['L']]}
                return {'D': [x['D'][0], [[k, fill(v)] for k, v in x['D'][1]]]}
            case['arg'] = fill(case['arg'])
    return case

def gen_loop_shared(rng):
    """the same sub-container OBJECT at two or more positions ([row] * n, a dict whose values are one list) with companions that differ
    from position to position: every occurrence must be mapped with ITS companion"""
    import copy
    ctr = Ctr(0)
    row = rand_struct(rng, rng.choice([1, 1, 2]), ctr, p_leaf=0.0, widths=(1, 2, 2, 3))
    k = rng.choice([2, 3, 3, 4])
    pos = sorted(rng.sample(range(k), rng.randrange(2, k + 1)))
    elems = [copy.deepcopy(row) if i in pos else (ctr.next() if rng.random() < 0.5 else rand_struct(rng, 1, ctr, p_leaf=0.0, widths=(1, 2))) for i in range(k)]
    r = rng.random()
    if r < 0.45:
        outer = {'L': elems}; paths = [[i] for i in pos]
    elif r < 0.7:
        outer = {'T': elems}; paths = [[i] for i in pos]
    else:
        keys = rng.sample(range(10), k)
        outer = {'D': [rng.choice([0, 0, 1, 2]), [[keys[i], elems[i]] for i in range(k)]]}; paths = [[keys[i]] for i in pos]
    arg = outer
    if rng.random() < 0.3:        # one level further down
        arg = {'L': [ctr.next(), outer]}; paths = [[1] + p for p in paths]
    named = rng.random() < 0.4
    ncomp = rng.choice([1, 1, 2])
    comps = []
    for j in range(ncomp):
        c2 = Ctr(100 * (j + 1))
        comps.append(same_shape(rng, arg, c2, cut=rng.choice([1, 2, 99])) if rng.random() < 0.8 else c2.next())
    if all(isinstance(c, int) for c in comps):
        comps[0] = same_shape(rng, arg, Ctr(500), cut=2)
    npos = rng.randrange(0, ncomp + 1)
    kwn = list(range(npos, ncomp)) if named else rng.sample(range(6), ncomp - npos)
    return {'kind': 'loop', 'mode': 'named' if named else 'record', 'arg': arg, 'pos': comps[:npos], 'kw': [[n, c] for n, c in zip(kwn, comps[npos:])],
            'tag': 'shared', 'share': [paths]}

STRS = ['Hello World', ' padded  ', 'MiXed case', 'a,b c', 'abcabc', '', 'x', 'the  quick brown', '1.5k', '100%', '-1,234', '2 mln', 'n/a', '7',
        'caf\u00e9 au lait', 'na\u00efve \u00a35', 'back\\slash', "it's (ok); a/b & c", 'ibm us equity', 'Tab\there']
def gen_lib(rng):
    fn = rng.choice(['lower', 'upper', 'strip', 'proper', 'capitalize', 'replace', 'split', 'f12', 'as_float', 'as_float', 'relabel_lower', 'bbgcase', 'as_ascii'])
    leaves = []
    def leaf():
        r = rng.random()
        if fn == 'f12':
            v = rng.choice([1.5, 2.25, 0.125, 3, None, 'txt', 1e6, -0.5, float('inf'), float('nan'), 1e-9, -0.0]) if r < 0.9 else rng.choice(STRS)
        elif fn == 'as_float':
            v = rng.choice(sorted(AS_FLOAT_DOC)) if r < 0.5 else rng.choice(['1.5k', '100%', '-1,234', '2 mln', 'n/a', '7', '', '1.25', '3bp', 'abc', 5, None, 2.5, '1e3', 'inf', 'nan', '-', ' 12 ',
                            '1,2,3', '5 pct', '12bn', '1.2 crore', '3 lakh', 'k', '0.5M', '7 Percent', '1 234 567'])
        else:
            v = rng.choice(STRS) if r < 0.85 else rng.choice([3, None, 2.5])
        leaves.append(v); return len(leaves) - 1
    arg = rand_struct(rng, 0 if fn == 'as_ascii' else rng.choice([0, 1, 2, 3, 4]), None, p_leaf=0.2, leaf=leaf, mixed=True)      # as_ascii is not lifted: bare strings only
    extra = {}
    if fn == 'replace':
        extra = {'old': rng.choice(['a', ' ', 'b', ['a', 'b', 'c', 'l', 'o'], 'll']), 'new': rng.choice([None, '_', 'Z'])}
    if fn == 'split':
        extra = {'sep': rng.choice([' ', ',', 'b', [' ', ','], [','], [], [' ', 'b', ',']]), 'dedup': rng.choice([True, False])}
    return {'kind': 'lib', 'fn': fn, 'arg': arg, 'leaves': leaves, 'extra': extra}

def gen_zip(rng):
    ctr = Ctr(0, rng, rng.choice([0.0, 0.2]))
    k = rng.choice([0, 1, 2, 2, 3, 3, 4])
    base = rng.choice([0, 2, 3, 4]) if rng.random() < 0.95 else rng.randrange(101, 140)      # a few sequences of more than 100 elements
    vals = []
    for _ in range(k):
        r = rng.random()
        if r < 0.3:
            vals.append(ctr.next() if rng.random() < 0.8 else -1)
        else:
            n = rng.choice([base, base, base, 1, 1, rng.choice([0, 2, 3, 4])])
            r2 = rng.random()
            if r2 < 0.1:
                vals.append({'R': n})                                      # a range
            elif r2 < 0.2:
                vals.append({'Z': [[ctr.next() for _ in range(n)], [ctr.next() for _ in range(n)]]})      # a zip object
            else:
                vals.append({rng.choice('LT'): [ctr.next() if rng.random() < 0.85 else {'L': [ctr.next()]} for _ in range(n)]})
    return {'kind': 'zip', 'vals': vals}

def gen_as(rng, safe):
    ctr = Ctr(0, rng, 0.2)
    r = rng.random()
    if r < 0.15:
        v = -1
    elif r < 0.3:
        v = ctr.next()
    elif r < 0.37:
        v = {'R': rng.choice([0, 1, 3])}
    else:
        v = rand_struct(rng, rng.choice([1, 2, 3]), ctr, p_leaf=0.3, widths=(0, 1, 1, 1, 2, 3))
    case = {'kind': 'as', 'tuple': rng.random() < 0.5, 'v': v}
    if rng.random() < 0.25:
        case['none'] = True
    return case

def exceptional(rng, results, kinds, raise_kind):
    """exception OBJECTS as results (returned, not raised) - bare or inside a container; sometimes one awaitable genuinely raises"""
    m = len(results)
    if m and rng.random() < 0.35:
        for i in range(m):
            if rng.random() < 0.5:
                e = rng.choice([-11, -12, -13, -14])
                results[i] = e if rng.random() < 0.7 else {rng.choice('LT'): [e, 1000 + i]}
    if m and rng.random() < 0.1:
        i = rng.randrange(m); results[i] = rng.choice([-11, -12, -13]); kinds[i] = raise_kind

def gen_wait(rng, maxm, m=None):
    m = rng.choice([0, 1, 2, 3, 3, 4, 4, maxm]) if m is None else m
    ids = list(range(m)); rng.shuffle(ids)
    ctr = Ctr(0)
    def leaf():
        if ids and rng.random() < 0.6:
            return {'A': ids.pop()}
        if rng.random() < 0.08:
            return rng.choice([-11, -12, -13, -14])      # a plain leaf that is an exception object
        return ctr.next()
    w = rand_struct(rng, rng.choice([1, 2, 3, 4]), None, p_leaf=0.3, widths=(1, 2, 2, 3, 3), leaf=leaf, mixed=True)
    if ids:   # place the remaining awaitables at the top
        w = {'L': [w] + [{'A': i} for i in ids]}
    rc = Ctr(100)
    results = [rc.next() if rng.random() < 0.7 else rand_struct(rng, 2, rc, p_leaf=0.4) for _ in range(m)]
    kinds = [rng.choice(['fut', 'fut', 'coro', 'task']) for _ in range(m)]
    exceptional(rng, results, kinds, 'raise')
    again = [i for i in range(m) if kinds[i] not in ('coro', 'raise')]
    if again and rng.random() < 0.3:      # the same future / task at two places of the structure
        w = {'T': [w, {'A': rng.choice(again)}]}
    case = {'kind': 'wait', 'w': w, 'results': results, 'kinds': kinds}
    if rng.random() < 0.25:
        case['burst'] = True
    return case

def gen_wait_chain(rng):
    """<= 5 awaitables placed in dicts, lists, dicts of lists, lists of dicts and deeper mixes; event-forced completion orders"""
    m = rng.choice([2, 3, 3, 4, 4, 5])
    ids = list(range(m)); rng.shuffle(ids)
    ctr = Ctr(0)
    def A(): return {'A': ids.pop()} if ids else (rng.choice([-11, -12, -13, -14]) if rng.random() < 0.15 else ctr.next())
    def D(vals, cls=None):
        keys, classes = rand_keys(rng, len(vals), True)
        if len(keys) < len(vals):
            keys, classes = rng.sample(range(10), len(vals)), [0, 0, 1, 2, 3]
        return {'D': [rng.choice(classes) if cls is None else cls, [[k, v] for k, v in zip(keys, vals)]]}
    t = rng.choice(['dict', 'dict', 'dict_of_lists', 'list_of_dicts', 'dict_of_dicts', 'mix', 'list'])
    if t == 'dict':
        w = D([A() for _ in range(m)] + [ctr.next() for _ in range(rng.choice([0, 1]))])
    elif t == 'list':
        w = {rng.choice('LT'): [A() for _ in range(m)]}
    elif t == 'dict_of_lists':
        w = D([{rng.choice('LT'): [A() for _ in range(rng.choice([1, 2]))]} for _ in range(3)])
    elif t == 'list_of_dicts':
        w = {'L': [D([A() for _ in range(rng.choice([1, 2]))]) for _ in range(3)]}
    elif t == 'dict_of_dicts':
        w = D([D([A(), A()]), A(), D([A(), ctr.next()])])
    else:
        w = D([A(), {'L': [A(), D([A(), {'T': [A(), ctr.next()]}])]}, A(), ctr.next()])
    if ids:
        w = D([w] + [{'A': i} for i in list(ids)]); del ids[:]
    rc = Ctr(100)
    results = [rc.next() if rng.random() < 0.7 else rand_struct(rng, 2, rc, p_leaf=0.4) for _ in range(m)]
    kinds = [rng.choice(['chain', 'chain', 'chain', 'chaintask']) for _ in range(m)]
    exceptional(rng, results, kinds, 'chainraise')
    return {'kind': 'wait', 'chain': True, 'shape': t, 'w': w, 'results': results, 'kinds': kinds}

def gen_cases(rng, tier):
    q = tier == 'quick'
    cases = []
    cases += [gen_loop(rng) for _ in range(2500 if q else 30000)]
    cases += [gen_loop_shared(rng) for _ in range(120 if q else 1500)]
    cases += [gen_lib(rng) for _ in range(700 if q else 8000)]
    cases += [gen_zip(rng) for _ in range(500 if q else 6000)]
    cases += [gen_as(rng, True) for _ in range(300 if q else 3000)]
    cases += [gen_wait(rng, 5 if q else 6) for _ in range(80 if q else 500)]
    cases += [gen_wait(rng, 6, m=6)]
    cases += [gen_wait_chain(rng) for _ in range(40 if q else 300)]                     # the quantifier's upper bound: 6 awaitables, all 720 completion orders
    return cases

def shrink(case):
    k = case['kind']
    def subs(s):
        if isinstance(s, int) or 'A' in s or 'R' in s or 'Z' in s:
            return
        tag = 'L' if 'L' in s else 'T' if 'T' in s else 'D'
        xs = s[tag] if tag != 'D' else s['D'][1]
        for i in range(len(xs)):
            rest = xs[:i] + xs[i + 1:]
            yield {tag: rest} if tag != 'D' else {'D': [s['D'][0], rest]}
        for i, x in enumerate(xs):
            child = x if tag != 'D' else x[1]
            for c2 in subs(child):
                new = list(xs); new[i] = c2 if tag != 'D' else [x[0], c2]
                yield {tag: new} if tag != 'D' else {'D': [s['D'][0], new]}
            if not isinstance(child, int) and 'A' not in child:
                new = list(xs); new[i] = 0 if tag != 'D' else [x[0], 0]
                yield {tag: new} if tag != 'D' else {'D': [s['D'][0], new]}
    if k == 'loop':
        for i in range(len(case['pos'])):
            yield dict(case, pos=case['pos'][:i] + case['pos'][i + 1:])
        for i in range(len(case['kw'])):
            yield dict(case, kw=case['kw'][:i] + case['kw'][i + 1:])
        for a in (subs(case['arg']) if not case.get('share') else []):     # the sharing paths refer to this very shape
            yield dict(case, arg=a)
        for i, c in enumerate(case['pos']):
            if not isinstance(c, int):
                yield dict(case, pos=case['pos'][:i] + [7] + case['pos'][i + 1:])
            for c2 in subs(c):
                yield dict(case, pos=case['pos'][:i] + [c2] + case['pos'][i + 1:])
    elif k == 'zip':
        for i in range(len(case['vals'])):
            yield dict(case, vals=case['vals'][:i] + case['vals'][i + 1:])
    elif k == 'as':
        for a in subs(case['v']):
            yield dict(case, v=a)
