"""C17 — bitemporal store: reading as of T sees exactly what had been published by T."""
import datetime, math, json

ID = 'C17'
TRANSLATOR = []
COQ_EXEC = ['exec.X_bitemp']
COQ_IMPORTS = 'From PB Require Import model.M_bitemp.\n'
COQ_PRELUDE = ''
PER_FILE = 60
CASE_TIMEOUT = 20
RULE = ('a case = a publication history (1-8 partial float series over 6 or 12-20 observation dates, stamps drawn from 5 days, '
        'observation dates a year before the stamps, around them, or after them (forward-looking data: forecasts published before their observation date), values repeating / reverting / NaN / +-inf, int or float dtype, several versions sharing a stamp, dates that first appear late, a version without rows, named index / named Series, '
        'frames of several hundred rows; stamps at midnight or with a time of day down to the microsecond, spelled as datetime / date / Timestamp / datetime64 / ISO string with space or T separator (sub-second part included) / yyyymmdd int; 12 % of histories timezone-aware, one zone for stamps and reads), merged in order - one version per call or several versions in one call - with '
        'bi_merge(store, Bi(series, stamp)) - the five stamps are consecutive days in 2021, or lie in 2100-2105 (after the machine clock), or a mix of both - then read with bi_read at every time before / between (12 h or one microsecond off a stamp) / on / after the stamps (asof spelled as datetime / date / Timestamp / datetime64) and with '
        'asof=None, what in {-1, 0}; optionally one version is merged once more and all reads are repeated. Half of the histories grow the '
        'frame beyond 16 rows (where pandas switches sort algorithm). Compared in Coq with M_bitemp: every read (dates in order, values, NaN) '
        'and the complete store (date, stamp, value rows in frame order). The oracle recomputes each read from the property text by a plain '
        'loop over the history (latest stamp <= T, later merge wins a tie, NaN never overrides; what=0: value at the first stamp) and checks '
        'that re-merging a version already in the store changes no read; a work stream keeps ONE one-column DataFrame (or Series) that is revised in place and published repeatedly (Bi(work, stamp) or bi_merge(store, work, stamp)) - the caller\'s table is snapshotted before / after each publication (no mutation, store not aliased) and the reads must show each publication as it was at its stamp; Bi itself is checked on every version (same rows and values, every row stamped exactly, bitemporal input and asof=None returned unchanged). A separate stream merges out of stamp order (no claim; correspondence only). '
        'non-trivial = at least two versions publish the same date; distinct by the whole case')
EXPLANATION = ('theorems C17_* (coq/props/C17.v) hold for every publication history and every T by induction over the history (invariant: per date '
               'strictly increasing stamps, NaN only before the first value, column reads like the publication list); the correspondence ties the '
               'model (stable sort, groupby, _drop_repeats, _nth) to the pandas code on generated histories')
TRUSTED = ['modelled, not verified: pandas concat / sort_values(kind=stable) / groupby iteration order / ffill / drop_duplicates(keep=last) / boolean row filter, '
           'as transcribed in coq/model/M_bitemp.v and compared on every generated case',
           'float values are carried, never computed: generated values are small integers, NaN is the only special value']
ASSUMPTIONS = ['each version is a single-valued numeric Series (named or not) with a unique DatetimeIndex; asof is a datetime-like object (str / int asof is outside bi_read\'s documented domain and is silently not applied)', 'versions are merged in non-decreasing stamp order (hypothesis of the property)',
               'what is an int (-1 or 0 in the theorems; other ints are compared with the model only)']
EXHAUSTIVE = {'quick': False, 'thorough': False}
LEVEL_TEXT = ('machine-checked Coq theorems for every publication history and read time (induction over the history): as-of read = latest published value per date, '
              'no look-ahead, what=0 = first published value, re-merging a stored version changes no read; model tied to the pandas code by differential runs compared in vm_compute')
LEVEL_NOTE = ('trusted: Coq kernel/vm_compute; modelled not verified: the pandas primitives used by _bitemporal.py (stable sort, groupby order, ffill, drop_duplicates). '
              'The theorems are about the repaired code (sort_values kind=stable, fixes/C17.patch): the pinned default quicksort is not stable beyond 16 rows')
TECHNIQUE = 'Coq proof (induction over histories with a per-date column invariant) + differential correspondence in vm_compute + property-text oracle'

D0 = datetime.datetime(2020, 1, 1)
def obs_date(case, d):
    """observation date d of the case: 2020-01-01 + d days by default (every stamp is later than every observation date); 'dshift' moves
    the observation dates so that they lie before, around or after the stamps (forecasts, forward curves: published now, observed later)"""
    return D0 + DAY * (d + case.get('dshift', 0))
def date_id(case, t):
    return (t - D0).days - case.get('dshift', 0)
S0 = datetime.datetime(2021, 1, 1)
H12 = datetime.timedelta(hours=12)
DAY = datetime.timedelta(days=1)

# Optional case fields (the property does not tie stamps to the wall clock, to midnight, or to one spelling of a datetime):
#  cal   day offsets from 2021-01-01 of the five stamps, increasing (default consecutive days in 2021; 2100-2105 = after "now")
#  tod   microsecond-of-day of each stamp, non-decreasing (default 0 = midnight)
#  eps   how an odd read time 2s+1 ("between stamp s and s+1") is realised: '12h' after stamp s | '+us' 1 microsecond after stamp s
#        | '-us' 1 microsecond before stamp s+1
#  stamp_form / asof_form   spelling handed to Bi / bi_read: dt datetime | ts pd.Timestamp | dt64 np.datetime64 | str ISO string (Bi only)
#        | date datetime.date (used when the time is midnight, otherwise datetime)
#  index_name, series_name  names of the version's index / Series;  int_dtype  NaN-free versions are built with an int dtype
#  groups  consecutive versions merged by ONE call bi_merge(store, [b1, b2, ...])
DEFAULT_CAL = [0, 1, 2, 3, 4]
US = datetime.timedelta(microseconds=1)
INF = 10 ** 9          # the model's stand-in for float('inf') (values are carried, never computed)

TZ = {'utc': datetime.timezone.utc, '+0530': datetime.timezone(datetime.timedelta(hours=5, minutes=30)), '-0800': datetime.timezone(datetime.timedelta(hours=-8))}
def stamp_dt(case, s):
    """'tz' (optional): every stamp and every read time is timezone-aware, all in that one zone"""
    t = S0 + DAY * case.get('cal', DEFAULT_CAL)[s] + US * case.get('tod', [0] * 5)[s]
    return t.replace(tzinfo=TZ[case['tz']]) if case.get('tz') else t
def asof_dt(case, t2):
    """read time in half-steps: 2s = on stamp s, 2s+1 = strictly between stamp s and s+1, negative = before every stamp, > 9 = after all"""
    if t2 is None: return None
    eps = case.get('eps', '12h')
    if t2 < 0: return stamp_dt(case, 0) + (H12 * t2 if eps == '12h' else -US)
    if t2 > 9: return stamp_dt(case, 4) + H12 * (t2 - 8)
    s, r = divmod(t2, 2)
    if r == 0: return stamp_dt(case, s)
    if eps == '12h': return stamp_dt(case, s) + H12
    if eps == '+us' or s == 4: return stamp_dt(case, s) + US
    return stamp_dt(case, s + 1) - US
def spell(t, form):
    if t is None or form == 'dt': return t
    if form == 'ts': return pd.Timestamp(t)
    if form == 'dt64': return np.datetime64(t)
    if form == 'str': return t.isoformat(sep=' ')
    if form == 'iso': return t.isoformat()                 # 'YYYY-MM-DDTHH:MM:SS[.ffffff]' as dt2str / encode write it
    if form == 'int': return t.year * 10000 + t.month * 100 + t.day if (t == datetime.datetime(t.year, t.month, t.day) and t.tzinfo is None) else t
    if form == 'date': return t.date() if (t.tzinfo is None and t == datetime.datetime(t.year, t.month, t.day)) else t
    raise ValueError(form)

# ---------------- Coq side
def coq_runner(case):
    return 'run_bitemp_g'

def _mv(v): return None if v is None else INF if v == 'inf' else -INF if v == '-inf' else v
def _cv(v): return 'None' if v is None else '(Some (%d))' % _mv(v)
def _cversion(s, rows):
    return '((%d), [%s])' % (2 * s, '; '.join('((%d), %s)' % (d, _cv(v)) for d, v in rows))
def groups_of(case):
    return case.get('groups') or [[i] for i in range(len(case['hist']))]
def coq_case(case):
    h = '[' + '; '.join('[' + '; '.join(_cversion(*case['hist'][i]) for i in g) + ']' for g in groups_of(case)) + ']'
    reads = '[' + '; '.join('(%s, (%d))' % ('None' if t is None else '(Some (%d))' % t, w) for t, w in case['reads']) + ']'
    k = case.get('again')
    again = 'None' if k is None else '(Some %s)' % _cversion(*case['hist'][k])
    return '(%s, %s, %s)' % (h, reads, again)

# ---------------- implementation side
def impl_setup():
    global pd, np, Bi, bi_merge, bi_read
    import pandas as pd, numpy as np
    from pyg_base._bitemporal import Bi, bi_merge, bi_read

def _val(x):
    x = float(x)
    if x != x: return 'NaN'
    if x == float('inf'): return INF
    if x == float('-inf'): return -INF
    assert x == int(x)
    return int(x)

def _pv(v): return float('nan') if v is None else float(v)

def _series(case, rows):
    idx = pd.DatetimeIndex([obs_date(case, d) for d, _ in rows], name=case.get('index_name'))
    plain = all(isinstance(v, int) for _, v in rows)
    if case.get('int_dtype') and plain and rows:
        return pd.Series([v for _, v in rows], index=idx, dtype=int, name=case.get('series_name'))
    return pd.Series([_pv(v) for _, v in rows], index=idx, dtype=float, name=case.get('series_name'))

class StampViolation(Exception):
    pass

def _bi(case, s, rows, i=None):
    """Bi(series, stamp) plus the direct check of the stamp assignment: same rows, same values, every row stamped exactly with the stamp"""
    ser = _series(case, rows); t = stamp_dt(case, s)
    col = case['cols'][i] if (case.get('cols') and i is not None) else ('_is_series' if case.get('input') == 'frame' else None)
    if col is not None:          # the version handed over as a one-column DataFrame instead of a Series; 'cols': a column name per version
        ser0 = ser; ser = ser.to_frame(name=col)      # (differently named one-column frames and Series merge into one series, bi_merge docstring)
    before = _frame_state(ser)
    b = Bi(ser, spell(t, case.get('stamp_form', 'dt')))
    if _frame_state(ser) != before or b is ser:
        raise StampViolation('Bi(x, stamp) changed / returned its input: %s -> %s' % (before[:2], _frame_state(ser)[:2]))
    if col is not None:
        ser = ser0
    ok = (len(b) == len(ser) and list(b.index) == list(ser.index) and 'updated' in b.columns and len(b.columns) == 2
          and all(pd.Timestamp(u) == pd.Timestamp(t) for u in b['updated'])
          and all((x == y) or (x != x and y != y) for x, y in zip(b.drop(columns='updated').iloc[:, 0].values, ser.values)))
    if not ok:
        raise StampViolation('Bi(series of %d rows%s, %r) is not the series stamped at %s: %d rows, stamps %s' % (
            len(ser), ' named %r' % ser.name if ser.name else '', spell(t, case.get('stamp_form', 'dt')), t, len(b), sorted(set(map(str, b.get('updated', []))))[:3]))
    if Bi(b, t + DAY) is not b or Bi(ser, None) is not ser:
        raise StampViolation('Bi must return an already bitemporal frame / a frame with asof=None unchanged')
    return b

def _obs_read(case, r):
    if r is None or len(r) == 0:
        return []
    if isinstance(r, pd.DataFrame) and r.shape[1] == 1:      # versions published as one-column frames read back as a one-column frame
        r = r.iloc[:, 0]
    assert isinstance(r, pd.Series), type(r)
    return [[date_id(case, t), _val(x)] for t, x in zip(r.index, r.values)]

def _obs_store(case, st):
    if st is None:
        return []
    cols = [c for c in st.columns if c != 'updated']
    assert len(cols) == 1, cols
    back = {stamp_dt(case, s): 2 * s for s in range(5)}
    # a stamp that is none of the published ones is shown as -7
    return [[date_id(case, t), back.get(u.to_pydatetime(), -7), _val(x)] for t, u, x in zip(st.index, st['updated'], st[cols[0]].values)]

def expected(hist, t2, what):
    """the property text, by a plain loop over the history: {date: value} (value None = NaN)"""
    res = {}
    dates = sorted({d for _, rows in hist for d, _ in rows})
    for d in dates:
        cands = [(s, i, x) for i, (s, rows) in enumerate(hist) for dd, x in rows if dd == d and (t2 is None or 2 * s <= t2)]
        if not cands:
            continue            # nothing published for d by T: no row
        if what == -1:
            good = [c for c in cands if c[2] is not None]        # a NaN never overrides
            res[d] = max(good, key=lambda c: (c[0], c[1]))[2] if good else None
        else:
            s0 = min(c[0] for c in cands)
            first = [c for c in cands if c[0] == s0]              # merged at the first stamp, in merge order
            good = [c for c in first if c[2] is not None]
            res[d] = good[-1][2] if good else None
    return {d: _mv(v) for d, v in res.items()}

def _as_dict(obs):
    return {d: (None if v == 'NaN' else v) for d, v in obs}

def _frame_state(x):
    """everything a caller can see of its own Series / DataFrame: type, column labels, index, cell values"""
    cols = [str(c) for c in x.columns] if isinstance(x, pd.DataFrame) else ['<series %s>' % (x.name,)]
    vals = [['NaN' if v != v else v for v in row] for row in (x.values.tolist() if isinstance(x, pd.DataFrame) else [[v] for v in x.values.tolist()])]
    return [type(x).__name__, cols, [str(t) for t in x.index], vals]

def publish_work(case):
    """the publisher keeps ONE working table (a one-column DataFrame, or a Series), revises it in place and publishes it again and again:
    each publication must record the table as it is at that moment and must leave the caller's table untouched"""
    hist = case['hist']; dates = [d for d, _ in hist[0][1]]
    idx = pd.DatetimeIndex([obs_date(case, d) for d in dates], name=case.get('index_name'))
    if case['work'] == 'df':
        work = pd.DataFrame({'px': [float('nan')] * len(dates)}, index=idx)
    else:
        work = pd.Series([float('nan')] * len(dates), index=idx, dtype=float)
    store = None; notes = []
    for i, (s, rows) in enumerate(hist):
        assert [d for d, _ in rows] == dates
        for d, v in rows:                                  # revise in place
            if case['work'] == 'df': work.loc[obs_date(case, d), 'px'] = _pv(v)
            else: work.loc[obs_date(case, d)] = _pv(v)
        before = _frame_state(work); t = spell(stamp_dt(case, s), case.get('stamp_form', 'dt'))
        if case.get('pub', 'Bi') == 'Bi':
            b = Bi(work, t)
            if b is work or len(b) != len(work) or not all(pd.Timestamp(u) == pd.Timestamp(stamp_dt(case, s)) for u in b['updated']):
                notes.append('publication %d: Bi(work, %r) %s' % (i, t, 'returned the caller\'s own table' if b is work else 'stamps are %s' % sorted(set(map(str, b['updated'])))[:3]))
            new_store = bi_merge(store, b)
        else:
            new_store = bi_merge(store, work, t)           # asof = stamp for a non-bitemporal new_data
        after = _frame_state(work)
        if after != before:
            notes.append('publication %d (%s) changed the caller\'s working table: %s -> %s' % (i, case.get('pub', 'Bi'), before[:2] + before[3:], after[:2] + after[3:]))
        if new_store is work:
            notes.append('publication %d: the store IS the caller\'s working table (later in-place revisions would rewrite history)' % i)
        store = new_store
    return store, notes

def impl(case):
    hist = case['hist']; notes = []
    ordered = all(hist[i][0] <= hist[i + 1][0] for i in range(len(hist) - 1))
    af = case.get('asof_form', 'dt')
    def read_all(st):
        return [_obs_read(case, bi_read(st, spell(asof_dt(case, t), af), w)) for t, w in case['reads']]
    try:
        store = None
        if case.get('work'):
            store, notes = publish_work(case)
        else:
            for g in groups_of(case):
                bis = [_bi(case, *hist[i], i) for i in g]
                store = bi_merge(store, bis[0] if len(bis) == 1 else bis)
        reads = read_all(store)
        st_obs = _obs_store(case, store)
        k = case.get('again')
        reads2 = []
        if k is not None:
            reads2 = read_all(bi_merge(store, _bi(case, *hist[k], k)))
    except StampViolation as e:
        return {'status': 'ok', 'obs': ['ERR', 'Bi'], 'viol': str(e)}
    except Exception as e:
        n = type(e).__name__
        return {'status': n, 'obs': ['ERR', n], 'viol': 'Bi / bi_merge / bi_read raised %s: %s' % (n, str(e)[:200])}
    viol = None
    if ordered:
        for (t, w), got in zip(case['reads'], reads):
            if w not in (-1, 0):
                continue
            exp = expected(hist, t, w)
            g = _as_dict(got)
            if len(g) != len(got):
                viol = 'bi_read(asof=%s, what=%d) returned a date twice: %s' % (t, w, got); break
            if g != exp:
                viol = 'bi_read(asof=%s [%s, half-steps], what=%d) = %s but the history publishes %s' % (
                    t, spell(asof_dt(case, t), af), w, sorted(g.items()), sorted(exp.items())); break
        if viol is None and k is not None:
            s, rows = hist[k]
            in_store = all([d, 2 * s, 'NaN' if v is None else _mv(v)] in st_obs for d, v in rows)
            if (k == len(hist) - 1 or in_store) and reads2 != reads:
                j = [i for i in range(len(reads)) if reads[i] != reads2[i] and case['reads'][i][1] in (-1, 0)]
                if j:
                    viol = 're-merging version %d (already in the store) changed the read %s: %s -> %s' % (k, case['reads'][j[0]], reads[j[0]], reads2[j[0]])
    if notes:      # the caller's table was touched / aliased; say so, together with what it did to the reads
        viol = notes[0] + ('' if viol is None else ' => ' + viol)
    return {'status': 'ok', 'obs': [reads, reads2, st_obs], 'viol': viol}

def nontrivial(case, result):
    seen = set()
    for _, rows in case['hist']:
        for d, _ in rows:
            if d in seen:
                return True
        seen |= {d for d, _ in rows}
    return False

def date_era(case):
    """where the observation dates lie relative to the five stamps"""
    ds = [d for _, rows in case['hist'] for d, _ in rows] or [0]
    lo, hi = obs_date(case, min(ds)), obs_date(case, max(ds))
    s0, s4 = stamp_dt(case, 0).replace(tzinfo=None), stamp_dt(case, 4).replace(tzinfo=None)
    return 'before' if hi < s0 else 'after' if lo > s4 else 'around'

def shape(case):
    n = sum(len(rows) for _, rows in case['hist'])
    cal = case.get('cal', DEFAULT_CAL)
    era = 'past' if cal[-1] < FUTURE else 'future' if cal[0] >= FUTURE else 'past+future'
    h = case['hist']
    ordered = all(h[i][0] <= h[i + 1][0] for i in range(len(h) - 1))
    extras = (':dates=%s' % date_era(case)) + (':cols' if case.get('cols') else '') + ''.join(':%s=%s' % (k, case[k]) for k in ('work', 'pub', 'input') if case.get(k)) + ''.join(':' + k for k in ('tod', 'groups', 'index_name', 'series_name', 'int_dtype') if case.get(k)) + \
             ''.join(':%s=%s' % (k, case[k]) for k in ('eps', 'stamp_form', 'asof_form', 'tz') if case.get(k))
    vals = {v for _, rows in h for _, v in rows}
    return '%s:%s:v%d:%s%s%s%s%s' % (era, 'ordered' if ordered else 'unordered', len(h), 'rows>100' if n > 100 else 'rows>16' if n > 16 else 'rows<=16',
                                   ':again' if case.get('again') is not None else '', ':inf' if ('inf' in vals or '-inf' in vals) else '',
                                   ':emptyversion' if any(not rows for _, rows in h) else '', extras)

# ---------------- generation
FUTURE = 28854          # 2100-01-01 in days from 2021-01-01

def all_reads(rng, stamps, extra_what=False):
    ts = [None, -1] + [2 * s for s in range(5)] + [2 * s + 1 for s in range(5)] + [40]
    reads = [[t, w] for t in ts for w in (-1, 0)]
    if extra_what:
        reads += [[rng.choice(ts), rng.choice([1, 2, -2, -3, 5, -7])] for _ in range(3)]
    return reads

def gen_history(rng, ndates, nver, p_row, ordered=True, sort_index=True):
    ss = [rng.randrange(5) for _ in range(nver)]
    if rng.random() < 0.3:                       # force shared stamps
        ss = [rng.choice(ss[:2]) for _ in ss]
    if ordered:
        ss.sort()
    vals = [1, 2, 3, None] if rng.random() < 0.7 else [1, 2, None, None]
    late = set(rng.sample(range(ndates), rng.randrange(0, 1 + ndates // 3)))   # dates that first appear in later versions
    hist = []
    for i, s in enumerate(ss):
        ds = [d for d in range(ndates) if rng.random() < p_row and not (d in late and i < nver // 2)]
        if not ds:
            ds = [rng.randrange(ndates)]
        if not sort_index:
            rng.shuffle(ds)
        hist.append([s, [[d, rng.choice(vals)] for d in ds]])
    return hist

def gen_cases(rng, tier):
    cases = []
    n = 330 if tier == 'quick' else 5000
    for i in range(n):
        r = rng.random()
        if r < 0.45:      # the design's scope: 6 dates, 1-6 versions
            hist = gen_history(rng, 6, rng.randrange(1, 7), rng.choice([0.5, 0.8, 1.0]))
        elif r < 0.9:     # frames beyond 16 rows
            hist = gen_history(rng, rng.randrange(12, 21), rng.randrange(3, 9), rng.choice([0.7, 0.9, 1.0]))
        elif r < 0.95:    # unsorted index inside a version
            hist = gen_history(rng, 8, rng.randrange(1, 6), 0.8, sort_index=False)
        else:             # merged out of stamp order: no claim, model must still agree
            hist = gen_history(rng, rng.choice([6, 14]), rng.randrange(2, 6), 0.8, ordered=False)
        again = rng.randrange(len(hist)) if rng.random() < 0.5 else None
        if again is not None and rng.random() < 0.5:
            again = len(hist) - 1
        case = {'hist': hist, 'reads': all_reads(rng, None, extra_what=rng.random() < 0.3), 'again': again}
        r2 = rng.random()
        if r2 < 0.2:       # every stamp after the machine clock (years 2100-2105)
            case['cal'] = sorted(rng.sample(range(FUTURE, FUTURE + 2000), 5))
        elif r2 < 0.4:     # past and future stamps mixed
            k = rng.randrange(1, 5)
            case['cal'] = sorted(rng.sample(range(0, 400), k)) + sorted(rng.sample(range(FUTURE, FUTURE + 2000), 5 - k))
        decorate(rng, case)
        cases.append(case)
    for _ in range(40 if tier == 'quick' else 400):   # ONE working table revised in place and published repeatedly
        nd = rng.randrange(2, 9); nv = rng.randrange(2, 7)
        ss = sorted(rng.randrange(5) for _ in range(nv))
        cur = [None] * nd; hist = []
        for s in ss:
            for d in range(nd):
                if rng.random() < 0.45:
                    cur[d] = rng.choice([1, 2, 3, 3, None])      # revisions, reversions, a value withdrawn (NaN)
            hist.append([s, [[d, cur[d]] for d in range(nd)]])
        case = {'hist': hist, 'reads': all_reads(rng, None), 'again': None, 'work': rng.choice(['df', 'df', 'df', 'series']), 'pub': rng.choice(['Bi', 'Bi', 'merge'])}
        decorate(rng, case, work=True)
        cases.append(case)
    for _ in range(6 if tier == 'quick' else 40):     # frames of several hundred rows
        hist = gen_history(rng, rng.randrange(50, 80), rng.randrange(3, 6), 0.9)
        case = {'hist': hist, 'reads': [[t, w] for t in (None, 1, 4, 5, 8) for w in (-1, 0)], 'again': rng.choice([None, len(hist) - 1])}
        decorate(rng, case)
        cases.append(case)
    return cases

def decorate(rng, case, work=False):
    if rng.random() < 0.45:       # forward-looking data: observation dates around / after / long after the stamps (default: a year before them)
        cal = case.get('cal', DEFAULT_CAL)
        case['dshift'] = rng.choice([366 + cal[0] - 2, 366 + cal[2], 366 + cal[2] - 3, 366 + cal[4] + 1, 366 + cal[4] + 400, 366 + cal[1] - 1, 40000])
    """kinds of input the statement's quantifier includes but plain histories never show"""
    hist = case['hist']
    ordered = all(hist[i][0] <= hist[i + 1][0] for i in range(len(hist) - 1))
    sorted_idx = all(rows == sorted(rows) for _, rows in hist)
    if rng.random() < 0.3:        # stamps with a time of day down to the microsecond; reads one microsecond off a stamp
        case['tod'] = sorted(rng.choice([0, 1, 999999, 49507123456, 86399999999, rng.randrange(86400000000)]) for _ in range(5))
        case['eps'] = rng.choice(['+us', '-us'])
    elif rng.random() < 0.3:
        case['eps'] = rng.choice(['+us', '-us'])
    if rng.random() < 0.12:       # timezone-aware stamps and read times, one zone per history
        case['tz'] = rng.choice(['utc', '+0530', '-0800'])
        if rng.random() < 0.5: case['stamp_form'] = 'ts'
        if rng.random() < 0.5: case['asof_form'] = 'ts'
    else:
        if rng.random() < 0.5:    # every spelling dt() accepts
            case['stamp_form'] = rng.choice(['ts', 'dt64', 'str', 'iso', 'iso', 'date', 'int'])
        if rng.random() < 0.4:
            case['asof_form'] = rng.choice(['ts', 'dt64', 'date'])
    if rng.random() < 0.25:
        case['index_name'] = rng.choice(['date', 'index', 'updated_on'])
    if work:
        return
    if rng.random() < 0.15:
        case['series_name'] = rng.choice(['px', 'value', 0])
    elif rng.random() < 0.15:
        case['input'] = 'frame'
    elif rng.random() < 0.2:      # versions as Series and as one-column frames whose column names clash ('a', 'b'): still ONE series
        names = rng.choice([[None, 'a'], [None, 'a', 'b'], ['a', 'b'], ['a'], ['px', None]])
        case['cols'] = [rng.choice(names) for _ in case['hist']]
    if rng.random() < 0.2:
        case['int_dtype'] = True
    if rng.random() < 0.15:       # infinite values are values like any other
        for _, rows in hist:
            for r in rows:
                if rng.random() < 0.2:
                    r[1] = rng.choice(['inf', '-inf'])
    if len(hist) >= 2 and rng.random() < 0.25:      # several versions handed to one bi_merge call
        groups = []; i = 0
        while i < len(hist):
            k = rng.choice([1, 1, 2, 3]); groups.append(list(range(i, min(len(hist), i + k)))); i += k
        case['groups'] = groups
    if sorted_idx and len(hist) >= 2 and rng.random() < 0.08:     # a version without any row
        hist[rng.randrange(len(hist))][1] = []

def shrink(case):
    h = case['hist']
    if case.get('again') is not None:
        yield dict(case, again=None)
    if case.get('groups'):
        yield {k: v for k, v in case.items() if k != 'groups'}
    for k in ('tod', 'eps', 'stamp_form', 'asof_form', 'index_name', 'series_name', 'int_dtype', 'cal', 'dshift', 'cols', 'tz'):
        if case.get(k) is not None:
            yield {kk: v for kk, v in case.items() if kk != k}
    for i in range(len(h)):
        if len(h) > 1 and case.get('again') is None and not case.get('groups'):
            yield dict(case, hist=h[:i] + h[i + 1:], **({'cols': case['cols'][:i] + case['cols'][i + 1:]} if case.get('cols') else {}))
    # drop one date everywhere
    dates = sorted({d for _, rows in h for d, _ in rows})
    for d in dates:
        h2 = [[s, [r for r in rows if r[0] != d]] for s, rows in h]
        if all(rows for _, rows in h2) and h2 != h:
            yield dict(case, hist=h2)
    if len(case['reads']) > 1:
        for i in range(len(case['reads'])):
            yield dict(case, reads=[case['reads'][i]])
