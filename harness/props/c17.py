"""C17 — bitemporal store: reading as of T sees exactly what had been published by T."""
import datetime, math, json

ID = 'C17'
TRANSLATOR = []
COQ_EXEC = ['exec.X_bitemp']
COQ_IMPORTS = 'From PB Require Import model.M_bitemp.\n'
COQ_PRELUDE = ''
PER_FILE = 60
CASE_TIMEOUT = 20
RULE = ('a case = a publication history (1-8 partial float series over 6 or 12-20 observation dates, stamps drawn from 5 days, '
        'values repeating / reverting / NaN, several versions sharing a stamp, dates that first appear late), merged in order with '
        'bi_merge(store, Bi(series, stamp)) - the five stamps are consecutive days in 2021, or lie in 2100-2105 (after the machine clock), or a mix of both - then read with bi_read at every time before / between / on / after the stamps and with '
        'asof=None, what in {-1, 0}; optionally one version is merged once more and all reads are repeated. Half of the histories grow the '
        'frame beyond 16 rows (where pandas switches sort algorithm). Compared in Coq with M_bitemp: every read (dates in order, values, NaN) '
        'and the complete store (date, stamp, value rows in frame order). The oracle recomputes each read from the property text by a plain '
        'loop over the history (latest stamp <= T, later merge wins a tie, NaN never overrides; what=0: value at the first stamp) and checks '
        'that re-merging a version already in the store changes no read. A separate stream merges out of stamp order (no claim; correspondence only). '
        'non-trivial = at least two versions publish the same date; distinct by the whole case')
EXPLANATION = ('theorems C17_* (coq/props/C17.v) hold for every publication history and every T by induction over the history (invariant: per date '
               'strictly increasing stamps, NaN only before the first value, column reads like the publication list); the correspondence ties the '
               'model (stable sort, groupby, _drop_repeats, _nth) to the pandas code on generated histories')
TRUSTED = ['modelled, not verified: pandas concat / sort_values(kind=stable) / groupby iteration order / ffill / drop_duplicates(keep=last) / boolean row filter, '
           'as transcribed in coq/model/M_bitemp.v and compared on every generated case',
           'float values are carried, never computed: generated values are small integers, NaN is the only special value']
ASSUMPTIONS = ['each version is a single-valued float Series with a unique DatetimeIndex', 'versions are merged in non-decreasing stamp order (hypothesis of the property)',
               'what is an int (-1 or 0 in the theorems; other ints are compared with the model only)']
EXHAUSTIVE = {'quick': False, 'thorough': False}
LEVEL_TEXT = ('machine-checked Coq theorems for every publication history and read time (induction over the history): as-of read = latest published value per date, '
              'no look-ahead, what=0 = first published value, re-merging a stored version changes no read; model tied to the pandas code by differential runs compared in vm_compute')
LEVEL_NOTE = ('trusted: Coq kernel/vm_compute; modelled not verified: the pandas primitives used by _bitemporal.py (stable sort, groupby order, ffill, drop_duplicates). '
              'The theorems are about the repaired code (sort_values kind=stable, fixes/C17.patch): the pinned default quicksort is not stable beyond 16 rows')
TECHNIQUE = 'Coq proof (induction over histories with a per-date column invariant) + differential correspondence in vm_compute + property-text oracle'

D0 = datetime.datetime(2020, 1, 1)
S0 = datetime.datetime(2021, 1, 1)
H12 = datetime.timedelta(hours=12)
DAY = datetime.timedelta(days=1)

# 'cal' (optional): day offsets from 2021-01-01 of the five stamps, increasing; default consecutive days in 2021.  The property
# does not tie stamps to the wall clock: calendars with stamps in 2100-2105 (after the machine's "now") are generated too.
DEFAULT_CAL = [0, 1, 2, 3, 4]
def stamp_dt(s, cal=DEFAULT_CAL): return S0 + DAY * cal[s]
def asof_dt(t2, cal=DEFAULT_CAL):
    """read time in half-steps: 2s = on stamp s, 2s+1 = 12h after stamp s (before stamp s+1), negative = before every stamp"""
    if t2 is None: return None
    if t2 < 0: return S0 + DAY * cal[0] + H12 * t2
    if t2 > 9: return S0 + DAY * cal[4] + H12 * (t2 - 8)
    return S0 + DAY * cal[t2 // 2] + H12 * (t2 % 2)

# ---------------- Coq side
def coq_runner(case):
    return 'run_bitemp'

def _cv(v): return 'None' if v is None else '(Some (%d))' % v
def _cversion(s, rows):
    return '((%d), [%s])' % (2 * s, '; '.join('((%d), %s)' % (d, _cv(v)) for d, v in rows))
def coq_case(case):
    h = '[' + '; '.join(_cversion(s, rows) for s, rows in case['hist']) + ']'
    reads = '[' + '; '.join('(%s, (%d))' % ('None' if t is None else '(Some (%d))' % t, w) for t, w in case['reads']) + ']'
    k = case.get('again')
    again = 'None' if k is None else '(Some %s)' % _cversion(*case['hist'][k])
    return '(%s, %s, %s)' % (h, reads, again)

# ---------------- implementation side
def impl_setup():
    global pd, np, Bi, bi_merge, bi_read
    import pandas as pd, numpy as np
    from pyg_base._bitemporal import Bi, bi_merge, bi_read

def _val(x):
    x = float(x)
    if x != x: return 'NaN'
    assert x == int(x)
    return int(x)

def _series(rows):
    return pd.Series([float('nan') if v is None else float(v) for _, v in rows], index=[D0 + DAY * d for d, _ in rows], dtype=float)

def _obs_read(r):
    if r is None or len(r) == 0:
        return []
    assert isinstance(r, pd.Series), type(r)
    return [[(t - D0).days, _val(x)] for t, x in zip(r.index, r.values)]

def _obs_store(st, cal=DEFAULT_CAL):
    if st is None:
        return []
    cols = [c for c in st.columns if c != 'updated']
    assert len(cols) == 1, cols
    out = []
    for t, u, x in zip(st.index, st['updated'], st[cols[0]].values):
        du = u - S0
        # stamp back to its index (x2, the model's time axis); a stamp that is none of the published ones is shown as -7
        idx = 2 * cal.index(du.days) if (du.seconds == 0 and du.microseconds == 0 and du.days in cal) else -7
        out.append([(t - D0).days, idx, _val(x)])
    return out

def expected(hist, t2, what):
    """the property text, by a plain loop over the history: {date: value} (value None = NaN)"""
    res = {}
    dates = sorted({d for _, rows in hist for d, _ in rows})
    for d in dates:
        cands = [(s, i, x) for i, (s, rows) in enumerate(hist) for dd, x in rows if dd == d and (t2 is None or 2 * s <= t2)]
        if not cands:
            continue            # nothing published for d by T: no row
        if what == -1:
            good = [c for c in cands if c[2] is not None]        # a NaN never overrides
            res[d] = max(good, key=lambda c: (c[0], c[1]))[2] if good else None
        else:
            s0 = min(c[0] for c in cands)
            first = [c for c in cands if c[0] == s0]              # merged at the first stamp, in merge order
            good = [c for c in first if c[2] is not None]
            res[d] = good[-1][2] if good else None
    return res

def _as_dict(obs):
    return {d: (None if v == 'NaN' else v) for d, v in obs}

def impl(case):
    hist = case['hist']; cal = case.get('cal', DEFAULT_CAL)
    ordered = all(hist[i][0] <= hist[i + 1][0] for i in range(len(hist) - 1))
    try:
        store = None
        for s, rows in hist:
            store = bi_merge(store, Bi(_series(rows), stamp_dt(s, cal)))
        reads = [_obs_read(bi_read(store, asof_dt(t, cal), w)) for t, w in case['reads']]
        st_obs = _obs_store(store, cal)
        k = case.get('again')
        reads2 = []
        if k is not None:
            s, rows = hist[k]
            store2 = bi_merge(store, Bi(_series(rows), stamp_dt(s, cal)))
            reads2 = [_obs_read(bi_read(store2, asof_dt(t, cal), w)) for t, w in case['reads']]
    except Exception as e:
        n = type(e).__name__
        return {'status': n, 'obs': ['ERR', n], 'viol': 'bi_merge / bi_read raised %s: %s' % (n, str(e)[:200])}
    viol = None
    if ordered:
        for (t, w), got in zip(case['reads'], reads):
            if w not in (-1, 0):
                continue
            exp = expected(hist, t, w)
            g = _as_dict(got)
            if len(g) != len(got):
                viol = 'bi_read(asof=%s, what=%d) returned a date twice: %s' % (t, w, got); break
            if g != exp:
                viol = 'bi_read(asof=%s half-days, what=%d) = %s but the history publishes %s' % (t, w, sorted(g.items()), sorted(exp.items())); break
        if viol is None and k is not None:
            s, rows = hist[k]
            in_store = all([d, 2 * s, 'NaN' if v is None else v] in st_obs for d, v in rows)
            if (k == len(hist) - 1 or in_store) and reads2 != reads:
                j = [i for i in range(len(reads)) if reads[i] != reads2[i] and case['reads'][i][1] in (-1, 0)]
                if j:
                    viol = 're-merging version %d (already in the store) changed the read %s: %s -> %s' % (k, case['reads'][j[0]], reads[j[0]], reads2[j[0]])
    return {'status': 'ok', 'obs': [reads, reads2, st_obs], 'viol': viol}

def nontrivial(case, result):
    seen = set()
    for _, rows in case['hist']:
        for d, _ in rows:
            if d in seen:
                return True
        seen |= {d for d, _ in rows}
    return False

def shape(case):
    n = sum(len(rows) for _, rows in case['hist'])
    cal = case.get('cal', DEFAULT_CAL)
    era = 'past' if cal[-1] < FUTURE else 'future' if cal[0] >= FUTURE else 'past+future'
    h = case['hist']
    ordered = all(h[i][0] <= h[i + 1][0] for i in range(len(h) - 1))
    return '%s:%s:v%d:%s%s' % (era, 'ordered' if ordered else 'unordered', len(h), 'rows>16' if n > 16 else 'rows<=16', ':again' if case.get('again') is not None else '')

# ---------------- generation
FUTURE = 28854          # 2100-01-01 in days from 2021-01-01

def all_reads(rng, stamps, extra_what=False):
    ts = [None, -1] + [2 * s for s in range(5)] + [2 * s + 1 for s in range(5)] + [40]
    reads = [[t, w] for t in ts for w in (-1, 0)]
    if extra_what:
        reads += [[rng.choice(ts), rng.choice([1, 2, -2, -3, 5, -7])] for _ in range(3)]
    return reads

def gen_history(rng, ndates, nver, p_row, ordered=True, sort_index=True):
    ss = [rng.randrange(5) for _ in range(nver)]
    if rng.random() < 0.3:                       # force shared stamps
        ss = [rng.choice(ss[:2]) for _ in ss]
    if ordered:
        ss.sort()
    vals = [1, 2, 3, None] if rng.random() < 0.7 else [1, 2, None, None]
    late = set(rng.sample(range(ndates), rng.randrange(0, 1 + ndates // 3)))   # dates that first appear in later versions
    hist = []
    for i, s in enumerate(ss):
        ds = [d for d in range(ndates) if rng.random() < p_row and not (d in late and i < nver // 2)]
        if not ds:
            ds = [rng.randrange(ndates)]
        if not sort_index:
            rng.shuffle(ds)
        hist.append([s, [[d, rng.choice(vals)] for d in ds]])
    return hist

def gen_cases(rng, tier):
    cases = []
    n = 400 if tier == 'quick' else 5000
    for i in range(n):
        r = rng.random()
        if r < 0.45:      # the design's scope: 6 dates, 1-6 versions
            hist = gen_history(rng, 6, rng.randrange(1, 7), rng.choice([0.5, 0.8, 1.0]))
        elif r < 0.9:     # frames beyond 16 rows
            hist = gen_history(rng, rng.randrange(12, 21), rng.randrange(3, 9), rng.choice([0.7, 0.9, 1.0]))
        elif r < 0.95:    # unsorted index inside a version
            hist = gen_history(rng, 8, rng.randrange(1, 6), 0.8, sort_index=False)
        else:             # merged out of stamp order: no claim, model must still agree
            hist = gen_history(rng, rng.choice([6, 14]), rng.randrange(2, 6), 0.8, ordered=False)
        again = rng.randrange(len(hist)) if rng.random() < 0.5 else None
        if again is not None and rng.random() < 0.5:
            again = len(hist) - 1
        case = {'hist': hist, 'reads': all_reads(rng, None, extra_what=rng.random() < 0.3), 'again': again}
        r2 = rng.random()
        if r2 < 0.2:       # every stamp after the machine clock (years 2100-2105)
            case['cal'] = sorted(rng.sample(range(FUTURE, FUTURE + 2000), 5))
        elif r2 < 0.4:     # past and future stamps mixed
            k = rng.randrange(1, 5)
            case['cal'] = sorted(rng.sample(range(0, 400), k)) + sorted(rng.sample(range(FUTURE, FUTURE + 2000), 5 - k))
        cases.append(case)
    return cases

def shrink(case):
    h = case['hist']
    if case.get('again') is not None:
        yield dict(case, again=None)
    for i in range(len(h)):
        if len(h) > 1 and case.get('again') is None:
            yield dict(case, hist=h[:i] + h[i + 1:])
    # drop one date everywhere
    dates = sorted({d for _, rows in h for d, _ in rows})
    for d in dates:
        h2 = [[s, [r for r in rows if r[0] != d]] for s, rows in h]
        if all(rows for _, rows in h2):
            yield dict(case, hist=h2)
    if len(case['reads']) > 1:
        for i in range(len(case['reads'])):
            yield dict(case, reads=[case['reads'][i]])
