"""C03 — df_sync / df_reindex / presync put all timeseries on the prescribed common index, values intact."""
import datetime, math, json, copy

ID = 'C03'
TRANSLATOR = []
COQ_EXEC = ['exec.X_align']
COQ_IMPORTS = 'From PB Require Import model.M_align.\n'
PER_FILE = 500
CASE_TIMEOUT = 10
RULE = ('cases: nested lists/dicts (depth <= 3) holding 1-5 float Series / DataFrames (1-3 columns, any column order) over a '
        '14-day grid whose indices are drawn as a family (random, nested, disjoint, overlapping blocks, with empties), NaN '
        'anywhere, mixed with distinct str / int / None objects; each collection is run through df_sync, df_reindex, df_index '
        'and a presync-decorated recording function for every policy in {ij, oj, lj, rj, explicit index (as pd.Index, Series '
        'or dict(index=..))} x method in {None, ffill, bfill} x column policy; separately collections of bare 1-d and 2-d (1-3 columns) numpy arrays '
        'of lengths 0-6 (full shape and every cell observed) for ij/oj/lj/rj x method, a stream of lj/rj joins over >= 3 series whose last/first index repeats another one, and a small malformed stream mixing arrays with Series (ValueError). '
        'Observed: container structure, index, columns, every cell, is-identity of pass-through members; compared in Coq '
        'with the model M_align evaluated by vm_compute; the oracle recomputes index / cells / columns from the property text '
        'with Python sets and linear scans. Every stream is further varied in kind: tick length 1 us .. 1 day and origins 1900 / 2020 / 2250, policy / method / column spellings (inner, Outer, pad, backfill, ..), multi-letter and integer column names and dict keys, int-dtype operands, +-inf cells, 120-250-row series, presync via keywords / .oj.ffill attributes / join=<parameter name>, recording functions with signatures (a, *args), (a, b=None, *args, **kw), (*args) receiving 2-4 timeseries, direct df_columns, timezone-aware indices (UTC / Europe/London / US/Eastern / Asia/Tokyo, all members in one zone; the model sees instants) in 25% of the cases, dict keys named index / columns / data / values (dedicated stream + renaming), members and explicit indexes (given as pd.Index, timeseries or dict) whose index is OBJECT-dtype holding datetimes / Timestamps (is_ts goes by the labels). Every sync / reindex / presync call is made TWICE on the same objects (identical result required), half the sync / reindex cases (all array cases) align the same objects again with the other fill methods (oracle-checked), and a deep snapshot of every operand (cells, index, dtype, name, array contents) must be unchanged afterwards. non-trivial = at least two timeseries with different, overlapping indices (or two '
        'arrays of different lengths); distinct by full input')
EXPLANATION = ('theorems C03_* (coq/props/C03.v) hold for every nested collection, every index and every policy: common index '
               '(intersection / union / first / last / explicit), values intact, missing = NaN, ffill/bfill = as-of join on '
               'rows, numpy end alignment, structure and pass-through members preserved, common column set; the correspondence '
               'ties the Gallina model to pandas / numpy / _loop.py behaviour of the current tree')
TRUSTED = ['modelled, not verified: pandas Index.intersection/union, Series/DataFrame.reindex (incl. method=ffill/bfill), '
           'boolean-mask row selection, DataFrame construction from a dict; numpy slicing / concatenate / full; '
           'the harness canonicalisation of pandas objects (harness/props/c03.py canon)']
ASSUMPTIONS = ['bare arrays are 1-d or 2-d float arrays (3-d arrays only survive method=None in the code: df_fillna wraps them in pd.Series)',
               'indices are sorted, duplicate-free datetime indices; values are floats (NaN allowed)',
               'DataFrames have unique column names; containers are plain list / dict (tuples are not flattened by _list)',
               'for multi-column frames the as-of fill is row-wise: a row counts as an observation unless it is entirely NaN']
EXHAUSTIVE = {'quick': False, 'thorough': False}

D0 = datetime.datetime(2020, 1, 1)
GRID = 14
POLICIES = ['ij', 'oj', 'lj', 'rj']
METHODS = [None, 'ffill', 'bfill']

DAYUS = 86400 * 10**6
INF = 10**9                       # +-inf cells are carried as +-INF (values are carried, never computed, in C03)
NAMES = {'`': 0, 'px_last': 40, 'vol 2': 41, 'Ab': 42, 'key one': 43, 'K2': 44, 'close': 45, 'index': 46, 'columns': 47, 'data': 48, 'values': 49}
import numbers
def known_name(c):
    return (isinstance(c, numbers.Integral) and not isinstance(c, bool) and 0 <= c < 50) or (isinstance(c, str) and (c in NAMES or (len(c) == 1 and 'a' <= c <= 'z')))
def colcode(c):
    """column / key names -> the integer the model uses (single letters, a few longer names, small ints)"""
    if isinstance(c, numbers.Integral):
        return 100 + int(c)
    return NAMES[c] if c in NAMES else ord(c) - 96
keycode = colcode
_AX = {'d0': D0, 'unit': DAYUS, 'tz': None}
def set_axis(case):
    """the model's time axis is an integer tick; a case may choose the tick length (down to 1 microsecond) and the origin"""
    _AX['unit'] = case.get('unit', DAYUS)
    _AX['d0'] = datetime.datetime.fromisoformat(case['d0']) if case.get('d0') else D0
    _AX['tz'] = case.get('tz')          # timezone-aware indices: the ticks are instants (built in UTC, shown in the zone)

# ------------------------------------------------------------------ walking the JSON trees
def leaves(tr):
    if 'L' in tr:
        return [x for sub in tr['L'] for x in leaves(sub)]
    if 'D' in tr:
        return [x for _, sub in tr['D'] for x in leaves(sub)]
    return [tr]

def is_pdj(l): return 'S' in l or 'F' in l
def is_arrj(l): return 'A' in l or 'A2' in l
def arr_len(l): return len(l['A']) if 'A' in l else len(l['A2']['rows'])
def idx_of(l): return [t for t, _ in l['S']] if 'S' in l else list(l['F']['idx'])

# ------------------------------------------------------------------ Coq literals
def cq_cell(v): return 'None' if v is None else 'Some (%d)' % v
def cq_zl(xs): return '[' + '; '.join('(%d)' % x for x in xs) + ']'
def cq_leaf(l):
    if 'S' in l:
        return 'OS [' + '; '.join('((%d), %s)' % (t, cq_cell(v)) for t, v in l['S']) + ']'
    if 'F' in l:
        f = l['F']; order = sorted(range(len(f['cols'])), key=lambda i: colcode(f['cols'][i]))
        rows = '; '.join('((%d), [%s])' % (t, '; '.join(cq_cell(r[i]) for i in order)) for t, r in zip(f['idx'], f['rows']))
        return 'OF %s [%s]' % (cq_zl([colcode(f['cols'][i]) for i in order]), rows)
    if 'A' in l:
        return 'OA [' + '; '.join(cq_cell(v) for v in l['A']) + ']'
    if 'A2' in l:
        return 'OA2 %d [%s]' % (l['A2']['k'], '; '.join('[%s]' % '; '.join(cq_cell(v) for v in r) for r in l['A2']['rows']))
    if 'N' in l:
        return 'ON (%s)' % cq_cell(l['N'])
    return 'OX (%d)' % (-1 if l['k'] == 'none' else l['X'])
def cq_tree(tr):
    if 'L' in tr:
        return 'TL [' + '; '.join(cq_tree(x) for x in tr['L']) + ']'
    if 'D' in tr:
        return 'TD [' + '; '.join('((%d), %s)' % (keycode(k), cq_tree(x)) for k, x in tr['D']) + ']'
    return 'Leaf (%s)' % cq_leaf(tr)
def cq_how(h):
    if isinstance(h, dict):
        return '(HX %s)' % cq_zl(h['x'])
    return {'i': 'HI', 'o': 'HO', 'l': 'HL', 'r': 'HR'}[h[0]]
def cq_method(m): return {None: 'MNone', 'ffill': 'MFfill', 'bfill': 'MBfill'}[m]
def cq_cols(c): return 'None' if c is None else '(Some %s)' % cq_how(c)

def coq_runner(case):
    return {'index': 'run_index', 'reindex': 'run_reindex', 'sync': 'run_sync', 'presync': 'run_presync', 'columns': 'run_columns'}[case['kind']]
def coq_case(case):
    k = case['kind']
    if k in ('index', 'columns'):
        return '(%s, %s)' % (cq_tree(case['tree']), cq_how(case['how']))
    if k == 'reindex':
        return '(%s, %s, %s)' % (cq_tree(case['tree']), cq_how(case['how']), cq_method(case['method']))
    if k == 'sync':
        return '(%s, %s, %s, %s)' % (cq_tree(case['tree']), cq_how(case['how']), cq_method(case['method']), cq_cols(case['columns']))
    return '([%s], %s, %s, %s, %s)' % ('; '.join(cq_tree(a) for a in case['args']), cq_how(case['how']), cq_method(case['method']),
                                      cq_cols(case['columns']), cq_cell(case.get('default')))

# ------------------------------------------------------------------ implementation side
def impl_setup():
    global pd, np, df_sync, df_index, df_reindex, presync, df_columns
    import pandas as pd, numpy as np
    from pyg_base._pandas import df_sync, df_index, df_reindex, presync, df_columns

def mkidx(days, obj=False):
    stamps = [_AX['d0'] + datetime.timedelta(microseconds=d * _AX['unit']) for d in days]
    if obj and not _AX['tz']:            # an OBJECT-dtype index holding datetimes: still a timeseries (is_ts looks at the labels)
        return pd.Index([pd.Timestamp(t) if (k % 2) else t for k, t in enumerate(stamps)], dtype=object)
    i = pd.DatetimeIndex(stamps)
    return i.tz_localize('UTC').tz_convert(_AX['tz']) if _AX['tz'] else i
def fl(v): return float('nan') if v is None else float('inf') if v == INF else float('-inf') if v == -INF else float(v)
def all_int(vals): return all(v is not None and abs(v) < INF for v in vals)
def mkscalar(tr):
    k = tr.get('nk', 'float'); v = tr['N']
    if v is None or abs(v) == INF or k == 'float': return fl(v)
    return int(v) if k == 'int' else np.float64(v) if k == 'np.float64' else np.int64(v)

def build(tr, reg):
    """JSON tree -> python object; reg collects (object, id) of the opaque leaves"""
    if 'L' in tr:
        return [build(x, reg) for x in tr['L']]
    if 'D' in tr:
        return {k: build(x, reg) for k, x in tr['D']}
    if 'S' in tr:
        vals = [v for _, v in tr['S']]
        if tr.get('dt') == 'int' and all_int(vals):
            return pd.Series([int(v) for v in vals], mkidx([t for t, _ in tr['S']], tr.get('oi')), dtype=int)
        return pd.Series([fl(v) for v in vals], mkidx([t for t, _ in tr['S']], tr.get('oi')), dtype=float)
    if 'F' in tr:
        f = tr['F']
        isint = tr.get('dt') == 'int' and all_int([v for r in f['rows'] for v in r])
        data = np.array([[(int(v) if isint else fl(v)) for v in r] for r in f['rows']], dtype=int if isint else float).reshape(len(f['idx']), len(f['cols']))
        return pd.DataFrame(data, mkidx(f['idx'], tr.get('oi')), list(f['cols']))
    if 'A' in tr:
        return np.array([fl(v) for v in tr['A']], dtype=float)
    if 'A2' in tr:
        return np.array([[fl(v) for v in r] for r in tr['A2']['rows']], dtype=float).reshape(len(tr['A2']['rows']), tr['A2']['k'])
    if 'N' in tr:
        return mkscalar(tr)
    k = tr['k']
    o = None if k == 'none' else int(str(100000 + tr['X'])) if k == 'int' else ''.join(['s', str(tr['X'])])
    if o is not None:
        reg.append((o, tr['X']))
    return o

def ccell(v):
    if isinstance(v, (bool, np.bool_)):
        return 'b:%d' % int(v)
    v = float(v)
    if v != v:
        return 'NaN'
    if math.isinf(v):
        return INF if v > 0 else -INF
    return int(v) if v == int(v) else 'f:' + v.hex()

def cdays(index):
    out = []
    aware = getattr(index, 'tz', None) is not None
    if aware != bool(_AX['tz']) and len(index):
        return ['tz-lost' if _AX['tz'] else 'tz-gained', len(index)]
    if aware and str(index.tz) != str(mkidx([]).tz):
        return ['tz-changed', str(index.tz)]
    for t in index:
        if aware:
            t = t.tz_convert('UTC').tz_localize(None)
        us = ((t.to_pydatetime() if hasattr(t, 'to_pydatetime') else t) - _AX['d0']) // datetime.timedelta(microseconds=1)
        out.append(us // _AX['unit'] if us % _AX['unit'] == 0 else 'us:%d' % us)
    return out

def canon(o, reg, cell=ccell):
    """canonical observation of a result"""
    if isinstance(o, list):
        return ['L', [canon(x, reg, cell) for x in o]]
    if isinstance(o, tuple):
        return ['T', [canon(x, reg, cell) for x in o]]
    if isinstance(o, dict):
        return ['D', [[keycode(k) if known_name(k) else str(k), canon(x, reg, cell)] for k, x in o.items()]]
    if isinstance(o, (pd.Series, pd.DataFrame)) and len(o.index) and not isinstance(o.index, pd.DatetimeIndex) and not all(isinstance(x, datetime.datetime) for x in o.index):
        return ['S?' if isinstance(o, pd.Series) else 'F?', [str(x) for x in o.index][:8]]
    if isinstance(o, pd.Series):
        return ['S', cdays(o.index), [cell(v) for v in o.values]]
    if isinstance(o, pd.DataFrame):
        cols = list(o.columns)
        if len(set(cols)) != len(cols) or not all(known_name(c) for c in cols):
            return ['F?', [str(c) for c in cols]]
        order = sorted(range(len(cols)), key=lambda i: colcode(cols[i]))
        return ['F', cdays(o.index), [colcode(cols[i]) for i in order], [[cell(v) for v in o.iloc[:, i].values] for i in order]]
    if isinstance(o, np.ndarray):
        if o.ndim == 1:
            return ['A', [cell(v) for v in o]]
        if o.ndim == 2:             # the full shape (rows, columns) and every cell
            return ['A2', int(o.shape[1]), [[cell(v) for v in row] for row in o]]
        return ['A?', [int(x) for x in o.shape]]
    if o is None:
        return ['X', -1]
    for x, i in reg:
        if x is o:
            return ['X', i]
    if isinstance(o, (float, np.floating)) or (isinstance(o, (int, np.integer)) and not isinstance(o, bool)):
        return ['N', cell(o)]
    return ['X?', type(o).__name__]

def jcanon(tr):
    """the canonical observation the INPUT would have (computed from the JSON, no pandas)"""
    if 'L' in tr:
        return ['L', [jcanon(x) for x in tr['L']]]
    if 'D' in tr:
        return ['D', [[keycode(k), jcanon(x)] for k, x in tr['D']]]
    c = lambda v: 'NaN' if v is None else v
    if 'S' in tr:
        return ['S', [t for t, _ in tr['S']], [c(v) for _, v in tr['S']]]
    if 'F' in tr:
        f = tr['F']; order = sorted(range(len(f['cols'])), key=lambda i: colcode(f['cols'][i]))
        return ['F', list(f['idx']), [colcode(f['cols'][i]) for i in order], [[c(r[i]) for r in f['rows']] for i in order]]
    if 'A' in tr:
        return ['A', [c(v) for v in tr['A']]]
    if 'A2' in tr:
        return ['A2', tr['A2']['k'], [[c(v) for v in r] for r in tr['A2']['rows']]]
    if 'N' in tr:
        return ['N', c(tr['N'])]
    return ['X', -1 if tr['k'] == 'none' else tr['X']]

def py_how(h):
    if isinstance(h, dict):
        i = mkidx(h['x'], h.get('oi'))
        a = h.get('as', 'idx')
        return i if a == 'idx' else pd.Series(0.0, i) if a == 'ts' else dict(index=i)
    return h

HOW_SPELL = {'i': ['ij', 'inner', 'i', 'Inner', 'IJ'], 'o': ['oj', 'outer', 'o', 'Outer', 'OJ'], 'l': ['lj', 'left', 'l', 'LEFT'], 'r': ['rj', 'right', 'r', 'Right']}
METHOD_SPELL = {'ffill': ['ffill', 'pad', ['ffill']], 'bfill': ['bfill', 'backfill', ['bfill']]}
def spelled(case, what, v):
    """the same policy / method under another spelling the code accepts (first letter of the join, pad = ffill, ...)"""
    sp = (case.get('spell') or {}).get(what)
    return v if sp is None or isinstance(v, dict) or v is None else sp

# ------------------------------------------------------------------ the property-level oracle (from the statement)
def prescribed(lvs, how):
    """('I', days) / ('n', length) / None, from the input leaves and the join policy"""
    pds = [l for l in lvs if is_pdj(l)]
    if isinstance(how, dict) and (pds or how.get('direct')):
        return ('I', list(how['x']))
    if pds:
        sets = [set(idx_of(l)) for l in pds]
        h = how[0]
        if h == 'i':
            s = set(sets[0])
            for x in sets[1:]: s &= x
            return ('I', sorted(s))
        if h == 'o':
            s = set()
            for x in sets: s |= x
            return ('I', sorted(s))
        return ('I', idx_of(pds[0] if h == 'l' else pds[-1]))
    arrs = [arr_len(l) for l in lvs if is_arrj(l)]
    if arrs and not isinstance(how, dict):
        h = how[0]
        return ('n', min(arrs) if h == 'i' else max(arrs) if h == 'o' else arrs[0] if h == 'l' else arrs[-1])
    return None

def common_columns(lvs, pol):
    fr = [l['F']['cols'] for l in lvs if 'F' in l and len(l['F']['cols']) > 1]
    if not fr or pol is None:
        return None
    h = pol[0]
    if h == 'i':
        s = set(fr[0])
        for x in fr[1:]: s &= set(x)
    elif h == 'o':
        s = set()
        for x in fr: s |= set(x)
    else:
        s = set(fr[0] if h == 'l' else fr[-1])
    return sorted(colcode(c) for c in s)

def asof(obs, t, method, isnan, nanval):
    """obs: list of (time, value) sorted by time.  Value prescribed at t by the statement."""
    if method is None:
        for u, v in obs:
            if u == t:
                return v
        return nanval
    best = nanval
    if method == 'ffill':
        for u, v in obs:                      # last non-NaN observation at or before t
            if u <= t and not isnan(v):
                best = v
        return best
    for u, v in reversed(obs):                # next non-NaN observation at or after t
        if u >= t and not isnan(v):
            best = v
    return best

def expect_series(l, P, method):
    obs = [(t, 'NaN' if v is None else v) for t, v in l['S']]
    return ['S', list(P), [asof(obs, t, method, lambda v: v == 'NaN', 'NaN') for t in P]]

def expect_frame(l, P, method, C):
    f = l['F']; n = len(f['cols'])
    obs = [(t, ['NaN' if v is None else v for v in r]) for t, r in zip(f['idx'], f['rows'])]
    rows = [asof(obs, t, method, lambda r: all(v == 'NaN' for v in r), ['NaN'] * n) for t in P]
    codes = [colcode(c) for c in f['cols']]
    out_cols = C if (C is not None and n > 1) else sorted(codes)
    cells = [[(r[codes.index(c)] if c in codes else 'NaN') for r in rows] for c in out_cols]
    return ['F', list(P), out_cols, cells]

def expect_array(l, n, method):
    a = ['NaN' if v is None else v for v in l['A']]
    res = a[len(a) - n:] if n <= len(a) else ['NaN'] * (n - len(a)) + a     # aligned at the end
    obs = list(enumerate(res))
    return ['A', [asof(obs, j, method, lambda v: v == 'NaN', 'NaN') for j in range(n)]]

def expect_array2(l, n, method):
    k = l['A2']['k']
    a = [['NaN' if v is None else v for v in r] for r in l['A2']['rows']]
    res = a[len(a) - n:] if n <= len(a) else [['NaN'] * k for _ in range(n - len(a))] + a   # rows aligned at the end, columns untouched
    cols = []
    for j in range(k):                                                                  # a fill method works down each column
        obs = [(i, r[j]) for i, r in enumerate(res)]
        cols.append([asof(obs, i, method, lambda v: v == 'NaN', 'NaN') for i in range(n)])
    return ['A2', k, [[cols[j][i] for j in range(k)] for i in range(n)]]

def expect_leaf(l, target, method, C):
    if 'S' in l and target and target[0] == 'I':
        return expect_series(l, target[1], method)
    if 'F' in l and target and target[0] == 'I':
        return expect_frame(l, target[1], method, C)
    if 'F' in l:
        return expect_frame(l, l['F']['idx'], None, C)
    if 'A' in l and target and target[0] == 'n':
        return expect_array(l, target[1], method)
    if 'A2' in l and target and target[0] == 'n':
        return expect_array2(l, target[1], method)
    return jcanon(l)

def expect_tree(tr, f):
    if 'L' in tr:
        return ['L', [expect_tree(x, f) for x in tr['L']]]
    if 'D' in tr:
        return ['D', [[keycode(k), expect_tree(x, f)] for k, x in tr['D']]]
    return f(tr)

def first_diff(exp, got, path='result'):
    """human-readable first difference between two canonical observations"""
    if type(exp) != type(got) or (isinstance(exp, list) and (len(exp) != len(got) or (exp and isinstance(exp[0], str) and exp[0] != got[0]))):
        return '%s: expected %s got %s' % (path, json.dumps(exp)[:160], json.dumps(got)[:160])
    if isinstance(exp, list):
        if exp and exp[0] in ('S', 'F', 'A', 'A2', 'N', 'X') and exp != got:
            names = {'S': ['kind', 'index', 'cells'], 'F': ['kind', 'index', 'columns', 'cells'], 'A': ['kind', 'cells'], 'A2': ['kind', 'number of columns', 'rows'],
                     'N': ['kind', 'value'], 'X': ['kind', 'identity']}[exp[0]]
            for nm, e, g in zip(names, exp, got):
                if e != g:
                    return '%s: %s of %s leaf: expected %s got %s' % (path, nm, exp[0], json.dumps(e)[:160], json.dumps(g)[:160])
        for i, (e, g) in enumerate(zip(exp, got)):
            d = first_diff(e, g, '%s[%d]' % (path, i))
            if d:
                return d
        return None
    return None if exp == got else '%s: expected %r got %r' % (path, exp, got)

def mixed_clash(lvs, target):
    return bool(target and target[0] == 'I' and any(is_arrj(l) and arr_len(l) > 1 and arr_len(l) != len(target[1]) for l in lvs))

def expect_presync(case):
    lvs = [l for a in case['args'] for l in leaves(a)]
    target = prescribed(lvs, case['how'])
    C = common_columns(lvs, case['columns'])
    d = 'NaN' if case.get('default') is None else case['default']
    def per_col(c):
        def f(l):
            if 'F' in l:
                e = expect_frame(l, target[1], case['method'], None)
                if len(e[2]) == 1:
                    return ['S', e[1], e[3][0]]
                if c is not None and c in e[2]:
                    return ['S', e[1], e[3][e[2].index(c)]]
                return ['N', d]
            return expect_leaf(l, target, case['method'], None)
        return f
    if case['columns'] is None:
        return [[None, [expect_tree(a, lambda l: expect_leaf(l, target, case['method'], None)) for a in case['args']]]]
    if C is None:
        return [[None, [expect_tree(a, per_col(None)) for a in case['args']]]]
    return [[c, [expect_tree(a, per_col(c)) for a in case['args']]] for c in C]

def pyleaves(o):
    if isinstance(o, (list, tuple)):
        return [x for sub in o for x in pyleaves(sub)]
    if isinstance(o, dict):
        return [x for sub in o.values() for x in pyleaves(sub)]
    return [o]

def hexcell(v):
    try:
        f = float(v)
    except Exception:
        return repr(v)
    return 'NaN' if f != f else f.hex()
def snap(o):
    """deep snapshot of caller-owned objects: structure, dtypes, index, name, every cell; other objects by identity"""
    if isinstance(o, (list, tuple)):
        return [type(o).__name__] + [snap(x) for x in o]
    if isinstance(o, dict):
        return ['dict'] + [[repr(k), snap(v)] for k, v in o.items()]
    if isinstance(o, pd.Series):
        return ['S', str(o.dtype), str(o.index.dtype), [str(t) for t in o.index], [hexcell(v) for v in o.values], repr(o.name)]
    if isinstance(o, pd.DataFrame):
        return ['F', [str(d) for d in o.dtypes], str(o.index.dtype), [str(t) for t in o.index], [repr(c) for c in o.columns],
                [[hexcell(v) for v in row] for row in o.values]]
    if isinstance(o, np.ndarray):
        return ['A', str(o.dtype), list(o.shape), [hexcell(v) for v in o.ravel()]]
    return ['O', id(o)]
def snap_diff(a, b, path='operand'):
    if isinstance(a, list) and isinstance(b, list) and len(a) == len(b):
        for i, (x, y) in enumerate(zip(a, b)):
            if x != y:
                return snap_diff(x, y, '%s[%d]' % (path, i)) if isinstance(x, list) and isinstance(y, list) and len(x) == len(y) and len(x) > 8 or (isinstance(x, list) and x and isinstance(x[0], list)) else '%s: %s became %s' % (path, json.dumps(x)[:120], json.dumps(y)[:120])
    return '%s: %s became %s' % (path, json.dumps(a)[:120], json.dumps(b)[:120])

def expected_obs(case):
    """what df_sync / df_reindex must return, from the statement"""
    k = case['kind']; tr = case['tree']; lvs = leaves(tr)
    how = case['how']
    if how is None:                      # df_reindex(obj, None): no index prescribed, the collection comes back as it is
        return jcanon(tr)
    if k == 'reindex' and isinstance(how, dict):
        how = dict(how, direct=True)
    target = prescribed(lvs, how)
    if 'L' not in tr and 'D' not in tr and k == 'sync':
        return jcanon(tr)
    if mixed_clash(lvs, target):
        return ['ERR', 'ValueError']
    C = common_columns(lvs, case.get('columns')) if k == 'sync' else None
    return expect_tree(tr, lambda l: expect_leaf(l, target, case['method'], C))

def followups(case, call, obs, reg, before, operands):
    """the same objects are used again: operands must be untouched, the same call must give the same answer, and a
    later alignment with another fill method must still be right"""
    try:
        if snap(operands) != before:
            return 'the call changed the caller\'s own objects (values must be kept intact): ' + snap_diff(before, snap(operands))
        again = call(case['method'], True)
        if again != obs:
            return 'the same call on the same objects a second time gives another result: ' + str(first_diff(obs, again))
        for m2 in case.get('then', []):
            got = call(m2, False)
            exp = expected_obs(dict(case, method=m2)) if case['kind'] != 'presync' else None
            if exp is not None and got != exp:
                return 'after a first alignment with method=%s, aligning the same objects with method=%s: %s' % (case['method'], m2, first_diff(exp, got))
        if snap(operands) != before:
            return 'repeated calls changed the caller\'s own objects: ' + snap_diff(before, snap(operands))
    except Exception as e:
        return 'a repeated call on the same objects raised %s: %s' % (type(e).__name__, str(e)[:100])
    return None

_EXTRA = [None]
def run_case(case):
    """-> (status, observation); _EXTRA[0] = violation found by the follow-up calls on the same objects"""
    _EXTRA[0] = None
    k = case['kind']; reg = []
    set_axis(case)
    H = lambda: spelled(case, 'how', py_how(case['how']))
    M = lambda: spelled(case, 'method', case['method'])
    try:
        if k == 'presync':
            args = [build(a, reg) for a in case['args']]
            log = []
            sig = case.get('sig')
            if sig == 'a*':
                def rec(a, *args): log.append([a] + list(args)); return 0
            elif sig == 'ab*kw':
                def rec(a, b=None, *args, **kw): log.append([a, b] + list(args) + list(kw.values())); return 0
            elif sig == '*':
                def rec(*args): log.append(list(args)); return 0
            elif len(args) == 1:
                def rec(a): log.append([a]); return 0
            elif len(args) == 2:
                def rec(a, b): log.append([a, b]); return 0
            else:
                def rec(a, b, c): log.append([a, b, c]); return 0
            kw = {}
            if case.get('default') is not None:
                kw['default'] = float(case['default'])
            f = presync(rec, **kw)
            cols = case['columns'] if case['columns'] is not None else False
            via = case.get('via')
            before = snap(args)
            try:
              def invoke():
                if sig:                  # timeseries spread over named, *args and **kwargs parameters
                    nv = case.get('nvar', len(args))
                    pos = args[:2 + nv] if sig == 'ab*kw' else args
                    kws = dict(zip('xyzw', args[len(pos):]))
                    f(*pos, join=H(), method=M(), columns=spelled(case, 'columns', cols), **kws)
                elif via == 'attr':        # presync(f).oj.ffill(...) instead of join= / method= keywords (columns stay 'inner')
                    g = getattr(f, case['how'])
                    g = getattr(g, case['method']) if case['method'] else g
                    g(*args)
                elif via == 'kw':        # the last argument passed by keyword
                    names = 'abc'[:len(args)]
                    f(*args[:-1], join=H(), method=M(), columns=cols, **{names[-1]: args[-1]})
                elif via == 'argname':   # join = the NAME of a parameter: that argument's index is the explicit index
                    f(*args, join=case['argname'], method=M(), columns=cols)
                else:
                    f(*args, join=H(), method=M(), columns=spelled(case, 'columns', cols))
              invoke()
            except Exception as e:
                if not log:
                    raise
                return 'ok', ['AFTER-CALLS', type(e).__name__]
            # the column a call was made for is the name of the Series cut out of a multi-column frame;
            # calls are observed in column order (presync itself uses header order or sorted order)
            multi = [('F' in l and len(l['F']['cols']) > 1) for a in case['args'] for l in leaves(a)]
            def col_of(call):
                flat = [x for a in call for x in pyleaves(a)]
                names = [x.name for x, m in zip(flat, multi) if m and isinstance(x, pd.Series)]
                return colcode(names[0]) if names and known_name(names[0]) else 0
            def observe():
                log.sort(key=col_of)
                return [[canon(x, reg) for x in call] for call in log]
            obs_calls = observe()
            def again(m, same):
                del log[:]
                invoke()
                return observe()
            _EXTRA[0] = followups(dict(case, then=[]), again, obs_calls, reg, before, args)
            return 'ok', obs_calls
        obj = build(case['tree'], reg)
        if k == 'columns':
            r = df_columns(obj, spelled(case, 'how', case['how']))
            return 'ok', (None if r is None else ['n', int(r)] if isinstance(r, (int, np.integer)) else
                          ['C', sorted(colcode(c) for c in r)] if all(known_name(c) for c in r) else ['C?', [str(c) for c in r]])
        if k == 'index':
            r = df_index(obj, H())
            return 'ok', (None if r is None else ['n', int(r)] if isinstance(r, (int, np.integer)) else ['I', cdays(r)] if (isinstance(r, pd.Index) and (isinstance(r, pd.DatetimeIndex) or all(isinstance(x, datetime.datetime) for x in r))) else ['not-an-index', type(r).__name__])
        before = snap(obj)
        def call(m, same):
            mm = M() if same else m
            cols = False if (case.get('columns') is None and case.get('colfalse')) else spelled(case, 'columns', case.get('columns'))
            r = df_reindex(obj, H(), method=mm) if k == 'reindex' else df_sync(obj, H(), mm, cols)
            return canon(r, reg)
        obs = call(None, True)
        _EXTRA[0] = followups(case, call, obs, reg, before, obj)
        return 'ok', obs
    except Exception as e:
        n = type(e).__name__
        n = n if n in ('ValueError', 'KeyError', 'TypeError', 'IndexError', 'AttributeError') else 'Other'
        return n, ['ERR', n]

def impl(case):
    status, obs = run_case(case)
    k = case['kind']; viol = None
    if k == 'presync':
        exp = expect_presync(case)
        if status != 'ok':
            viol = 'presync-decorated call raised %s on a valid collection' % status
        elif obs and obs[0] == 'AFTER-CALLS':
            viol = 'presync raised %s after calling the function' % obs[1]
        else:
            d = first_diff([e[1] for e in exp], obs, 'calls')
            if d:
                viol = 'presync did not hand the function the operands aligned on the prescribed index/columns: ' + d
            obs = [[e[0], o] for e, o in zip(exp, obs)] if len(exp) == len(obs) else ['CALLS', len(obs)]
        return {'status': status, 'obs': obs, 'viol': viol or _EXTRA[0]}
    tr = case['tree']; lvs = leaves(tr)
    how = case['how']
    if k == 'reindex' and isinstance(how, dict):
        how = dict(how, direct=True)
    target = prescribed(lvs, how) if how is not None else None
    if k == 'columns':
        C = common_columns(lvs, case['how'])
        exp = None if C is None else ['C', C]
        if status != 'ok':
            viol = 'df_columns raised %s' % status
        elif obs != exp:
            viol = 'df_columns(%s) = %s but the common column set is %s' % (case['how'], obs, exp)
        return {'status': status, 'obs': obs, 'viol': viol}
    if k == 'index':
        exp = None if target is None else [target[0], target[1]]
        if status != 'ok':
            viol = 'df_index raised %s' % status
        elif obs != exp:
            viol = 'df_index(%s) = %s but the prescribed index is %s' % (case['how'], obs, exp)
        return {'status': status, 'obs': obs, 'viol': viol}
    exp = expected_obs(case)
    if obs != exp:
        if status != 'ok' and exp[0] != 'ERR':
            viol = '%s raised %s on a valid collection' % ('df_sync' if k == 'sync' else 'df_reindex', status)
        else:
            viol = '%s(join=%s, method=%s%s): %s' % ('df_sync' if k == 'sync' else 'df_reindex', json.dumps(case['how']), case['method'],
                                                   ', columns=%s' % case['columns'] if k == 'sync' else '', first_diff(exp, obs))
    return {'status': status, 'obs': obs, 'viol': viol or _EXTRA[0]}

# ------------------------------------------------------------------ classification
def case_leaves(case):
    return [l for a in case['args'] for l in leaves(a)] if case['kind'] == 'presync' else leaves(case['tree'])

def nontrivial(case, result):
    lvs = case_leaves(case)
    idx = [set(idx_of(l)) for l in lvs if is_pdj(l)]
    for i in range(len(idx)):
        for j in range(i + 1, len(idx)):
            if idx[i] != idx[j] and idx[i] & idx[j]:
                return True
    arrs = {arr_len(l) for l in lvs if is_arrj(l)}
    return len(arrs) > 1

def shape(case):
    h = case['how']
    return '%s:%s:%s' % (case['kind'] + ('-np2' if any('A2' in l for l in case_leaves(case)) else '-np' if any('A' in l for l in case_leaves(case)) else ''), 'explicit' if isinstance(h, dict) else h, case.get('method'))   # h None: df_reindex(obj, None)

# ------------------------------------------------------------------ generation
def rand_val(rng, pnan=0.3, pinf=0.0):
    if pinf and rng.random() < pinf:
        return rng.choice([INF, -INF])
    return None if rng.random() < pnan else rng.randrange(-9, 10)

def index_family(rng, k, style=None):
    """k sorted subsets of the grid: random / nested / disjoint / overlapping blocks / with empties"""
    style = style or rng.choice(['random', 'random', 'nested', 'disjoint', 'blocks', 'empty', 'same', 'ends'])
    G = list(range(GRID))
    def sub(pool, p=None):
        p = rng.choice([0.3, 0.5, 0.8]) if p is None else p
        return sorted(x for x in pool if rng.random() < p)
    if style == 'random':
        return [sub(G) for _ in range(k)]
    if style == 'nested':
        out = [sub(G, 0.8)]
        for _ in range(k - 1):
            out.append(sub(out[-1], 0.7))
        rng.shuffle(out)
        return out
    if style == 'disjoint':
        owner = [rng.randrange(k) for _ in G]
        return [[g for g in G if owner[g] == i and rng.random() < 0.8] for i in range(k)]
    if style == 'blocks':
        out = []
        for _ in range(k):
            a = rng.randrange(0, GRID - 2); b = rng.randrange(a + 1, GRID + 1)
            out.append(list(range(a, b)))
        return out
    if style == 'same':
        s = sub(G)
        return [list(s) for _ in range(k)]
    if style == 'ends':            # the last index repeats an earlier one and the first repeats a later one
        out = [sub(G) for _ in range(k)]
        if k >= 3:
            out[-1] = list(out[rng.randrange(0, k - 1)])
            if rng.random() < 0.5:
                out[0] = list(out[rng.randrange(1, k - 1)]) if k > 3 else list(out[1])
        return out
    out = [sub(G) for _ in range(k)]
    out[rng.randrange(k)] = []
    return out

def rand_ts(rng, idx, pframe=0.3, cols_pool='abcd'):
    if rng.random() < pframe:
        nc = rng.choice([1, 2, 2, 3])
        cols = rng.sample(cols_pool, nc)
        pn = rng.choice([0.2, 0.5])
        if rng.random() < 0.1:                      # an int-dtype frame (no NaN possible)
            return {'F': {'cols': cols, 'idx': list(idx), 'rows': [[rand_val(rng, 0) for _ in cols] for _ in idx]}, 'dt': 'int'}
        rows = [[rand_val(rng, pn, 0.03) for _ in cols] for _ in idx]
        for r in rows:
            if rng.random() < 0.2:
                r[:] = [None] * nc
        return {'F': {'cols': cols, 'idx': list(idx), 'rows': rows}}
    if rng.random() < 0.12:                         # an int-dtype series
        return {'S': [[t, rand_val(rng, 0)] for t in idx], 'dt': 'int'}
    pn = rng.choice([0.1, 0.3, 0.6])
    return {'S': [[t, rand_val(rng, pn, 0.03)] for t in idx]}

class Ids:
    def __init__(self): self.n = 0
    def opaque(self, rng):
        self.n += 1
        return {'X': self.n, 'k': rng.choice(['str', 'int', 'none'])}

def nest(rng, items, depth):
    """arrange items (in order) into a random list/dict nest of at most the given depth"""
    keys = 'pqrstuvw'
    if depth <= 1 or len(items) <= 1 or rng.random() < 0.35:
        kids = items
    else:
        kids = []; i = 0
        while i < len(items):
            n = rng.choice([1, 1, 2, 3])
            grp = items[i:i + n]; i += n
            kids.append(nest(rng, grp, depth - 1) if (len(grp) > 1 or rng.random() < 0.3) else grp[0])
    if rng.random() < 0.4 and len(kids) <= len(keys):
        ks = rng.sample(keys, len(kids))
        return {'D': [[k, x] for k, x in zip(ks, kids)]}
    return {'L': list(kids)}

def rand_collection(rng, pframe=0.3, max_ts=5, popaque=0.25, pnum=0.0):
    k = rng.randrange(1, max_ts + 1)
    ids = Ids()
    items = [rand_ts(rng, idx, pframe) for idx in index_family(rng, k)]
    n_op = sum(1 for _ in range(3) if rng.random() < popaque)
    for _ in range(n_op):
        items.insert(rng.randrange(len(items) + 1), ids.opaque(rng))
    if rng.random() < pnum:
        items.insert(rng.randrange(len(items) + 1), {'N': rand_val(rng, 0.2)})
    return nest(rng, items, rng.choice([1, 2, 3]))

def rand_explicit(rng):
    p = rng.choice([0.2, 0.5, 0.9])
    return {'x': sorted(x for x in range(-1, GRID + 2) if rng.random() < p), 'as': rng.choice(['idx', 'idx', 'ts', 'dict'])}

def rand_arrays(rng):
    ids = Ids()
    k = rng.randrange(1, 5)
    def arr():
        n = rng.randrange(0, 7)
        if rng.random() < 0.45:        # 2-d array, 1-3 columns
            kk = rng.choice([1, 2, 2, 3])
            return {'A2': {'k': kk, 'rows': [[rand_val(rng, 0.3) for _ in range(kk)] for _ in range(n)]}}
        return {'A': [rand_val(rng, 0.3) for _ in range(n)]}
    items = [arr() for _ in range(k)]
    if rng.random() < 0.4:
        items.insert(rng.randrange(len(items) + 1), ids.opaque(rng))
    return nest(rng, items, rng.choice([1, 2, 3]))

def gen_cases(rng, tier):
    q = tier == 'quick'
    cases = []
    for _ in range(110 if q else 1500):                      # df_sync: every policy x method, random column policy
        tr = rand_collection(rng)
        ex = rand_explicit(rng)            # the explicit index as pd.Index, as a timeseries or as dict(index=..)
        for how in POLICIES + [ex]:
            for m in METHODS:
                cases.append({'kind': 'sync', 'tree': tr, 'how': how, 'method': m, 'columns': rng.choice(['ij', 'ij', 'oj', 'lj', 'rj', None])})
    for _ in range(60 if q else 800):                        # frames only: every column policy
        tr = rand_collection(rng, pframe=0.9, max_ts=4)
        for cp in POLICIES + [None]:
            cases.append({'kind': 'sync', 'tree': tr, 'how': rng.choice(POLICIES), 'method': rng.choice(METHODS), 'columns': cp})
    for _ in range(50 if q else 700):                        # df_reindex
        tr = rand_collection(rng)
        ex = rand_explicit(rng)
        for how in POLICIES + [ex]:
            for m in METHODS:
                cases.append({'kind': 'reindex', 'tree': tr, 'how': how, 'method': m})
    for _ in range(150 if q else 2000):                      # df_index
        tr = rand_collection(rng) if rng.random() < 0.8 else rand_arrays(rng)
        hows = POLICIES + ([dict(rand_explicit(rng), **{'as': rng.choice(['idx', 'ts', 'dict'])})] if not any(is_arrj(l) for l in leaves(tr)) else [])
        for how in hows:
            cases.append({'kind': 'index', 'tree': tr, 'how': how})
    for _ in range(50 if q else 700):                        # presync: recording function of 1-3 arguments
        n = rng.choice([1, 2, 2, 3])
        tr = rand_collection(rng, pframe=0.4, max_ts=4, popaque=0.15, pnum=0.3)
        kids = tr['L'] if 'L' in tr else [x for _, x in tr['D']]
        kids = kids[:n] if len(kids) >= n else kids + [{'N': 1}] * (n - len(kids))
        ex = rand_explicit(rng); ex['as'] = 'idx'
        for how in POLICIES + [ex]:
            for m in METHODS:
                c = {'kind': 'presync', 'args': kids, 'how': how, 'method': m, 'columns': rng.choice(['ij', 'oj', 'lj', 'rj', None]),
                     'default': rng.choice([None, 0, 1])}
                via = rng.choice([None, None, 'kw', 'attr', 'argname'])
                if via == 'attr' and not isinstance(how, dict):
                    c.update(via='attr', columns='ij')
                elif via == 'kw':
                    c['via'] = 'kw'
                elif via == 'argname' and isinstance(how, dict):          # the index of a timeseries argument, named by its parameter
                    j = [i for i, a in enumerate(kids) if is_pdj(a)]
                    if j:
                        c.update(via='argname', argname='abc'[j[-1]], how={'x': idx_of(kids[j[-1]]), 'as': 'idx'})
                cases.append(c)
    for _ in range(30 if q else 400):                        # presync-decorated functions with *args / **kwargs receiving timeseries
        n = rng.choice([2, 3, 3, 4])
        kids = [rand_ts(rng, idx, 0.25) for idx in index_family(rng, n)]
        if rng.random() < 0.3:
            j = rng.randrange(n); kids[j] = {'L': [kids[j], {'N': 2}]}
        sig = rng.choice(['a*', 'ab*kw', 'ab*kw', '*'])
        nvar = rng.randrange(0, n - 1) if sig == 'ab*kw' else n
        ex = rand_explicit(rng); ex['as'] = 'idx'
        for how in POLICIES + [ex]:
            for m in METHODS:
                cases.append({'kind': 'presync', 'args': kids, 'how': how, 'method': m, 'columns': rng.choice(['ij', 'oj', None]),
                              'default': rng.choice([None, 0]), 'sig': sig, 'nvar': nvar})
    for _ in range(40 if q else 500):                        # the explicit index given as a TIMESERIES / dict whose own index is object-dtype datetimes
        tr = rand_collection(rng, max_ts=3)
        for l in leaves(tr):
            if is_pdj(l) and rng.random() < 0.5:
                l['oi'] = True
        for m in METHODS:
            ex = dict(rand_explicit(rng), oi=True); ex['as'] = rng.choice(['ts', 'ts', 'dict', 'idx'])
            cases.append({'kind': rng.choice(['reindex', 'reindex', 'sync', 'index']), 'tree': tr, 'how': ex, 'method': m, 'columns': 'ij'})
    for _ in range(40 if q else 500):                        # dicts whose keys are called 'index' / 'values' / 'data' / 'columns' (dict(index=spx, stock=aapl))
        n = rng.choice([2, 3, 3, 4])
        items = [rand_ts(rng, idx, 0.2) for idx in index_family(rng, n)]
        keys = ['index'] + rng.sample(['values', 'data', 'columns', 'a', 'b'], n - 1)
        rng.shuffle(keys)
        k2 = rng.randrange(1, n + 1)
        d = {'D': [[k, x] for k, x in zip(keys[:k2], items[:k2])]}
        rest = items[k2:]
        shape_ = rng.choice(['top', 'inlist', 'indict'])
        tr = d if (shape_ == 'top' and not rest) else {'L': [d] + rest} if shape_ != 'indict' else {'D': [['p', d]] + [[kk, x] for kk, x in zip('qrs', rest)]}
        ex = rand_explicit(rng)
        for how in POLICIES + [ex]:
            m = rng.choice(METHODS)
            cases.append({'kind': rng.choice(['sync', 'reindex']), 'tree': tr, 'how': how, 'method': m, 'columns': 'ij'})
            if how != ex:
                cases.append({'kind': 'index', 'tree': tr, 'how': how})
        args = [d] + rest[:2]
        cases.append({'kind': 'presync', 'args': args, 'how': rng.choice(POLICIES), 'method': rng.choice(METHODS), 'columns': rng.choice(['ij', None]), 'default': None})
    for _ in range(40 if q else 500):                        # lj / rj with >= 3 series whose last (first) index repeats another one
        k = rng.choice([3, 3, 4, 5])
        items = [rand_ts(rng, idx, 0.15) for idx in index_family(rng, k, 'ends')]
        tr = nest(rng, items, rng.choice([1, 1, 2]))
        for how in ('lj', 'rj'):
            for m in METHODS:
                cases.append({'kind': rng.choice(['sync', 'sync', 'reindex']), 'tree': tr, 'how': how, 'method': m, 'columns': 'ij'})
    for _ in range(90 if q else 1200):                       # bare numpy arrays (1-d and 2-d)
        tr = rand_arrays(rng)
        for how in POLICIES:
            for m in METHODS:
                cases.append({'kind': rng.choice(['sync', 'sync', 'reindex']), 'tree': tr, 'how': how, 'method': m, 'columns': 'ij'})
    for _ in range(40 if q else 400):                        # malformed: arrays mixed with timeseries
        ids = Ids()
        idxs = index_family(rng, 2)
        items = [rand_ts(rng, idxs[0], 0.0), rand_ts(rng, idxs[1], 0.0), {'A': [rand_val(rng) for _ in range(rng.randrange(0, 5))]}]
        rng.shuffle(items)
        cases.append({'kind': 'sync', 'tree': {'L': items}, 'how': rng.choice(POLICIES), 'method': rng.choice(METHODS), 'columns': 'ij'})
    for _ in range(60 if q else 800):                        # df_columns directly, every policy
        tr = rand_collection(rng, pframe=0.8, max_ts=4)
        for cp in POLICIES:
            cases.append({'kind': 'columns', 'tree': tr, 'how': cp})
    for _ in range(12 if q else 120):                        # long series (120-250 rows) and long arrays (100-150)
        pool = list(range(300))
        items = [{'S': [[t, rand_val(rng, 0.3)] for t in sorted(rng.sample(pool, rng.randrange(120, 251)))]} for _ in range(rng.choice([2, 3]))]
        if rng.random() < 0.5:
            idx = sorted(rng.sample(pool, 130))
            items.append({'F': {'cols': ['b', 'a'], 'idx': idx, 'rows': [[rand_val(rng, 0.4), rand_val(rng, 0.4)] for _ in idx]}})
        tr = nest(rng, items, 2)
        for how in rng.sample(POLICIES, 2):
            cases.append({'kind': rng.choice(['sync', 'reindex']), 'tree': tr, 'how': how, 'method': rng.choice(METHODS), 'columns': 'ij'})
        arrs = {'L': [{'A': [rand_val(rng, 0.3) for _ in range(rng.randrange(100, 151))]},
                      {'A2': {'k': 2, 'rows': [[rand_val(rng, 0.3), rand_val(rng, 0.3)] for _ in range(rng.randrange(100, 151))]}}]}
        cases.append({'kind': 'sync', 'tree': arrs, 'how': rng.choice(POLICIES), 'method': rng.choice(METHODS), 'columns': 'ij'})
    for _ in range(25 if q else 250):                        # df_reindex(obj, None, method): no index prescribed -> unchanged (oracle only)
        tr = rand_collection(rng)
        for m in METHODS:
            cases.append({'kind': 'reindex', 'tree': tr, 'how': None, 'method': m, 'nomodel': True})
    for _ in range(10 if q else 60):                         # not a container: returned as is
        cases.append({'kind': 'sync', 'tree': rand_ts(rng, index_family(rng, 1)[0]), 'how': rng.choice(POLICIES), 'method': rng.choice(METHODS), 'columns': 'ij'})
    for c in cases:
        if c['kind'] in ('reindex', 'index', 'columns'):
            c.pop('columns', None)
    return [decorate(rng, c) for c in cases]

# ---- kinds of input the plain streams do not reach: other tick lengths / origins, other spellings, other names
LONGCOLS = {'a': 'px_last', 'b': 'vol 2', 'c': 'Ab', 'd': 'close'}
INTCOLS = {'a': 3, 'b': 1, 'c': 4, 'd': 2}
LONGKEYS = {'p': 'key one', 'q': 'K2'}
INTKEYS = {k: i + 1 for i, k in enumerate('pqrstuvw')}
KWKEYS = {'p': 'index', 'q': 'columns', 'r': 'data', 's': 'values'}      # keys that look like constructor / indexed-dict fields
def map_tree(tr, fc, fk):
    if 'L' in tr:
        return {'L': [map_tree(x, fc, fk) for x in tr['L']]}
    if 'D' in tr:
        return {'D': [[fk.get(k, k), map_tree(x, fc, fk)] for k, x in tr['D']]}
    if 'F' in tr:
        return dict(tr, F=dict(tr['F'], cols=[fc.get(c, c) for c in tr['F']['cols']]))
    return tr

def decorate(rng, case):
    c = dict(case)
    r = rng.random()
    if r < 0.35:
        c['unit'] = rng.choice([3600 * 10**6, 1, 37000001, 10**6, DAYUS])
        c['d0'] = rng.choice(['1900-01-01', '2020-02-29T13:45:10.000123', '2250-12-31', '2020-01-01'])
    if rng.random() < 0.3 and not c.get('via') in ('attr', 'argname'):
        sp = {}
        if isinstance(c['how'], str):
            sp['how'] = rng.choice(HOW_SPELL[c['how'][0]])
        if c.get('method'):
            sp['method'] = rng.choice(METHOD_SPELL[c['method']])
            if sp['method'] == 'pad' and any(is_arrj(l) for l in case_leaves(c)):
                sp['method'] = 'ffill'       # df_fillna(array, 'pad') raises TypeError with pandas 3 (fillna(method=) is gone): reported for C12
        if isinstance(c.get('columns'), str) and c['kind'] in ('sync', 'presync'):
            sp['columns'] = rng.choice(HOW_SPELL[c['columns'][0]])
        c['spell'] = sp
    if c['kind'] == 'sync' and c.get('columns') is None and rng.random() < 0.5:
        c['colfalse'] = True                     # columns=False is the other spelling of 'leave the columns alone'
    if rng.random() < 0.25:                      # timezone-aware indices, every member in the same zone
        c['tz'] = rng.choice(['UTC', 'Europe/London', 'US/Eastern', 'Asia/Tokyo'])
    elif rng.random() < 0.25:                    # members / explicit index carrying an OBJECT-dtype index of datetimes
        c = json.loads(json.dumps(c))
        for l in case_leaves(c):
            if is_pdj(l) and rng.random() < 0.6:
                l['oi'] = True
        if isinstance(c['how'], dict) and rng.random() < 0.7:
            c['how']['oi'] = True
    if c['kind'] in ('sync', 'reindex'):         # the same objects aligned again with another fill method
        others = [m for m in METHODS if m != c.get('method')]
        arrays = any(is_arrj(l) for l in case_leaves(c))
        if arrays or rng.random() < 0.5:
            c['then'] = others if arrays else [rng.choice(others)]
    if rng.random() < 0.25:
        fc = rng.choice([LONGCOLS, INTCOLS, {}]); fk = rng.choice([LONGKEYS, INTKEYS, KWKEYS, KWKEYS, {}])
        if 'tree' in c:
            c['tree'] = map_tree(c['tree'], fc, fk)
        else:
            c['args'] = [map_tree(a, fc, fk) for a in c['args']]
    return c

# ------------------------------------------------------------------ shrinking
def _variants(tr):
    if 'L' in tr or 'D' in tr:
        kids = tr['L'] if 'L' in tr else tr['D']
        for i in range(len(kids)):
            rest = kids[:i] + kids[i + 1:]
            yield {'L': rest} if 'L' in tr else {'D': rest}
        for i in range(len(kids)):
            sub = kids[i] if 'L' in tr else kids[i][1]
            for v in _variants(sub):
                new = list(kids); new[i] = v if 'L' in tr else [kids[i][0], v]
                yield {'L': new} if 'L' in tr else {'D': new}
    elif 'S' in tr:
        for i in range(len(tr['S'])):
            yield {'S': tr['S'][:i] + tr['S'][i + 1:]}
    elif 'F' in tr:
        f = tr['F']
        for i in range(len(f['idx'])):
            yield {'F': {'cols': f['cols'], 'idx': f['idx'][:i] + f['idx'][i + 1:], 'rows': f['rows'][:i] + f['rows'][i + 1:]}}
    elif 'A' in tr:
        for i in range(len(tr['A'])):
            yield {'A': tr['A'][:i] + tr['A'][i + 1:]}
    elif 'A2' in tr:
        rows = tr['A2']['rows']
        for i in range(len(rows)):
            yield {'A2': {'k': tr['A2']['k'], 'rows': rows[:i] + rows[i + 1:]}}

def shrink(case):
    if case['kind'] == 'presync':
        for j, a in enumerate(case['args']):
            for v in _variants(a):
                args = list(case['args']); args[j] = v
                yield dict(case, args=args)
        return
    for v in _variants(case['tree']):
        yield dict(case, tree=v)

LEVEL_TEXT = ('machine-checked Coq theorems (C03_*, for every nested list/dict collection, every sorted index and every join policy, no '
              'bound): common index, values intact, missing = NaN, ffill/bfill = as-of join, numpy end alignment, structure and pass-through '
              'members preserved, common column set; the Gallina model is compared inside Coq with df_sync / df_reindex / df_index / presync '
              'of the current tree on thousands of generated collections, and a property-level oracle recomputes every cell from the statement')
LEVEL_NOTE = ('trusted: Coq kernel/vm_compute; modelled not verified: pandas/numpy primitives (Index.intersection/union, reindex with '
              'method, masking, concatenate) and the harness canonicalisation. Depends on the C19 repair of loops._wrapped (companions '
              'passed as a one-shot generator) for nested containers in df_sync')
TECHNIQUE = 'Coq proof (structural induction over nested containers and sorted association lists) + differential correspondence in vm_compute + exact Python oracle'
