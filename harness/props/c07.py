"""C07 — cmp is a total preorder over mixed types; sort / dictable.sort follow it stably.
Also the shared value vocabulary (JSON <-> python <-> Coq `val`) reused by c11.py."""
import math, datetime, functools, json
from implutil import dt2us, us2dt, DAYUS, call, err_name

ID = 'C07'
TRANSLATOR = []
COQ_EXEC = ['exec.X_sort']
COQ_IMPORTS = 'From PB Require Import model.M_sort.\n'
PER_FILE = 500
CASE_TIMEOUT = 5
RULE = ('cases: (1) cmp on ALL ordered pairs of a fixed %d-value universe (None, bools, np.bool_, ints, floats, np ints/floats, adjacent ints beyond 2^53 and float(2**53), two NaN objects, '
        '+-inf, strings incl. non-ASCII, datetimes/dates/np.datetime64, empty and non-empty tuples/lists/dicts (string, int, float, None, bool, datetime and mixed-type keys), nested, two distinct empty dicts, pd.Timestamp / np.datetime64 equal and unequal to datetimes, containers differing only by True vs 1 vs 1.0), '
        'one case per row, compared entry by entry with the model, plus the laws (range, reflexive, antisymmetric, transitive, int/float 0, NaN above '
        'finite) on all pairs and all triples of the real matrix; (2) random nested triples (x, perturbed x, perturbed again) - all 9 comparisons '
        'compared with the model, laws checked; (3) sort(xs) and sorted(xs, key=Cmp) on lists (0-8, thorough 0-12) of scalars from the property domain '
        '(None, ints, finite floats, NaN, str, datetimes) and equal-length tuples of them - compared element by element (identity of NaN included) with '
        'the model stable sort, oracle = permutation and non-decreasing under the real cmp; (4) dictable.sort on tables of 0-8 rows, 2-4 columns, key '
        'columns (as arguments or as one list) / key functions / explicit value orders, plus large tables of 101-400 rows with few distinct keys and a row-id column - whole result table and the result of sorting it again compared with the model; oracle = '
        'stable index sort by key (ties by original position), idempotent, value-order placement. non-trivial = comparison decided below the type '
        'level / sort or table sort that moves something; distinct by full input')

EXPLANATION = ('theorems C07_* (coq/props/C07.v) hold for every value of the nested mixed-type universe, every list and every table (structural '
               'induction, no bound): cmp in {-1,0,1}, total, reflexive, antisymmetric, transitive (all <,=,<= combinations), int/float equality, NaN above '
               'finite; sort = permutation + sorted between any two positions; dictable.sort = the stable sort (indices strictly increasing in (key, '
               'position)), idempotent, value orders. The correspondence ties the executable model to /repo on every run, evaluated inside Coq.')
TRUSTED = ['modelled, not verified: CPython sorted() is a stable sort (insertion sort in the model), dict insertion order, str comparison by code point',
           'harness mapping of python / numpy scalars to model values (as_primitive is exercised by the real cmp; the model starts from the primitive)']
ASSUMPTIONS = ['ints are exact at any size (cmp compares ints exactly since /repo d277e58; adjacent ints beyond 2^53 and 10**30 are generated); floats are half-integers '
               'of magnitude < 2^50 or the exactly representable float(2**53), so python floats and the model\'s exact arithmetic agree', 'dict keys are hashable values of any, also mixed, types (items are ordered by cmp of their keys, as /repo does since 61f2e35)',
               'pd.Timestamp, np.datetime64 and datetime.date are datetimes (one model value); -inf < every finite number < +inf < NaN (fixes/C07-inf.patch; the pinned cmp ranked +-inf with NaN)',
               'sort / table cells: None, ints, floats incl. +-inf and NaN, strings, datetimes (bools only in the cmp laws, as the property says; +-inf are generated for sort and tables since the repaired cmp agrees with python\'s native order on them)']
EXHAUSTIVE = {'quick': False, 'thorough': False}

# ------------------------------------------------------------------ value vocabulary
# JSON form: None | ['b',bool] | ['i',n] | ['f',twice] | ['nan',id] | ['inf',neg] | ['s',str] | ['d',us] | ['t',[..]] | ['l',[..]] | ['m',[[k,v]..]]
#            numpy / date spellings: ['npb',bool] ['npi',n] ['npf',twice] ['npnan',id] ['npd',us] ['date',us]
def build(v, nans):
    """JSON value -> python object; nans maps NaN id -> the one float object with that identity"""
    if v is None:
        return None
    k, a = v[0], v[1]
    if k == 'b': return bool(a)
    if k == 'i': return int(a)
    if k == 'f': return a / 2.0
    if k == 'nan':
        if a not in nans:
            nans[a] = float('nan')
        return nans[a]
    if k == 'inf': return -math.inf if a else math.inf
    if k == 's': return a
    if k == 'd': return us2dt(a)
    if k == 't': return tuple(build(x, nans) for x in a)
    if k == 'l': return [build(x, nans) for x in a]
    if k == 'm': return {(kk if isinstance(kk, str) else build(kk, nans)): build(x, nans) for kk, x in a}      # a key is a str or any JSON value
    import numpy as np
    if k == 'npb': return np.bool_(a)
    if k == 'npi': return np.int64(a)
    if k == 'npi32': return np.int32(a)
    if k == 'npf32': return np.float32(a / 2.0)
    if k == 'npf': return np.float64(a / 2.0)
    if k == 'npnan':
        key = ('np', a)
        if key not in nans:
            nans[key] = np.float64('nan')
        return nans[key]
    if k == 'npd': return np.datetime64(us2dt(a))
    if k == 'pdt':
        import pandas as pd
        return pd.Timestamp(us2dt(a))
    if k == 'adt':                                   # timezone-aware datetime: a = instant (UTC), v[2] = offset of its zone in minutes
        tz = datetime.timezone(datetime.timedelta(minutes=v[2]))
        return (us2dt(a) + datetime.timedelta(minutes=v[2])).replace(tzinfo=tz)
    if k == 'npdu':                                  # np.datetime64 of resolution v[2] (Y M W D h m s ms us ns), truncated to it
        return np.datetime64(us2dt(a)).astype('datetime64[%s]' % v[2])
    if k == 'date': return us2dt(a).date()
    raise ValueError(v)

def coq_str_lit(s):
    return '"' + s.replace('"', '""') + '"'

def coq_name(s):
    return '(C_ %s)' % coq_str_lit(s)

def npdu_us(a, unit):
    import numpy as np
    return dt2us(np.datetime64(us2dt(a)).astype('datetime64[%s]' % unit).astype('datetime64[us]').item())

def coq_val(v):
    if v is None:
        return 'VNone'
    k, a = v[0], v[1]
    if k == 'npdu': return '(VDate (%d))' % npdu_us(a, v[2])
    if k in ('b', 'npb'): return '(VBool %s)' % ('true' if a else 'false')
    if k in ('i', 'npi', 'npi32'): return '(VNum false (%d))' % (2 * a)
    if k in ('f', 'npf', 'npf32'): return '(VNum true (%d))' % a
    if k == 'nan': return '(VNaN %d%%N)' % a
    if k == 'npnan': return '(VNaN %d%%N)' % (1000 + a)
    if k == 'inf': return '(VInf %s)' % ('true' if a else 'false')
    if k == 's':
        if all(32 <= ord(c) < 127 for c in a):
            return '(S_ %s)' % coq_str_lit(a)
        return '(VStr [%s])' % '; '.join('%d%%N' % ord(c) for c in a)
    if k in ('d', 'npd', 'date', 'pdt', 'adt'): return '(VDate (%d))' % a          # an aware datetime is its instant
    if k == 't': return '(VTuple [%s])' % '; '.join(coq_val(x) for x in a)
    if k == 'l': return '(VList [%s])' % '; '.join(coq_val(x) for x in a)
    if k == 'm': return '(VDict [%s])' % '; '.join('(%s, %s)' % (coq_val(['s', kk] if isinstance(kk, str) else kk), coq_val(x)) for kk, x in a)
    raise ValueError(v)

def canon(x, nans):
    """python object -> canonical observation (the same rendering as X_sort.JV)"""
    if x is None:
        return None
    tn = type(x).__name__
    if isinstance(x, bool) or tn in ('bool_', 'bool'):
        return ['b', bool(x)]
    if isinstance(x, float) or tn.startswith('float'):
        if x != x:
            for k, o in nans.items():
                if o is x:
                    return ['nan', k if not isinstance(k, tuple) else 1000 + k[1]]
            return ['nan', -1]
        if x in (math.inf, -math.inf):
            return ['inf', bool(x < 0)]
        t = x * 2
        return ['f', int(t)] if t == int(t) else ['f?', float(x).hex()]
    if isinstance(x, int) or tn.startswith('int'):
        return ['i', int(x)]
    if isinstance(x, str):
        return ['s', str(x)]
    if tn == 'datetime64':
        x = x.astype('datetime64[us]').item()
    if isinstance(x, datetime.datetime) and x.tzinfo is not None:
        x = x.astimezone(datetime.timezone.utc).replace(tzinfo=None)          # aware: the instant
    if isinstance(x, datetime.datetime):            # pd.Timestamp is a datetime
        return ['d', dt2us(datetime.datetime(x.year, x.month, x.day, x.hour, x.minute, x.second, x.microsecond))]
    if isinstance(x, datetime.date):
        return ['d', dt2us(datetime.datetime(x.year, x.month, x.day))]
    if isinstance(x, tuple):
        return ['t', [canon(y, nans) for y in x]]
    if isinstance(x, list):
        return ['l', [canon(y, nans) for y in x]]
    if isinstance(x, dict):
        return ['m', [[canon(k, nans), canon(y, nans)] for k, y in x.items()]]
    return ['?', tn]

def vrank_type(v):
    """type rank of a JSON value (for non-triviality only)"""
    if v is None: return 0
    k = v[0]
    return {'b': 1, 'npb': 1, 'd': 2, 'npd': 2, 'date': 2, 'pdt': 2, 'adt': 2, 'npdu': 2, 'm': 3, 'i': 4, 'f': 4, 'nan': 4, 'inf': 4, 'npi': 4, 'npf': 4, 'npi32': 4, 'npf32': 4, 'npnan': 4, 'l': 5, 's': 6, 't': 7}[k]

D0 = 737425 * DAYUS     # 2020-01-01
FUT = 821700 * DAYUS + 86399999999      # the last microsecond of a day in 2250
PAST = 400 * DAYUS + 1                  # year 2, one microsecond past midnight
# adjacent ints beyond 2^53 (cmp compares ints exactly) and float(2**53), which equals the int 2**53
HUGE = [['i', 2 ** 53], ['i', 2 ** 53 + 1], ['i', 2 ** 53 + 2], ['i', -(2 ** 53) - 1], ['i', 10 ** 30], ['f', 2 ** 54]]
UNIVERSE = [
    None, ['b', True], ['b', False], ['npb', True],
    ['i', 0], ['i', 1], ['i', -1], ['i', 2], ['f', 2], ['f', 1], ['f', -1], ['f', 3], ['i', 2 ** 40], ['f', 2 ** 41 + 1], ['npi', 1], ['npf', 3],
    ['i', 2 ** 53], ['i', 2 ** 53 + 1], ['i', 2 ** 53 + 2], ['i', -(2 ** 53) - 1], ['i', 10 ** 30], ['f', 2 ** 54], ['npi', 2 ** 53 + 1],
    ['t', [['i', 2 ** 53 + 1]]], ['t', [['f', 2 ** 54]]],
    ['nan', 0], ['nan', 1], ['npnan', 0], ['inf', False], ['inf', True],
    ['s', ''], ['s', 'a'], ['s', 'A'], ['s', 'ab'], ['s', 'b'], ['s', 'None'], ['s', '1'], ['s', 'é'], ['s', 'a中'],
    ['d', D0], ['d', D0 + 1000000], ['date', D0], ['npd', D0 + 1000000], ['d', D0 - DAYUS], ['d', D0 + 1], ['d', FUT], ['d', PAST], ['date', FUT - 86399999999],
    ['pdt', D0], ['pdt', D0 + 1000000], ['pdt', D0 + 1], ['npd', D0], ['pdt', FUT], ['t', [['pdt', D0], ['i', 1]]], ['t', [['d', D0], ['i', 1]]], ['m', [[['pdt', D0], ['i', 1]]]], ['m', [[['d', D0], ['i', 1]]]],
    # a bool and a numerically equal int / float at the same position, depth 1 and 2, with neighbours (True == 1 natively but cmp ranks bool below numbers)
    ['t', [['b', True]]], ['t', [['b', False]]], ['t', [['i', 0]]], ['t', [['f', 0]]], ['t', [['f', 1]]], ['l', [['b', True]]], ['l', [['f', 2]]], ['l', [['f', 1]]],
    ['t', [['t', [['b', True]]]]], ['t', [['t', [['i', 1]]]]], ['t', [['t', [['f', 2]]]]], ['t', [['t', [['f', 1]]]]], ['t', [['t', [['i', 2]]]]], ['l', [['l', [['b', False]]]]], ['l', [['l', [['i', 0]]]]], ['l', [['l', [['f', -1]]]]],
    ['m', [['a', ['b', True]]]], ['m', [['a', ['f', 1]]]], ['m', [['a', ['l', [['b', True]]]]]], ['m', [['a', ['l', [['i', 1]]]]]], ['m', [['a', ['l', [['f', 1]]]]]],
    # dict keys of other and of mixed types (items are sorted by Cmp of their keys)
    ['m', [[['i', 1], ['i', 1]], ['a', ['i', 2]]]], ['m', [[['i', 1], ['i', 1]], ['a', ['i', 3]]]], ['m', [['a', ['i', 2]], [['f', 2], ['i', 1]]]], ['m', [[None, ['i', 1]], [['i', 2], ['s', 'x']]]],
    ['m', [[['f', 5], ['i', 1]], ['a', ['i', 1]]]], ['m', [[['b', True], ['i', 1]], [['d', D0], None]]], ['m', [[['i', 2], ['i', 1]]]], ['m', [[['nan', 0], ['i', 1]], [['i', 2], ['i', 2]]]],
    ['npdu', D0 + 64 * DAYUS + 45015123456, 'Y'], ['npdu', D0 + 64 * DAYUS + 45015123456, 'M'], ['npdu', D0 + 64 * DAYUS + 45015123456, 'W'], ['npdu', D0 + 64 * DAYUS + 45015123456, 'D'],
    ['npdu', D0 + 64 * DAYUS + 45015123456, 'h'], ['npdu', D0 + 64 * DAYUS + 45015123456, 'm'], ['npdu', D0 + 64 * DAYUS + 45015123456, 's'], ['npdu', D0 + 64 * DAYUS + 45015123456, 'ms'],
    ['npdu', D0 + 64 * DAYUS + 45015123456, 'us'], ['npdu', D0 + 64 * DAYUS + 45015123456, 'ns'], ['npdu', D0, 'M'], ['npdu', D0, 'Y'], ['t', [['npdu', D0 + 1000000, 'M'], ['i', 1]]],
    ['npi32', 2], ['npf32', 3], ['l', [['i', 1]] * 150 + [['i', 2]]], ['l', [['i', 1]] * 150 + [['f', 4]]], ['l', [['f', 2]] * 150 + [['i', 3]]],
    ['t', []], ['l', []], ['m', []], ['m', []],
    ['t', [['i', 1]]], ['t', [['f', 2]]], ['t', [['i', 2]]], ['t', [['i', 1], ['i', 2]]], ['t', [['i', 1], ['s', 'a']]], ['t', [None]],
    ['t', [['nan', 0]]], ['t', [['nan', 1], ['i', 1]]], ['t', [['i', 0], ['i', 1]]],
    ['l', [['i', 1]]], ['l', [['i', 1], ['i', 2]]], ['l', [['i', 2], ['i', 1]]], ['l', [['l', [['i', 1]]]]], ['l', [['t', [['i', 1]]]]], ['t', [['l', [['i', 1]]]]],
    ['m', [['a', ['i', 1]]]], ['m', [['a', ['f', 2]]]], ['m', [['b', ['i', 1]]]], ['m', [['a', ['i', 1]], ['b', ['i', 2]]]], ['m', [['b', ['i', 2]], ['a', ['i', 1]]]],
    ['m', [['a', ['i', 2]], ['b', ['i', 1]]]], ['m', [['a', ['m', []]]]], ['m', [['a', ['m', [['b', ['nan', 0]]]]]]], ['m', [['a', ['l', [['i', 1], ['i', 2]]]]]],
    ['m', [['ab', None], ['a', ['inf', True]]]],
]

RULE = RULE % len(UNIVERSE)

# ------------------------------------------------------------------ Coq side
def ext_universe():
    """values the Coq model does not represent (non-string dict keys, more numpy scalar types): the property's laws only"""
    import numpy as np
    nan = float('nan')
    import pandas as pd
    return [pd.Timestamp('2250-06-01'), pd.Timestamp('2250-06-01 00:00:00.000001'), {1: 1, 'a': 2}, {1: 1, 'a': 3}, {(1, 2): 1, 'a': 2}, {None: 0, 1: 1, 'a': 2, 2.5: 3},
            None, True, 1, 1.0, np.int8(1), np.int16(2), np.float16(1.5), 1.5, np.float32(nan), nan, np.str_('a'), 'a', 'b',
            {1: 'a'}, {1: 'b'}, {2: 'a'}, {1.0: 'a'}, {(1, 2): 1}, {(1, 3): 1}, {None: 1}, {'a': {1: 2}}, {'a': {1: 3}}, {True: 1},
            datetime.date(2250, 6, 1), datetime.datetime(2250, 6, 1), datetime.datetime(2250, 6, 1, 0, 0, 0, 1), np.datetime64('1900-01-01T00:00:00.000001'),
            (np.int8(1), np.float16(1.5)), [np.int16(2)], 10 ** 30, -10 ** 30, float(2 ** 60), 2 ** 60, 2 ** 60 + 1]

LANES = 6
COQ_PRELUDE = 'Definition U : list val := [' + ';\n '.join(coq_val(v) for v in UNIVERSE) + '].\n' + \
    ''.join('Definition run_dsort_b%d := run_dsort.\nDefinition run_sort_b%d := run_sort.\n' % (i, i) for i in range(LANES)) + \
    'Definition run_cmpmut (c : list val * list val) : J := JL [run_cmp3 (fst c); JL (map JV (sort (fst c))); run_cmp3 (snd c); JL (map JV (sort (snd c)))].\n' + \
    'Definition run_dsort2 (c : (table * sortspec) * (table * sortspec)) : J := JL [JT (dsort_spec (snd (fst c)) (fst (fst c))); JT (dsort_spec (snd (snd c)) (fst (snd c)))].\n'

def coq_runner(case):
    if 'lane' in case:                  # large inputs go to their own cases files so that they are evaluated in parallel
        return 'run_%s_b%d' % ('sort' if case['kind'] == 'sortbig' else 'dsort', case['lane'] % LANES)
    return {'cmp_row': 'run_cmp_row', 'cmp_laws': 'run_cmp_row', 'cmp_laws_ext': 'run_cmp_row', 'sortbig': 'run_sort', 'cmpmut': 'run_cmpmut', 'dsortmut': 'run_dsort2', 'cmp3': 'run_cmp3', 'sort': 'run_sort', 'dsort': 'run_dsort'}[case['kind']]

def coq_table(cols):
    return '[' + '; '.join('(%s, [%s])' % (coq_name(c), '; '.join(coq_val(x) for x in cells)) for c, cells in cols) + ']'

def coq_spec(spec):
    if 'by' in spec:
        ks = []
        for k in spec['by']:
            if k[0] == 'col': ks.append('KCol %s' % coq_name(k[1]))
            elif k[0] == 'fn2': ks.append('KFun2 %s %s' % (coq_name(k[1]), coq_name(k[2])))
            else: ks.append('KFun %s %s' % ({'neg': 'FNeg', 'mod3': 'FMod3', 'const': 'FConst'}[k[1]], coq_name(k[2])))
        return '(SBy [%s])' % '; '.join(ks)
    return '(SByVal [%s])' % '; '.join('(%s, [%s])' % (coq_name(c), '; '.join(coq_val(x) for x in vals)) for c, vals in spec['byval'])

def coq_case(case):
    k = case['kind']
    if k == 'cmp_row': return '(nth %d U VNone, U)' % case['i']
    if k in ('cmp_laws', 'cmp_laws_ext'): return '(VNone, [])'
    if k == 'cmp3': return '[' + '; '.join(coq_val(v) for v in case['vals']) + ']'
    if k in ('sort', 'sortbig'): return '[' + '; '.join(coq_val(v) for v in case['xs']) + ']'
    if k == 'dsort': return '(%s, %s)' % (coq_table(case['cols']), coq_spec(case['spec']))
    if k == 'cmpmut':
        after = list(case['vals']); after[case['target']] = mutate_json(case['vals'][case['target']], case['path'], case['op'])
        return '([%s], [%s])' % ('; '.join(coq_val(v) for v in case['vals']), '; '.join(coq_val(v) for v in after))
    if k == 'dsortmut':
        return '((%s, %s), (%s, %s))' % (coq_table(case['cols']), coq_spec(case['spec']), coq_table(dsortmut_after(case)), coq_spec(case['spec']))
    raise ValueError(k)

# ------------------------------------------------------------------ implementation side + oracle
def impl_setup():
    global cmp, sort, Cmp, dictable
    from pyg_base import cmp, sort, Cmp, dictable

def safe_cmp(x, y):
    try:
        r = cmp(x, y)
        return int(r) if r in (-1, 0, 1) and not isinstance(r, bool) else ['BAD', repr(r)[:30]]
    except Exception as e:
        return ['ERR', err_name(e)]

def laws_on_matrix(vals, M, descr):
    """the property's cmp laws on a full matrix M[i][j] = cmp(vals[i], vals[j]) of python objects"""
    n = len(vals)
    for i in range(n):
        for j in range(n):
            if not isinstance(M[i][j], int):
                return 'cmp(%s, %s) %s' % (descr(i), descr(j), 'raised ' + M[i][j][1] if M[i][j][0] == 'ERR' else 'returned ' + M[i][j][1])
    for i in range(n):
        if M[i][i] != 0:
            return 'cmp(x, x) = %d for x = %s' % (M[i][i], descr(i))
        for j in range(n):
            if M[i][j] != -M[j][i]:
                return 'not antisymmetric: cmp(%s, %s) = %d but reversed = %d' % (descr(i), descr(j), M[i][j], M[j][i])
    for i in range(n):
        Mi = M[i]
        for j in range(n):
            a = Mi[j]
            if a > 0:
                continue
            Mj = M[j]
            for k in range(n):
                b = Mj[k]
                if b <= 0 and (Mi[k] > 0 or ((a < 0 or b < 0) and Mi[k] >= 0)):
                    return 'not transitive: cmp(x,y) = %d, cmp(y,z) = %d but cmp(x,z) = %d for x, y, z = %s, %s, %s' % (a, b, Mi[k], descr(i), descr(j), descr(k))
    def isnum(x):
        return isinstance(x, (int, float)) and not isinstance(x, bool) or type(x).__name__.startswith(('int', 'float'))
    def prim(x):       # numpy scalars compare through float64 (np.int64(2**53+1) == 2.0**53 is True); python's own int/float comparison is exact
        tn = type(x).__name__
        return int(x) if tn.startswith('int') else float(x) if tn.startswith('float') else x
    for i in range(n):
        for j in range(n):
            x, y = vals[i], vals[j]
            if isnum(x) and isnum(y):
                x, y = prim(x), prim(y)
                fx, fy = x == x and abs(x) != math.inf, y == y and abs(y) != math.inf
                if fx and fy and x == y and M[i][j] != 0:
                    return 'numerically equal %s and %s compare %d' % (descr(i), descr(j), M[i][j])
                if x != x and fy and M[i][j] != 1:
                    return 'NaN does not rank above the finite number %s: cmp = %d' % (descr(j), M[i][j])
    return None

def sorted_under_cmp(out):
    for a, b in zip(out, out[1:]):
        c = safe_cmp(a, b)
        if c != -1 and c != 0:
            return 'result not non-decreasing under cmp: cmp(%r, %r) = %r' % (a, b, c)
    return None

def multiset(xs):
    return sorted(json.dumps(x, sort_keys=True) for x in xs)

def impl(case):
    k = case['kind']; nans = {}
    if k in ('cmp_row', 'cmp_laws'):
        U = [build(v, nans) for v in UNIVERSE]
        if k == 'cmp_row':
            row = [safe_cmp(U[case['i']], y) for y in U]
            bad = [j for j, r in enumerate(row) if not isinstance(r, int)]
            viol = None
            if bad:
                viol = 'cmp(%r, %r) %s' % (U[case['i']], U[bad[0]], 'raised ' + row[bad[0]][1] if row[bad[0]][0] == 'ERR' else 'returned ' + row[bad[0]][1])
            return {'status': 'ok' if not bad else row[bad[0]][1], 'obs': row, 'viol': viol}
        M = [[safe_cmp(x, y) for y in U] for x in U]
        return {'status': 'ok', 'obs': [], 'viol': laws_on_matrix(U, M, lambda i: repr(U[i]))}
    if k == 'cmp_laws_ext':
        U = ext_universe()
        M = [[safe_cmp(x, y) for y in U] for x in U]
        return {'status': 'ok', 'obs': [], 'viol': laws_on_matrix(U, M, lambda i: repr(U[i]))}
    if k == 'cmp3':
        vals = [build(v, nans) for v in case['vals']]
        M = [[safe_cmp(x, y) for y in vals] for x in vals]
        viol = laws_on_matrix(vals, M, lambda i: repr(vals[i]))
        if viol is None:                  # the Cmp wrapper (what sorted(key = Cmp) uses) agrees with cmp, against wrapped and raw operands
            for i, x in enumerate(vals):
                for j, y in enumerate(vals):
                    got = ((Cmp(x) < Cmp(y)), (Cmp(x) > Cmp(y)), (Cmp(x) < y), (Cmp(x) > y), Cmp(x).cmp(y), Cmp(x).cmp(Cmp(y)))
                    exp = (M[i][j] == -1, M[i][j] == 1, M[i][j] == -1, M[i][j] == 1, M[i][j], M[i][j])
                    if got != exp and viol is None:
                        viol = 'Cmp(%r) vs %r: <, >, raw <, raw >, .cmp, .cmp(Cmp) = %r but cmp = %d' % (x, y, got, M[i][j])
        return {'status': 'ok', 'obs': M, 'viol': viol}
    if k in ('sort', 'sortbig'):
        xs = [build(v, nans) for v in case['xs']]
        form = case.get('form', 'list')                 # sort(iterable): a list, a tuple or a one-shot iterator
        st1, r1 = call(sort, tuple(xs) if form == 'tuple' else iter(list(xs)) if form == 'iter' else list(xs))
        if st1 == 'ok' and not isinstance(r1, list):
            return {'status': 'ok', 'obs': ['ERR', 'notalist'], 'viol': 'sort(%s) returned a %s, not a list' % (form, type(r1).__name__)}
        st2, r2 = call(lambda l: sorted(l, key=Cmp), list(xs))
        obs = [[canon(x, nans) for x in r1] if st1 == 'ok' else ['ERR', st1], [canon(x, nans) for x in r2] if st2 == 'ok' else ['ERR', st2]]
        viol = None
        for name, st, r in (('sort', st1, r1), ('sorted(key=Cmp)', st2, r2)):
            if viol: break
            if st != 'ok':
                viol = '%s(%r) raised %s' % (name, xs, st)
            elif multiset(canon(x, nans) for x in r) != multiset(canon(x, nans) for x in xs):
                viol = '%s(%r) = %r is not a permutation of the input' % (name, xs, r)
            else:
                v = sorted_under_cmp(r)
                if v: viol = '%s(%r) = %r: %s' % (name, xs, r, v)
        return {'status': st1, 'obs': obs, 'viol': viol}
    if k == 'dsort':
        return impl_dsort(case, nans)
    if k == 'cmpmut':
        return impl_cmpmut(case, nans)
    if k == 'dsortmut':
        return impl_dsortmut(case, nans)
    raise ValueError(k)

# ---- in-place mutation between two calls (cmp / sort must depend on the CURRENT contents only)
def mutate_json(v, path, op):
    """the JSON value after the mutation: path = indices into items / elements, op = ['set', k, x] | ['append', x] | ['setitem', i, x]"""
    kind, a = v
    a = [list(e) if kind == 'm' else e for e in a]
    if path:
        i = path[0]
        if kind == 'm': a[i][1] = mutate_json(a[i][1], path[1:], op)
        else: a[i] = mutate_json(a[i], path[1:], op)
        return [kind, a]
    if op[0] == 'set':
        for e in a:
            if e[0] == op[1]:
                e[1] = op[2]; break
        else:
            a.append([op[1], op[2]])
    elif op[0] == 'append': a.append(op[1])
    else: a[op[1]] = op[2]
    return [kind, a]

def mutate_obj(o, path, op, nans):
    for i in path:
        o = list(o.values())[i] if isinstance(o, dict) else o[i]
    if op[0] == 'set': o[op[1] if isinstance(op[1], str) else build(op[1], nans)] = build(op[2], nans)
    elif op[0] == 'append': o.append(build(op[1], nans))
    else: o[op[1]] = build(op[2], nans)

def dsortmut_after(case):
    cols = [[c, list(cells)] for c, cells in case['cols']]
    for c, cells in cols:
        if c == case['col']:
            cells[case['row']] = mutate_json(cells[case['row']], case['path'], case['op'])
    return cols

def impl_cmpmut(case, nans):
    vals = [build(v, nans) for v in case['vals']]
    def snap():
        M = [[safe_cmp(x, y) for y in vals] for x in vals]
        st, r = call(lambda: sorted(list(vals), key=Cmp))      # the cmp order (sort() itself may take python's native order, e.g. True == 1.0)
        return M, ([canon(x, nans) for x in r] if st == 'ok' else ['ERR', st])
    M1, S1 = snap(); M1b, S1b = snap()
    mutate_obj(vals[case['target']], case['path'], case['op'], nans)
    M2, S2 = snap(); M2b, S2b = snap()
    viol = None
    if (M1b, S1b) != (M1, S1) or (M2b, S2b) != (M2, S2):
        viol = 'cmp / sorted(key=Cmp) called twice on the same objects gave different results: %r then %r' % ((M1, M2), (M1b, M2b))
    if viol is None:
        viol = laws_on_matrix(vals, M1, lambda i: 'value %d before the update' % i) or laws_on_matrix(vals, M2, lambda i: repr(vals[i]))
    if viol is None:
        after = list(case['vals']); after[case['target']] = mutate_json(case['vals'][case['target']], case['path'], case['op'])
        fresh = [build(v, nans) for v in after]                # equal contents, new objects
        F = [[safe_cmp(x, y) for y in fresh] for x in fresh]
        X = [safe_cmp(x, y) for x, y in zip(vals, fresh)]
        if F != M2 or any(c != 0 for c in X):
            viol = 'after an in-place update of %r, cmp on the updated objects gives %r but on freshly built equal objects %r; cmp(updated, fresh equal) = %r' % (vals[case['target']], M2, F, X)
        elif isinstance(S2, list) and S2 and S2[0] != 'ERR':
            st, r = call(lambda: sorted(list(fresh), key=Cmp))
            if st != 'ok' or [canon(x, nans) for x in r] != S2:
                viol = 'sort after an in-place update differs from sort of freshly built equal objects'
    return {'status': 'ok', 'obs': [M1, S1, M2, S2], 'viol': viol}

def impl_dsortmut(case, nans):
    t = make_table(case['cols'], nans)
    args, kw = spec_args(case['spec'], nans)
    st1, r1 = call(lambda: t.sort(*args, **kw))
    o1 = canon_table(r1, nans) if st1 == 'ok' else ['ERR', st1]            # observed BEFORE the update (the result shares the cell objects)
    mutate_obj(t[case['col']][case['row']], case['path'], case['op'], nans)
    st2, r2 = call(lambda: t.sort(*args, **kw))
    o2 = canon_table(r2, nans) if st2 == 'ok' else ['ERR', st2]
    viol = None
    if st1 != 'ok' or st2 != 'ok':
        viol = 'dictable.sort raised %s / %s' % (st1, st2)
    else:
        fresh = make_table(dsortmut_after(case), nans)
        st3, r3 = call(lambda: fresh.sort(*args, **kw))
        if st3 != 'ok' or canon_table(r3, nans) != o2:
            viol = 'after an in-place update of cell %s[%d], dictable.sort gives %s but on a freshly built equal table %s' % (case['col'], case['row'], o2, canon_table(r3, nans) if st3 == 'ok' else st3)
    return {'status': 'ok', 'obs': [o1, o2], 'viol': viol}

def make_table(cols, nans):
    # as a dict, not as keyword arguments: columns may be called like the constructor's own parameters ('data', 'columns')
    return dictable({c: [build(x, nans) for x in cells] for c, cells in cols})

def canon_table(t, nans):
    return [[str(c), [canon(x, nans) for x in t[c]]] for c in t.keys()]

KFUNS = {'neg': 'lambda %s: -%s', 'mod3': 'lambda %s: %s %% 3', 'const': 'lambda %s: 0 if %s is None else 0'}
def spec_args(spec, nans):
    if 'by' in spec:
        args = tuple(k[1] if k[0] == 'col' else eval('lambda %s, %s: %s + %s' % (k[1], k[2], k[1], k[2])) if k[0] == 'fn2' else eval(KFUNS[k[1]] % (k[2], k[2])) for k in spec['by'])
        return (((tuple(args) if spec['aslist'] == 'tuple' else list(args)),) if spec.get('aslist') else args), {}       # d.sort(['a','b']) is d.sort('a','b')
    return (), {c: [build(x, nans) for x in vals] for c, vals in spec['byval']}

def py_same(a, b):
    return a is b or a == b

def impl_dsort(case, nans):
    t = make_table(case['cols'], nans)
    args, kw = spec_args(case['spec'], nans)
    n = len(t)
    before = canon_table(t, nans)
    st, r = call(lambda: t.sort(*args, **kw))
    if st != 'ok':
        return {'status': st, 'obs': ['ERR', st], 'viol': 'dictable.sort raised %s on %s' % (st, json.dumps(case)[:300])}
    st2, r2 = call(lambda: r.sort(*args, **kw))
    obs = [canon_table(r, nans), canon_table(r2, nans) if st2 == 'ok' else ['ERR', st2]]
    viol = None
    cols = [c for c, _ in case['cols']]
    rows_in = [[canon(t[c][i], nans) for c in cols] for i in range(n)]
    if canon_table(t, nans) != before:
        viol = 'dictable.sort modified its input'
    elif list(r.keys()) != cols or any(len(r[c]) != n for c in cols):
        viol = 'dictable.sort changed the columns / length: %s' % obs[0]
    else:
        rows_out = [[canon(r[c][i], nans) for c in cols] for i in range(n)]
        expected = None
        if 'by' in case['spec'] and case['spec']['by']:
            fns = [(lambda row, c=k[1]: row[c]) if k[0] == 'col' else (lambda row, c1=k[1], c2=k[2]: row[c1] + row[c2]) if k[0] == 'fn2' else
                   (lambda row, f=eval(KFUNS[k[1]] % ('x', 'x')), c=k[2]: f(row[c])) for k in case['spec']['by']]
            rows = [{c: t[c][i] for c in cols} for i in range(n)]
            keys = [tuple(f(row) for f in fns) for row in rows]
            idx = sorted(range(n), key=functools.cmp_to_key(lambda i, j: cmp(keys[i], keys[j])))      # python's sort is stable
            expected = [rows_in[i] for i in idx]
        elif 'byval' in case['spec'] and case['spec']['byval']:
            lists = [(c, [build(x, nans) for x in vals]) for c, vals in case['spec']['byval']]
            if all(not py_same(vals[i], vals[j]) for c, vals in lists for i in range(len(vals)) for j in range(i)):
                def rk(vals, x):
                    for p, v in enumerate(vals):
                        if py_same(v, x): return p
                    return len(vals)
                keys = [[rk(vals, t[c][i]) for c, vals in lists] for i in range(n)]
                idx = sorted(range(n), key=lambda i: keys[i])
                expected = [rows_in[i] for i in idx]
        else:
            expected = rows_in
        if expected is not None and rows_out != expected:
            viol = 'dictable.sort is not the stable sort by the keys: rows %s, expected %s (input %s)' % (rows_out, expected, json.dumps(case)[:400])
        elif st2 != 'ok' or obs[1] != obs[0]:
            viol = 'dictable.sort is not idempotent: sorting %s again gives %s' % (obs[0], obs[1])
    return {'status': 'ok', 'obs': obs, 'viol': viol}

def nontrivial(case, result):
    k = case['kind']
    if k in ('cmp_row', 'cmp_laws', 'cmp_laws_ext', 'cmpmut', 'dsortmut'):
        return True
    if k == 'cmp3':
        r = [vrank_type(v) for v in case['vals']]
        return len(set(r)) < 3
    if k in ('sort', 'sortbig'):
        o = result.get('obs')
        return len(case['xs']) >= 2 and isinstance(o, list) and o and o[0] != [canon_json(v) for v in case['xs']]
    if k == 'dsort':
        o = result.get('obs')
        return bool(case['cols']) and len(case['cols'][0][1]) >= 2 and isinstance(o, list) and len(o) == 2 and isinstance(o[0], list) and \
            o[0] != [[c, [canon_json(x) for x in cells]] for c, cells in case['cols']]
    return True

def canon_json(v):
    """canonical observation of a JSON value without building it (domain of sort / tables only)"""
    if v is None: return None
    if v[0] == 't': return ['t', [canon_json(x) for x in v[1]]]
    if v[0] == 'npdu': return ['d', npdu_us(v[1], v[2])]
    if v[0] in ('pdt', 'npd', 'date', 'adt'): return ['d', v[1]]
    return list(v)

def shape(case):
    k = case['kind']
    if k in ('sort', 'sortbig'):
        xs = case['xs']
        tags = set('t' if (v is not None and v[0] == 't') else 'nan' if (v is not None and v[0] == 'nan') else 's' for v in xs)
        flat = [y for v in xs for y in (v[1] if v is not None and v[0] == 't' else [v])]
        nan = any(y is not None and y[0] == 'nan' for y in flat)
        mixed = len(set(vrank_type(y) for y in flat)) > 1
        return '%s:%s%s%s%s' % (k, 'tuples' if 't' in tags else 'scalars', '+nan' if nan else '', '+mixed' if mixed else '', ':' + case['form'] if case.get('form') else '')
    if k == 'dsort':
        s = case['spec']
        if 'byval' in s: return 'dsort:byval%d' % len(s['byval'])
        return 'dsort:by%d%s%s%s' % (len(s['by']), '+fn2' if any(x[0] == 'fn2' for x in s['by']) else '+fn' if any(x[0] == 'fn' for x in s['by']) else '', '+as%s' % ('tuple' if s.get('aslist') == 'tuple' else 'list') if s.get('aslist') else '', ':big' if 'lane' in case else '')
    return k

# ------------------------------------------------------------------ generation
STRS = ['', 'a', 'b', 'ab', 'A', 'a b', 'None', '1', 'nan']
def rand_num(rng):
    r = rng.random()
    if r < 0.07: return rng.choice(HUGE)
    if r < 0.5: return ['i', rng.randrange(-3, 4)]
    if r < 0.85: return ['f', rng.randrange(-6, 7)]
    if r < 0.95: return ['i', rng.choice([2 ** 40, -2 ** 40, 10 ** 9, 7])]
    return ['f', rng.choice([2 ** 41 + 1, -5, 15])]
def rand_date(rng):
    return ['pdt' if rng.random() < 0.15 else 'd', rng.choice([D0, D0, D0 + 1000000, D0 + DAYUS, D0 - DAYUS, D0 + 37 * DAYUS + 3600 * 10 ** 6, D0 + 1, D0 + 999999, FUT, PAST])]    # incl. sub-second, far future, far past
def rand_domain_scalar(rng, w=None):
    """a scalar of the sort / table domain: None, ints, finite floats, NaN, str, datetimes"""
    r = rng.random()
    if r < 0.12: return None
    if r < 0.52: return rand_num(rng)
    if r < 0.60: return ['nan', rng.randrange(3)]
    if r < 0.64: return ['inf', rng.random() < 0.5]           # +-inf compare by value since fixes/C07-inf.patch
    if r < 0.86: return ['s', rng.choice(STRS)]
    return rand_date(rng)
def rand_scalar(rng):
    r = rng.random()
    if r < 0.6: return rand_domain_scalar(rng)
    if r < 0.72: return ['b', rng.random() < 0.5]
    if r < 0.8: return ['inf', rng.random() < 0.5]
    if r < 0.84: return ['npi', rng.randrange(-2, 3)]
    if r < 0.88: return ['npf', rng.randrange(-4, 5)]
    if r < 0.9: return ['npb', rng.random() < 0.5]
    if r < 0.92: return ['npnan', 0]
    if r < 0.95: return ['date', D0 + rng.choice([0, DAYUS, -DAYUS])]
    if r < 0.97: return ['npd', D0 + rng.choice([0, 1000000, DAYUS])]
    return ['s', rng.choice(['é', 'a中', 'z', 'B'])]
DKEYS = ['a', 'b', 'c', 'ab', 'B', ['i', 2], ['i', 7], ['f', 5], None, ['d', D0], ['b', True], ['nan', 0], ['pdt', D0 + 1]]
T0 = D0 + 5 * 3600 * 10 ** 6
# aware datetimes in three zones: equal instants with different wall clocks, equal wall clocks with different instants, wall-clock order != chronological order
AWARE = [['adt', T0, 300], ['adt', T0, 0], ['adt', T0 + 12 * 3600 * 10 ** 6, -480], ['adt', T0 + 13 * 3600 * 10 ** 6, -480], ['adt', T0 + DAYUS, 300], ['adt', T0 - 3600 * 10 ** 6, 60],
         ['adt', T0 + 1, 300], ['adt', T0 + 13 * 3600 * 10 ** 6, 300], ['adt', T0 + 5 * 3600 * 10 ** 6, -480]]
def rand_val(rng, depth):
    r = rng.random()
    if depth <= 0 or r < 0.45:
        return rand_scalar(rng)
    n = rng.choice([0, 1, 1, 2, 2, 3])
    if r < 0.65: return ['t', [rand_val(rng, depth - 1) for _ in range(n)]]
    if r < 0.82: return ['l', [rand_val(rng, depth - 1) for _ in range(n)]]
    keys = rng.sample(DKEYS if rng.random() < 0.5 else DKEYS[:5], n)            # string keys, or keys of mixed types
    return ['m', [[k, rand_val(rng, depth - 1)] for k in keys]]
def fok(twice):
    """twice/2 is exactly a python float"""
    from fractions import Fraction
    return Fraction(twice / 2.0) == Fraction(twice, 2)

def perturb(rng, v, depth=3):
    """a value close to v: same shape, one small change (or none)"""
    r = rng.random()
    if v is None or v[0] not in ('t', 'l', 'm') or r < 0.15:
        if v is not None and v[0] == 'b' and r < 0.7: return rng.choice([['i', int(v[1])], ['f', 2 * int(v[1])]])          # True -> 1 / 1.0
        if v is not None and v[0] in ('i', 'f') and v[1] in (0, 1, 2) and (v[0] == 'i' or v[1] != 1) and r < 0.25: return ['b', bool(v[1])]
        if v is not None and v[0] in ('i', 'npi') and r < 0.5 and fok(2 * v[1]): return ['f', 2 * v[1]]
        if v is not None and v[0] in ('f', 'npf') and v[1] % 2 == 0 and r < 0.5: return ['i', v[1] // 2]
        if v is not None and v[0] == 'nan' and r < 0.6: return rng.choice([['nan', (v[1] + 1) % 3], ['inf', False], ['inf', True]])
        if r < 0.75 and v is not None and v[0] in ('i', 'f'):
            w = v[1] + rng.choice([-1, 1])
            return [v[0], w] if v[0] == 'i' or fok(w) else v
        if r < 0.8: return v
        return rand_val(rng, depth - 1)
    k, a = v
    if k == 'm':
        a = [list(x) for x in a]
        if r < 0.4: rng.shuffle(a); return ['m', a]
        if a and r < 0.8:
            i = rng.randrange(len(a)); a[i][1] = perturb(rng, a[i][1], depth - 1); rng.shuffle(a); return ['m', a]
        if a and r < 0.9:
            i = rng.randrange(len(a)); free = [x for x in DKEYS if x not in [kk for kk, _ in a]]
            a[i][0] = rng.choice(free); return ['m', a]
        return v
    a = list(a)
    if a and r < 0.75:
        i = rng.randrange(len(a)); a[i] = perturb(rng, a[i], depth - 1); return [k, a]
    if r < 0.85: return ['t' if k == 'l' else 'l', a]
    if a and r < 0.95: return [k, a[:-1] + [rand_val(rng, 0)]]
    return v

def rand_sort_list(rng, tier):
    n = rng.choice([0, 1, 2, 2, 3, 3, 4, 5, 6, 8] if tier == 'quick' else [0, 1, 2, 3, 4, 5, 6, 8, 10, 12])
    mode = rng.choice(['nums', 'nums', 'numsnan', 'numsnan', 'strs', 'dates', 'mixed', 'mixed', 'tuples', 'tuples', 'tuplesmixed', 'huge', 'aware'])
    def sc(m):
        if m == 'nums': return ['inf', rng.random() < 0.5] if rng.random() < 0.08 else rand_num(rng)
        if m == 'huge': return rng.choice(HUGE + [['i', 1], ['nan', 0]]) if rng.random() < 0.9 else rand_domain_scalar(rng)
        if m == 'numsnan': return ['nan', rng.randrange(2)] if rng.random() < 0.3 else ['inf', rng.random() < 0.5] if rng.random() < 0.2 else rand_num(rng)
        if m == 'strs': return ['s', rng.choice(STRS)]
        if m == 'dates': return rand_date(rng)
        if m == 'aware': return rng.choice(AWARE) if rng.random() < 0.85 else rng.choice([None, ['i', 1], ['s', 'a']])
        return rand_domain_scalar(rng)
    if mode.startswith('tuples'):
        k = rng.choice([1, 2, 2, 3])
        colmodes = [rng.choice(['nums', 'numsnan', 'strs', 'mixed', 'dates', 'huge', 'aware']) if mode == 'tuplesmixed' or rng.random() < 0.3 else rng.choice(['nums', 'strs', 'huge'])
                    for _ in range(k)]
        return [['t', [sc(m) for m in colmodes]] for _ in range(n)]
    return [sc(mode) for _ in range(n)]

COLS = ['a', 'b', 'c', 'd']
KWNAMES = ['reverse', 'key', 'by', 'ascending', 'inplace', 'reverse', 'cmp', 'stable', 'na_position']
NAMEPOOL = ['a', 'b', 'c', 'd', 'key', 'name', 'date', 'x y', 'A', 'len', 'keys', 'items', 'values', 'Key', 'col_1', 'z9', 'columns', 'data', 'function', 'other', 'value', 'reverse', 'by', 'ascending', 'inplace', '_columns', '_x']     # dict methods, builtins, a space, cases
def rand_column(rng, n, mode=None):
    mode = mode or rng.choice(['ints', 'ints', 'nums', 'numsnan', 'strs', 'mixed', 'mixed', 'dates', 'none', 'bin', 'bin', 'huge', 'aware'])
    out = []
    for _ in range(n):
        if mode == 'ints': out.append(['i', rng.randrange(0, 4)])
        elif mode == 'aware': out.append(rng.choice(AWARE))
        elif mode == 'huge': out.append(rng.choice(HUGE + HUGE + [['i', 0], ['f', 1]]))
        elif mode == 'bin': out.append(rng.choice([['i', 0], ['i', 0], ['i', 0], ['i', 1], ['f', 0]]))      # few keys, big groups
        elif mode == 'nums': out.append(rng.choice([['i', rng.randrange(0, 3)], ['f', 2 * rng.randrange(0, 3)], ['f', rng.randrange(-2, 5)]]))
        elif mode == 'numsnan': out.append(['nan', rng.randrange(2)] if rng.random() < 0.3 else ['inf', rng.random() < 0.5] if rng.random() < 0.25 else ['i', rng.randrange(0, 3)])
        elif mode == 'strs': out.append(['s', rng.choice(STRS[:5])])
        elif mode == 'dates': out.append(['npd', rng.choice([D0, D0 + 1, D0 + DAYUS])] if rng.random() < 0.1 else rand_date(rng))      # datetime / pd.Timestamp / np.datetime64 of equal and unequal values
        elif mode == 'none': out.append(None if rng.random() < 0.6 else ['i', 1])
        else: out.append(rand_domain_scalar(rng))
    return mode, out

def rand_table(rng, tier, nmax=8):
    ncol = rng.choice([2, 2, 3, 3, 4])
    n = rng.choice([0, 1, 2, 3, 4, 5, 6, nmax])
    cols = []; modes = {}
    names = COLS[:ncol] if rng.random() < 0.5 else rng.sample(NAMEPOOL, ncol)
    if rng.random() < 0.12:                    # the dictable constructor's own parameter names as column names
        names = [x for x in names if x not in ('columns', 'data')]
        extra = ['columns', 'data'] if rng.random() < 0.5 else [rng.choice(['columns', 'data'])]
        names = (extra + names + [x for x in COLS if x not in names])[:ncol]; rng.shuffle(names)
    for c in names:
        m, cells = rand_column(rng, n)
        cols.append([c, cells]); modes[c] = m
    return cols, modes, n

def rand_dsort(rng, tier):
    cols, modes, n = rand_table(rng, tier)
    names = [c for c, _ in cols]
    r = rng.random()
    if r < 0.6:
        by = []
        for _ in range(rng.choice([1, 1, 2, 2, 3])):
            c = rng.choice(names)
            ints = [x for x in names if modes[x] == 'ints' and x.isidentifier()]
            if len(ints) >= 2 and rng.random() < 0.12:
                c1, c2 = rng.sample(ints, 2); by.append(['fn2', c1, c2])            # a key function of two columns
            elif modes[c] == 'ints' and c.isidentifier() and rng.random() < 0.35:
                by.append(['fn', rng.choice(['neg', 'mod3']), c])
            elif rng.random() < 0.05 and c.isidentifier():
                by.append(['fn', 'const', c])
            else:
                by.append(['col', c])
        spec = {'by': by}
        if rng.random() < 0.12:
            spec = {'by': [k for k in by if k[0] == 'col'][:rng.choice([0, 1, 2, 3])], 'aslist': rng.choice([True, True, 'tuple'])}
    else:
        bv = []
        for c in rng.sample(names, rng.choice([1, 1, 2])):
            cells = dict(cols)[c]
            pool = [x for x in cells] + [['i', 7], ['s', 'zz'], None, ['f', 2]]
            k = rng.choice([0, 1, 2, 2, 3, 4])
            vals = [rng.choice(pool) for _ in range(k)] if rng.random() < 0.25 else dedupe([rng.choice(pool) for _ in range(k)])
            bv.append([c, vals])
        if rng.random() < 0.3:                  # value orders for columns called like plausible keyword arguments of a sort (never `self`)
            kwn = rng.choice(KWNAMES)
            if kwn not in names:
                old = bv[0][0]; bv[0][0] = kwn
                cols = [[kwn if x == old else x, cells] for x, cells in cols]
        spec = {'byval': bv}
    return {'kind': 'dsort', 'cols': cols, 'spec': spec}

def rand_big_dsort(rng, lane):
    """more than 100 rows, few distinct keys: stability (ties keep the original order) on large tables"""
    n = rng.randrange(101, 401)
    variant = rng.choice(['int1', 'int1', 'int2', 'mixed', 'mixed2', 'byval'])
    a = [['i', rng.randrange(0, 5)] for _ in range(n)]
    if variant.startswith('mixed'):
        a = [rng.choice([None, ['s', 'x'], ['f', 2 * v[1]], ['nan', rng.randrange(2)]]) if rng.random() < 0.15 else v for v in a]
    cols = [['a', a], ['v', [['i', i] for i in range(n)]]]
    by = [['col', 'a']]
    if variant in ('int2', 'mixed2'):
        cols.insert(1, ['b', [['i', rng.randrange(0, 3)] for _ in range(n)]]); by = rng.choice([[['col', 'a'], ['col', 'b']], [['col', 'b'], ['col', 'a']], [['fn', 'neg', 'b'], ['col', 'a']]])
    spec = {'by': by} if variant != 'byval' else {'byval': [['a', [['i', 3], ['i', 1]]]]}
    return {'kind': 'dsort', 'cols': cols, 'spec': spec, 'lane': lane}

def rand_container(rng, depth=2):
    r = rng.random()
    n = rng.choice([1, 2, 2, 3])
    leaf = lambda: rand_container(rng, depth - 1) if depth > 1 and rng.random() < 0.3 else rand_scalar(rng)
    if r < 0.6: return ['m', [[k, leaf()] for k in rng.sample(DKEYS, n)]]
    return ['l', [leaf() for _ in range(n)]]

def rand_mutation(rng, v):
    """(path, op) for the container v: at the top or inside a nested container (also one that sits inside a tuple-free list / dict)"""
    path = []
    while True:
        kind, a = v
        inner = [i for i, e in enumerate(a) if (e[1] if kind == 'm' else e) is not None and (e[1] if kind == 'm' else e)[0] in ('m', 'l')]
        if inner and rng.random() < 0.4:
            i = rng.choice(inner); path.append(i); v = a[i][1] if kind == 'm' else a[i]
            continue
        break
    x = rand_scalar(rng) if rng.random() < 0.8 else rand_container(rng, 1)
    if kind == 'm':
        keys = [e[0] for e in a]
        k = rng.choice(keys) if keys and rng.random() < 0.5 else rng.choice([q for q in DKEYS if q not in keys])
        return path, ['set', k, x]
    if a and rng.random() < 0.5: return path, ['setitem', rng.randrange(len(a)), x]
    return path, ['append', x]

def ascii_only(v):
    """the sorted values are observed, and observations are ASCII: replace non-ASCII strings"""
    if v is None or isinstance(v, (str, int, bool)): return v
    if v[0] == 's': return v if all(ord(ch) < 127 for ch in v[1]) else ['s', 'zz']
    if v[0] in ('t', 'l'): return [v[0], [ascii_only(e) for e in v[1]]]
    if v[0] == 'm': return ['m', [[ascii_only(k), ascii_only(e)] for k, e in v[1]]]
    return v

def rand_cmpmut(rng):
    x = ascii_only(rand_container(rng))
    path, op = rand_mutation(rng, x); op = [ascii_only(e) if isinstance(e, list) else e for e in op]
    r = rng.random()
    y = x if r < 0.4 else mutate_json(x, path, op) if r < 0.8 else rand_container(rng)      # equal before / equal after / unrelated
    z = ascii_only(rng.choice([perturb(rng, x), rand_val(rng, 2)])); y = ascii_only(y)
    vals = [x, y, z]; order = [0, 1, 2]; rng.shuffle(order)
    return {'kind': 'cmpmut', 'vals': [vals[i] for i in order], 'target': order.index(0), 'path': path, 'op': op}

def rand_dsortmut(rng):
    n = rng.choice([2, 3, 4, 5, 6])
    mk = 'm'        # dict cells: not natively comparable, so dictable.sort orders them by cmp (list cells would take python's native list order)
    cell = lambda: ['m', [['a', ['i', rng.randrange(0, 4)]]] + ([['b', ['i', rng.randrange(0, 2)]]] if rng.random() < 0.3 else [])] if mk == 'm' else ['l', [['i', rng.randrange(0, 4)]]]
    cols = [['k', [cell() for _ in range(n)]], ['v', [['i', i] for i in range(n)]]]
    row = rng.randrange(n)
    if mk == 'm': op = rng.choice([['set', 'a', ['i', rng.randrange(-1, 5)]], ['set', 'b', ['i', 0]], ['set', rng.choice(['c', ['i', 2]]), ['i', 1]]])
    else: op = rng.choice([['setitem', 0, ['i', rng.randrange(-1, 5)]], ['append', ['i', 0]]])
    return {'kind': 'dsortmut', 'cols': cols, 'spec': {'by': [['col', 'k']] + ([['col', 'v']] if rng.random() < 0.3 else [])}, 'col': 'k', 'row': row, 'path': [], 'op': op}

def dedupe(vals):
    out = []
    for v in vals:
        key = json.dumps(['n', v[1] if v[0] == 'i' else v[1] / 2] if v is not None and v[0] in ('i', 'f') else v)
        if key not in [k for k, _ in out]:
            out.append((key, v))
    return [v for _, v in out]

def gen_cases(rng, tier):
    q = tier == 'quick'
    cases = [{'kind': 'cmp_laws'}, {'kind': 'cmp_laws_ext'}] + [{'kind': 'cmp_row', 'i': i} for i in range(len(UNIVERSE))]
    for _ in range(700 if q else 8000):
        x = rand_val(rng, 3)
        y = perturb(rng, x) if rng.random() < 0.8 else rand_val(rng, 3)
        z = perturb(rng, rng.choice([x, y])) if rng.random() < 0.8 else rand_val(rng, 2)
        vals = [x, y, z]; rng.shuffle(vals)
        cases.append({'kind': 'cmp3', 'vals': vals})
    for _ in range(80 if q else 800):                     # all-aware comparisons (aware vs naive raises in python itself and is not generated)
        def av(): return rng.choice(AWARE) if rng.random() < 0.7 else rng.choice([['t', [rng.choice(AWARE), ['i', 1]]], ['l', [rng.choice(AWARE)]], ['m', [['a', rng.choice(AWARE)]]], None, ['i', 2]])
        cases.append({'kind': 'cmp3', 'vals': [av(), av(), av()]})
    for _ in range(1200 if q else 20000):
        c = {'kind': 'sort', 'xs': rand_sort_list(rng, tier)}
        f = rng.choice(['list', 'list', 'tuple', 'iter'])
        if f != 'list': c['form'] = f
        cases.append(c)
    for lane in range(8 if q else 40):                       # long lists (python's sort changes strategy at 64 elements)
        n = rng.randrange(101, 301); mode = rng.choice(['nums', 'mixed', 'tuples'])
        xs = [(['t', [['i', rng.randrange(0, 4)], rand_domain_scalar(rng)]] if mode == 'tuples' else rand_num(rng) if mode == 'nums' else rand_domain_scalar(rng)) for _ in range(n)]
        cases.append({'kind': 'sortbig', 'xs': xs, 'lane': lane})
    for _ in range(900 if q else 12000):
        cases.append(rand_dsort(rng, tier))
    for i in range(12 if q else 60):
        cases.append(rand_big_dsort(rng, i))
    for _ in range(300 if q else 3000):                   # in-place updates of containers between two calls
        cases.append(rand_cmpmut(rng))
    for _ in range(150 if q else 1500):
        cases.append(rand_dsortmut(rng))
    return cases

def shrink(case):
    k = case['kind']
    if k in ('sort', 'sortbig'):
        xs = case['xs']
        size = len(xs) // 2
        while size >= 8:
            for i in range(0, len(xs), size):
                yield dict(case, xs=xs[:i] + xs[i + size:])
            size //= 2
        for i in range(len(xs) if len(xs) <= 60 else 0):
            yield dict(case, xs=xs[:i] + xs[i + 1:])
        for i, v in enumerate(xs):
            if v is not None and v[0] in ('i', 'f') and v[1] != 0:
                yield dict(case, xs=xs[:i] + [['i', 0]] + xs[i + 1:])
    elif k == 'dsort':
        cols = case['cols']; n = len(cols[0][1]) if cols else 0
        size = n // 2
        while size >= 2:                               # blocks of rows first (large tables), then single rows
            for i in range(0, n, size):
                yield dict(case, cols=[[c, cells[:i] + cells[i + size:]] for c, cells in cols])
            size //= 2
            if n > 60 and size < n // 8: break        # large tables: coarse blocks only (every candidate is a fresh run of the implementation)
        for i in range(n if n <= 60 else 0):
            yield dict(case, cols=[[c, cells[:i] + cells[i + 1:]] for c, cells in cols])
        used = set(c for x in case['spec'].get('by', []) for c in x[1:]) | set(c for c, _ in case['spec'].get('byval', []))
        for j, (c, _) in enumerate(cols):
            if c not in used and len(cols) > 1:
                yield dict(case, cols=cols[:j] + cols[j + 1:])
        if len(case['spec'].get('by', [])) > 1:
            for j in range(len(case['spec']['by'])):
                yield dict(case, spec=dict(case['spec'], by=case['spec']['by'][:j] + case['spec']['by'][j + 1:]))
    elif k == 'cmp3':
        return

LEVEL_TEXT = ('machine-checked Coq theorems (C07_*, structural induction over the nested value type, no bound on values, list lengths or table sizes): '
              'cmp is total, {-1,0,1}-valued, reflexive, antisymmetric, transitive, 0 on numerically equal int/float, NaN above every finite number; '
              'sort returns a permutation sorted between any two positions; dictable.sort is the stable sort (row indices strictly increasing in '
              '(key under cmp, original position)), idempotent on rectangular tables, and explicit value orders rank listed values by position and '
              'unlisted ones last; the executable model is compared with /repo inside Coq on the full cmp matrix of a fixed universe (incl. adjacent ints beyond 2^53) and thousands of generated '
              'triples, lists and tables on every run')
LEVEL_NOTE = ('the model is of the REPAIRED code (fixes/C07.patch): the pinned sort() returns [nan, 0] for [nan, 0] (C07_sort_pinned_refuted) and the pinned '
              'cmp raises ValueError on two distinct empty dicts. trusted: Coq kernel/vm_compute; modelled not verified: CPython sorted() is stable, '
              'the native order coincides with cmp on the sort domain (checked by the correspondence), harness mapping of numpy scalars to primitives')
TECHNIQUE = 'Coq proof (nested structural induction, lexicographic lifting of three-valued comparisons, insertion-sort refinement) + differential correspondence in vm_compute + property oracle on the real outputs'
