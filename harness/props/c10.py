"""C10 — drange enumerates exactly t0, t0+bump, ... up to t1 for every kind of bump."""
import datetime
from implutil import dt2us, us2dt, DAYUS, call, err_name
from props.c09 import tokens, UNIT, expected_single

ID = 'C10'
TRANSLATOR = ['dates']
COQ_EXEC = ['exec.X_dates']
COQ_IMPORTS = 'From PB Require Import model.M_cal model.M_dates model.M_drange.\n'
PER_FILE = 150
CASE_TIMEOUT = 10
RULE = ('cases: (t0, t1, bump) with start dates over 1900-2300, spans 0 .. ~3 years in both directions, bumps among None, ints, '
        'timedeltas (incl. intraday), single period strings with every unit letter and sign, compound strings, bumps pointing the wrong way; '
        'whole-day spans for int/business bumps, midnight and day<=28 for month units, intraday endpoints for timedelta/h/n/s. The returned '
        'list (or ValueError) is compared in Coq with M_drange.drange; the oracle rebuilds the list by iterating the bump from the property text '
        'and checks int == timedelta == "nd". non-trivial = list with >= 3 elements or a raise; distinct by (t0, t1, bump)')
EXPLANATION = ('theorems C10_*: for every t0, t1 and every looped bump the result is the iteration of the bump from t0 within the bounds, strictly '
               'monotone, never empty, ValueError when the bump points away, weekdays only for business bumps, termination within (t1-t0)/g+2 steps; '
               'the correspondence ties the model (incl. dateutil.rrule for forward single periods) to the running code')
TRUSTED = ['modelled, not verified: dateutil.rrule (forward single period strings are modelled as the dt_bump iteration), list slicing',
           'dt_bump itself: property C09']
ASSUMPTIONS = ['explicit datetime endpoints', 'month-based units from a day <= 28 at midnight']
EXHAUSTIVE = {'quick': False, 'thorough': False}
LEVEL_TEXT = ('machine-checked Coq theorems for all endpoints and bumps (no bound): iteration characterisation, strict monotonicity, bounds, non-emptiness, '
              'wrong-direction ValueError, weekday-only business lists, loop termination; model compared with the real drange on thousands of ranges')
LEVEL_NOTE = ('trusted: Coq kernel/vm_compute; modelled not verified: dateutil.rrule, Python slicing. Known finding: rrule arms drop microseconds')
TECHNIQUE = 'Coq proof (induction over fuel, inductive iteration spec) over a hand-written model + differential correspondence in vm_compute'

def bump_py(b):
    if b is None: return None
    if 'str' in b: return b['str']
    if 'int' in b: return b['int']
    return datetime.timedelta(microseconds=b['td_us'])

def impl_setup():
    global drange, calendar
    from pyg_base import drange, calendar

def endpoint(T, ep):
    """other spellings of the same endpoint (resolved by date_range / dt)"""
    if ep == 'date': return T.date()
    if ep == 'int': return T.year * 10000 + T.month * 100 + T.day
    if ep == 'iso': return T.isoformat()
    if ep == 'pdts':
        import pandas as pd
        return pd.Timestamp(T)
    if ep == 'np_us':
        import numpy as np
        return np.datetime64(T, 'us')
    return T

def endpoints(t0, t1, case):
    """the two endpoint arguments as the case spells them; 'off' gives one endpoint as an offset from the other
    (date_range resolves an end given as a bump relative to the start, and a start given as a bump relative to the end)"""
    e0 = endpoint(t0, case.get('ep0')); e1 = endpoint(t1, case.get('ep1'))
    off = case.get('off')
    if off:
        which, how = off
        delta = (t1 - t0) if which == 't1' else (t0 - t1)
        v = delta.days if how == 'int' else delta if how == 'td' else '%dd' % delta.days
        if which == 't1': e1 = v
        else: e0 = v
    return e0, e1

def step_fn(b):
    """the single-step function of the property text"""
    if 'int' in b: return lambda t: t + datetime.timedelta(days=b['int'])
    if 'td_us' in b: return lambda t: t + datetime.timedelta(microseconds=b['td_us'])
    toks = tokens(b['str'])
    def f(t):
        for n, u in toks:
            t = expected_single(t, n, u)
        return t
    return f

def expected_list(t0, t1, b):
    """oracle from the property text: ('ok', list) | ('raise',) | ('skip',)"""
    if t0 == t1:
        return ('ok', [t0])
    if b is None:
        b = {'int': 1 if t0 < t1 else -1}
    f = step_fn(b)
    if 'str' in b and all(n == 0 for n, _ in tokens(b['str'])):
        return ('skip',)      # '0b' from a weekend start rolls to Monday without counting a day: still a zero bump, no claim (see below)
    try:
        nxt = f(t0)
    except OverflowError:
        return ('skip',)
    if nxt == t0:
        return ('skip',)      # a zero bump ('0b', 0, '0d') neither approaches nor points away from t1: the property makes no claim
    if (t0 < t1 and nxt < t0) or (t1 < t0 and nxt > t0):
        return ('raise',)
    if 'str' in b:
        toks = tokens(b['str'])
        if len(toks) == 1 and toks[0][1] == 'b':
            # weekdays between the endpoints, every k-th
            k = abs(toks[0][0]); step = 1 if t0 < t1 else -1
            days = []; t = t0
            while (t <= t1) if step > 0 else (t >= t1):
                if t.weekday() < 5: days.append(t)
                t += datetime.timedelta(step)
            return ('ok', days[::k] if k > 1 else days)
    res = []; t = t0
    for _ in range(100000):
        if (t <= t1) if t0 < t1 else (t >= t1):
            res.append(t); t = f(t)
        else:
            break
    return ('ok', res)

def impl(case):
    t0 = us2dt(case['t0']); t1 = us2dt(case['t1']); b = case['bump']
    B = bump_py(b)
    if case.get('upper') and isinstance(B, str):
        B = B.upper()
    f = calendar().drange if case.get('via') == 'calendar' else drange
    if case.get('dirty_cal'):      # the program reconfigured the DEFAULT calendar earlier: drange must still list plain weekdays
        calendar(holidays=[us2dt(h) for h in case['dirty_cal']], weekend=[4, 5])
    e0, e1 = endpoints(t0, t1, case)
    st, r = call(f, e0, e1, B)
    if st == 'ok' and not isinstance(r, list):
        return {'status': 'ok', 'obs': ['ERR', 'not-a-list'], 'viol': 'drange(%s, %s, %r) returned %r, not a list of dates (nor a ValueError)' % (t0, t1, B, r)}
    again = None
    if st == 'ok' and isinstance(r, list):
        # state a call leaves behind must not change the next one: the caller edits the list it was handed, asks for the
        # range in the opposite direction, then asks again for the same range
        snap = list(r)
        r.reverse(); r.append(None)
        if len(snap) >= 2 and b is not None and ('int' in b or 'td_us' in b):
            nb = -b['int'] if 'int' in b else datetime.timedelta(microseconds=-b['td_us'])
            sb, rb = call(f, snap[-1], snap[0], nb)
            if sb != 'ok' or rb != snap[::-1]:
                again = 'drange(%s, %s, %r) = %s..., not the reverse of drange(%s, %s, %r)' % (snap[-1], snap[0], nb, (rb[:3] if sb == 'ok' else sb), t0, t1, B)
        s2, r2 = call(f, e0, e1, B)
        if again is None and (s2 != 'ok' or r2 != snap):
            again = 'drange(%s, %s, %r) called a second time in the same process returned %s..., the first call returned %s...' % (t0, t1, B, (r2[:3] if s2 == 'ok' else s2), snap[:3])
        r = snap
    if case.get('dirty_cal'):
        calendar(holidays=[], weekend=[5, 6])      # restore the default for the following cases
    obs = [dt2us(x) for x in r] if st == 'ok' else ['ERR', st]
    viol = None
    exp = expected_list(t0, t1, b)
    if exp[0] == 'ok':
        if st != 'ok':
            viol = 'drange(%s, %s, %r) raised %s, expected %d dates' % (t0, t1, bump_py(b), st, len(exp[1]))
        elif r != exp[1]:
            viol = 'drange(%s, %s, %r) returned %d dates %s..., iterating the bump gives %d dates %s...' % (t0, t1, bump_py(b), len(r), r[:3], len(exp[1]), exp[1][:3])
    elif exp[0] == 'raise':
        if st != 'ValueError':
            viol = 'bump %r points away from t1 but drange(%s, %s) returned %s' % (bump_py(b), t0, t1, ('%d dates' % len(r)) if st == 'ok' else st)
    if viol is None and again is not None:
        viol = again
    if viol is None and st == 'ok' and b is not None and 'int' in b:
        # int n == timedelta(n) == 'nd'
        n = b['int']
        for alt in (datetime.timedelta(n), '%dd' % n):
            s2, r2 = call(drange, t0, t1, alt)
            if s2 != 'ok' or r2 != r:
                viol = 'drange with %r differs from drange with %r' % (alt, n)
    return {'status': st, 'obs': obs, 'viol': viol}

# ---------------- Coq side
def coq_runner(case):
    return 'run_drange'
def coq_bump(b):
    if b is None: return 'BNone'
    if 'int' in b: return '(BInt (%d))' % b['int']
    if 'td_us' in b: return '(BTd (%d))' % b['td_us']
    return '(BTok [' + '; '.join('((%d), %s)' % (n, UNIT[u]) for n, u in tokens(b['str'])) + '])'
def coq_case(case):
    return '((%d), (%d), %s)' % (case['t0'], case['t1'], coq_bump(case['bump']))

def nontrivial(case, result):
    return result['status'] != 'ok' or len(result['obs']) >= 3
def shape(case):
    b = case['bump']
    d = 'fwd' if case['t0'] < case['t1'] else 'bwd' if case['t0'] > case['t1'] else 'eq'
    d += ('/dirtycal' if case.get('dirty_cal') else '') + ('/ep' if case.get('ep0') else '') + ('/off' if case.get('off') else '') + ('/cal' if case.get('via') else '') + ('/upper' if case.get('upper') else '')
    if b is None: return 'none/' + d
    if 'str' not in b: return list(b)[0] + '/' + d
    toks = tokens(b['str'])
    return ('str:' + (toks[0][1] if len(toks) == 1 else 'compound') + ('-' if toks[0][0] < 0 else '+')) + '/' + d

# ---------------- generation
LO = 693596 + 400; HI = 839693 - 400
def day28(rng):
    while True:
        n = rng.randrange(LO, HI)
        if datetime.date.fromordinal(n).day <= 28:
            return n

def gen_cases(rng, tier):
    cases = []
    N = 1 if tier == 'quick' else 12
    def add(t0, t1, b):
        cases.append({'t0': t0, 't1': t1, 'bump': b})
    for _ in range(250 * N):       # ints, None, day-timedeltas, 'nd' on whole-day spans
        a = rng.randrange(LO, HI); span = rng.choice([0, 1, 2, rng.randrange(0, 40), rng.randrange(0, 1100)])
        tod = rng.choice([0, 0, rng.randrange(86400) * 1000000, rng.randrange(86400) * 1000000, rng.randrange(DAYUS)])
        t0 = a * DAYUS + tod; t1 = (a + span) * DAYUS + tod
        if rng.random() < 0.5: t0, t1 = t1, t0
        n = rng.choice([1, -1, 2, -2, 3, 7, -7, rng.randrange(-10, 11)])
        r = rng.random()
        add(t0, t1, None if r < 0.1 else {'int': n} if r < 0.5 else {'td_us': n * DAYUS} if r < 0.7 else {'str': '%dd' % n})
    for _ in range(250 * N):       # business days, whole-day spans
        a = rng.randrange(LO, HI); span = rng.choice([0, 1, 3, rng.randrange(0, 40), rng.randrange(0, 800)])
        t0 = a * DAYUS; t1 = (a + span) * DAYUS
        if rng.random() < 0.5: t0, t1 = t1, t0
        add(t0, t1, {'str': '%db' % rng.choice([1, -1, 1, -1, 2, -2, 3, 5, -5, rng.randrange(-8, 9)])})
    for _ in range(200 * N):       # intraday timedeltas and h/n/s strings
        a = rng.randrange(LO, HI) * DAYUS + rng.choice([rng.randrange(DAYUS), rng.randrange(86400) * 1000000, rng.randrange(86400) * 1000000])
        span = rng.choice([0, rng.randrange(0, 3 * 3600) * 1000000, rng.randrange(0, 2 * DAYUS)])
        t0, t1 = a, a + span
        if rng.random() < 0.5: t0, t1 = t1, t0
        r = rng.random()
        if r < 0.5:
            us = rng.choice([3600, 1800, 7, 86400 + 3600, 600]) * 1000000 * rng.choice([1, -1])
            if abs(span // max(1, abs(us))) > 3000: us *= 50
            add(t0, t1, {'td_us': us})
        else:
            u = rng.choice('hns'); per = {'h': 3600, 'n': 60, 's': 1}[u] * 1000000
            n = rng.choice([1, -1, 2, 5, -5, 30]);
            while abs(span // (per * abs(n))) > 3000: n *= 10
            add(t0, t1, {'str': '%d%s' % (n, u)})
    for _ in range(80 * N):        # sub-second timedeltas whose span is an exact multiple (float-division closed forms lose the last element)
        a = rng.randrange(LO, HI) * DAYUS + rng.randrange(86400) * 1000000
        us = rng.choice([100000, 300000, 250000, 1, 7, 999999, 1100000]); k = rng.randrange(1, 60)
        t0, t1 = a, a + us * k
        if rng.random() < 0.5:
            t0, t1, us = t1, t0, -us
        add(t0, t1, {'td_us': us})
    for _ in range(250 * N):       # w/m/q/y single periods from a day <= 28 at midnight, both signs
        a = day28(rng); u = rng.choice('wmqy'); n = rng.choice([1, -1, 2, -2, 3, -1, 1])
        span = rng.choice([0, rng.randrange(0, 1100), rng.randrange(0, 400)])
        if u == 'y': span = rng.randrange(0, 4000)
        t0 = a * DAYUS; t1 = (a + span) * DAYUS
        if rng.random() < 0.5: t0, t1 = t1, t0
        add(t0, t1, {'str': '%d%s' % (n, u)})
    for _ in range(200 * N):       # compound strings (day <= 28 start, months only with non-negative small day parts)
        a = day28(rng)
        span = rng.choice([rng.randrange(0, 900), rng.randrange(0, 60)])
        parts = rng.choice([[('m', 1), ('d', 0)], [('y', 1), ('m', -3)], [('w', 1), ('d', 2)], [('d', 1), ('h', 12)], [('m', 1), ('w', 1)],
                            [('b', 5), ('d', 2)], [('q', 1), ('m', 1)], [('d', 3), ('b', 1)], [('w', 2), ('d', -1)],
                            # leading part opposes the net direction (the guard must look at the whole bump)
                            [('h', 1), ('n', 30)], [('n', 90), ('s', 15)], [('h', 12), ('s', -1)], [('s', 1), ('n', 1)], [('h', 1), ('d', 1)],
                            [('d', -1), ('w', 1)], [('d', 1), ('m', -1)], [('d', -2), ('m', 1)], [('w', -1), ('m', 1)], [('d', -3), ('w', 1), ('d', 1)]])
        sign = rng.choice([1, -1])
        s = ''.join('%d%s' % (sign * k if k else 0, u) for u, k in parts)
        if any(u in 'mqy' for u, _ in parts):
            # keep the day of month stable: month parts first, from a day <= 28 (the start is)
            pass
        t0 = a * DAYUS; t1 = (a + span) * DAYUS
        if all(u in 'hns' for u, _ in parts):
            # intraday compound: keep the list short (a span of at most a few hundred steps, not of months)
            step = abs(sum({'h': 3600, 'n': 60, 's': 1}[u] * k for u, k in parts)) or 1
            t0 = a * DAYUS + rng.randrange(86400) * 1000000
            t1 = t0 + (step * rng.randrange(0, 200) + rng.randrange(0, step)) * 1000000
        elif any(u in 'hns' for u, _ in parts):
            t1 = t0 + (min(span, 120)) * DAYUS
        if rng.random() < 0.5: t0, t1 = t1, t0
        add(t0, t1, {'str': s})
    # never generate a range of more than ~5000 elements (oracle and model are bounded; a runaway case costs minutes)
    kept = []
    for c in cases:
        b = c['bump'] if c['bump'] is not None else {'int': 1}
        try:
            T0 = us2dt(c['t0']); nxt = step_fn(b)(T0)
            stepus = abs(dt2us(nxt) - c['t0'])
        except Exception:
            stepus = DAYUS
        if stepus == 0 or abs(c['t1'] - c['t0']) // stepus <= 5000:
            kept.append(c)
    cases = kept
    for c in cases:                # other spellings of the same call (endpoint resolution, Calendar.drange for non-b bumps, upper case)
        b = c['bump']; r = rng.random()
        isb = b is not None and 'str' in b and b['str'].lower().endswith('b')    # Calendar.drange reads any string ending in 'b' as '<int>b' (C05's business-day path)
        if r < 0.12 and c['t0'] % DAYUS == 0 and c['t1'] % DAYUS == 0:
            c['ep0'] = rng.choice(['date', 'int', 'iso']); c['ep1'] = rng.choice(['date', 'int', 'iso', 'dt'])
        elif r < 0.2:
            c['ep0'] = 'iso'; c['ep1'] = rng.choice(['iso', 'dt'])
        elif 0.75 <= r < 0.87 and 1700 < us2dt(min(c['t0'], c['t1'])).year and us2dt(max(c['t0'], c['t1'])).year < 2250:
            # the endpoints as the types a pandas / numpy user holds (sub-second parts included)
            c['ep0'] = rng.choice(['pdts', 'np_us']); c['ep1'] = rng.choice(['pdts', 'np_us', 'dt'])
        elif r < 0.3 and not isb:
            c['via'] = 'calendar'
        elif r < 0.4 and b is not None and 'str' in b:
            c['upper'] = 1
        elif 0.6 <= r < 0.75 and (c['t1'] - c['t0']) % DAYUS == 0 and abs(c['t1'] - c['t0']) // DAYUS < 1500:
            # one endpoint given as an offset from the other (int days, timedelta, 'kd'), in both directions and with both bump signs
            c['off'] = [rng.choice(['t1', 't1', 't0']), rng.choice(['int', 'td', 'str'])]
        elif r < 0.6 and isb and c.get('via') != 'calendar':
            lo, hi = min(c['t0'], c['t1']), max(c['t0'], c['t1'])
            c['dirty_cal'] = [lo - lo % DAYUS + k * DAYUS for k in range(0, min(10, (hi - lo) // DAYUS + 1), 2)]
    return cases

def shrink(case):
    t0, t1 = case['t0'], case['t1']
    if abs(t1 - t0) > 3 * DAYUS:
        mid = t0 + ((t1 - t0) // (2 * DAYUS)) * DAYUS
        yield dict(case, t1=mid)
        yield dict(case, t1=t0 + (3 * DAYUS if t1 > t0 else -3 * DAYUS))
