"""C15 — tree flatten/rebuild are inverse; tree_update is a non-destructive deep merge; table_to_tree / tree_to_table inverse."""
import json, copy, itertools

ID = 'C15'
TRANSLATOR = []
COQ_EXEC = ['exec.X_tree']
COQ_IMPORTS = 'From Coq Require Import NArith.\nFrom PB Require Import model.M_eq model.M_tree.\n'
COQ_PRELUDE = ''
PER_FILE = 400
CASE_TIMEOUT = 5
RULE = ('trees = nests of dict / Dict / dictattr over string keys (plain, starting with an underscore (_x, _, __init__, _id, _pk), holding % / space / slash, some containing dots, incl. the colliding {v1.0: .., v1: {0: ..}}; paths are always tuples / lists) with leaves None / ints / strings / lists, depth <= 4. flat cases: tree_items, '
        'tree_keys, tree_values, tree_getitem on every listed path, items_to_tree(tree_items(t)). update cases: tree_update(t, u, ignore) or '
        'Dict + dict (about a third with a dict OBJECT shared between 2-3 paths of t, of u, or between t and u) with canonical deep snapshots (class, key order, leaves of every branch) of BOTH operands taken before and after the call; '
        'EVERY pair of the 36 dict-rooted trees over keys {a,b} of depth <= 2 (empty branches included), random pairs where u is derived from t '
        '(changed leaves, leaf-vs-branch conflicts both ways, new keys, deep overlaps), u is t itself, u = {}, ignore lists. table cases: '
        'patterns of 2..6 segments with 1..4 %wildcards, rows with unique paths -> table_to_tree (from None or onto an existing tree) -> '
        'tree_to_table -> table_to_tree (rows as list / dictable / single dict, pattern as string / list, dictable(tree, pattern)); tree_setitem cases (tuple / list / dotted-string path); tree_get on every path in every spelling; a 150-key branch, a depth-12 chain, a 150-row table. Everything is compared inside Coq with M_tree (cow = true). Oracle on the real outputs: rebuild == t, '
        'keys/values are the projections of items, getitem returns the leaf, result == the recursive merge written from the property text, '
        '(for EVERY dict-rooted u: branches of u that hold no leaf contribute nothing), update(t,t) == t, update(t,{}) == t, snapshots of t and u unchanged, rows come back as the same set of rows. '
        'non-trivial = update with a common key, flat tree of depth >= 2, table with >= 2 rows; distinct by the JSON of the case')
EXPLANATION = ('theorems C15_* (coq/props/C15.v) hold for every tree of the inductive type (any depth and branching): flatten-then-insert '
               '(what tree_update does) equals the recursive merge of t with u minus its leafless branches, for all pairs (t, u) with distinct keys (C15_update_is_merge, no shape hypothesis on u), rebuild is the identity, idempotence, empty update, and no assignment '
               'of the repaired tree_update / table_to_tree goes into a dict object owned by an operand (ownership-flag formulation of the heap frame); '
               'for ANY list of rows with pairwise distinct paths under a pattern with distinct wildcard names, tree_to_table(table_to_tree(None, pattern, rows)) '
               'is a permutation of the rows restricted to the pattern columns (C15_table_tree_inverse) and rebuilding from that table gives the same tree '
               '(C15_tree_table_tree_inverse); the pinned shallow-copy variant is refuted inside Coq on the DESIGN input. The correspondence ties the model to /repo on thousands of trees')
TRUSTED = ['modelled, not verified: Python dict insertion order / in-place assignment (association lists, M_tree.kset), copy() of a dict (a new object sharing the values), '
           'the harness builder that turns the JSON description into Python objects and Coq literals']
ASSUMPTIONS = ['keys are ASCII strings (dots and the empty key allowed when the path is a tuple / list; dotted-string paths only for dot-free non-empty keys)', 'branches are exactly dict, Dict or dictattr objects; leaves are None, ints, strings or lists of those, plus float NaN objects (float(\'nan\'), np.nan, np.float64, inf-inf) in update / setitem cases with an ignore list - the docstring\'s ignore = [None, np.nan]',
               'a dict object may hang under several paths of an operand, or in both operands (finite DAGs; built for flat / update / table-onto cases); the model treats the occurrences as equal-valued distinct branches, which is exact because tree_update never writes into an operand; in-place tree_setitem cases use proper trees', 'wildcard names in a pattern are distinct; wildcard values used as keys are strings']
EXHAUSTIVE = {'quick': False, 'thorough': False}

CLS = {'dict': 0, 'Dict': 1, 'dictattr': 2}
CLSN = ['dict', 'Dict', 'dictattr']
KEYS = ['a', 'b', 'c', 'd', 'x', 'v1.0', 'v1', '0', 'a.b', '.', '', '_x', '_', '__init__', '_id', '_pk', 'a_b', '%p', 'a/b', ' ', 'A']

def Nd(kids, cls='dict'): return ['N', cls, [[k, v] for k, v in kids]]
def Lf(v): return ['L', v]
def is_node(s): return s[0] == 'N'

def full(s, root=True):
    """every branch below the root has at least one child"""
    if not is_node(s): return True
    if not root and not s[2]: return False
    return all(full(v, False) for _, v in s[2])

def depth(s):
    return 0 if not is_node(s) else 1 + max([depth(v) for _, v in s[2]] + [0])

# ------------------------------------------------------------------ Coq literals
def coq_str(x): return '"' + x.replace('"', '""') + '"'
def is_nan_spec(v): return isinstance(v, dict) and 'nan' in v      # a NaN leaf / ignore member: {'nan': 'float' | 'np' | 'np64' | 'arith'} (which NaN OBJECT is built)

def coq_leaf(v):
    if v is None: return 'VNone'
    if is_nan_spec(v): return '(VNaN 1%N)'
    if isinstance(v, bool): raise ValueError(v)
    if isinstance(v, int): return '(VNum false (%d))' % (2 * v)
    if isinstance(v, str): return '(VStr %s)' % coq_str(v)
    if isinstance(v, list): return '(VList [%s])' % '; '.join(coq_leaf(x) for x in v)
    raise ValueError(v)
def coq_tree(s):
    if not is_node(s): return '(Leaf %s)' % coq_leaf(s[1])
    return '(Node false %d%%N [%s])' % (CLS[s[1]], '; '.join('(%s, %s)' % (coq_str(k), coq_tree(v)) for k, v in s[2]))
def coq_pat(p):
    return '[' + '; '.join(('SWild %s' % coq_str(x[1:])) if x.startswith('%') else ('SLit %s' % coq_str(x)) for x in p) + ']'
def coq_row(r):
    return '[' + '; '.join('(%s, %s)' % (coq_str(k), coq_leaf(v)) for k, v in r) + ']'

def coq_runner(case):
    return {'flat': 'run_flat', 'update': 'run_update', 'table': 'run_table', 'setitem': 'run_setitem'}[case['kind']]
def coq_case(case):
    k = case['kind']
    if k == 'flat': return coq_tree(case['t'])
    if k == 'update':
        return '(%s, %s, [%s])' % (coq_tree(case['t']), coq_tree(case['t'] if case.get('same') else case['u']), '; '.join(coq_leaf(x) for x in case.get('ignore', [])))
    if k == 'setitem':
        return '(%s, [%s], %s, [%s])' % (coq_tree(case['t']), '; '.join(coq_str(x) for x in case['path']), coq_leaf(case['value']), '; '.join(coq_leaf(x) for x in case.get('ignore', [])))
    if k == 'table':
        t0 = 'None' if case.get('t0') is None else '(Some %s)' % coq_tree(case['t0'])
        return '(%s, %s, [%s])' % (t0, coq_pat(case['pattern']), '; '.join(coq_row(r) for r in case['rows']))
    raise ValueError(k)

# ------------------------------------------------------------------ implementation side
def impl_setup():
    global Dict, dictattr, dictable, tree_items, tree_keys, tree_values, tree_getitem, tree_get, tree_setitem, items_to_tree, tree_update, tree_to_table, table_to_tree, TYPES
    from pyg_base import Dict, dictattr, dictable, tree_items, tree_keys, tree_values, tree_getitem, tree_get, tree_setitem, items_to_tree, tree_update, tree_to_table
    from pyg_base._table_to_tree import table_to_tree
    TYPES = {'dict': dict, 'Dict': Dict, 'dictattr': dictattr}

def build_leaf(v):
    if is_nan_spec(v):
        import numpy as np
        return {'float': lambda: float('nan'), 'np': lambda: np.nan, 'np64': lambda: np.float64('nan'), 'arith': lambda: float('inf') - float('inf')}[v['nan']]()
    if isinstance(v, list):
        return [build_leaf(x) for x in v]
    return copy.deepcopy(v)

def deq(a, b):
    """what == says about two nests of dicts (keys and leaves, not classes or order), except that a NaN leaf matches a NaN leaf"""
    if isinstance(a, dict) or isinstance(b, dict):
        return isinstance(a, dict) and isinstance(b, dict) and set(a) == set(b) and all(deq(a[k], b[k]) for k in a)
    if isinstance(a, float) and a != a:
        return isinstance(b, float) and b != b
    return bool(a == b)

def leaf_spec_eq(a, b):
    if is_nan_spec(a) or is_nan_spec(b):
        return is_nan_spec(a) and is_nan_spec(b)
    return a == b and type(a) == type(b)

def build(s, memo=None):
    """the Python object; a branch description carrying a share id (4th element) is built ONCE per memo and the same dict object is
    hung under every path that names it (DAG-shaped trees: {'dev': defaults, 'prod': defaults})"""
    if not is_node(s):
        return build_leaf(s[1])
    sid = s[3] if len(s) > 3 else None
    if sid is not None and memo is not None and sid in memo:
        return memo[sid]
    d = TYPES[s[1]]()
    if sid is not None and memo is not None:
        memo[sid] = d
    for k, v in s[2]:
        d[k] = build(v, memo)
    return d

def shared_groups(s, obj, acc=None):
    """{share id: [objects found under the paths that name it]}"""
    acc = {} if acc is None else acc
    if is_node(s) and isinstance(obj, dict):
        if len(s) > 3:
            acc.setdefault(s[3], []).append(obj)
        for k, v in s[2]:
            if k in obj:
                shared_groups(v, obj[k], acc)
    return acc

def sharing_broken(s, obj):
    for sid, objs in shared_groups(s, obj).items():
        if any(o is not objs[0] for o in objs):
            return sid
    return None

def canon_leaf(v):
    if v is None: return None
    if isinstance(v, float) and v != v: return 'NaN'
    if isinstance(v, bool): return ['?', 'bool']
    if isinstance(v, int): return v
    if isinstance(v, str): return ['s', v]
    if isinstance(v, list): return ['l', [canon_leaf(x) for x in v]]
    if isinstance(v, tuple): return ['t', [canon_leaf(x) for x in v]]
    return '?'

def canon_tree(o):
    """deep snapshot: class, key order and leaves of every branch"""
    if type(o) is dict or type(o) is Dict or type(o) is dictattr:
        code = 0 if type(o) is dict else 1 if type(o) is Dict else 2
        return ['N', code, [[k, canon_tree(v)] for k, v in o.items()]]
    return ['L', canon_leaf(o)]

def show(s):
    if not is_node(s): return {'float': "float('nan')", 'np': 'np.nan', 'np64': "np.float64('nan')", 'arith': '(inf - inf)'}[s[1]['nan']] if is_nan_spec(s[1]) else repr(s[1])
    body = '{' + ', '.join('%r: %s' % (k, show(v)) for k, v in s[2]) + '}'
    return body if s[1] == 'dict' else '%s(%s)' % (s[1], body)

def lookup(kids, k):
    for kk, v in kids:
        if kk == k: return v
    return None

def ref_merge(t, u, ignore):
    """the recursive merge of the property text, on descriptions: u's leaves override (a value listed in ignore never
    overwrites an existing entry), branches on both sides are merged, the rest of t is kept"""
    if not is_node(u):
        return u
    kids = [list(kv) for kv in (t[2] if is_node(t) else [])]
    for k, su in u[2]:
        old = lookup(kids, k)
        if is_node(su):
            new = ref_merge(old if old is not None and is_node(old) else Nd([]), su, ignore)
        else:
            if old is not None and any(leaf_spec_eq(su[1], i) for i in ignore):
                continue
            new = su
        for kv in kids:
            if kv[0] == k:
                kv[1] = new; break
        else:
            kids.append([k, new])
    return ['N', t[1] if is_node(t) else 'dict', kids]

def prune_spec(u):
    """u without the branches that hold no leaf (empty dicts, dicts nesting only empty dicts): they contribute nothing to an update"""
    if not is_node(u):
        return u
    kids = []
    for k, v in u[2]:
        if is_node(v):
            v = prune_spec(v)
            if not v[2]:
                continue
        kids.append([k, v])
    return ['N', u[1], kids]

def plain(s):
    """the plain nested dict a description denotes (what == compares)"""
    return build_leaf(s[1]) if not is_node(s) else {k: plain(v) for k, v in s[2]}

def err(e):
    n = type(e).__name__
    return n if n in ('ValueError', 'KeyError', 'TypeError') else 'Other'

def impl(case):
    k = case['kind']
    if k == 'flat':
        s = case['t']; t = build(s, {})
        try:
            items = tree_items(t); keys = tree_keys(t); values = tree_values(t)
            got = []
            for p in keys:
                try: got.append(canon_tree(tree_getitem(t, tuple(p) if len(p) % 2 else list(p))))
                except Exception as e: got.append(['ERR', 'KeyError'])
            try: back = items_to_tree(items); cback = canon_tree(back)
            except Exception as e: back = None; cback = ['ERR', err(e)]
        except Exception as e:
            return {'status': err(e), 'obs': ['ERR', err(e)], 'viol': 'flattening %s raised %s' % (show(s), err(e))}
        obs = [[[list(it[:-1]), canon_leaf(it[-1])] for it in items], [list(p) for p in keys], [canon_leaf(v) for v in values], got, cback]
        viol = None
        if [tuple(it[:-1]) for it in items] != [tuple(p) for p in keys]:
            viol = 'tree_keys(%s) = %s is not the paths of tree_items in order' % (show(s), keys)
        elif [canon_leaf(it[-1]) for it in items] != [canon_leaf(v) for v in values]:
            viol = 'tree_values(%s) = %s is not the leaves of tree_items in order' % (show(s), values)
        elif is_node(s) and any(g != ['L', canon_leaf(it[-1])] for g, it in zip(got, items)):
            viol = 'tree_getitem(%s, path) does not return the leaf for some listed path: %s' % (show(s), got)
        elif is_node(s) and (w := flat_extra(s, t, keys, items)):
            viol = w
        elif is_node(s) and full(s) and not (back is not None and back == t and canon_tree(t) == canon_tree(build(s))):
            viol = 'items_to_tree(tree_items(t)) = %s != t = %s' % (cback, show(s))
        return {'status': 'ok', 'obs': obs, 'viol': viol}
    if k == 'update':
        st, su = case['t'], (case['t'] if case.get('same') else case['u'])
        ign = case.get('ignore', [])
        memo = {}
        t = build(st, memo); u = t if case.get('same') else build(su, memo)       # one memo: a branch may be the same object in t and in u
        before_t, before_u = canon_tree(t), canon_tree(u)
        call = ('%s + %s' % (show(st), show(su))) if case.get('via') == 'add' else 'tree_update(%s, %s%s)' % (show(st), show(su), (', ignore=[%s]' % ', '.join(show(Lf(i)) for i in ign)) if ign else '')
        try:
            ign_b = [build_leaf(i) for i in ign]
            ign_arg = ign_b[0] if case.get('ignore_scalar') and len(ign) == 1 and ign[0] is not None and not isinstance(ign[0], list) else ign_b
            res = (t + u) if case.get('via') == 'add' else tree_update(t, u, ignore=ign_arg) if ign else tree_update(t, u)
        except Exception as e:
            ok_to_raise = not is_node(su)
            return {'status': err(e), 'obs': ['ERR', err(e)], 'viol': None if ok_to_raise else '%s raised %s' % (call, err(e))}
        after_t, after_u = canon_tree(t), canon_tree(u)
        obs = [canon_tree(res), after_t == before_t, after_u == before_u]
        viol = None
        if after_t != before_t:
            viol = '%s modified its left operand: it is now %s' % (call, after_t)
        elif sharing_broken(st, t) is not None or sharing_broken(su, u) is not None:
            viol = '%s: a dict object shared between two paths of an operand is no longer the same object there' % call
        elif after_u != before_u:
            viol = '%s modified its right operand: it is now %s' % (call, after_u)
        elif is_node(st) and is_node(su):
            exp = plain(ref_merge(st, prune_spec(su), ign))
            if not deq(res, exp):
                viol = '%s = %s but the recursive merge is %s' % (call, res, exp)
            elif case.get('same') and not deq(res, plain(st)):
                viol = 'tree_update(t, t) != t for t = %s' % show(st)
            elif not su[2] and not deq(res, plain(st)):
                viol = 'tree_update(t, {}) != t for t = %s' % show(st)
        return {'status': 'ok', 'obs': obs, 'viol': viol}
    if k == 'setitem':
        st, path, value, ign = case['t'], case['path'], case['value'], case.get('ignore', [])
        t = build(st); sp = case.get('spell', 'tuple')
        key = tuple(path) if sp == 'tuple' else list(path) if sp == 'list' else '.'.join(path)
        call = 'tree_setitem(%s, %r, %r%s)' % (show(st), key, value, (', ignore=[%s]' % ', '.join(show(Lf(i)) for i in ign)) if ign else '')
        try:
            r = tree_setitem(t, key, build_leaf(value), ignore=[build_leaf(i) for i in ign]) if ign else tree_setitem(t, key, build_leaf(value))
        except Exception as e:
            return {'status': err(e), 'obs': ['ERR', err(e)], 'viol': '%s raised %s' % (call, err(e))}
        exp = plain(ref_merge(st, path_tree(path, value), ign))
        viol = None
        if r is not None:
            viol = '%s returned %r (it works in place and returns None)' % (call, r)
        elif not deq(t, exp):
            viol = '%s leaves the tree as %s but assigning that one path gives %s' % (call, t, exp)
        return {'status': 'ok', 'obs': canon_tree(t), 'viol': viol}
    if k == 'table':
        pat = case['pattern']; pattern = '/'.join(pat)
        rows = [dict(r) for r in case['rows']]
        t0 = None if case.get('t0') is None else build(case['t0'], {})
        before = None if t0 is None else canon_tree(t0)
        try:
            ras = case.get('rows_as', 'list')
            table = [dict(r) for r in rows]
            if ras == 'dict' and len(rows) == 1: table = table[0]
            elif ras == 'dictable' and rows: table = dictable(**{c: [r[c] for r in rows] for c in rows[0]})
            tree = table_to_tree(t0, pattern, table)
            back = tree_to_table(tree, pattern)
            back_list = tree_to_table(tree, list(pat))
            back_dictable = list(dictable(tree, pattern)) if back else []
            tree2 = table_to_tree(None, pattern, [dict(r) for r in back])
        except Exception as e:
            return {'status': err(e), 'obs': ['ERR', 'Error'], 'viol': 'table_to_tree / tree_to_table raised %s on pattern %r rows %r' % (err(e), pattern, rows)}
        crow = lambda r: [[kk, canon_leaf(r[kk])] for kk in sorted(r)]
        same0 = True if t0 is None else canon_tree(t0) == before
        obs = [canon_tree(tree), [crow(r) for r in back], same0, canon_tree(tree2)]
        viol = None
        paths = [tuple(r[p[1:]] if p.startswith('%') else p for p in pat[:-1]) for r in rows]
        key = lambda r: json.dumps(crow(r))
        if [key(r) for r in back_list] != [key(r) for r in back]:
            viol = 'tree_to_table(tree, %r) = %s differs from the string pattern spelling %s' % (list(pat), back_list, back)
        elif sorted(key(dict(r)) for r in back_dictable) != sorted(key(r) for r in back):
            viol = 'dictable(tree, %r) has rows %s but tree_to_table gives %s' % (pattern, back_dictable, back)
        elif not same0:
            viol = 'table_to_tree(t0, %r, rows) modified t0 = %s: it is now %s' % (pattern, show(case['t0']), canon_tree(t0))
        elif t0 is None and len(set(paths)) == len(paths):
            if sorted(map(key, back)) != sorted(map(key, rows)):
                viol = 'tree_to_table(table_to_tree(None, %r, rows), %r) = %s is not the rows %s' % (pattern, pattern, back, rows)
            elif not tree2 == tree:
                viol = 'table_to_tree(tree_to_table(tree)) != tree for pattern %r rows %s' % (pattern, rows)
        return {'status': 'ok', 'obs': obs, 'viol': viol}
    raise ValueError(k)

SENTINEL = ['no such path']
def flat_extra(s, t, keys, items):
    """tree_get agrees with tree_getitem on every listed path in every spelling (tuple, list, dotted string when no key on the
    path has a dot or is empty); a path that is not in the tree gives the default"""
    for p, it in zip(keys, items):
        leaf = it[-1]
        for spelled in (tuple(p), list(p)):
            if canon_tree(tree_get(t, spelled, SENTINEL)) != canon_tree(leaf):
                return 'tree_get(%s, %r) = %r but the leaf there is %r' % (show(s), spelled, tree_get(t, spelled, SENTINEL), leaf)
        if p and all(k and '.' not in k for k in p):
            d = '.'.join(p)
            try: g1 = tree_getitem(t, d)
            except Exception as e: g1 = ('raised', type(e).__name__)
            if canon_tree(g1) != canon_tree(leaf) or canon_tree(tree_get(t, d, SENTINEL)) != canon_tree(leaf):
                return 'tree_getitem / tree_get(%s, %r) = %r / %r but the leaf there is %r' % (show(s), d, g1, tree_get(t, d, SENTINEL), leaf)
    for p in keys[:3]:
        q = tuple(p) + ('no_such_key',)
        if tree_get(t, q, SENTINEL) is not SENTINEL or tree_get(t, list(p[:-1]) + ['no_such_key'], SENTINEL) is not SENTINEL:
            return 'tree_get(%s, %r, default) does not return the default for a path that is not in the tree' % (show(s), q)
    return None

def path_tree(path, value):
    u = Lf(value)
    for k in reversed(path):
        u = Nd([(k, u)])
    return u

def common_key(t, u):
    return is_node(t) and is_node(u) and any(lookup(t[2], k) is not None for k, _ in u[2])

def nontrivial(case, result):
    k = case['kind']
    if k == 'flat': return depth(case['t']) >= 2
    if k == 'update': return bool(case.get('same')) or common_key(case['t'], case['u'])
    if k == 'setitem': return len(case['path']) >= 2
    return len(case['rows']) >= 2

def shape(case):
    k = case['kind']
    if k == 'flat': return 'flat:d%d' % depth(case['t'])
    if k == 'setitem': return 'setitem:%s' % case.get('spell', 'tuple')
    if k == 'update': return 'update:%s%s%s' % (case.get('via', 'tree_update'), ':same' if case.get('same') else '', ':ignore' if case.get('ignore') else '')
    return 'table:w%d%s' % (sum(1 for p in case['pattern'] if p.startswith('%')), ':onto' if case.get('t0') is not None else '')

def shrink(case):
    if case['kind'] != 'update' or case.get('same'):
        return
    t, u = case['t'], case['u']
    for which, s in (('t', t), ('u', u)):
        if is_node(s):
            for i in range(len(s[2])):
                yield dict(case, **{which: ['N', s[1], s[2][:i] + s[2][i + 1:]]})
            for i, (k, v) in enumerate(s[2]):
                if is_node(v):
                    for j in range(len(v[2])):
                        yield dict(case, **{which: ['N', s[1], s[2][:i] + [[k, ['N', v[1], v[2][:j] + v[2][j + 1:]]]] + s[2][i + 1:]]})
    if case.get('ignore'):
        yield dict(case, ignore=[])

# ------------------------------------------------------------------ generation
def small_trees(d, leaf):
    """all trees over keys {a, b} of depth <= d with the given leaf"""
    if d == 0:
        return [Lf(leaf)]
    sub = small_trees(d - 1, leaf)
    out = [Lf(leaf)]
    for ca in [None] + sub:
        for cb in [None] + sub:
            out.append(Nd([(k, c) for k, c in (('a', ca), ('b', cb)) if c is not None]))
    return out

def rand_leaf(rng):
    return rng.choice([None, 0, 1, 2, 7, -3, 'a', 'x', 'hello', [1, 2], [], ['a', 1], [None]])

def rand_tree(rng, d, cls=None, allow_empty=0.05):
    if d <= 0 or rng.random() < 0.3:
        return Lf(rand_leaf(rng))
    n = rng.choice([1, 1, 2, 2, 3]) if rng.random() > allow_empty else 0
    ks = rng.sample(KEYS, n)
    return Nd([(k, rand_tree(rng, d - 1, None, allow_empty)) for k in ks], cls or rng.choice(CLSN))

def rand_root(rng, d, cls=None, allow_empty=0.05):
    t = rand_tree(rng, d, cls, allow_empty)
    while not is_node(t):
        t = rand_tree(rng, d, cls, allow_empty)
    return t

def derive(rng, t, d):
    """an update tree overlapping t: keeps / changes leaves, swaps leaf and branch, adds keys"""
    if not is_node(t):
        return Lf(rand_leaf(rng)) if rng.random() < 0.6 or d <= 0 else rand_root(rng, min(d, 2), None, 0)
    kids = []
    for k, v in t[2]:
        r = rng.random()
        if r < 0.35: continue
        if r < 0.75: kids.append([k, derive(rng, v, d - 1)])
        elif r < 0.85: kids.append([k, Lf(rand_leaf(rng))])
        else: kids.append([k, rand_root(rng, max(1, min(d - 1, 2)), None, 0)])
    for k in KEYS:
        if lookup(kids, k) is None and lookup(t[2], k) is None and rng.random() < 0.2:
            kids.append([k, rand_tree(rng, max(0, min(d - 1, 2)), None, 0)])
    rng.shuffle(kids)
    if not kids and rng.random() < 0.8:
        kids = [[rng.choice(KEYS), Lf(rand_leaf(rng))]]
    return ['N', rng.choice(CLSN), kids]

LITS = ['markets', 'weight', 'k', 'm', 'v1.0', 'a.b', '_meta', '_']
VALS = ['TY', 'ES', 'v1.0', 'p', 'q']
KVALS = ['TY', 'ES', 'v1.0', '_TY', '_', '__init__', '_id', '_pk', 'a_b', '%p', 'a/b', ' ']     # wildcard values used as keys
LEAFVALS = [1, 2, 'TY', None, [1, 2], 5, 'p', '_pk', '_']
def rand_table(rng):
    nseg = rng.choice([2, 3, 3, 4, 4, 5, 6])
    nw = rng.randrange(1, min(4, nseg) + 1)
    wpos = set(rng.sample(range(nseg), nw))
    if rng.random() < 0.8 and (nseg - 1) not in wpos:       # usually the leaf is a wildcard
        wpos.discard(min(wpos)); wpos.add(nseg - 1)
    names = rng.sample(['u', 'v', 'w', 'y', 'z', 's'], nseg)
    pat = [('%' + names[i]) if i in wpos else rng.choice(LITS) for i in range(nseg)]
    nrows = rng.choice([1, 2, 3, 4, 6])
    rows, seen = [], set()
    unique = rng.random() < 0.9
    for _ in range(nrows * 3):
        if len(rows) >= nrows: break
        r = []
        for i, p in enumerate(pat):
            if p.startswith('%'):
                r.append([p[1:], rng.choice(KVALS if rng.random() < 0.6 else KVALS[:3]) if i < nseg - 1 else rng.choice(LEAFVALS)])
        path = tuple(v for (n, v), p in zip(r, [p for p in pat if p.startswith('%')]) if ('%' + n) != pat[-1])
        if unique and path in seen: continue
        seen.add(path); rng.shuffle(r); rows.append(r)
    return pat, rows

def dotted_seeds():
    """keys containing '.' are ordinary keys when the path is a tuple / list: the colliding shapes"""
    t1 = Nd([('v1.0', Nd([('x', Lf(1))])), ('v1', Nd([('0', Nd([('x', Lf(2))]))]))])
    t2 = Nd([('a.b', Lf(1)), ('a', Nd([('b', Lf(2))]))], 'Dict')
    t3 = Nd([('a', Nd([('b.c', Lf(1)), ('b', Nd([('c', Lf(2))]))]))], 'dictattr')
    out = [{'kind': 'flat', 't': t} for t in (t1, t2, t3)]
    out += [{'kind': 'update', 't': t1, 'u': Nd([('v1.0', Nd([('x', Lf(5))]))])}, {'kind': 'update', 't': t1, 'u': Nd([('v1', Nd([('0', Nd([('y', Lf(5))]))]))])},
            {'kind': 'update', 't': t2, 'u': Nd([('a.b', Nd([('c', Lf(3))])), ('a', Nd([('b', Lf(None))]))]), 'via': 'add'},
            {'kind': 'table', 'pattern': ['v1.0', '%m', 'a.b', '%w'], 'rows': [[['m', 'v1.0'], ['w', 1]], [['m', 'v1'], ['w', 2]]]}]
    # keys starting with an underscore (and other unusual names) are ordinary keys everywhere
    tu = Nd([('_id', Lf(1)), ('_', Nd([('__init__', Lf(2)), ('_pk', Nd([('x', Lf(None))], 'Dict'))])), ('a_b', Nd([('%p', Lf('q')), ('a/b', Lf([1]))]))], 'dictattr')
    out += [{'kind': 'flat', 't': tu}, {'kind': 'update', 't': tu, 'u': Nd([('_', Nd([('_pk', Nd([('_x', Lf(3))])), ('__init__', Lf(None))])), ('_new', Lf(0))])},
            {'kind': 'update', 't': tu, 'u': tu, 'same': True, 'via': 'tree_update'},
            {'kind': 'setitem', 't': tu, 'path': ['_', '_pk', '_y'], 'value': 7, 'spell': 'str'}]
    out += underscore_tables()
    return out

def underscore_tables():
    return [{'kind': 'table', 'pattern': ['markets', '%m', 'weight', '%w'], 'rows': [[['m', '_TY'], ['w', 1]], [['m', 'ES'], ['w', 2]]]},
            {'kind': 'table', 'pattern': ['%a', '%b', '%v'], 'rows': [[['a', '_'], ['b', '__init__'], ['v', 1]], [['a', 'x'], ['b', '_pk'], ['v', 2]], [['a', '_'], ['b', 'y'], ['v', '_z']]]},
            {'kind': 'table', 'pattern': ['%a', 'k', '%b', '%c', '%v'], 'rows': [[['a', 'p'], ['b', '_id'], ['c', '_'], ['v', None]], [['a', '_id'], ['b', 'q'], ['c', 'r'], ['v', 3]]]},
            {'kind': 'table', 'pattern': ['_meta', '%a', '%v'], 'rows': [[['a', '_only'], ['v', 1]]], 'rows_as': 'dict'}]

def big_cases():
    """sizes > 100: a 150-key branch, a depth-12 chain, both flattened, updated and addressed; a 150-row table"""
    wide = Nd([('k%d' % i, Lf(i) if i % 3 else Nd([('x', Lf(i)), ('y', Lf(None))])) for i in range(150)])
    deep = Lf(1)
    for i in range(12):
        deep = Nd([('d%d' % i, deep), ('s', Lf(i))], CLSN[i % 3])
    uw = Nd([('k%d' % i, Nd([('x', Lf(-i))]) if i % 2 else Lf('new')) for i in range(0, 150, 7)] + [('zz', Lf(0))])
    ud = path_tree(['d11', 'd10', 'd9', 'd8', 'd7', 'd6', 'd5'], 99)
    rows = [[['a', 'r%d' % (i // 10)], ['b', 'c%d' % (i % 10)], ['v', i]] for i in range(150)]
    return [{'kind': 'flat', 't': wide}, {'kind': 'flat', 't': deep}, {'kind': 'update', 't': wide, 'u': uw}, {'kind': 'update', 't': deep, 'u': ud},
            {'kind': 'update', 't': wide, 'u': wide, 'same': True}, {'kind': 'setitem', 't': deep, 'path': ['d11', 'd10', 'd9', 's', 'new'], 'value': 5, 'spell': 'str'},
            {'kind': 'table', 'pattern': ['big', '%a', '%b', '%v'], 'rows': rows}, {'kind': 'table', 'pattern': ['big', '%a', '%b', '%v'], 'rows': rows[:40], 'rows_as': 'dictable'}]

def all_nodes(s, path=()):
    out = []
    if is_node(s):
        out.append((path, s))
        for k, v in s[2]:
            out += all_nodes(v, path + (k,))
    return out

def share(rng, t, sid):
    """t with one of its branches (or a new one) hung, as the SAME dict object, under 2-3 paths at possibly different depths"""
    t = copy.deepcopy(t)
    nodes = [n for p, n in all_nodes(t) if p]
    if nodes and rng.random() < 0.7:
        b = rng.choice(nodes)
    else:
        b = rand_root(rng, rng.choice([1, 2]), None, 0)
    if len(b) > 3: return t
    b.append(sid)
    for _ in range(rng.choice([1, 1, 2])):
        hosts = [n for p, n in all_nodes(t) if n is not b and not any(m is n for _, m in all_nodes(b))]
        host = rng.choice(hosts)
        free = [k for k in KEYS if lookup(host[2], k) is None]
        if not free: continue
        host[2].append([rng.choice(free), b])       # the same description object: same share id, same kids
    return json.loads(json.dumps(t))

def nan_ignore_seeds():
    NP, FL, N64 = {'nan': 'np'}, {'nan': 'float'}, {'nan': 'np64'}
    t = Nd([('a', Lf(1)), ('b', Nd([('c', Lf(2)), ('d', Lf(None))])), ('e', Lf(FL))])
    return [{'kind': 'update', 't': t, 'u': Nd([('a', Lf(FL)), ('b', Nd([('c', Lf(N64)), ('d', Lf(5)), ('new', Lf({'nan': 'arith'}))]))]), 'ignore': [None, NP]},
            {'kind': 'update', 't': t, 'u': Nd([('a', Lf(NP)), ('e', Lf(3))]), 'ignore': [NP]},
            {'kind': 'update', 't': t, 'u': Nd([('a', Lf(N64)), ('b', Nd([('c', Lf(None))]))]), 'ignore': [NP], 'ignore_scalar': True},
            {'kind': 'update', 't': t, 'u': Nd([('a', Lf(FL)), ('b', Nd([('c', Lf([1, 2]))]))]), 'ignore': [[1, 2], NP]},
            {'kind': 'update', 't': t, 'u': Nd([('a', Lf(FL))])},
            {'kind': 'setitem', 't': t, 'path': ['b', 'c'], 'value': FL, 'ignore': [None, NP], 'spell': 'tuple'},
            {'kind': 'setitem', 't': t, 'path': ['b', 'zz'], 'value': N64, 'ignore': [NP], 'spell': 'str'}]

def shared_seeds():
    d = ['N', 'dict', [['host', Lf('h')], ['port', Lf(1)]], 's1']
    t = Nd([('dev', d), ('prod', d), ('other', Nd([('deep', Nd([('again', d)]))]))])
    e = ['N', 'Dict', [['x', Nd([('y', Lf(1))])]], 's2']
    t2 = ['N', 'Dict', [['a', e], ['b', ['N', 'Dict', [['c', e]]]]]]
    u = Nd([('dev', Nd([('port', Lf(2))])), ('new', d)])
    return json.loads(json.dumps([{'kind': 'flat', 't': t}, {'kind': 'flat', 't': t2}, {'kind': 'update', 't': t, 'u': u}, {'kind': 'update', 't': t, 'u': t, 'same': True},
                                  {'kind': 'update', 't': Nd([('k', Lf(0))]), 'u': t}, {'kind': 'update', 't': t2, 'u': Nd([('b', Nd([('c', Nd([('x', Lf(5))]))]))]), 'via': 'add'},
                                  {'kind': 'update', 't': t, 'u': Nd([('q', d), ('dev', d)])},
                                  {'kind': 'table', 'pattern': ['%e', 'host', '%h'], 'rows': [[['e', 'dev'], ['h', 'zz']]], 't0': t}]))

def gen_cases(rng, tier):
    cases = dotted_seeds() + big_cases() + shared_seeds() + nan_ignore_seeds()
    for v in (5, None, 'x', [1, 2]):
        cases.append({'kind': 'flat', 't': Lf(v)})
    T2 = [t for t in small_trees(2, 1) if is_node(t)]
    U2 = [t for t in small_trees(2, 2) if is_node(t)]
    for t in T2:
        cases.append({'kind': 'flat', 't': t})
        for u in U2:
            cases.append({'kind': 'update', 't': t, 'u': u})
    n = 400 if tier == 'quick' else 6000
    for _ in range(n):
        t = rand_root(rng, rng.choice([1, 2, 3, 4]), None, rng.choice([0, 0, 0.1]))
        cases.append({'kind': 'flat', 't': share(rng, t, 'f') if rng.random() < 0.2 else t})
    for _ in range(2 * n):
        via = 'add' if rng.random() < 0.25 else 'tree_update'
        t = rand_root(rng, rng.choice([1, 2, 3, 4]), 'Dict' if via == 'add' else None, rng.choice([0, 0, 0.1]))
        r = rng.random()
        c = {'kind': 'update', 't': t, 'via': via}
        if r < 0.08: c['same'] = True; c['u'] = t
        elif r < 0.14: c['u'] = Nd([], rng.choice(CLSN))
        elif r < 0.8: c['u'] = derive(rng, t, 4)
        elif r < 0.97: c['u'] = rand_root(rng, rng.choice([1, 2, 3]), None, rng.choice([0, 0, 0.1]))
        else: c['u'] = Lf(rand_leaf(rng)); c['via'] = 'tree_update'
        r2 = rng.random()
        if r2 < 0.1: c['t'] = share(rng, c['t'], 'st')
        elif r2 < 0.25 and is_node(c['u']) and not c.get('same'): c['u'] = share(rng, c['u'], 'su')
        elif r2 < 0.32 and is_node(c['u']) and not c.get('same'):      # the same branch object in t and in u
            b = rand_root(rng, rng.choice([1, 2]), None, 0) + ['tu']
            c['t'] = json.loads(json.dumps(['N', c['t'][1], c['t'][2] + [['shared', b]]])); c['u'] = json.loads(json.dumps(['N', c['u'][1], c['u'][2] + [[rng.choice(['shared', 'sh2']), b]]]))
        if c.get('same'): c['u'] = c['t']
        if c['via'] == 'tree_update' and rng.random() < 0.2:
            c['ignore'] = rng.choice([[None], [None, 0], ['x'], [1], [[1, 2]]])
        elif c['via'] == 'tree_update' and is_node(c['u']) and not c.get('same') and rng.random() < 0.15:
            # the docstring's own ignore = [None, np.nan]: NaN leaves of u that are OTHER objects than the NaN in the list must be ignored too
            NANS = [{'nan': k} for k in ('float', 'np', 'np64', 'arith')]
            c['ignore'] = rng.choice([[None, {'nan': 'np'}], [{'nan': 'np'}], [{'nan': 'float'}, 'x'], [None, {'nan': 'np64'}, 0], [[1, 2], {'nan': 'np'}]])
            def nanify(s, p):
                if not is_node(s):
                    return Lf(rng.choice(NANS)) if rng.random() < p else s
                return [s[0], s[1], [[k, nanify(v, p)] for k, v in s[2]]]      # (share ids dropped: the occurrences now differ)
            c['u'] = nanify(c['u'], 0.5)
            if rng.random() < 0.3: c['t'] = nanify(c['t'], 0.2)
            c['ignore_scalar'] = rng.random() < 0.4
        cases.append(c)
    for _ in range(n):
        pat, rows = rand_table(rng)
        c = {'kind': 'table', 'pattern': pat, 'rows': rows}
        r = rng.random()
        if r < 0.15 and len(rows) == 1: c['rows_as'] = 'dict'
        elif r < 0.4 and rows and all(not isinstance(v, list) for row in rows for _, v in row) and len({tuple(sorted(k for k, _ in row)) for row in rows}) == 1: c['rows_as'] = 'dictable'
        if rng.random() < 0.3:
            base = Nd([(LITS[0], rand_root(rng, 2, None, 0))], rng.choice(CLSN)) if rng.random() < 0.5 else rand_root(rng, 3, None, 0)
            # make an overlap likely: graft the tree the rows would build under the same literals
            c['t0'] = base
        cases.append(c)
    for _ in range(n):
        t = rand_root(rng, rng.choice([1, 2, 3, 4]), None, rng.choice([0, 0, 0.1]))
        keys = [p for p, _ in flat_paths(t)]
        r = rng.random()
        if keys and r < 0.35: path = list(rng.choice(keys))                                  # overwrite a leaf
        elif keys and r < 0.6: path = list(rng.choice(keys))[:-1] + [rng.choice(KEYS)]       # sibling / overwrite
        elif keys and r < 0.8: path = list(rng.choice(keys)) + [rng.choice(KEYS)]            # a leaf in the way becomes a branch
        elif keys and r < 0.9: path = list(rng.choice(keys))[:max(1, len(rng.choice(keys)) - 1)]   # a branch is replaced by a leaf
        else: path = [rng.choice(KEYS) for _ in range(rng.choice([1, 2, 3]))]
        c = {'kind': 'setitem', 't': t, 'path': path, 'value': rand_leaf(rng)}
        c['spell'] = rng.choice(['tuple', 'list', 'str']) if all(k and '.' not in k for k in path) else rng.choice(['tuple', 'list'])
        if rng.random() < 0.25: c['ignore'] = rng.choice([[None], [None, 0], ['x'], [1]])
        cases.append(c)
    return cases

def flat_paths(s, prefix=()):
    if not is_node(s):
        return [(prefix, s[1])]
    return [x for k, v in s[2] for x in flat_paths(v, prefix + (k,))]

LEVEL_TEXT = ('machine-checked Coq theorems (C15_*, by structural induction over every tree: any depth, any branching) that flatten-then-insert equals the '
              'recursive merge, that rebuild inverts flatten on trees with non-empty branches, idempotence, empty update, that the repaired tree_update / table_to_tree never '
              'assign into a dict object owned by an operand, and that table_to_tree / tree_to_table are inverse (up to row order, in both directions) for any number of rows with '
              'unique paths and any pattern with distinct wildcard names; the model is tied to /repo on every run by evaluating the real functions on every pair of small '
              'trees and thousands of random trees, updates and pattern tables and comparing with the model inside Coq, with deep before/after snapshots of both operands')
LEVEL_NOTE = ('trusted: Coq kernel/vm_compute; modelled not verified: dict insertion order, in-place assignment and copy() (ownership-flag formulation of the heap); '
              'the pinned shallow copy in items_to_tree / table_to_tree wrote into the left operand (repaired by fixes/C15.patch); wildcard values in key positions are strings in the model')
TECHNIQUE = 'Coq proof (nested structural induction, refinement of path insertion to a recursive merge spec, ownership flags for aliasing) + differential correspondence in vm_compute'
