#!/venv/bin/python
"""keepseed.py <PROP> <n> <out_dir> <caught: yes|no|after-strengthening> <detail>  -- store a vetted seeded change under seeded/"""
import sys, os, json, shutil
P, n, src, caught, detail = sys.argv[1:6]
dst = '/verif/seeded/%s-%s' % (P, n)
os.makedirs(dst, exist_ok=True)
shutil.copy(os.path.join(src, 'change_%s.diff' % n), os.path.join(dst, 'patch.diff'))
shutil.copy(os.path.join(src, 'demo_%s.py' % n), os.path.join(dst, 'demo.py'))
note = open(os.path.join(src, 'note_%s.txt' % n)).read()
json.dump({'property': P, 'breaks': note.strip(), 'needs_to_manifest': note.strip().split('\n')[-2] if note.count('\n') > 1 else '',
           'ran': 'demo.py exits 0 on the unchanged tree and 1 with patch.diff applied (PYTHONPATH=<tree>/src /venv/bin/python demo.py); existing suite pass/fail sets unchanged (sub-agent report, re-checked on the related test files); check run: VERIF_REPO=<worktree with patch> /venv/bin/python harness/check.py %s --tier quick' % P,
           'caught_by_check': caught, 'detail': detail}, open(os.path.join(dst, 'meta.json'), 'w'), indent=1)
print(dst)
