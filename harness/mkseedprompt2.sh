#!/bin/bash
# second wave: same as mkseedprompt.sh but tells the agent which changes were already tried
p=$1
git -C /repo worktree add --detach /tmp/seed2_$p -q 2>&1 | grep -v condarc
sed "s#WORKTREE#/tmp/seed2_$p#g; s#seed_out_PID#seed2_out_$p#g; s#PID#$p#g" /verif/harness/seed_prompt_template.txt > /tmp/seed2_prompt_$p.txt
cat /tmp/prop_$p.txt >> /tmp/seed2_prompt_$p.txt
echo "" >> /tmp/seed2_prompt_$p.txt
echo "ALREADY TRIED in an earlier round (do NOT repeat these or close variants of them; find different functions / mechanisms / clauses of the property):" >> /tmp/seed2_prompt_$p.txt
for n in 1 2 3; do f=/verif/seeded/$p-$n/meta.json; [ -f $f ] && /venv/bin/python -c "
import json; m=json.load(open('$f')); print('- ' + ' '.join(m['breaks'].split())[:600])" 2>/dev/null >> /tmp/seed2_prompt_$p.txt; done
