#!/bin/bash
# mkseedpromptN.sh <wave> <PROP>: worktree /tmp/seed<wave>_<PROP>, prompt /tmp/seed<wave>_prompt_<PROP>.txt listing everything tried in earlier waves
w=$1; p=$2
git -C /repo worktree add --detach /tmp/seed${w}_$p -q 2>&1 | grep -v condarc
[ -f /tmp/prop_$p.txt ] || /venv/bin/python - <<PY 2>/dev/null
import json
for l in open('/verif/properties.jsonl'):
    q=json.loads(l)
    if q['id']=='$p':
        open('/tmp/prop_%s.txt'%q['id'],'w').write("PROPERTY %s: %s\n\nSTATEMENT: %s\n\nQUANTIFIER: %s\n\nWHY EXISTING TESTS CANNOT SETTLE IT: %s\n\nCODE ANCHORS: %s\n" % (q['id'],q['title'],q['statement'],q['quantifier']['text'],q['why_tests_cant'],json.dumps(q['anchors']['mechanism'])))
PY
sed "s#WORKTREE#/tmp/seed${w}_$p#g; s#seed_out_PID#seed${w}_out_$p#g; s#PID#$p#g" /verif/harness/seed_prompt_template.txt > /tmp/seed${w}_prompt_$p.txt
cat /tmp/prop_$p.txt >> /tmp/seed${w}_prompt_$p.txt
echo "" >> /tmp/seed${w}_prompt_$p.txt
echo "ALREADY TRIED in earlier rounds (do NOT repeat these or close variants of them; find different functions / mechanisms / clauses of the property, and prefer inputs of an unusual KIND - unusual types, sizes, names, boundary values, orders of operations - over yet another edit of the same line):" >> /tmp/seed${w}_prompt_$p.txt
for d in /verif/seeded/$p-[0-9] /verif/seeded/$p-w*-[0-9]; do f=$d/meta.json; [ -f $f ] && /venv/bin/python -c "
import json; m=json.load(open('$f')); print('- ' + ' '.join(m['breaks'].split())[:450])" 2>/dev/null >> /tmp/seed${w}_prompt_$p.txt; done
