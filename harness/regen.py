#!/venv/bin/python
"""Regenerate every coq/gen/Gen_*.v from /repo (run by setup_cmd before the full build)."""
import os, sys, glob, importlib
VERIF = os.path.dirname(os.path.dirname(os.path.abspath(__file__)))
sys.path.insert(0, os.path.join(VERIF, 'translator'))
repo = os.environ.get('VERIF_REPO', '/repo')
for path in sorted(glob.glob(os.path.join(VERIF, 'translator', 'gen_*.py'))):
    unit = os.path.basename(path)[4:-3]
    try:
        text, shas = importlib.import_module('gen_' + unit).generate(repo)
    except Exception as e:
        print('regen %s FAILED: %s: %s (keeping the committed file)' % (unit, type(e).__name__, e))
        continue
    out = os.path.join(VERIF, 'coq', 'gen', 'Gen_%s.v' % unit)
    if not os.path.exists(out) or open(out).read() != text:
        open(out, 'w').write(text)
    print('regen', unit, len(shas), 'units')
