"""Runs the real pyg_base on a batch of cases (one process per shard).
stdin: {"id": "C09", "timeout": 5, "cases": [...]};  stdout: "RESULTS <json list>".
Each result: {"status": ok|ValueError|KeyError|TypeError|Timeout|Other, "obs": canonical, "viol": null|str}"""
import sys, json, signal, importlib, os, warnings, io, contextlib
warnings.filterwarnings('ignore')

class CaseTimeout(BaseException):
    pass
def _alarm(sig, frm):
    raise CaseTimeout()

def main():
    req = json.loads(sys.stdin.read())
    with contextlib.redirect_stdout(io.StringIO()), contextlib.redirect_stderr(io.StringIO()):
        mod = importlib.import_module('props.' + req['id'].lower())
        if hasattr(mod, 'impl_setup'):
            mod.impl_setup()
    signal.signal(signal.SIGALRM, _alarm)
    out = []
    for case in req['cases']:
        signal.setitimer(signal.ITIMER_REAL, req.get('timeout', 5))
        try:
            with contextlib.redirect_stdout(io.StringIO()), contextlib.redirect_stderr(io.StringIO()):
                r = mod.impl(case)
            signal.setitimer(signal.ITIMER_REAL, 0)
            if not isinstance(r, dict):
                r = {'status': 'ok', 'obs': r, 'viol': None}
        except CaseTimeout:
            r = {'status': 'Timeout', 'obs': ['ERR', 'Timeout'], 'viol': 'call did not return within %ss' % req.get('timeout', 5)}
        except Exception as e:
            signal.setitimer(signal.ITIMER_REAL, 0)
            r = {'status': 'Other', 'obs': ['ERR', 'harness:' + type(e).__name__], 'viol': None, 'harness_error': '%s: %s' % (type(e).__name__, e)}
        finally:
            signal.setitimer(signal.ITIMER_REAL, 0)
        out.append(r)
    sys.stdout.write('RESULTS ' + json.dumps(out) + '\n')

if __name__ == '__main__':
    main()
