"""Runs the real pyg_base on a batch of cases (one process per shard).
stdin: {"id": "C09", "timeout": 5, "cases": [...]};  stdout: "RESULTS <json list>".
Each result: {"status": ok|ValueError|KeyError|TypeError|Timeout|Other, "obs": canonical, "viol": null|str}"""
import sys, json, signal, importlib, os, warnings, io, contextlib
warnings.filterwarnings('ignore')

class CaseTimeout(BaseException):
    pass
def _alarm(sig, frm):
    raise CaseTimeout()

def main():
    req = json.loads(sys.stdin.read())
    with contextlib.redirect_stdout(io.StringIO()), contextlib.redirect_stderr(io.StringIO()):
        mod = importlib.import_module('props.' + req['id'].lower())
        if hasattr(mod, 'impl_setup'):
            mod.impl_setup()
    signal.signal(signal.SIGALRM, _alarm)
    repeat = getattr(mod, 'REPEAT_CALLS', True) and os.environ.get('VERIF_REPEAT', '1') == '1'
    out = []
    for case in req['cases']:
        signal.setitimer(signal.ITIMER_REAL, req.get('timeout', 5))
        frozen = json.dumps(case)
        try:
            with contextlib.redirect_stdout(io.StringIO()), contextlib.redirect_stderr(io.StringIO()):
                r = mod.impl(case)
            signal.setitimer(signal.ITIMER_REAL, 0)
            if not isinstance(r, dict):
                r = {'status': 'ok', 'obs': r, 'viol': None}
            # state a call leaves behind (memo tables, operands or results edited in place, registries) must not change what the
            # same calls return later in the same process: every case is evaluated a second time and must be observed identically
            if repeat and not r.get('viol') and r.get('status') != 'Timeout':
                signal.setitimer(signal.ITIMER_REAL, req.get('timeout', 5))
                with contextlib.redirect_stdout(io.StringIO()), contextlib.redirect_stderr(io.StringIO()):
                    r2 = mod.impl(json.loads(frozen))
                signal.setitimer(signal.ITIMER_REAL, 0)
                if not isinstance(r2, dict):
                    r2 = {'status': 'ok', 'obs': r2, 'viol': None}
                if r2.get('viol'):
                    r = dict(r2, viol='evaluated a second time in the same process: ' + str(r2['viol']))
                elif json.dumps(r2.get('obs'), sort_keys=True, default=str) != json.dumps(r.get('obs'), sort_keys=True, default=str):
                    r['viol'] = 'the same calls evaluated a second time in the same process were observed differently: first %s, then %s' % (
                        json.dumps(r.get('obs'), default=str)[:300], json.dumps(r2.get('obs'), default=str)[:300])
        except CaseTimeout:
            r = {'status': 'Timeout', 'obs': ['ERR', 'Timeout'], 'viol': 'call did not return within %ss' % req.get('timeout', 5)}
        except Exception as e:
            signal.setitimer(signal.ITIMER_REAL, 0)
            r = {'status': 'Other', 'obs': ['ERR', 'harness:' + type(e).__name__], 'viol': None, 'harness_error': '%s: %s' % (type(e).__name__, e)}
        finally:
            signal.setitimer(signal.ITIMER_REAL, 0)
        out.append(r)
    sys.stdout.write('RESULTS ' + json.dumps(out) + '\n')

if __name__ == '__main__':
    main()
