"""helpers shared by the per-property implementation adapters"""
import datetime, math
EPOCH = datetime.datetime(1, 1, 1)
US = datetime.timedelta(microseconds=1)
DAYUS = 86400000000

def dt2us(t):
    """datetime -> microseconds since ordinal 0 at midnight (the model's time axis)"""
    if hasattr(t, 'to_pydatetime'):
        t = t.to_pydatetime()
    d = t - EPOCH
    return (d.days + 1) * DAYUS + d.seconds * 1000000 + d.microseconds

def us2dt(u):
    return EPOCH + datetime.timedelta(days=u // DAYUS - 1, microseconds=u % DAYUS)

def err_name(e):
    n = type(e).__name__
    return n if n in ('ValueError', 'KeyError', 'TypeError', 'IndexError', 'AttributeError', 'OverflowError') else 'Other'

def call(f, *a, **k):
    """returns ('ok', value) or (errname, None)"""
    try:
        return 'ok', f(*a, **k)
    except Exception as e:
        return err_name(e), None
