#!/venv/bin/python
"""keepseedN.py <wave> <PROP> <n> <caught> <detail>  -- store a vetted seeded change of a later wave (from /tmp/seed<wave>_out_<PROP>) as seeded/<PROP>-w<wave>-<n>"""
import sys, os, json, shutil
W, P, n, caught, detail = sys.argv[1:6]
src = '/tmp/seed%s_out_%s' % (W, P)
dst = '/verif/seeded/%s-w%s-%s' % (P, W, n)
os.makedirs(dst, exist_ok=True)
shutil.copy(os.path.join(src, 'change_%s.diff' % n), os.path.join(dst, 'patch.diff'))
shutil.copy(os.path.join(src, 'demo_%s.py' % n), os.path.join(dst, 'demo.py'))
note = open(os.path.join(src, 'note_%s.txt' % n)).read()
json.dump({'property': P, 'wave': int(W), 'breaks': note.strip(),
           'ran': 'demo.py exits 0 on /repo HEAD and 1 with patch.diff applied; existing suite pass/fail sets unchanged (sub-agent report); check run: harness/seedtest.sh %s <worktree> patch.diff demo.py' % P,
           'caught_by_check': caught, 'detail': detail}, open(os.path.join(dst, 'meta.json'), 'w'), indent=1)
print(dst)
