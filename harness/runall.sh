#!/bin/bash
# runall.sh [tier]: every claimed check on /repo, one summary line each
tier=${1:-quick}
cd /verif
for P in $(/venv/bin/python -c "import json;print(' '.join(json.load(open('harness/claimed.json'))))" 2>/dev/null); do
  /venv/bin/python harness/check.py $P --tier $tier 2>&1 | grep -v condarc | grep -e VIOLATION -e "tier=" -e "broken:" | cut -c1-220
  echo "  exit=${PIPESTATUS[0]}"
done
