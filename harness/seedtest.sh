#!/bin/bash
# usage: seedtest.sh <PROP> <worktree> <diff> <demo.py>
# confirms the demo (passes before, fails after), runs the check against the worktree with the change, then reverts.
P=$1; WT=$2; DIFF=$3; DEMO=$4
cd $WT && git checkout -q -- . && cd /verif
PYTHONPATH=$WT/src /venv/bin/python -W ignore $DEMO >/dev/null 2>&1; echo "demo before: exit $?"
git -C $WT apply $DIFF || { echo "APPLY FAILED"; exit 2; }
PYTHONPATH=$WT/src /venv/bin/python -W ignore $DEMO >/dev/null 2>&1; echo "demo after: exit $?"
VERIF_REPO=$WT /venv/bin/python harness/check.py $P --tier quick 2>&1 | grep -v condarc | grep -e VIOLATION -e "tier=" -e "broken:" | cut -c1-300
git -C $WT checkout -q -- .
# the run above regenerated coq/gen/ from the changed worktree: put back what /repo says
case $P in C04|C05|C09|C10) VERIF_NO_EVIDENCE=1 /venv/bin/python harness/regen.py >/dev/null 2>&1 || git -C /verif checkout -q -- coq/gen ;; esac
