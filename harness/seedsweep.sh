#!/bin/bash
# seedsweep.sh "<seeds>": quick tier of every claimed check for several VERIF_SEED values (false-alarm sweep; does not touch evidence: VERIF_NO_EVIDENCE=1)
cd /verif
for s in $1; do for P in $(/venv/bin/python -c "import json;print(' '.join(json.load(open('harness/claimed.json'))))" 2>/dev/null); do
  VERIF_SEED=$s VERIF_NO_EVIDENCE=1 /venv/bin/python harness/check.py $P --tier quick --no-build 2>&1 | grep -v condarc | grep -e VIOLATION -e "tier=" | cut -c1-170
done; done
