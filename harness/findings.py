"""Predicates deciding whether a failing input belongs to a class listed in
/verif/KNOWN_FINDINGS.json.  (case, result) -> bool.  Only failing inputs inside a
listed class are downgraded to KNOWN-FINDING lines."""
import datetime

def c09_intraday_weekend_monotone(case, result):
    # the earlier start is on a weekend (so it is first rolled to Monday keeping its time of day), the two starts
    # have different times of day, and only the intraday order - not the day order - is inverted
    if case.get('kind') != 'mono_b':
        return False
    DAY = 86400000000
    t1, t2 = case['t1'], case['t2']
    wd = lambda t: (t // DAY + 6) % 7
    return (t1 % DAY) != (t2 % DAY) and wd(t1) > 4 and 'days' not in (result.get('viol') or '')

def c16_dict_add_subclass_operand(case, result):
    # Dict.__add__ is tree_update(self, other); tree_items recognises a branch by EXACT type (dict, Dict, dictattr), so an
    # `other` that is an instance of any further dict subclass is taken for a leaf and the call raises ValueError
    return (case.get('kind') == 'dict' and case.get('op') == 'add' and case.get('cls') in ('Dict', 'UD')
            and case.get('other', {}).get('cls') in ('UA', 'UD') and result.get('status') == 'ValueError')

def c19_as_tuple_single_list(case, result):
    # as_tuple(v) is a 1-tuple holding a list (e.g. as_tuple([[1, 2]]) = ([1, 2],)): the second application unpacks that list
    if case.get('kind') != 'as' or not case.get('tuple'):
        return False
    obs = result.get('obs') or []
    r1 = obs[0] if obs else None
    return isinstance(r1, list) and len(r1) == 2 and r1[0] == 'T' and isinstance(r1[1], list) and r1[1][:1] == ['L']

def c10_rrule_drops_microseconds(case, result):
    # int / None / single forward period-string bumps go through dateutil.rrule, which truncates the
    # microseconds of dtstart: only the sub-second part of every returned date differs
    b = case.get('bump')
    if case['t0'] % 1000000 == 0 or result.get('status') != 'ok':
        return False
    if not (b is None or 'int' in b or ('str' in b)):
        return False
    obs = result.get('obs') or []
    return bool(obs) and all(x % 1000000 == 0 for x in obs) and 'returned %d dates' % len(obs) in (result.get('viol') or '') and 'gives %d dates' % len(obs) in (result.get('viol') or '')

def c08_scalar_zero_divisor(case, result):
    # div_(x, 0) with a SCALAR zero divisor (x a Series / DataFrame / scalar): the pinned tree returns the scalar nan
    # (or, for a multi-column frame, a Series over the column names) instead of an all-NaN object on x's index.
    # Only needed if fixes/C08.patch is not applied.
    if case.get('kind') != 'op' or case.get('op') != 'div':
        return False
    b = case.get('b')
    return isinstance(b, dict) and b.get('N', None) == 0 and 'N' in b and result.get('status') == 'ok'

def c18_kwargs_support_varkw(case, result):
    # kwargs_support somewhere in the stack, the wrapped function declares **kwargs, the (valid) call passes a keyword the
    # function does not declare by name, and the only deviation is that this keyword did not reach the function
    if case.get('kind') != 'stack' or 'kwargs_support' not in case.get('decos', []) or not case.get('vk'):
        return False
    declared = ['a', 'b', 'c', 'd'][:case['npos']]
    return any(k not in declared for k, _ in case.get('kw', [])) and bool(result.get('kws_finding')) \
        and (result.get('viol') or '').startswith('kwargs_support dropped the undeclared keyword')
