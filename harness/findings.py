"""Predicates deciding whether a failing input belongs to a class listed in
/verif/KNOWN_FINDINGS.json.  (case, result) -> bool.  Only failing inputs inside a
listed class are downgraded to KNOWN-FINDING lines."""
import datetime

def c09_intraday_weekend_monotone(case, result):
    # the earlier start is on a weekend (so it is first rolled to Monday keeping its time of day), the two starts
    # have different times of day, and only the intraday order - not the day order - is inverted
    if case.get('kind') != 'mono_b':
        return False
    DAY = 86400000000
    t1, t2 = case['t1'], case['t2']
    wd = lambda t: (t // DAY + 6) % 7
    return (t1 % DAY) != (t2 % DAY) and wd(t1) > 4 and 'days' not in (result.get('viol') or '')

def c16_dict_add_subclass_operand(case, result):
    # Dict.__add__ is tree_update(self, other); tree_items recognises a branch by EXACT type (dict, Dict, dictattr), so an
    # `other` that is an instance of any further dict subclass is taken for a leaf and the call raises ValueError
    return (case.get('kind') == 'dict' and case.get('op') == 'add' and case.get('cls') in ('Dict', 'UD')
            and case.get('other', {}).get('cls') in ('UA', 'UD') and result.get('status') == 'ValueError')

def c19_as_tuple_single_list(case, result):
    # as_tuple(v) is a 1-tuple holding a list (e.g. as_tuple([[1, 2]]) = ([1, 2],)): the second application unpacks that list
    if case.get('kind') != 'as' or not case.get('tuple'):
        return False
    obs = result.get('obs') or []
    r1 = obs[0] if obs else None
    return isinstance(r1, list) and len(r1) == 2 and r1[0] == 'T' and isinstance(r1[1], list) and r1[1][:1] == ['L']

def c10_rrule_drops_microseconds(case, result):
    # int / None / single forward period-string bumps go through dateutil.rrule, which truncates the
    # microseconds of dtstart: only the sub-second part of every returned date differs
    b = case.get('bump')
    if case['t0'] % 1000000 == 0 or result.get('status') != 'ok':
        return False
    if not (b is None or 'int' in b or ('str' in b)):
        return False
    obs = result.get('obs') or []
    return bool(obs) and all(x % 1000000 == 0 for x in obs) and 'returned %d dates' % len(obs) in (result.get('viol') or '') and 'gives %d dates' % len(obs) in (result.get('viol') or '')

def c08_scalar_zero_divisor(case, result):
    # div_(x, 0) with a SCALAR zero divisor (x a Series / DataFrame / scalar): the pinned tree returns the scalar nan
    # (or, for a multi-column frame, a Series over the column names) instead of an all-NaN object on x's index.
    # Only needed if fixes/C08.patch is not applied.
    if case.get('kind') != 'op' or case.get('op') != 'div':
        return False
    b = case.get('b')
    return isinstance(b, dict) and b.get('N', None) == 0 and 'N' in b and result.get('status') == 'ok'

def c18_kwargs_support_varkw(case, result):
    # kwargs_support somewhere in the stack, the wrapped function declares **kwargs, the (valid) call passes a keyword the
    # function does not declare by name, and the only deviation is that this keyword did not reach the function
    if case.get('kind') != 'stack' or 'kwargs_support' not in case.get('decos', []) or not case.get('vk'):
        return False
    declared = ['a', 'b', 'c', 'd'][:case['npos']]
    return any(k not in declared for k, _ in case.get('kw', [])) and bool(result.get('kws_finding')) \
        and (result.get('viol') or '').startswith('kwargs_support dropped the undeclared keyword')

def c19_companion_deep_match(case, result):
    # loop(...)(f)(arg, *companions, **kw): following the property's own rule down the lifted argument (same length / same keys ->
    # indexed, else passed whole), some non-empty container node of arg meets a companion whose own length / keys do not match but
    # which holds, inside nested lists/tuples (resp. nested dict values), a sub-container of exactly that length (resp. keys);
    # _item_by_i / _item_by_key index that sub-container instead of broadcasting the companion
    if case.get('kind') != 'loop':
        return False
    seq = lambda s: isinstance(s, dict) and ('L' in s or 'T' in s)
    els = lambda s: s['L'] if 'L' in s else s['T']
    isd = lambda s: isinstance(s, dict) and 'D' in s
    keys = lambda s: sorted(k for k, _ in s['D'][1])
    def plain_i(c, n):
        return not seq(c) or (len(els(c)) != n and all(plain_i(v, n) for v in els(c)))
    def plain_k(c, ks):
        return not isd(c) or (keys(c) != ks and all(plain_k(v, ks) for _, v in c['D'][1]))
    tys = case.get('types', 'LTD')      # loop(list) / loop(dict) ...: a container of a type that is not lifted is a leaf
    def lifted(a):
        return isinstance(a, dict) and (('L' in a and 'L' in tys) or ('T' in a and 'T' in tys) or ('D' in a and 'D' in tys))
    def has_leaf(a):
        return not lifted(a) or any(has_leaf(x) for x in (els(a) if seq(a) else [v for _, v in a['D'][1]]))
    def walk(arg, comps):
        if not lifted(arg) or not has_leaf(arg):      # a leaf, or no leaf below (f is never called, nothing to observe)
            return False
        if seq(arg):
            xs = els(arg); n = len(xs)
            if n == 0:
                return False
            match = [seq(c) and len(els(c)) == n for c in comps]
            if any(not m and not plain_i(c, n) for c, m in zip(comps, match)):
                return True
            return any(walk(xs[i], [els(c)[i] if m else c for c, m in zip(comps, match)]) for i in range(n))
        if isd(arg):
            items = arg['D'][1]; ks = keys(arg)
            if not items:
                return False
            match = [isd(c) and keys(c) == ks for c in comps]
            if any(not m and not plain_k(c, ks) for c, m in zip(comps, match)):
                return True
            return any(walk(v, [dict(map(tuple, c['D'][1]))[k] if m else c for c, m in zip(comps, match)]) for k, v in items)
        return False
    return walk(case['arg'], list(case.get('pos', [])) + [v for _, v in case.get('kw', [])])

def c02_xor_no_key_is_copy(case, result):
    # xor / (x / y) with NO key column (lcols empty, or lcols=None and no shared column) returns x.copy() although y has rows;
    # only reported when harness/props/c02.py runs with C02_FLAG_NOKEY_XOR=1 (behaviour pinned by test_dictable_xor_no_rhs)
    if case.get('kind') not in ('xor', 'both'):
        return False
    xc = [n for n, _ in case['x']]; yc = [n for n, _ in case['y']]
    lc = case.get('lcols')
    items = [c for c in xc if c in yc] if lc is None else (lc[1] if lc[0] in ('list', 'tuple') else [lc])
    ny = len(case['y'][0][1]) if case['y'] else 0
    return len(items) == 0 and ny > 0 and 'anti-join' in (result.get('viol') or '')

def c19_mixed_key_types(case, result):
    # the lifted argument contains a dict whose keys are not mutually comparable (e.g. {'a': .., 1: ..}): loops._wrapped sorts the keys
    # (sorted(arg.keys())) and raises TypeError.  Key ids (harness/props/c19.py): 0-9 str, 10-29 int/float, 30-39 tuple, 40 None.
    if case.get('kind') not in ('loop', 'lib') or result.get('status') != 'TypeError':
        return False
    cls = lambda k: 0 if k < 10 else 1 if k < 30 else 2 if k < 40 else 3
    def mixed(s):
        if not isinstance(s, dict):
            return False
        if 'D' in s:
            items = s['D'][1]
            return len({cls(k) for k, _ in items}) > 1 or any(mixed(v) for _, v in items)
        return any(mixed(x) for x in s.get('L', s.get('T', [])))
    return mixed(case['arg'])

def c16_self_named_key(case, result):
    # Dict.__call__ where the mapping holds an entry, or the call passes a keyword, literally named 'self': the name collides with the
    # self parameter of Dict.__call__ / wrapper.__call__ through which every entry is passed by keyword, and the call raises TypeError
    if case.get('kind') != 'call':
        return False
    named_self = any(k == 'self' for k, _ in case.get('base', [])) or any(k == 'self' for k, _ in case.get('kw', []))
    return named_self and 'TypeError' in (result.get('viol') or '') and 'TypeError' in str(result.get('obs'))

def c18_reserved_parameter_names(case, result):
    # the wrapped function has a parameter literally named axis / self / function and the (valid) call passes it BY KEYWORD:
    # loops pops `axis` (f silently gets its default), wrapper.__call__(self, ...) cannot take `self`, getcallargs(function, ...)
    # cannot take `function`
    names = case.get('pnames') or []
    passed = [k for k, _ in case.get('kw', [])]
    viol = result.get('viol') or ''
    if not viol:
        return False
    if case.get('kind') == 'stack':
        return ('self' in names and 'self' in passed) or ('axis' in names and 'axis' in passed and 'loop' in case.get('decos', []))
    if case.get('kind') == 'bind':
        return 'function' in names and 'function' in passed
    return False

def c11_self_named_column(case, result):
    # groupby(keys).ungroup() where a KEY column is literally named 'self': ungroup hands every key cell by keyword to Dict.__call__(self, **kwargs)
    # and the call raises TypeError (same root cause as c16_self_named_key).  Only that failure is excused: the key table and every sub-table were
    # right (the oracle reports its first complaint), and listby / unlist / pivot / unpivot and VALUE columns named 'self' stay claimed.
    if case.get('kind') != 'groupby' or 'self' not in (case.get('by') or []):
        return False
    obs = result.get('obs')
    return (result.get('viol') or '').startswith("ungroup raised TypeError") and "multiple values for argument 'self'" in (result.get('viol') or '') and \
        isinstance(obs, list) and len(obs) == 3 and obs[2] == ['ERR', 'TypeError']


def c16_subclass_constructor_rerun(case, result):
    # a mapping whose class is a subclass with its OWN __init__ signature (PT: x = 0, y = 0, **kw; KO: *, name = 'n', **kw), an operator
    # that rebuilds its result through type(self)({...}) (&, d[[...]], |, relabel: the result dict is passed POSITIONALLY since /repo 1b2f78e),
    # and a deviation that is exactly the re-run constructor: PT -> {x: <the whole expected mapping>, y: its default}, KO -> TypeError
    # from the keyword-only constructor.  Any other operator, class or deviation stays a violation.
    if case.get('kind') != 'dict' or case.get('cls') not in ('PT', 'KO') or case.get('op') not in ('and', 'getlist', 'or', 'relabel') or not result.get('viol'):
        return False
    if result.get('exp') is None:         # the property fixes no result for this input (absent key, ...)
        return False
    if case['cls'] == 'KO':
        return result.get('status') == 'TypeError'
    return result.get('obs', [None])[0] == ['PT', [['x', -2000], ['y', -1001]]]

def c19_frozenset_key_order(case, result):
    # loop(list, tuple, dict)(f)(arg, *companions, **kw): a looped dict of arg and a dict companion that reaches it (by the property's own rule)
    # have the SAME key set, every key a frozenset, but in different insertion orders for which Python's sorted() - on frozensets a subset
    # partial order that never raises - returns different lists; _sorted_keys is then not canonical, the code does not see "same keys" and
    # hands the WHOLE companion to every value of that dict.  True only if the observed result is exactly that: the property's rule
    # everywhere else, the companion passed whole at such dicts (key ids of harness/props/c19.py: 50 {1}, 51 {1,2}, 52 {3}, 53 {2,3}).
    if case.get('kind') != 'loop' or case.get('types', 'LTD') != 'LTD' or result.get('status') != 'ok':
        return False
    FS = {50: frozenset({1}), 51: frozenset({1, 2}), 52: frozenset({3}), 53: frozenset({2, 3})}
    seq = lambda s: isinstance(s, dict) and ('L' in s or 'T' in s)
    els = lambda s: s['L'] if 'L' in s else s['T']
    isd = lambda s: isinstance(s, dict) and 'D' in s
    keys = lambda s: [k for k, _ in s['D'][1]]
    hit = []
    def trigger(a, c):
        ka, kc = keys(a), keys(c)
        return (len(ka) >= 2 and all(k in FS for k in ka) and all(k in FS for k in kc)
                and sorted(FS[k] for k in ka) != sorted(FS[k] for k in kc))
    def ren(x):
        if isinstance(x, int): return x
        if seq(x): return ['L' if 'L' in x else 'T'] + [ren(y) for y in els(x)]
        return ['D', x['D'][0]] + [[k, ren(v)] for k, v in x['D'][1]]
    named = case.get('mode') == 'named'
    def leaf(a, pos, kw):
        if named:
            b = dict(kw); b.update({i: c for i, c in enumerate(pos)})
            return ['T', a, ren(b[0]) if 0 in b else -1, ren(b[1]) if 1 in b else -1]
        return ['T', a, ['T'] + [ren(c) for c in pos], ['D', 0] + [[n, ren(c)] for n, c in kw]]
    def lift(a, pos, kw):
        if seq(a):
            n = len(els(a))
            pick = lambda c, i: els(c)[i] if seq(c) and len(els(c)) == n else c
            return ['L' if 'L' in a else 'T'] + [lift(x, [pick(c, i) for c in pos], [[m, pick(c, i)] for m, c in kw]) for i, x in enumerate(els(a))]
        if isd(a):
            ks = set(keys(a))
            def pickk(c, k):
                if isd(c) and set(keys(c)) == ks and len(keys(c)) == len(ks):
                    if trigger(a, c):
                        hit.append(1); return c            # what the code does: no match, the companion goes down whole
                    return dict((kk, v) for kk, v in c['D'][1])[k]
                return c
            return ['D', a['D'][0]] + [[k, lift(v, [pickk(c, k) for c in pos], [[m, pickk(c, k)] for m, c in kw])] for k, v in a['D'][1]]
        return leaf(a, pos, kw)
    try:
        alt = lift(case['arg'], list(case.get('pos', [])), [list(x) for x in case.get('kw', [])])
    except Exception:
        return False
    return bool(hit) and alt == result.get('obs')
