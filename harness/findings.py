"""Predicates deciding whether a failing input belongs to a class listed in
/verif/KNOWN_FINDINGS.json.  (case, result) -> bool.  Only failing inputs inside a
listed class are downgraded to KNOWN-FINDING lines."""
import datetime

def c09_intraday_weekend_monotone(case, result):
    # the earlier start is on a weekend (so it is first rolled to Monday keeping its time of day), the two starts
    # have different times of day, and only the intraday order - not the day order - is inverted
    if case.get('kind') != 'mono_b':
        return False
    DAY = 86400000000
    t1, t2 = case['t1'], case['t2']
    wd = lambda t: (t // DAY + 6) % 7
    return (t1 % DAY) != (t2 % DAY) and wd(t1) > 4 and 'days' not in (result.get('viol') or '')
