#!/venv/bin/python
"""mutate.py <ID> [--n 30] [--seed 0] [--no-build] [--keep]

Systematic complement to the hand-written seeded changes: first-order mutants of the functions a
property is anchored in (properties.jsonl -> anchors.mechanism[].where, line ranges of the pinned
commit mapped to function names and looked up again in /repo's current source).

For every sampled mutant, in a scratch worktree outside /repo and /verif:
  1. the repository's own test suite runs; a mutant that changes the pass/fail set is 'killed-by-tests'
     (not interesting: the brief asks for changes the existing tests do not see);
  2. otherwise the registered quick check runs against the worktree: 'killed-input' (VIOLATION with a
     failing input), 'killed-nfif' (VIOLATION ... no-failing-input-found) or 'SURVIVED'.
Results go to /verif/mutation/<ID>.json; survivors are triaged by hand (equivalent mutant / outside the
property / gap to close).  Nothing is ever written to /repo; the worktree is removed at the end.
"""
import argparse, ast, json, os, random, re, subprocess, sys, time, shutil

VERIF = os.path.dirname(os.path.dirname(os.path.abspath(__file__)))
REPO = '/repo'
PINNED = '44cdb16'
IGN = ['tests/test_encode.py', 'tests/test_parquet.py', 'tests/test_tree.py']

def sh(cmd, cwd=None, timeout=1800, env=None):
    p = subprocess.run(cmd, shell=True, cwd=cwd, stdout=subprocess.PIPE, stderr=subprocess.STDOUT, timeout=timeout, env=env)
    return p.returncode, p.stdout.decode('utf8', 'replace')

def qual_funcs(tree):
    """[(qualname, node)] for every def, methods as Class.name, nested as outer.inner"""
    out = []
    def walk(node, prefix):
        for ch in ast.iter_child_nodes(node):
            if isinstance(ch, (ast.FunctionDef, ast.AsyncFunctionDef, ast.ClassDef)):
                q = prefix + ch.name
                if not isinstance(ch, ast.ClassDef):
                    out.append((q, ch))
                walk(ch, q + '.')
            else:
                walk(ch, prefix)
    walk(tree, '')
    return out

def targets(prop):
    """{file: set(qualnames)} from the anchors"""
    res = {}
    for m in prop['anchors'].get('mechanism', []):
        for path, a, b in re.findall(r'(src/pyg_base/\w+\.py):(\d+)(?:-(\d+))?', m['where']):
            a = int(a); b = int(b or a)
            rc, src = sh('git -C %s show %s:%s' % (REPO, PINNED, path))
            if rc:
                continue
            for q, node in qual_funcs(ast.parse(src)):
                if node.lineno <= b and node.end_lineno >= a:
                    res.setdefault(path, set()).add(q)
        # ranges written as "file:1-2 name, 3-4 name" : the later ranges inherit the file
        for path in re.findall(r'(src/pyg_base/\w+\.py)', m['where']):
            rc, src = sh('git -C %s show %s:%s' % (REPO, PINNED, path))
            if rc:
                continue
            seg = m['where'].split(path, 1)[1]
            seg = seg.split('src/pyg_base/')[0]
            for a, b in re.findall(r'(?<![\w.])(\d+)-(\d+)', seg):
                a, b = int(a), int(b)
                for q, node in qual_funcs(ast.parse(src)):
                    if node.lineno <= b and node.end_lineno >= a:
                        res.setdefault(path, set()).add(q)
    return res

CMP = {ast.Lt: ast.LtE, ast.LtE: ast.Lt, ast.Gt: ast.GtE, ast.GtE: ast.Gt, ast.Eq: ast.NotEq, ast.NotEq: ast.Eq,
       ast.Is: ast.IsNot, ast.IsNot: ast.Is, ast.In: ast.NotIn, ast.NotIn: ast.In}
CMP2 = {ast.Lt: ast.Gt, ast.Gt: ast.Lt, ast.LtE: ast.GtE, ast.GtE: ast.LtE}

def mutations(fn):
    """yield (node_to_replace, replacement_source, description) for one function"""
    doc = None
    if fn.body and isinstance(fn.body[0], ast.Expr) and isinstance(getattr(fn.body[0], 'value', None), ast.Constant) and isinstance(fn.body[0].value.value, str):
        doc = fn.body[0]
    for node in ast.walk(fn):
        if node is doc or node is fn:
            continue
        if isinstance(node, (ast.FunctionDef, ast.AsyncFunctionDef)):
            continue
        if isinstance(node, ast.Compare):
            for i, op in enumerate(node.ops):
                for table, tag in ((CMP, 'cmp-boundary/negate'), (CMP2, 'cmp-reverse')):
                    if type(op) in table:
                        new = ast.Compare(left=node.left, ops=node.ops[:i] + [table[type(op)]()] + node.ops[i + 1:], comparators=node.comparators)
                        yield node, ast.unparse(new), tag
        elif isinstance(node, ast.BoolOp):
            new = ast.BoolOp(op=ast.Or() if isinstance(node.op, ast.And) else ast.And(), values=node.values)
            yield node, ast.unparse(new), 'and<->or'
            if len(node.values) >= 2:
                yield node, ast.unparse(ast.BoolOp(op=node.op, values=node.values[1:]) if len(node.values) > 2 else node.values[1]), 'drop-first-operand'
                yield node, ast.unparse(ast.BoolOp(op=node.op, values=node.values[:-1]) if len(node.values) > 2 else node.values[0]), 'drop-last-operand'
        elif isinstance(node, ast.UnaryOp) and isinstance(node.op, ast.Not):
            yield node, '(' + ast.unparse(node.operand) + ')', 'drop-not'
        elif isinstance(node, ast.BinOp) and isinstance(node.op, (ast.Add, ast.Sub)):
            if isinstance(node.left, ast.Constant) and isinstance(node.left.value, str):
                continue
            new = ast.BinOp(left=node.left, op=ast.Sub() if isinstance(node.op, ast.Add) else ast.Add(), right=node.right)
            yield node, '(' + ast.unparse(new) + ')', 'add<->sub'
        elif isinstance(node, ast.Constant) and type(node.value) is int and abs(node.value) < 100000:
            yield node, repr(node.value + 1), 'int+1'
            if node.value != 0:
                yield node, repr(node.value - 1), 'int-1'
        elif isinstance(node, ast.Constant) and type(node.value) is bool:
            yield node, repr(not node.value), 'bool-flip'
        elif isinstance(node, ast.If):
            yield node.test, 'False', 'if-never'
            yield node.test, 'True', 'if-always'
        elif isinstance(node, ast.IfExp):
            yield node, '(' + ast.unparse(node.body) + ')', 'ifexp-then'
            yield node, '(' + ast.unparse(node.orelse) + ')', 'ifexp-else'
        elif isinstance(node, (ast.Assign, ast.AugAssign)) or (isinstance(node, ast.Expr) and isinstance(node.value, ast.Call)):
            if isinstance(node, ast.Assign) and any(isinstance(t, ast.Name) for t in node.targets):
                continue      # deleting a local binding is a NameError: tests of any kind see it
            yield node, 'pass', 'delete-statement'
        elif isinstance(node, ast.Slice):
            if node.lower is not None and node.upper is None:
                yield node.lower, '(' + ast.unparse(node.lower) + ') + 1', 'slice-lower+1'
            if node.upper is not None:
                yield node.upper, '(' + ast.unparse(node.upper) + ') - 1', 'slice-upper-1'
        elif isinstance(node, ast.Call) and node.keywords and not any(k.arg is None for k in node.keywords):
            k = node.keywords[-1]
            new = ast.Call(func=node.func, args=node.args, keywords=node.keywords[:-1])
            yield node, ast.unparse(new), 'drop-keyword-%s' % k.arg
        elif isinstance(node, ast.Return) and node.value is not None and isinstance(node.value, ast.Call) and node.value.args:
            # return f(x, ...) -> return x   (drops a normalisation / copy / conversion step)
            yield node.value, ast.unparse(node.value.args[0]) if not isinstance(node.value.args[0], ast.Starred) else ast.unparse(node.value), 'return-unwrapped-arg'

def splice(src, node, text):
    lines = src.split('\n')
    bl = [l.encode('utf8') for l in lines]
    a, b = node.lineno - 1, node.end_lineno - 1
    head = bl[a][:node.col_offset]
    tail = bl[b][node.end_col_offset:]
    new = head + text.encode('utf8') + tail
    out = bl[:a] + [new] + bl[b + 1:]
    return '\n'.join(x.decode('utf8') for x in out)

def test_signature(wt):
    env = dict(os.environ, PYTHONPATH=os.path.join(wt, 'src'), PYTHONHASHSEED='0')
    try:
        rc, out = sh('/venv/bin/python -m pytest -q -p no:cacheprovider --timeout=120 tests ' + ' '.join('--ignore=' + i for i in IGN), cwd=wt, timeout=900, env=env)
    except subprocess.TimeoutExpired:
        return 'TIMEOUT'
    sig = sorted(set(re.findall(r'^(?:FAILED|ERROR) (\S+)', out, re.M)))
    m = re.search(r'(\d+) passed', out)
    return json.dumps([sig, m.group(1) if m else None])

def main():
    ap = argparse.ArgumentParser()
    ap.add_argument('id'); ap.add_argument('--n', type=int, default=30); ap.add_argument('--seed', type=int, default=0)
    ap.add_argument('--no-build', action='store_true'); ap.add_argument('--wt')
    a = ap.parse_args()
    pid = a.id.upper()
    prop = [json.loads(l) for l in open(os.path.join(VERIF, 'properties.jsonl')) if json.loads(l)['id'] == pid][0]
    wt = a.wt or '/tmp/mut_%s' % pid
    if os.path.exists(wt):
        sh('git -C %s worktree remove --force %s' % (REPO, wt)); shutil.rmtree(wt, ignore_errors=True)
    rc, out = sh('git -C %s worktree add --detach %s HEAD' % (REPO, wt))
    assert rc == 0, out
    try:
        tg = targets(prop)
        points = []
        for path, names in sorted(tg.items()):
            src = open(os.path.join(wt, path)).read()
            for q, fn in qual_funcs(ast.parse(src)):
                if q in names:
                    for node, text, tag in mutations(fn):
                        old = ast.get_source_segment(src, node) or ''
                        if old.strip() == text.strip():
                            continue
                        points.append({'file': path, 'func': q, 'line': node.lineno, 'op': tag, 'before': old[:200], 'after': text[:200],
                                       '_node': node, '_text': text})
        rng = random.Random(a.seed * 7919 + int(pid[1:]))
        rng.shuffle(points)
        # spread the sample over functions and operators
        seen, sample = {}, []
        for p in points:
            k = (p['func'], p['op'])
            if seen.get(k, 0) < 1:
                sample.append(p); seen[k] = seen.get(k, 0) + 1
        sample = sample[:a.n] if len(sample) >= a.n else sample + [p for p in points if p not in sample][:a.n - len(sample)]
        print('%s: %d functions in %d files, %d mutation points, %d sampled' % (pid, sum(len(v) for v in tg.values()), len(tg), len(points), len(sample)), flush=True)
        base = test_signature(wt)
        results = []
        for p in sample:
            path = os.path.join(wt, p['file'])
            orig = open(path).read()
            mutated = splice(orig, p['_node'], p['_text'])
            rec = {k: v for k, v in p.items() if not k.startswith('_')}
            try:
                ast.parse(mutated)
            except SyntaxError:
                rec['tests'] = 'invalid'; results.append(rec); continue
            open(path, 'w').write(mutated)
            try:
                rc, out = sh('/venv/bin/python -c "import pyg_base"', env=dict(os.environ, PYTHONPATH=os.path.join(wt, 'src')), timeout=120)
                if rc != 0:
                    rec['tests'] = 'killed-by-import'
                else:
                    sig = test_signature(wt)
                    rec['tests'] = 'survived' if sig == base else 'killed-by-tests'
                if rec['tests'] == 'survived':
                    t0 = time.time()
                    env = dict(os.environ, VERIF_REPO=wt, VERIF_NO_EVIDENCE='1')
                    try:
                        rc, out = sh('/venv/bin/python harness/check.py %s --tier quick%s' % (pid, ' --no-build' if a.no_build else ''), cwd=VERIF, timeout=2400, env=env)
                    except subprocess.TimeoutExpired:
                        rc, out = 1, 'VIOLATION (check timed out) no-failing-input-found'
                    v = [l for l in out.split('\n') if l.startswith('VIOLATION')]
                    if v:
                        rec['check'] = 'killed-nfif' if 'no-failing-input-found' in v[0] else 'killed-input'
                        m = re.search(r'replay=(\S+)', v[0])
                        if m and os.path.exists(m.group(1)):
                            try:
                                rp = json.load(open(m.group(1)))
                                rec['why'] = str(rp.get('oracle'))[:300]
                            except Exception:
                                pass
                            os.remove(m.group(1))
                    else:
                        rec['check'] = 'SURVIVED' if rc == 0 else 'error rc=%d: %s' % (rc, out[-200:])
                    rec['check_s'] = int(time.time() - t0)
            finally:
                open(path, 'w').write(orig)
            results.append(rec)
            print(json.dumps(rec)[:400], flush=True)
        summ = {}
        for r in results:
            k = r.get('check') or r['tests']
            summ[k] = summ.get(k, 0) + 1
        os.makedirs(os.path.join(VERIF, 'mutation'), exist_ok=True)
        json.dump({'property': pid, 'repo_head': sh('git -C %s rev-parse --short HEAD' % REPO)[1].strip(), 'seed': a.seed,
                   'functions': {k: sorted(v) for k, v in tg.items()}, 'mutation_points': len(points), 'summary': summ, 'mutants': results},
                  open(os.path.join(VERIF, 'mutation', '%s.json' % pid), 'w'), indent=1)
        print(pid, 'summary', summ, flush=True)
    finally:
        sh('git -C %s worktree remove --force %s' % (REPO, wt)); shutil.rmtree(wt, ignore_errors=True)
        if not a.no_build:
            sh('/venv/bin/python harness/regen.py', cwd=VERIF)

if __name__ == '__main__':
    main()
