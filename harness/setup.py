#!/venv/bin/python
"""setup_cmd: regenerate translated units from /repo, then build the whole Coq development (full .vo build).
Uses the same filtered project file and Makefile as check.py so the checks' incremental builds start warm."""
import os, sys, subprocess
VERIF = os.path.dirname(os.path.dirname(os.path.abspath(__file__)))
COQ = os.path.join(VERIF, 'coq')
subprocess.run([sys.executable, os.path.join(VERIF, 'harness', 'regen.py')])
lines = [l.strip() for l in open(os.path.join(COQ, '_CoqProject')) if l.strip()]
keep = [l for l in lines if l.startswith('-') or os.path.exists(os.path.join(COQ, l))]
missing = [l for l in lines if l not in keep]
if missing:
    print('setup: listed in _CoqProject but missing:', missing)
open(os.path.join(COQ, '.CoqProject.filtered'), 'w').write('\n'.join(keep) + '\n')
subprocess.run('coq_makefile -f .CoqProject.filtered -o Makefile.chk', shell=True, cwd=COQ)
p = subprocess.run('timeout 3300 make -f Makefile.chk -k -j16 2>&1 | grep -v -e condarc -e "^Closed under" | tail -40', shell=True, cwd=COQ)
vo = [l for l in keep if l.endswith('.v') and not os.path.exists(os.path.join(COQ, l + 'o'))]
print('setup: %d files, not built: %s' % (len([l for l in keep if l.endswith('.v')]), vo))
sys.exit(0)
