#!/venv/bin/python
"""Writes /verif/MANIFEST.json from the property modules present in harness/props."""
import json, os, sys, importlib
VERIF = os.path.dirname(os.path.dirname(os.path.abspath(__file__)))
sys.path.insert(0, os.path.join(VERIF, 'harness'))
props = [json.loads(l) for l in open(os.path.join(VERIF, 'properties.jsonl'))]
NA = json.load(open(os.path.join(VERIF, 'harness', 'not_applicable.json')))
CLAIMED = json.load(open(os.path.join(VERIF, 'harness', 'claimed.json')))   # maintained by hand: checks that are integrated
checks = []; na = []
for p in props:
    pid = p['id']
    path = os.path.join(VERIF, 'harness', 'props', pid.lower() + '.py')
    if os.path.exists(path) and pid not in NA and pid in CLAIMED:
        mod = importlib.import_module('props.' + pid.lower())
        checks.append({
            'property_id': pid,
            'quick_cmd': '/venv/bin/python harness/check.py %s --tier quick' % pid,
            'thorough_cmd': '/venv/bin/python harness/check.py %s --tier thorough' % pid,
            'evidence_file': '/verif/evidence/%s.json' % pid,
            'replay_cmd_template': '/venv/bin/python harness/check.py %s --replay {path}' % pid,
            'engine': 'coq-proof+correspondence',
            'level_claimed': {'category': 'proof', 'text': mod.LEVEL_TEXT, 'design_ref': 'DESIGN.md section 4, ' + pid},
            'level_note': mod.LEVEL_NOTE,
            'technique': mod.TECHNIQUE,
        })
    else:
        na.append({'property_id': pid, 'reason': NA.get(pid, 'check not built yet in this round (model and theorems pending); see DESIGN.md section 4')})
man = {
    'version': 1,
    'setup_cmd': 'cd /verif && /venv/bin/python harness/setup.py',
    'hooks': {'guard': 'PYG_BASE_VERIF', 'enable': 'no source hooks are needed; checks set PYG_BASE_VERIF=1 and PYTHONPATH=/repo/src when running the implementation',
              'baseline_off_cmd': 'cd /repo && /venv/bin/python -m pytest -ra -q -p no:cacheprovider --timeout=900 --continue-on-collection-errors',
              'source_commits': [], 'add_only': True},
    'engines': [{'name': 'coq-proof+correspondence', 'path': '/verif/harness/check.py',
                 'serves_properties': [c['property_id'] for c in checks],
                 'kind_free_text': 'Coq 8.16.1 theorems about executable Gallina models (coq/props/<id>.v), models tied to /repo by a Python-ast translator (coq/gen) and by a differential correspondence run evaluated inside Coq with vm_compute; property-level oracle on the real code searches for the failing input'}],
    'checks': checks,
    'not_applicable': na,
    'notes': 'KNOWN_FINDINGS.json lists recorded findings and fixed defects; replays/ holds the replay files written by failing runs.',
}
json.dump(man, open(os.path.join(VERIF, 'MANIFEST.json'), 'w'), indent=1)
print('claimed', [c['property_id'] for c in checks], 'na', [x['property_id'] for x in na])
