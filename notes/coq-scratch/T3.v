From Coq Require Import ZArith List PrimFloat Uint63.
Import ListNotations.
Open Scope float_scope.
Definition xs : list float := [0x1.8p+1; 0x0p+0; -0x1.4p+2; 0x1.999999999999ap-4].
Eval vm_compute in map (fun x => PrimFloat.div x 0x1.8p+1) xs.
Eval vm_compute in map (fun x => snd (PrimFloat.frshiftexp x)) xs.
Eval vm_compute in map (fun x => Uint63.to_Z (fst (PrimFloat.frshiftexp x)) ) [].
Eval vm_compute in (PrimFloat.is_nan (0x0p+0 / 0x0p+0), 0x1p+0 / 0x0p+0).
Require Import Extraction ExtrOcamlBasic.
Definition f (z:Z) : Z := (z * 3 + 1)%Z.
Extraction "/tmp/coqt/ext.ml" f.
