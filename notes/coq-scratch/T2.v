From Coq Require Import ZArith NArith List Bool Lia.
Open Scope Z_scope.
Definition is_leap (y:Z) : bool := ((y mod 4 =? 0) && negb (y mod 100 =? 0)) || (y mod 400 =? 0).
Definition dim (y m:Z) : Z :=
  if m =? 2 then (if is_leap y then 29 else 28)
  else if (m =? 4) || (m =? 6) || (m =? 9) || (m =? 11) then 30 else 31.
Definition days_before_year (y:Z) : Z := let y1 := y - 1 in y1*365 + y1/4 - y1/100 + y1/400.
Fixpoint dbm (y:Z) (m:nat) : Z := match m with O => 0 | S k => dbm y k + dim y (Z.of_nat (S k)) end.
Definition ord (y m d:Z) : Z := days_before_year y + dbm y (Z.to_nat (m-1)) + d.
Definition ord2ymd (n0:Z) : Z*Z*Z :=
  let n := n0 - 1 in
  let n400 := n / 146097 in let n := n mod 146097 in
  let year := n400*400 + 1 in
  let n100 := n / 36524 in let n := n mod 36524 in
  let n4 := n / 1461 in let n := n mod 1461 in
  let n1 := n / 365 in let n := n mod 365 in
  let year := year + n100*100 + n4*4 + n1 in
  if (n1 =? 4) || (n100 =? 4) then (year-1, 12, 31) else
  let month := (n + 50) / 32 in
  let preceding := dbm year (Z.to_nat (month-1)) in
  if n <? preceding then
     let month := month - 1 in
     let preceding := dbm year (Z.to_nat (month-1)) in
     (year, month, n - preceding + 1)
  else (year, month, n - preceding + 1).
Definition chk (n:Z) : bool := let '(y,m,d) := ord2ymd n in (ord y m d =? n) && (1 <=? m) && (m <=? 12) && (1 <=? d) && (d <=? dim y m).
Definition all_range (f: Z -> bool) (lo: Z) (n: N) : bool :=
  snd (N.iter n (fun '(i, acc) => (i + 1, acc && f i)) (lo, true)).
Time Eval vm_compute in all_range chk 693596 146097.
Lemma all_ok : all_range chk 693596 146097 = true.
Proof. vm_compute. reflexivity. Qed.
Print Assumptions all_ok.
