From Coq Require Import ZArith NArith List Bool Lia ZifyBool.
Open Scope Z_scope.
Ltac Zify.zify_post_hook ::= Z.to_euclidean_division_equations.

(* 1. lifting lemma for exhaustive sweeps *)
Definition step (f: Z -> bool) (p : Z * bool) : Z * bool := let '(i, acc) := p in (i + 1, acc && f i).
Definition all_range (f: Z -> bool) (lo: Z) (n: N) : bool := snd (N.iter n (step f) (lo, true)).

Lemma iter_fst f lo n : fst (N.iter n (step f) (lo, true)) = lo + Z.of_N n.
Proof.
  induction n using N.peano_ind.
  - simpl. lia.
  - rewrite N.iter_succ. destruct (N.iter n (step f) (lo, true)) as [i acc] eqn:E.
    simpl in *. lia.
Qed.

Lemma all_range_spec f lo n :
  all_range f lo n = true -> forall i, lo <= i < lo + Z.of_N n -> f i = true.
Proof.
  unfold all_range. induction n using N.peano_ind; intros H i Hi.
  - lia.
  - rewrite N.iter_succ in H.
    pose proof (iter_fst f lo n) as Hf.
    destruct (N.iter n (step f) (lo, true)) as [j acc] eqn:E. simpl in *.
    apply andb_true_iff in H. destruct H as [Hacc Hfj]. subst j.
    destruct (Z.eq_dec i (lo + Z.of_N n)) as [->|Hne]; [exact Hfj|].
    apply IHn; [exact Hacc | lia].
Qed.

(* 3. C09 business-day closed form vs one-step iteration *)
Definition weekday (t:Z) : Z := (t + 6) mod 7.
Definition bump_b (t n : Z) : Z :=
  let wday := weekday t in
  let t := if 4 <? wday then t + (7 - wday) else t in
  let wday := if 4 <? wday then 0 else wday in
  let w := n / 5 in
  let d := n - w * 5 in
  let t := t + 7 * w in
  let d := if 4 <? wday + d then d + 2 else d in
  t + d.
Definition next_wd (t:Z) : Z := if weekday t =? 4 then t + 3 else t + 1.

Lemma bump_succ t n : weekday t <= 4 -> bump_b t (n + 1) = next_wd (bump_b t n).
Proof.
  unfold bump_b, next_wd, weekday. intros H.
  destruct (4 <? (t + 6) mod 7) eqn:E1; [lia|].
  destruct (4 <? (t + 6) mod 7 + (n + 1 - (n + 1) / 5 * 5)) eqn:E2;
  destruct (4 <? (t + 6) mod 7 + (n - n / 5 * 5)) eqn:E3;
  match goal with |- context [if ?c then _ else _] => destruct c eqn:E4 end; lia.
Qed.

Lemma bump_zero t : weekday t <= 4 -> bump_b t 0 = t.
Proof. unfold bump_b, weekday. intros H. destruct (4 <? (t + 6) mod 7) eqn:E1; [lia|].
  simpl. destruct (4 <? (t + 6) mod 7 + 0) eqn:E2; lia. Qed.

Lemma bump_weekday t n : weekday (bump_b t n) <= 4.
Proof.
  unfold bump_b, weekday.
  destruct (4 <? (t + 6) mod 7) eqn:E1;
  match goal with |- context [if ?c then _ else _] => destruct c eqn:E2 end; lia.
Qed.
Print Assumptions bump_succ.
