import sys, itertools, random
sys.path.insert(0,'/repo/src')
from pyg_base import *
from pyg_base._dates import dt2str
import numpy as np, pandas as pd, datetime
D = datetime.datetime
def T(f,*a,**k):
    try: return f(*a,**k)
    except Exception as e: return 'EXC %s %s'%(type(e).__name__, str(e)[:50])
for s in ['01-02-2002','13-02-2002','02-13-2002','1-2-2002','5.6.2002','05.06.2002','13.06.2002','06.13.2002','5 6 2002','05 06 2002','13 06 2002','06 13 2002', '05/06/2002', '13/06/2002','06/13/2002','5/13/2002','13/5/2002', '05-06-02', '13-06-02','06-13-02', '01-01-1900', '31-12-2299', '29-02-2000','02-29-2000', '2002-03-01','20020301','2002-03-01T10:20:30.000040','01 March 2002','March 01 2002','1 Mar 2002', 'Mar 1 2002 10:20:30', '2002-03', '2002 Mar', '2002/3']:
    print(repr(s), 'uk:', T(dt,s), '| us:', T(dt,s,dialect='us'))
t = D(2002,3,1,10,20,30,40)
print(dt2str(t), dt(dt2str(t)), dt2str(D(2002,3,1)), dt(dt2str(D(2002,3,1))))
print(dt(20020301), dt(t.toordinal()), dt(D(2002,3,1).toordinal()), dt(np.datetime64(t)), dt(pd.Timestamp(t)), type(dt(pd.Timestamp(t))), dt(t.date()))
print(dt(2002,3,1,10,20,30), dt(2002,3), dt(2002), dt(2002,0,1), dt(2002,13,1), dt(2002,3,0), dt(2002,3,-1), dt(2002,3,32), dt(2002,-36,400), dt(2002,48,-400))
print(dt(19000101), dt(22991231), dt(D(1900,1,1).toordinal()), dt(D(2299,12,31).toordinal()), D(1900,1,1).toordinal(), D(2299,12,31).toordinal())
print(ymd(t), ymd(2002,3,1,10))
# _ymd swap heuristic
print(T(dt, 1, 3, 2002), T(dt,31,12,1999))
# dt_bump month resets time
print(dt_bump(t,'1m'), dt_bump(t,'1d'), dt_bump(t,'1b'), dt_bump(t, '1y-3m2d'))
print(dt_bump(D(2020,1,31),'1m'), dt_bump(D(2020,1,31),'-1m'), dt_bump(D(2021,1,31),'1m'), dt_bump(D(2020,2,29),'1y'), dt_bump(D(2020,2,29),'-1y'))
# b bumps
for wd in range(7):
    t0 = D(2020,1,6)+datetime.timedelta(wd)
    print(t0.strftime('%a'), [ (n, dt_bump(t0,'%ib'%n).strftime('%a %d')) for n in (-6,-5,-4,-1,0,1,4,5,6)])
