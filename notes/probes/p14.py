from dateutil import parser
bad=0; tot=0
for sep in '-/. ':
  for pad in (True, False):
    for a in range(1,32):
      for b in range(1,32):
        s = (('%02d%s%02d%s2002' if pad else '%d%s%d%s2002')%(a,sep,b,sep))
        try: r = parser.parse(s); got=(r.month,r.day)
        except Exception as e: got='ERR'
        # hypothesis: a<=12 -> month=a,day=b (if b valid for month a); a>12 and b<=12 -> day=a, month=b; else ERR
        import calendar
        if a<=12 and b<=calendar.monthrange(2002,a)[1]: exp=(a,b)
        elif a>12 and b<=12 and a<=calendar.monthrange(2002,b)[1]: exp=(b,a)
        elif a<=12 and b<=12: exp='?'
        else: exp='ERR'
        tot+=1
        if got!=exp:
            bad+=1
            if bad<15: print(repr(s), got, exp)
print(tot,bad)
