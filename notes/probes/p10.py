import sys, itertools, random, time, warnings
warnings.filterwarnings('ignore')
sys.path.insert(0,'/repo/src')
from pyg_base import *
from pyg_base._pandas import df_sync, df_index, df_sum, df_mean, df_count, sub_, div_, add_, mul_, pow_, min_, max_
import numpy as np, pandas as pd, datetime
D = datetime.datetime; DAY = datetime.timedelta(1)
nan = np.nan
def T(f,*a,**k):
    try: return f(*a,**k)
    except Exception as e: return 'EXC %s %s'%(type(e).__name__, str(e)[:100])
random.seed(13)
def rs(maxn=6, vals=(nan,0.,1.,2.,-3.)):
    n = random.randint(0,maxn)
    days = sorted(random.sample(range(0,10), n))
    return pd.Series([random.choice(vals) for _ in days], [D(2020,1,1)+DAY*i for i in days], dtype=float)
def eqv(x,y): return (x==y) or (x!=x and y!=y)
bad=0
# C03 df_sync on lists of series
for trial in range(1500):
    k = random.randint(1,4)
    tss = [rs() for _ in range(k)]
    objs = list(tss); 
    if random.random()<0.5: objs.insert(random.randint(0,k), random.choice(['str', 5, None]))
    for join in ['ij','oj','lj','rj']:
        for method in [None,'ffill','bfill']:
            r = T(df_sync, objs, join, method)
            idxs = [set(t.index) for t in tss]
            if join=='ij': I = sorted(set.intersection(*idxs))
            elif join=='oj': I = sorted(set.union(*idxs))
            elif join=='lj': I = list(tss[0].index)
            else: I = list(tss[-1].index)
            if isinstance(r,str): bad+=1; print('EXC', join, method, r); continue
            j=0
            for o, res in zip(objs, r):
                if not isinstance(o, pd.Series):
                    if res is not o: bad+=1; print('passthrough changed')
                    continue
                if list(res.index)!=I: bad+=1; print('index', join, method, [list(t.index.day) for t in tss], list(res.index.day), [t.day for t in I]); break
                for t in I:
                    if method is None:
                        e = o[t] if t in o.index else nan
                    else:
                        oo = o.dropna()
                        if method=='ffill':
                            c = oo[oo.index<=t]; e = c.iloc[-1] if len(c) else nan
                        else:
                            c = oo[oo.index>=t]; e = c.iloc[0] if len(c) else nan
                    if not eqv(res[t], e):
                        bad+=1
                        if bad<10: print('value', join, method, dict(zip(o.index.day,o.values)), t.day, res[t], e)
print('bad sync', bad)
bad = 0
import operator
for trial in range(1500):
    a, b = rs(), rs()
    for name, f, op in [('add',add_,operator.add),('sub',sub_,operator.sub),('mul',mul_,operator.mul),('div',div_,lambda x,y: nan if y==0 else x/y)]:
        for join in ['ij','oj']:
            r = T(f, a, b, join)
            I = sorted(set(a.index)&set(b.index)) if join=='ij' else sorted(set(a.index)|set(b.index))
            if isinstance(r,str): bad+=1; print(name, join, 'EXC', r, len(a), len(b)); continue
            if list(r.index)!=I: bad+=1; print(name,'index'); continue
            for t in I:
                x = a[t] if t in a.index else nan; y = b[t] if t in b.index else nan
                e = op(x,y)
                if not eqv(r[t], e): bad+=1; print(name, join, x, y, r[t], e)
        # scalar
    for name, f, op in [('add',add_,operator.add),('sub',sub_,operator.sub),('mul',mul_,operator.mul),('div',div_,lambda x,y: nan if y==0 else x/y)]:
        for sc in [0, 2.0]:
            r = T(f, a, sc); r2 = T(f, sc, a)
            for rr, lhs in [(r,True),(r2,False)]:
                if isinstance(rr,(str,float)) or not hasattr(rr,'index'): bad+=1; print(name,'scalar EXC/float', repr(rr)[:60], lhs, sc, len(a)); continue
                if list(rr.index)!=list(a.index): bad+=1; print('scalar idx'); continue
                for t in a.index:
                    e = op(a[t],sc) if lhs else op(sc,a[t])
                    if not eqv(rr[t], e):
                        bad+=1
                        if bad<20: print(name,'scalar', lhs, a[t], sc, rr[t], e)
print('bad ops', bad)
