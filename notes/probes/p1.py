import signal, sys
sys.path.insert(0,'/repo/src')
from pyg_base import *
import numpy as np, pandas as pd, datetime
from pyg_base._sort import cmp, sort
def alarm(sig,frm): raise TimeoutError('timeout')
signal.signal(signal.SIGALRM, alarm)

# C02 NaN join spin
x = dictable(a=[float('nan'),1], b=[1,2]); y = dictable(a=[float('nan'),1], c=[3,4])
signal.alarm(3)
try:
    print('join nan distinct:', dict(x.join(y,'a')))
except Exception as e: print('join nan distinct EXC', type(e), e)
signal.alarm(0)
x = dictable(a=[np.nan,1], b=[1,2]); y = dictable(a=[np.nan,1], c=[3,4])
signal.alarm(3)
try:
    print('join nan shared:', dict(x.join(y,'a')))
except Exception as e: print('EXC', type(e), e)
signal.alarm(0)
signal.alarm(3)
try:
    x = dictable(a=[float('nan'),1], b=[1,2]); y = dictable(a=[float('nan'),1], c=[3,4])
    print('xor nan distinct:', dict(x.xor(y,'a')))
except Exception as e: print('xor EXC', type(e), e)
signal.alarm(0)
# int/float keys
x = dictable(a=[1,2.0,None,'s'], b=[1,2,3,4]); y = dictable(a=[1.0,2,None,'s', 's'], c=[3,4,5,6,7])
print(dict(x.join(y,'a')))
print(dict(x.xor(y,'a')))
# C19 loop depth 2 with positional companion
f = loop(list,tuple,dict)(lambda a,b: (a,b))
try: print(f([[1,2],[3,4]], 10))
except Exception as e: print('loop EXC', type(e), e)
try: print(f([[1,2],[3,4]], b=10))
except Exception as e: print('loop EXC', type(e), e)
try: print(f([1,2], [10,20]))
except Exception as e: print('loop EXC', type(e), e)
# C15 tree_update aliasing
t = dict(a=dict(b=1,c=2), d=3); u = dict(a=dict(b=5), e=dict(f=1))
import copy
t0 = copy.deepcopy(t); u0=copy.deepcopy(u)
r = tree_update(t,u)
print('tree_update', r, 't unchanged', t==t0, 'u unchanged', u==u0, t)
d = Dict(a=Dict(b=1)); r = d + dict(a=dict(c=2)); print(d, r)
