import sys, itertools, random, time
sys.path.insert(0,'/repo/src')
from pyg_base import *
from pyg_base._bitemporal import Bi, bi_merge, bi_read
import numpy as np, pandas as pd, datetime
D = datetime.datetime; DAY = datetime.timedelta(1)
nan = np.nan
def T(f,*a,**k):
    try: return f(*a,**k)
    except Exception as e: return 'EXC %s %s'%(type(e).__name__, str(e)[:80])
random.seed(5)
dates = [D(2020,1,1)+DAY*i for i in range(6)]
stamps = [D(2021,1,1)+DAY*i for i in range(5)]
def oracle(history, T_, what=-1):
    # history: list of (stamp, {date: value}) merged in order; returns dict date->value
    res = {}
    for d in dates:
        pubs = [(s, v[d]) for s, v in history if d in v and s <= T_]
        if not pubs: continue
        if what == -1:
            # latest value by stamp; of several sharing a stamp the one merged last; NaN never overrides an earlier value
            cur = None; have=False
            for s, x in pubs:
                if not have: cur = x; have = True
                elif not (x != x): cur = x
            res[d] = cur
        else:
            s0 = pubs[0][0]
            same = [x for s,x in pubs if s == s0]
            cur = same[0]
            for x in same[1:]:
                if not (x!=x): cur = x
            res[d] = cur
    return res
bad = 0
for trial in range(400):
    nv = random.randint(1,5)
    ss = sorted(random.choice(stamps) for _ in range(nv))
    history = []
    store = None
    for s in ss:
        ds = [d for d in dates if random.random()<0.6]
        if not ds: ds = [dates[0]]
        v = {d: random.choice([1.,2.,3.,nan]) for d in ds}
        history.append((s,v))
        b = Bi(pd.Series(v, dtype=float), s)
        store = bi_merge(store, b)
    for T_ in [D(2020,12,31)] + stamps + [D(2021,1,1,12), D(2022,1,1)]:
        for what in (-1,0):
            r = T(bi_read, store, T_, what)
            exp = oracle(history, T_, what)
            if isinstance(r, str):
                got = r
            else:
                got = dict(r) if len(r) else {}
            ok = (not isinstance(got,str)) and set(got)==set(exp) and all((got[k]==exp[k]) or (got[k]!=got[k] and exp[k]!=exp[k]) for k in exp)
            if not ok:
                bad += 1
                if bad < 6:
                    print('MISMATCH what', what, 'T', T_); print(' history', [(s.day, {d.day:x for d,x in v.items()}) for s,v in history]); print(' got', {k.day if hasattr(k,'day') else k:v for k,v in got.items()} if not isinstance(got,str) else got); print(' exp', {k.day:v for k,v in exp.items()})
print('bad', bad)
