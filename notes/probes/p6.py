import sys, itertools, random, time
sys.path.insert(0,'/repo/src')
from pyg_base import *
from pyg_base._drange import Calendar
import numpy as np, pandas as pd, datetime
D = datetime.datetime; DAY = datetime.timedelta(1)
def T(f,*a,**k):
    try: return f(*a,**k)
    except Exception as e: return 'EXC %s %s'%(type(e).__name__, str(e)[:60])
random.seed(3)
t0 = D(2020,1,1); t1 = D(2020,12,31)
days = [t0 + DAY*i for i in range(366)]
bad = 0
t_start = time.time()
for trial in range(40):
    dens = random.choice([0.0,0.05,0.2,0.5])
    hol = [d for d in days if random.random()<dens]
    wk = random.choice([[5,6],[4,5],[6],[]])
    adj = random.choice('fpm')
    cal = Calendar('k%i'%trial, holidays = hol, weekend = wk, t0 = t0, t1 = t1, adj = adj)
    isb = lambda d: d.weekday() not in wk and d not in hol
    bds = [d for d in days if isb(d)]
    for t in days[40:-40:7]:
        # oracle
        def adjf(t):
            while not isb(t): t += DAY
            return t
        def adjp(t):
            while not isb(t): t -= DAY
            return t
        def adjm(t):
            f = adjf(t)
            return f if f.month == t.month else adjp(t)
        A = dict(f=adjf,p=adjp,m=adjm)
        for a in 'fpm':
            r = T(cal.adjust, t, a)
            if r != A[a](t): bad+=1; print('adjust', wk, a, t, r, A[a](t))
        base = A[adj](t)
        i = bds.index(base)
        for n in range(-12,13):
            r = T(cal.add, t, n)
            exp = bds[i+n]
            if r != exp:
                bad+=1
                if bad<15: print('add', wk, adj, t, n, r, exp)
        r = T(cal.bdays, t, cal.add(t, 5))
        if r != 5: bad += 1; print('bdays', r)
print('bad', bad, time.time()-t_start)
cal = Calendar('x', holidays=[D(2020,1,1), D(2020,1,31)], t0=t0, t1=t1)
print(cal.drange(D(2020,1,1), D(2020,1,12), '1b'))
print(cal.drange(D(2020,1,25), D(2020,2,2), '1b'), cal.adjust(D(2020,2,2)), cal.adjust(D(2020,2,1)))
print(T(cal.drange, D(2020,1,12), D(2020,1,1), '-1b'))
c1 = calendar('reg', [D(2020,1,2)], t0=t0, t1=t1); print(calendar('reg').is_bday(D(2020,1,2)))
c2 = calendar('reg', [D(2020,1,3)], t0=t0, t1=t1); print(calendar('reg').is_bday(D(2020,1,2)), calendar('reg').is_bday(D(2020,1,3)))
# populated then holidays changed?
c = calendar('reg2', [D(2020,1,2)], t0=t0, t1=t1); c.add(D(2020,1,1), 3); c2 = calendar('reg2', [D(2020,1,3)], t0=t0, t1=t1); print(c2.add(D(2020,1,1),3), c2.add(c2.add(c2.add(D(2020,1,1),1),1),1))
# intraday t for add
print(cal.add(D(2020,1,6,10), 1), T(cal.add, D(2020,1,6,10), 2), cal.adjust(D(2020,1,4,10)))
