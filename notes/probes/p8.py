import sys, itertools, random, time, warnings
warnings.filterwarnings('ignore')
sys.path.insert(0,'/repo/src')
from pyg_base import *
import numpy as np, pandas as pd, datetime
D = datetime.datetime; DAY = datetime.timedelta(1)
nan = np.nan
def T(f,*a,**k):
    try: return f(*a,**k)
    except Exception as e: return 'EXC %s %s'%(type(e).__name__, str(e)[:80])
def same(a,b):
    a = list(a); b = list(b)
    return len(a)==len(b) and all((x==y) or (x!=x and y!=y) for x,y in zip(a,b))
def ffill(v, limit=None):
    out=[]; last=nan; run=0
    for x in v:
        if x==x: last=x; run=0; out.append(x)
        else:
            run+=1
            out.append(last if (limit is None or run<=limit) else nan)
    return out
def bfill(v, limit=None): return ffill(v[::-1], limit)[::-1]
random.seed(7)
bad=0
for trial in range(2000):
    n = random.randint(0,8)
    v = [random.choice([nan,nan,1.,2.,0.]) for _ in range(n)]
    idx = [D(2020,1,1)+DAY*i for i in range(n)]
    s = pd.Series(v, idx, dtype=float); a = np.array(v, dtype=float)
    limit = random.choice([None,1,2])
    for m, orc in [('ffill', lambda: ffill(v,limit)), ('bfill', lambda: bfill(v,limit)), (0.5, lambda: [0.5 if x!=x else x for x in v] if limit is None else None), (['ffill','bfill'], lambda: bfill(ffill(v,limit),limit)),
                   ('nona', lambda: [x for x in v if x==x]), ('fnna', lambda: v[min([i for i,x in enumerate(v) if x==x], default=len(v)):]),
                   ('ffill_na', None), ('ffill_0', None)]:
        if m in ('ffill_na','ffill_0'):
            lv = max([i for i,x in enumerate(v) if x==x], default=None)
            if lv is None: exp = v
            else: exp = ffill(v,limit)[:lv+1] + [nan if m=='ffill_na' else 0.]*(n-lv-1)
        else:
            exp = orc()
        if exp is None: continue
        s0 = s.copy(); a0 = a.copy()
        rs = T(df_fillna, s, m, limit=limit); ra = T(df_fillna, a, m, limit=limit)
        ok = not isinstance(rs,str) and not isinstance(ra,str) and same(rs.values, exp) and same(ra, exp) and same(s.values, s0.values) and same(a,a0)
        if not ok:
            bad+=1
            if bad<12: print('fillna', m, limit, v, '->', rs if isinstance(rs,str) else list(rs.values), ra if isinstance(ra,str) else list(ra), 'exp', exp)
print('bad fillna', bad)
