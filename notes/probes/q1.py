import sys, itertools, random, time, warnings, copy
warnings.filterwarnings('ignore')
sys.path.insert(0,'/repo/src')
from pyg_base import *
from pyg_base._pandas import df_sync, df_sum, df_mean, df_count, sub_, div_, add_, mul_, pow_, min_, max_, df_slice, df_unslice
import numpy as np, pandas as pd, datetime
D = datetime.datetime; DAY = datetime.timedelta(1); nan=np.nan
def T(f,*a,**k):
    try: return f(*a,**k)
    except Exception as e: return 'EXC %s %s'%(type(e).__name__, str(e)[:120])
idx = [D(2020,1,1)+DAY*i for i in range(3)]
a = pd.DataFrame(dict(a=[1.,2,3], b=[4.,5,6]), idx)
b = pd.DataFrame(dict(c=[10.,20,30], b=[7.,8,nan]), idx[1:]+[D(2020,1,5)])
for name,f in [('add',add_),('sub',sub_),('mul',mul_),('div',div_)]:
    for cols in ['ij','oj']:
        for join in ['ij','oj']:
            r = T(f,a,b,join=join,columns=cols)
            print(name, join, cols, '\n', r)
s = pd.Series([1.,nan,3.], idx); s2 = pd.Series([nan,nan,5.,7.], idx+[D(2020,1,9)])
print('sum', T(df_sum,[s,s2]).to_dict(), 'mean', T(df_mean,[s,s2]).to_dict(), 'count', T(df_count,[s,s2]).to_dict())
print('sum3 frames\n', T(df_sum,[a,b]), '\n', T(df_count,[a,b]), '\n', T(df_mean,[a,b]))
print('list reduce', T(add_, [s,s2,s]).to_dict(), T(sub_, s, [s2, s]).to_dict())
print('scalar both', T(add_, 1, 2), T(div_, 1, 0), T(div_, s, s2).to_dict())
print('series+frame\n', T(add_, s, a))
print('min/max', T(min_, s, s2).to_dict(), T(max_, [s, s2, 2.0]).to_dict())
print('pow', T(pow_, s, 2).to_dict(), T(pow_, s, s2).to_dict())
