import sys, itertools, random
sys.path.insert(0,'/repo/src')
from pyg_base import *
import numpy as np, pandas as pd, datetime
D = datetime.datetime
t0 = D(2020,1,15); t1 = D(2020,3,20)
for bump in ['1d','-1d','1w','-1w','1m','-1m','1q','-1q','1y','-1y','1h','-1h','1b','-1b','2b','-2b','3b', '1m1d', '-1m-1d', '1w1d', '-1w-1d', 7, -7, datetime.timedelta(7), datetime.timedelta(-7)]:
    for a,b in [(t0,t1),(t1,t0)]:
        if bump in ('1h','-1h'): b = a + datetime.timedelta(hours=5) * (1 if a==t0 else -1)
        try:
            r = drange(a,b,bump)
            print(repr(bump), a.date(), b.date(), len(r), r[:2], r[-1:] )
        except Exception as e:
            print(repr(bump), a.date(), b.date(), 'EXC', type(e).__name__, str(e)[:70])
print(drange(t0,t0,'1b'), drange(D(2020,1,18), D(2020,1,18), '1b'))
print(drange(D(2020,1,18), D(2020,1,25), '1b'))
print(drange(D(2020,1,17), D(2020,1,31), '2b'))
print(drange(D(2020,1,31), D(2020,1,17), '-2b'))
print(drange(D(2020,1,31), D(2020,6,30), '1m'))
print(drange(D(2020,1,31,10), D(2020,2,3,9), '1d'))
print(drange(D(2020,1,31,10), D(2020,2,3,9), 1))
print(drange(D(2020,1,31,10), D(2020,2,3,11), 1))
