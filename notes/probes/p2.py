import sys, itertools
sys.path.insert(0,'/repo/src')
from pyg_base import *
import numpy as np, pandas as pd, datetime
from pyg_base._sort import cmp, sort, Cmp
# C14 eq symmetry
U = [None, 1, 1.0, True, 'a', float('nan'), np.float64('nan'), np.int64(1), np.float64(1.0), [1], (1,), [], (), {}, dict(a=1), Dict(a=1), np.array([1]), np.array([1.0]), np.array([]), np.array([[1]]), pd.Series([1]), pd.Series([1.0]), pd.DataFrame([1]), datetime.datetime(2000,1,1), pd.Timestamp(2000,1,1), np.datetime64('2000-01-01'), [float('nan')], np.array([np.nan]), [1,2], np.array([1,2]), 0, False, '', np.array(1)]
bad = []
for i,x in enumerate(U):
    for j,y in enumerate(U):
        try:
            a = eq(x,y)
        except Exception as e:
            a = 'EXC %s'%type(e).__name__
        try:
            b = eq(y,x)
        except Exception as e:
            b = 'EXC %s'%type(e).__name__
        if i<j and (a is not b) and not (a==b and type(a)==type(b)):
            bad.append((i,j,repr(x),repr(y),a,b))
        if not isinstance(a,(bool,)) and i<=j:
            print('nonbool', repr(x), repr(y), repr(a), type(a))
for b in bad: print('ASYM', b)
