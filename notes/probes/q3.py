import sys, warnings, asyncio, itertools
warnings.filterwarnings('ignore')
sys.path.insert(0,'/repo/src')
from pyg_base import *
from pyg_base._cache import cache
from pyg_base._waiter import waiter
def T(f,*a,**k):
    try: return f(*a,**k)
    except Exception as e: return 'EXC %s %s'%(type(e).__name__, str(e)[:120])
calls=[]
@cache
def g(a): calls.append(a); return (type(a).__name__, a)
print(g([1]), g((1,)), g(1), g(1.0), g(True), len(calls))
f = loop(list,tuple,dict)(lambda a,b=0: (a,b))
print(T(f,[1,2],[10,20,30]), T(f,[1,2],b=[10,20,30]), T(f,dict(x=1,y=2), dict(x=10,y=20)), T(f,dict(x=1,y=2), dict(x=10,z=20)), T(f,(1,[2,3]), b=(10,[20,30])), T(f,(1,[2,3]), b=(10,20)))
print(T(lambda: list(zipper([1,2,3],[4],5))), T(lambda: list(zipper([1,2,3],[4,5]))), T(lambda: list(zipper([1],[4,5]))), T(lambda: list(zipper([], [1]))), T(lambda: list(zipper([], [1,2]))))
async def main():
    res = []
    for perm in itertools.permutations(range(4)):
        loop_ = asyncio.get_running_loop()
        futs = [loop_.create_future() for _ in range(4)]
        struct = [futs[0], dict(a=futs[1], b=(futs[2], 5)), [[futs[3]]], 'x']
        task = asyncio.ensure_future(waiter(struct))
        for i in perm:
            await asyncio.sleep(0)
            futs[i].set_result(i*10)
        res.append(await task)
    print(len(res), all(r == res[0] for r in res), res[0])
asyncio.run(main())
